"""Shared machinery of the checks: scratch copy, build steps, worker pools, canonical forms, evidence."""
import atexit
import fcntl
import hashlib
import json
import hashlib
import os
import random
import shutil
import subprocess
import sys
import tempfile
import threading
import time
from concurrent.futures import ThreadPoolExecutor

VERIF = os.path.dirname(os.path.dirname(os.path.abspath(__file__)))
REPO = os.environ.get("VERIF_REPO", "/repo")
COQ = os.path.join(VERIF, "coq")
OCAML = os.path.join(VERIF, "ocaml")
PY = "/venv/bin/python"
NCPU = min(16, os.cpu_count() or 4)
TMPBASE = os.environ.get("VERIF_TMP", "/tmp")

GUARD_PATTERNS = ["Admitted", "admit.", "Axiom ", "Parameter ", "Conjecture ", "Unset Guard", "bypass_check",
                  "type-in-type", "Admit Obligations", "impredicative-set"]


def log(*a):
    sys.stderr.write(" ".join(str(x) for x in a) + "\n")
    sys.stderr.flush()


# --------------------------------------------------------------------------------------------------
# scratch copy of the implementation
# --------------------------------------------------------------------------------------------------
class Scratch:
    def __init__(self):
        self.root = tempfile.mkdtemp(prefix="sdp_scratch_", dir=TMPBASE)
        atexit.register(self.cleanup)
        shutil.copytree(os.path.join(REPO, "simple_ddl_parser"), os.path.join(self.root, "simple_ddl_parser"),
                        ignore=shutil.ignore_patterns("__pycache__", "parser.out"))
        if os.path.isdir(os.path.join(REPO, "tests")):
            shutil.copytree(os.path.join(REPO, "tests"), os.path.join(self.root, "tests"),
                            ignore=shutil.ignore_patterns("__pycache__"))

    def env(self, seed=0):
        e = dict(os.environ)
        e["PYTHONPATH"] = self.root
        e["PYTHONHASHSEED"] = str(seed)
        e["PYTHONDONTWRITEBYTECODE"] = "1"
        e["VERIF_IMPL_ROOT"] = self.root
        return e

    def cleanup(self):
        shutil.rmtree(self.root, ignore_errors=True)


# --------------------------------------------------------------------------------------------------
# build: translator, coq, extraction
# --------------------------------------------------------------------------------------------------
class BuildLock:
    def __enter__(self):
        self.f = open(os.path.join(VERIF, ".build.lock"), "w")
        fcntl.flock(self.f, fcntl.LOCK_EX)
        return self

    def __exit__(self, *a):
        fcntl.flock(self.f, fcntl.LOCK_UN)
        self.f.close()


def run_cmd(cmd, cwd=None, timeout=1800, env=None):
    t0 = time.time()
    try:
        r = subprocess.run(cmd, cwd=cwd, stdout=subprocess.PIPE, stderr=subprocess.STDOUT, timeout=timeout, env=env)
        return r.returncode, r.stdout.decode(errors="replace"), time.time() - t0
    except subprocess.TimeoutExpired as e:
        return 124, (e.stdout or b"").decode(errors="replace") + "\nTIMEOUT", time.time() - t0


def translate():
    """regenerate coq/Gen from /repo. returns (ok, meta/str)"""
    rc, out, dt = run_cmd([PY, os.path.join(VERIF, "gen", "translate.py"), "--repo", REPO,
                           "--out", os.path.join(COQ, "Gen"), "--json", os.path.join(COQ, "Gen", "dump.json")],
                          timeout=600)
    last = out.strip().splitlines()[-1] if out.strip() else ""
    if rc == 0:
        return True, json.loads(last)
    if rc == 3:
        try:
            meta = json.loads(last)
        except Exception:
            meta = {"raw": out[-2000:]}
        meta["seed_dependent"] = True
        return True, meta
    return False, out[-3000:]


def ensure_makefile():
    mk = os.path.join(COQ, "Makefile")
    cp = os.path.join(COQ, "_CoqProject")
    if not os.path.exists(mk) or os.path.getmtime(mk) < os.path.getmtime(cp):
        run_cmd(["coq_makefile", "-f", "_CoqProject", "-o", "Makefile"], cwd=COQ)
        try:
            os.remove(os.path.join(COQ, ".Makefile.d"))
        except OSError:
            pass


def make(targets, timeout=3000):
    """full .vo build of the given targets (never -vos). returns (ok, output, seconds)"""
    ensure_makefile()
    rc, out, dt = run_cmd(["make", "-j%d" % NCPU] + list(targets), cwd=COQ, timeout=timeout)
    return rc == 0, out, dt


def model_stamp():
    h = hashlib.sha256()
    for d in ("Base", "Gen", "Model", "Spec"):
        dd = os.path.join(COQ, d)
        if not os.path.isdir(dd):
            continue
        for fn in sorted(os.listdir(dd)):
            if fn.endswith(".v"):
                h.update(fn.encode())
                h.update(open(os.path.join(dd, fn), "rb").read())
    for fn in (os.path.join(COQ, "Extract.v"), os.path.join(OCAML, "driver.ml")):
        h.update(open(fn, "rb").read())
    return h.hexdigest()


def build_model():
    """Model/Main.vo -> extraction -> ocamlopt, skipped when nothing changed. returns (ok, msg)"""
    stamp = model_stamp()
    sf = os.path.join(OCAML, ".stamp")
    exe = os.path.join(OCAML, "model_driver")
    if os.path.exists(sf) and os.path.exists(exe) and open(sf).read() == stamp:
        return True, "cached"
    ok, out, dt = make(["Model/Main.vo"])
    if not ok:
        return False, "make Model/Main.vo failed:\n" + out[-3000:]
    gen = os.path.join(OCAML, "gen")
    os.makedirs(gen, exist_ok=True)
    rc, out, dt = run_cmd(["coqc", "-Q", COQ, "SDP", os.path.join(COQ, "Extract.v")], cwd=gen, timeout=1200)
    if rc != 0:
        return False, "extraction failed:\n" + out[-3000:]
    rc, out, dt = run_cmd(["ocamlfind", "ocamlopt", "-O3", "-w", "-a", "-I", "gen", "gen/model.mli", "gen/model.ml",
                           "driver.ml", "-o", "model_driver"], cwd=OCAML, timeout=1200)
    if rc != 0:
        return False, "ocamlopt failed:\n" + out[-3000:]
    with open(sf, "w") as f:
        f.write(stamp)
    return True, "rebuilt"


def grep_forbidden():
    """scan the hand-written development for anything that would void a proof"""
    hits = []
    for d in ("Base", "Model", "Spec", "Proofs", "Props"):
        dd = os.path.join(COQ, d)
        if not os.path.isdir(dd):
            continue
        for fn in sorted(os.listdir(dd)):
            if not fn.endswith(".v"):
                continue
            for i, line in enumerate(open(os.path.join(dd, fn)), 1):
                code = line.split("(*")[0]
                for pat in GUARD_PATTERNS:
                    if pat in code:
                        hits.append("%s/%s:%d: %s" % (d, fn, i, line.strip()))
    return hits


# --------------------------------------------------------------------------------------------------
# worker pools (JSON lines)
# --------------------------------------------------------------------------------------------------
class Proc:
    def __init__(self, argv, env=None, cwd=None):
        self.argv, self.env, self.cwd = argv, env, cwd
        self.start()

    def start(self):
        self.p = subprocess.Popen(self.argv, stdin=subprocess.PIPE, stdout=subprocess.PIPE, stderr=subprocess.DEVNULL,
                                  env=self.env, cwd=self.cwd, bufsize=-1)

    def ask(self, line):
        try:
            self.p.stdin.write(line.encode() + b"\n")
            self.p.stdin.flush()
            out = self.p.stdout.readline()
        except (BrokenPipeError, OSError):
            out = b""
        if not out:
            rc = self.p.poll()
            self.start()
            return json.dumps({"crashed": rc})
        return out.decode()

    def close(self):
        try:
            self.p.stdin.close()
            self.p.wait(timeout=5)
        except Exception:
            self.p.kill()


class Pool:
    """n identical line-oriented subprocesses; map() keeps order"""

    def __init__(self, argv, n=NCPU, env=None, cwd=None):
        self.procs = [Proc(argv, env, cwd) for _ in range(n)]
        self.free = list(self.procs)
        self.cv = threading.Condition()
        self.ex = ThreadPoolExecutor(n)
        atexit.register(self.close)

    def _one(self, line):
        with self.cv:
            while not self.free:
                self.cv.wait()
            pr = self.free.pop()
        try:
            return pr.ask(line)
        finally:
            with self.cv:
                self.free.append(pr)
                self.cv.notify()

    def map(self, lines):
        return list(self.ex.map(self._one, lines))

    def close(self):
        for p in self.procs:
            p.close()
        self.procs = []


class Impl:
    def __init__(self, scratch, n=NCPU, seed=0):
        self.pool = Pool([PY, os.path.join(VERIF, "harness", "impl_worker.py")], n, env=scratch.env(seed), cwd=scratch.root)

    def map(self, reqs):
        return [json.loads(x) for x in self.pool.map([json.dumps(r) for r in reqs])]

    def one(self, req):
        return self.map([req])[0]


def hexs(s):
    return s.encode("latin-1").hex()


class Model:
    def __init__(self, n=NCPU):
        self.pool = Pool([os.path.join(OCAML, "model_driver")], n)

    def map(self, cmds):
        """cmds: list of (cmd, [args...])"""
        lines = ["\t".join([c] + [hexs(a) for a in args]) for c, args in cmds]
        out = []
        for x in self.pool.map(lines):
            try:
                out.append(json.loads(x))
            except Exception:
                out.append({"garbled": x[:200]})
        return out

    def one(self, cmd, args):
        return self.map([(cmd, args)])[0]


# --------------------------------------------------------------------------------------------------
# canonical forms
# --------------------------------------------------------------------------------------------------
def canon_impl(v):
    """value as encoded by impl_worker.enc -> canonical comparable form"""
    if v is None:
        return ("none",)
    if v is True or v is False:
        return ("bool", v)
    if isinstance(v, str):
        return ("str", v)
    if isinstance(v, list):
        return ("list", tuple(canon_impl(x) for x in v))
    if isinstance(v, dict):
        if "__int__" in v:
            return ("int", int(v["__int__"]))
        if "__tuple__" in v:
            return ("tuple", tuple(canon_impl(x) for x in v["__tuple__"]))
        if "__dict__" in v:
            return ("dict", tuple(sorted((k, canon_impl(x)) for k, x in v["__dict__"].items())))
    raise ValueError("bad impl encoding %r" % (v,))


def canon_model(v):
    """JSON printed by the model (Json.json_of_pyval) -> the same canonical form"""
    if v is None:
        return ("none",)
    if v is True or v is False:
        return ("bool", v)
    if isinstance(v, int):
        return ("int", v)
    if isinstance(v, str):
        return ("str", v)
    if isinstance(v, list):
        return ("list", tuple(canon_model(x) for x in v))
    if isinstance(v, dict):
        if list(v.keys()) == ["__tuple__"]:
            return ("tuple", tuple(canon_model(x) for x in v["__tuple__"]))
        return ("dict", tuple(sorted((k, canon_model(x)) for k, x in v.items())))
    raise ValueError("bad model value %r" % (v,))


def py_of_impl(v):
    """impl encoding -> plain python value"""
    if isinstance(v, list):
        return [py_of_impl(x) for x in v]
    if isinstance(v, dict):
        if "__int__" in v:
            return int(v["__int__"])
        if "__tuple__" in v:
            return tuple(py_of_impl(x) for x in v["__tuple__"])
        if "__dict__" in v:
            return {k: py_of_impl(v["__dict__"][k]) for k in v["__order__"]}
    return v


def enc_py(v):
    """plain python value -> impl encoding (for sending parser outputs to the worker)"""
    if v is None or v is True or v is False or isinstance(v, str):
        return v
    if isinstance(v, int):
        return {"__int__": str(v)}
    if isinstance(v, list):
        return [enc_py(x) for x in v]
    if isinstance(v, tuple):
        return {"__tuple__": [enc_py(x) for x in v]}
    if isinstance(v, dict):
        return {"__dict__": {k: enc_py(x) for k, x in v.items()}, "__order__": list(v.keys())}
    raise ValueError("not a pyval: %r" % (v,))


def impl_outcome(ans):
    """worker answer -> ('ok', canon) | ('raise', name) | ('nonpyval', why) | ('crashed', rc)"""
    if "ok" in ans:
        return ("ok", ans["ok"])
    if "raise" in ans:
        return ("raise", ans["raise"])
    if "nonpyval" in ans:
        return ("nonpyval", ans["nonpyval"])
    return ("crashed", ans.get("crashed"))


def model_outcome(ans):
    if "ok" in ans:
        return ("ok", ans["ok"])
    if "raise" in ans:
        return ("raise", ans["raise"])
    if "unsupported" in ans:
        return ("unsupported", ans["unsupported"])
    if "outoffuel" in ans:
        return ("outoffuel", None)
    return ("garbled", ans)


# --------------------------------------------------------------------------------------------------
# results / evidence
# --------------------------------------------------------------------------------------------------
class Result:
    """what a property module hands back to bin/check"""

    def __init__(self, pid):
        self.pid = pid
        self.violations = []      # list of dict(replay-json)
        self.known = []           # lines for KNOWN-FINDING
        self.evaluations = 0
        self.nontrivial = set()
        self.samples = []
        self.distribution = {}
        self.notes = []
        self.partial = []
        self.corr = {}            # layer -> number of compared cases

    def count(self, key, n=1):
        self.distribution[key] = self.distribution.get(key, 0) + n

    def violation(self, kind, detail, **kw):
        d = {"property": self.pid, "kind": kind, "detail": detail}
        d.update(kw)
        self.violations.append(d)


def load_known():
    p = os.path.join(VERIF, "KNOWN_FINDINGS.json")
    if not os.path.exists(p):
        return {"known": [], "fixed": []}
    return json.load(open(p))


def rng_for(pid, seed):
    return random.Random("%s:%s" % (pid, seed))


def harvest_test_ddl(scratch):
    """DDL strings found as string constants in the repository's own tests"""
    import ast as _ast

    out = []
    seen = set()
    td = os.path.join(scratch.root, "tests")
    for dirpath, _, files in os.walk(td):
        for fn in sorted(files):
            if not fn.endswith(".py"):
                continue
            try:
                tree = _ast.parse(open(os.path.join(dirpath, fn)).read())
            except Exception:
                continue
            for n in _ast.walk(tree):
                if isinstance(n, _ast.Constant) and isinstance(n.value, str):
                    s = n.value
                    u = s.upper()
                    if ("CREATE" in u or "ALTER" in u) and len(s) > 15 and s not in seen:
                        seen.add(s)
                        out.append(s)
    for fn in sorted(os.listdir(os.path.join(td, "sql"))) if os.path.isdir(os.path.join(td, "sql")) else []:
        try:
            s = open(os.path.join(td, "sql", fn)).read()
            if s not in seen:
                seen.add(s)
                out.append(s)
        except Exception:
            pass
    return out


def flat_encode(v, out=None):
    """plain python value -> the prefix code read by Base/Codec.v"""
    top = out is None
    if out is None:
        out = []
    if v is None:
        out.append("N")
    elif v is True:
        out.append("T")
    elif v is False:
        out.append("F")
    elif isinstance(v, int):
        out += ["I", str(v)]
    elif isinstance(v, str):
        out += ["S", v]
    elif isinstance(v, (list, tuple)):
        out += ["L" if isinstance(v, list) else "U", str(len(v))]
        for x in v:
            flat_encode(x, out)
    elif isinstance(v, dict):
        out += ["D", str(len(v))]
        for k, x in v.items():
            if not isinstance(k, str):
                raise ValueError("non-str key")
            out.append(k)
            flat_encode(x, out)
    else:
        raise ValueError("not a pyval: %r" % (v,))
    return out


def same_outcome(io, mo):
    """implementation outcome vs model outcome (canonical comparison)"""
    if io[0] == "ok":
        return mo[0] == "ok" and canon_impl(io[1]) == canon_model(mo[1])
    if io[0] == "raise":
        return mo[0] == "raise" and mo[1] == io[1]
    return False


def corr_parse(ctx, res, stmts, norms=(False, True), label="D:parse"):
    """correspondence layer D: value returned by yacc.parse for a statement vs Model.parse_statement.
    Unsupported model answers are counted, never compared."""
    stmts = sorted(set(s for s in stmts if s))
    for norm in norms:
        I = ctx.impl.map([{"op": "trace", "s": s, "ctor": {"normalize_names": norm}} for s in stmts])
        M = ctx.model.map([("parse", ["1" if norm else "0", "1", s]) for s in stmts])
        for s, i, m in zip(stmts, I, M):
            mo = model_outcome(m)
            if mo[0] in ("unsupported", "outoffuel"):
                res.corr[label + ":" + mo[0]] = res.corr.get(label + ":" + mo[0], 0) + 1
                continue
            io = impl_outcome(i)
            if io[0] == "ok":
                iv = io[1]["result"]
                good = mo[0] == "ok" and (("value" in mo[1] and iv is not None and canon_impl(iv) == canon_model(mo[1]["value"]))
                                          or ("none" in mo[1] and iv is None))
            else:
                good = mo[0] == "raise" and mo[1] == io[1]
            res.corr[label] = res.corr.get(label, 0) + 1
            if not good:
                res.violation("correspondence", "Model.parse_statement and yacc.parse disagree on a statement", tie=True,
                              layer="correspondence D (actions)", stmt=s, norm=norm, oracle="corr_parse")


def corr_run(ctx, res, texts, label="F:run"):
    """correspondence layer F: DDLParser(text).run(group_by_type=True) vs Model Api.run (mode sql)"""
    texts = sorted(set(texts))
    I = ctx.impl.map([{"op": "run", "ddl": t, "run": {"group_by_type": True}} for t in texts])
    M = ctx.model.map([("run", ["0", "1", "sql", "1", "0", escaped(t)]) for t in texts])
    for t, i, m in zip(texts, I, M):
        mo = model_outcome(m)
        if mo[0] in ("unsupported", "outoffuel"):       # what the model does not cover / cannot finish is counted, never compared
            res.corr[label + ":" + mo[0]] = res.corr.get(label + ":" + mo[0], 0) + 1
            continue
        res.corr[label] = res.corr.get(label, 0) + 1
        if not same_outcome(impl_outcome(i), mo):
            res.violation("correspondence", "model Api.run and DDLParser.run disagree", tie=True, layer="correspondence F (run)", ddl=t,
                          oracle="corr_run")


def escaped(ddl):
    """self.data as the model receives it: what Parser.__init__ stores, decoded"""
    return ddl.replace("\r\n", "\n").encode("unicode_escape").decode("utf-8")
