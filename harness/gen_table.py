"""Fragment 'Table' (core column syntax + table-level constraints): AST generator, renderer and the
specification of the entity the property texts (C01, C02) prescribe.  Used as the search oracle on the
implementation; every random choice comes from the rng passed in."""

NAMES = ["id", "a", "b2", "settings", "dropped", "use_count", "grants", "user_id", "Name", "created_at", "amount", "x_1", "col", "ZIP", "descr", "k9", "val", "ts_col", "qty"]
KW_NAMES = ["comment", "order", "start", "cache", "type", "schema", "default", "key", "table", "add", "no", "data", "location", "format"]
# words that start other kinds of statements (or look like them): as column names they are ordinary identifiers, also at the
# beginning of a line of a multi-line CREATE TABLE
STMT_LIKE_NAMES = ["begin", "end", "commit", "rollback", "update", "select", "merge", "truncate", "call", "declare", "exec", "revoke",
                   "analyze", "replace", "show", "explain", "lock", "unlock", "savepoint", "release", "values", "from", "where",
                   "go_x", "use_case", "inserted", "granted", "deleted", "set_x", "create_x", "alter_x", "drop_x", "Begin", "END", "Commit"]
TABLE_NAMES = ["t", "orders", "Users", "line_items", "tbl_2", "A", "settings", "created_items", "dropbox", "altered_rows", "users_go"]
SCHEMAS = [None, None, "s", "public", "Dev"]
TYPES1 = ["int", "INT", "integer", "bigint", "text", "date", "timestamp", "boolean", "float", "uuid", "Serial"]
TYPES_SIZED = ["varchar", "VARCHAR", "char", "decimal", "numeric", "NUMBER", "varchar2"]
TYPES2 = ["double precision", "character varying"]
ACTIONS = ["CASCADE", "RESTRICT", "cascade"]


def pick_names(rng, n, pool=None):
    pool = list(pool or NAMES)
    rng.shuffle(pool)
    out = pool[:n]
    i = 0
    while len(out) < n:
        out.append("c%d" % i)
        i += 1
    return out


def gen_default(rng):
    k = rng.randrange(7)
    if k == 0:
        d = str(rng.choice([0, 1, 5, 42, 1000, 12345, 99999999, 123456789012345678901]))
        return d, int(d)
    if k == 1:
        s = rng.choice(["'x'", "'abc'", "'A b'", "'2020-01-01'", "''"])
        return s, s
    if k == 2:
        return "NULL", "NULL"
    if k == 3:
        w = rng.choice(["now", "CURRENT_TIMESTAMP", "true", "FALSE", "abc"])
        return w, w
    if k == 4:
        d = "-" + str(rng.randrange(1, 500))
        return d, d
    if k == 5:
        d = str(rng.randrange(10 ** rng.randint(4, 12)))
        return d, int(d)
    return "0", 0


REF_COLS = [None, "id", "k"]
REF_COLS_KW = [None, "id", "k", "key", "comment", "order", "default", "type", "start", "data"]


def gen_column(rng, name, allow_pk=True, allow_ref=True, kw_refs=False, allow_check=False):
    col = {"name": name, "opts": []}
    k = rng.randrange(10)
    if k < 5:
        col["type"] = rng.choice(TYPES1)
        col["size"] = None
    elif k < 8:
        col["type"] = rng.choice(TYPES_SIZED)
        r = rng.randrange(3)
        if r == 0:
            col["size"] = None
        elif r == 1:
            col["size"] = (rng.choice([1, 10, 255, 4000, 0]),)
        else:
            col["size"] = (rng.choice([10, 18, 38]), rng.choice([0, 2, 4]))
    else:
        col["type"] = rng.choice(TYPES2)
        col["size"] = None
    kinds = ["null", "default", "unique"]
    if allow_pk:
        kinds.append("pk")
    if allow_ref:
        kinds.append("ref")
    if allow_check and rng.random() < 0.35:
        kinds.append("check")          # an inline CHECK at ANY position among the options
    rng.shuffle(kinds)
    for kd in kinds[: rng.choice([0, 0, 1, 1, 2, 3, 4])]:
        if kd == "check":
            ident = name if name in NAMES else "v"
            col["opts"].append(("check", rng.choice(["%s > 0", "%s <> 'x y'", "%s >= 10", "%s < 100"]) % ident))
            continue
        if kd == "null":
            col["opts"].append(("null", rng.choice([True, False])))
        elif kd == "default":
            txt, val = gen_default(rng)
            col["opts"].append(("default", txt, val))
        elif kd == "unique":
            col["opts"].append(("unique",))
        elif kd == "pk":
            col["opts"].append(("pk",))
        elif kd == "ref":
            ref = {"schema": rng.choice([None, None, "o"]), "table": rng.choice(["p", "parents", "Q"]),
                   "column": rng.choice(REF_COLS_KW if kw_refs else REF_COLS), "on_delete": None, "on_update": None}
            if rng.random() < 0.4:
                ref["on_delete"] = rng.choice(ACTIONS)
            if rng.random() < 0.3:
                ref["on_update"] = rng.choice(ACTIONS)
            col["opts"].append(("ref", ref))
    return col


def gen_table(rng, ncols=None, constraints=True, kw_names=False, name=None, schema="?", kw_refs=False):
    n = ncols or rng.choice([1, 2, 3, 3, 4, 5, 6, 8])
    pool = NAMES + (KW_NAMES if kw_names else [])
    names = pick_names(rng, n, pool)
    pk_mech = rng.choice(["none", "inline", "clause", "named"]) if constraints else rng.choice(["none", "inline"])
    t = {"name": name or rng.choice(TABLE_NAMES), "schema": rng.choice(SCHEMAS) if schema == "?" else schema, "cols": [], "items": []}
    for nm in names:
        t["cols"].append(gen_column(rng, nm, allow_pk=(pk_mech == "inline"), kw_refs=kw_refs, allow_check=constraints))
    if pk_mech == "inline" and not any(o[0] == "pk" for c in t["cols"] for o in c["opts"]):
        t["cols"][rng.randrange(n)]["opts"].append(("pk",))
    if not constraints:
        return t
    def pk_variant(k):
        # SQL Server spellings and sort directions after the key columns (any letter case): they never add or remove a key column
        if rng.random() < 0.6:
            return None
        return {"kind": rng.choice([None, "CLUSTERED", "NONCLUSTERED"]),
                "orders": [rng.choice([None, None, "ASC", "DESC", "asc", "Desc"]) for _ in range(k)]}
    if pk_mech == "clause":
        k = rng.randint(1, min(3, n))
        t["items"].append(("pk", None, rng.sample(names, k), pk_variant(k)))
    elif pk_mech == "named":
        k = rng.randint(1, min(3, n))
        t["items"].append(("pk", "pk_" + t["name"], rng.sample(names, k), pk_variant(k)))
    for _ in range(rng.choice([0, 0, 1, 1, 2, 3])):
        kd = rng.choice(["uniq", "uniq", "nuniq", "fk", "nfk", "check", "ncheck"])
        if kd == "uniq":
            k = rng.choice([1, 1, 2, 3, 4, 5])
            t["items"].append(("unique", None, rng.sample(names, min(k, n))))
        elif kd == "nuniq":
            k = rng.choice([1, 2, 3])
            t["items"].append(("unique", "uq_%d" % rng.randrange(100), rng.sample(names, min(k, n))))
        elif kd in ("fk", "nfk"):
            k = rng.choice([1, 1, 2]) if n >= 2 else 1
            cols = rng.sample(names, k)
            free = [c for c in cols if not any(o[0] == "ref" for cc in t["cols"] if cc["name"] == c for o in cc["opts"])]
            if len(free) != len(cols) or any(it[0] == "fk" and set(it[2]) & set(cols) for it in t["items"]):
                continue
            ref = {"schema": rng.choice([None, "o"]), "table": rng.choice(["p", "parents"]),
                   "columns": ["r%d" % i for i in range(k)], "on_delete": rng.choice([None, "CASCADE"]),
                   "on_update": rng.choice([None, None, "RESTRICT"])}
            t["items"].append(("fk", ("fk_%d" % rng.randrange(100)) if kd == "nfk" else None, cols, ref))
        else:
            c = rng.choice(names)
            expr = "%s %s %d" % (c, rng.choice([">", "<", ">=", "<>"]), rng.randrange(100))
            t["items"].append(("check", ("ck_%d" % rng.randrange(100)) if kd == "ncheck" else None, expr))
    return t


# ------------------------------------------------------------------------------------------------------
def kw(rng, w):
    if rng is None:
        return w
    k = rng.randrange(3)
    return w if k == 0 else (w.lower() if k == 1 else w.capitalize())


def render_column(c, rng=None):
    s = "%s %s" % (c["name"], c["type"])
    if c["size"] is not None:
        if rng is not None and rng.random() < 0.3:
            s += " (%s)" % (", " if rng.random() < 0.5 else ",").join(str(x) for x in c["size"])
        else:
            s += "(%s)" % ",".join(str(x) for x in c["size"])
    for o in c["opts"]:
        if o[0] == "null":
            s += " " + (kw(rng, "NULL") if o[1] else kw(rng, "NOT") + " " + kw(rng, "NULL"))
        elif o[0] == "default":
            s += " " + kw(rng, "DEFAULT") + " " + o[1]
        elif o[0] == "unique":
            s += " " + kw(rng, "UNIQUE")
        elif o[0] == "pk":
            s += " " + kw(rng, "PRIMARY") + " " + kw(rng, "KEY")
        elif o[0] == "check":
            s += " " + kw(rng, "CHECK") + " (%s)" % o[1]
        elif o[0] == "ref":
            r = o[1]
            s += " " + kw(rng, "REFERENCES") + " " + ((r["schema"] + ".") if r["schema"] else "") + r["table"]
            if r["column"]:
                s += " (%s)" % r["column"] if (rng is not None and rng.random() < 0.5) else "(%s)" % r["column"]
            if r["on_delete"]:
                s += " " + kw(rng, "ON") + " " + kw(rng, "DELETE") + " " + r["on_delete"]
            if r["on_update"]:
                s += " " + kw(rng, "ON") + " " + kw(rng, "UPDATE") + " " + r["on_update"]
    return s


def render_item(it, rng=None):
    if it[0] == "pk":
        s = (kw(rng, "CONSTRAINT") + " %s " % it[1]) if it[1] else ""
        v = it[3] if len(it) > 3 else None
        if v:
            cols = ["%s%s" % (c, (" " + o) if o else "") for c, o in zip(it[2], v["orders"])]
            return s + kw(rng, "PRIMARY") + " " + kw(rng, "KEY") + ((" " + v["kind"]) if v["kind"] else "") + " (%s)" % ", ".join(cols)
        return s + kw(rng, "PRIMARY") + " " + kw(rng, "KEY") + " (%s)" % ", ".join(it[2])
    if it[0] == "unique":
        s = (kw(rng, "CONSTRAINT") + " %s " % it[1]) if it[1] else ""
        return s + kw(rng, "UNIQUE") + " (%s)" % ", ".join(it[2])
    if it[0] == "fk":
        r = it[3]
        s = (kw(rng, "CONSTRAINT") + " %s " % it[1]) if it[1] else ""
        s += kw(rng, "FOREIGN") + " " + kw(rng, "KEY") + " (%s) " % ", ".join(it[2]) + kw(rng, "REFERENCES") + " "
        s += ((r["schema"] + ".") if r["schema"] else "") + r["table"] + " (%s)" % ", ".join(r["columns"])
        if r["on_delete"]:
            s += " " + kw(rng, "ON") + " " + kw(rng, "DELETE") + " " + r["on_delete"]
        if r["on_update"]:
            s += " " + kw(rng, "ON") + " " + kw(rng, "UPDATE") + " " + r["on_update"]
        return s
    if it[0] == "check":
        s = (kw(rng, "CONSTRAINT") + " %s " % it[1]) if it[1] else ""
        return s + kw(rng, "CHECK") + " (%s)" % it[2]
    raise ValueError(it)


def render_table(t, rng=None, oneline=False):
    parts = [render_column(c, rng) for c in t["cols"]] + [render_item(i, rng) for i in t["items"]]
    name = ((t["schema"] + ".") if t["schema"] else "") + t["name"]
    head = kw(rng, "CREATE") + " " + kw(rng, "TABLE") + " " + name
    if oneline:
        return "%s (%s);" % (head, ", ".join(parts))
    sep = ",\n  " if rng is None or rng.random() < 0.7 else " ,\n"
    return "%s (\n  %s\n);" % (head, sep.join(parts))


# ------------------------------------------------------------------------------------------------------
def expected_table(t):
    """the entity the properties prescribe for this table (default output mode)"""
    cols = []
    inline_pk = []
    for c in t["cols"]:
        size = None
        if c["size"] is not None:
            size = c["size"][0] if len(c["size"]) == 1 else tuple(c["size"])
        e = {"name": c["name"], "type": c["type"], "size": size, "references": None, "unique": False, "nullable": True,
             "default": None, "check": None}
        for o in c["opts"]:
            if o[0] == "null":
                e["nullable"] = o[1] if e["nullable"] else False
            elif o[0] == "default":
                e["default"] = o[2]
            elif o[0] == "unique":
                e["unique"] = True
            elif o[0] == "pk":
                inline_pk.append(c["name"])
                e["nullable"] = False
            elif o[0] == "check":
                e["check"] = o[1]           # the expression as written, whatever options follow it
            elif o[0] == "ref":
                r = o[1]
                e["references"] = {"table": r["table"], "schema": r["schema"], "on_delete": r["on_delete"],
                                   "on_update": r["on_update"], "deferrable_initially": None, "column": r["column"]}
        # NOT NULL wins wherever it stands
        if any(o[0] == "null" and o[1] is False for o in c["opts"]) or any(o[0] == "pk" for o in c["opts"]):
            e["nullable"] = False
        cols.append(e)
    byname = {e["name"]: e for e in cols}
    pk = list(inline_pk)
    constraints = {}
    checks = []
    table_properties = {}
    for it in t["items"]:
        if it[0] == "pk":
            pk = list(it[2])
            if it[1]:
                constraints.setdefault("primary_keys", []).append({"columns": list(it[2]), "constraint_name": it[1]})
            v = it[3] if len(it) > 3 else None
            if v and v["kind"] == "CLUSTERED":
                table_properties["clustered_primary_key"] = [{"column": c, "order": o.upper()} for c, o in zip(it[2], v["orders"]) if o]
        elif it[0] == "unique":
            if it[1]:
                constraints.setdefault("uniques", []).append({"columns": list(it[2]), "constraint_name": it[1]})
            elif len(it[2]) == 1:
                byname[it[2][0]]["unique"] = True
            else:
                constraints.setdefault("uniques", []).append({"columns": list(it[2]), "constraint_name": "UC_" + "_".join(it[2])})
        elif it[0] == "fk":
            r = it[3]
            if it[1]:
                constraints.setdefault("references", []).append(
                    {"table": r["table"], "columns": list(r["columns"]), "schema": r["schema"], "on_delete": r["on_delete"],
                     "on_update": r["on_update"], "deferrable_initially": None,
                     "name": it[2][0] if len(it[2]) == 1 else list(it[2]), "constraint_name": it[1]})
            else:
                for cn, rc in zip(it[2], r["columns"]):
                    byname[cn]["references"] = {"table": r["table"], "schema": r["schema"], "on_delete": r["on_delete"],
                                                "on_update": r["on_update"], "deferrable_initially": None, "column": rc}
        elif it[0] == "check":
            ck = {"constraint_name": it[1], "statement": it[2]}
            checks.append(ck)
            if it[1]:
                constraints.setdefault("checks", []).append(dict(ck))
    for n in pk:
        if n in byname:
            byname[n]["nullable"] = False
    out = {"table_name": t["name"], "schema": t["schema"], "primary_key": pk, "columns": cols, "alter": {}, "checks": checks,
           "index": [], "partitioned_by": []}
    if constraints:
        out["constraints"] = constraints
    out["tablespace"] = None
    if table_properties:
        out["table_properties"] = table_properties
    return out


def norm_refs(v):
    """an inline reference is reported as {'column': c} or, when NULL / NOT NULL directly follows it, as
    {'columns': [c]} (pinned by the repository's own test_reference_not_null): same information, two shapes"""
    if isinstance(v, dict):
        d = {k: norm_refs(x) for k, x in v.items()}
        if "table" in d and "columns" in d and "column" not in d and "name" not in d and isinstance(d["columns"], list) and len(d["columns"]) == 1:
            d["column"] = d.pop("columns")[0]
        return d
    if isinstance(v, list):
        return [norm_refs(x) for x in v]
    if isinstance(v, tuple):
        return tuple(norm_refs(x) for x in v)
    return v
