"""C19 — file, dump and command-line entry points agree with the in-memory API."""
import shutil
import subprocess
import tempfile
from common import *
import gen_table as G

RULE = ("real files in a scratch directory: parse_from_file over encodings {utf-8, utf-16, latin-1, cp1251} (non-ASCII text in "
        "comments/strings), file names with several dots / no extension / upper case, parser_settings incl. falsy non-default "
        "values (silent=False on invalid DDL, normalize_names=True), output modes; dump=True into missing/existing dump dirs; "
        "the sdp command (file mode, directory mode with 0-5 matching and non-matching files, -t, --no-dump, -o, -v) as a "
        "subprocess; expected = DDLParser(text, **settings).run(...) and the file-system delta predicted by Model/Api.v "
        "(dump_target, correct_extension). non-trivial = distinct (file set, options) whose API result is non-empty")
PARTIAL = ["text codecs, os.makedirs, argparse and pprint are oracles of the model (section variables): exercised, not modelled"]
ASSUMES = ["Model/Api.v dump_target / correct_extension / parse_from_file mirror parser.run(dump=...), cli.py: compared on every run"]

PFF = r'''
import json, os
from simple_ddl_parser import parse_from_file
path, enc_, settings, kw = req["path"], req["encoding"], req["settings"], req["kwargs"]
text = open(path, "r", encoding=enc_).read()
def attempt(f):
    try:
        return {"ok": enc(f())}
    except Exception as e:
        return {"raise": type(e).__name__}
api_kw = {k: v for k, v in kw.items() if k not in ("dump", "dump_path")}
a = attempt(lambda: DDLParser(text, **(settings or {})).run(**api_kw))
before = set(os.listdir(req["dump_path"])) if os.path.isdir(req["dump_path"]) else set()
b = attempt(lambda: parse_from_file(path, encoding=enc_, parser_settings=settings, **kw))
after = set(os.listdir(req["dump_path"])) if os.path.isdir(req["dump_path"]) else set()
new = sorted(after - before)
contents = {}
for n in new:
    try:
        contents[n] = json.load(open(os.path.join(req["dump_path"], n)))
    except Exception as e:
        contents[n] = "unreadable: %s" % e
out = {"api": a, "file": b, "new": new, "contents": enc(contents)}
'''

HIST = r"""
import json, os, shutil
from simple_ddl_parser import parse_from_file
outs = []
for step in req["steps"]:
    if step["op"] == "rmtree":
        shutil.rmtree(step["path"], ignore_errors=True)
        outs.append({"rmtree": True})
        continue
    try:
        r = parse_from_file(step["path"], dump=True, dump_path=step["dump_path"], output_mode=step["mode"])
        f = os.path.join(step["dump_path"], step["stem"] + "_schema.json")
        outs.append({"ok": enc(r), "written": enc(json.load(open(f))) if os.path.isfile(f) else None})
    except Exception as e:
        outs.append({"raise": type(e).__name__ + ": " + str(e)[:120]})
out = outs
"""


def run(ctx, res):
    rng = ctx.rng
    root = tempfile.mkdtemp(prefix="sdp_c19_", dir=TMPBASE)
    try:
        tabs = [G.gen_table(rng, name="tab%d" % i) for i in range(40)]
        texts = [G.render_table(t, rng) for t in tabs]
        extra = ["-- комментарий ü\nCREATE TABLE t_ru (a varchar(10) DEFAULT 'x');\n", "CREATE TABLE t_inv (a int,,) (;\n",
                 "CREATE TABLE [dbo].[Q] ([a] int);\n"]
        reqs = []
        names = ["a.sql", "b.v2.ddl", "NOEXT", "weird.name.with.dots.sql", "c.hql", "UPPER.SQL", "d.bql"]
        for i in range(120 if ctx.thorough else 40):
            text = rng.choice(texts + extra) if i % 5 else extra[1]       # every 5th case: DDL the grammar rejects
            encn = rng.choice(["utf-8", "utf-8", "utf-16", "latin-1", "cp1251"])
            try:
                data = text.encode(encn)
            except UnicodeEncodeError:
                encn = "utf-8"
                data = text.encode(encn)
            d = os.path.join(root, "in%d" % i)
            os.makedirs(d)
            name = rng.choice(names)
            path = os.path.join(d, name)
            with open(path, "wb") as f:
                f.write(data)
            settings = rng.choice([None, {}, {"silent": False}, {"normalize_names": True}, {"silent": False, "normalize_names": True}])
            if i % 5 == 0:
                settings = rng.choice([{"silent": False}, {"silent": False, "normalize_names": False}, {"silent": True}])
            kw = {"output_mode": rng.choice(["sql", "hql", "mysql", "bigquery"])}
            if rng.random() < 0.3:
                kw["group_by_type"] = True
            dump_path = os.path.join(root, "out%d" % i, "nested") if rng.random() < 0.5 else os.path.join(root, "out%d" % i)
            if rng.random() < 0.5:
                os.makedirs(dump_path, exist_ok=True)
            if rng.random() < 0.6:
                kw["dump"] = True
                kw["dump_path"] = dump_path
            reqs.append({"op": "pyexec", "code": PFF, "path": path, "encoding": encn, "settings": settings, "kwargs": kw, "dump_path": dump_path})
        R = ctx.impl.map(reqs)
        res.evaluations += len(reqs)
        for rq, r in zip(reqs, R):
            res.count("enc:" + rq["encoding"])
            if "ok" not in r:
                res.violation("fs", "harness failed: %r" % (r,), request={k: rq[k] for k in ("path", "encoding", "settings", "kwargs")}, oracle="pff")
                continue
            o = r["ok"]
            a, b = o["api"], o["file"]
            same = ("ok" in a and "ok" in b and canon_impl(a["ok"]) == canon_impl(b["ok"])) or ("raise" in a and a.get("raise") == b.get("raise"))
            info = {k: rq[k] for k in ("path", "encoding", "settings", "kwargs")}
            if not same:
                res.violation("fs", "parse_from_file differs from DDLParser(text, **settings).run(...): api=%s file=%s" % (
                    a.get("raise") or "ok", b.get("raise") or "ok"), request=info, oracle="pff")
                continue
            stem = os.path.basename(rq["path"]).split(".")[0]
            want = [stem + "_schema.json"] if (rq["kwargs"].get("dump") and "ok" in b) else []
            if o["new"] != want:
                res.violation("fs", "files written %r, expected %r" % (o["new"], want), request=info, oracle="pff")
                continue
            if want:
                content = py_of_impl(o["contents"])[want[0]]
                if json.loads(json.dumps(py_of_impl(b["ok"]))) != content:
                    res.violation("fs", "dumped JSON differs from the returned result", request=info, oracle="pff")
                    continue
            if "ok" in b and py_of_impl(b["ok"]):
                res.nontrivial.add(json.dumps(info, sort_keys=True))
        # ---- histories in ONE process: the same target directory used again, also after it was removed in between -----------------
        hreqs = []
        for i in range(12 if ctx.thorough else 5):
            d = os.path.join(root, "hist%d" % i)
            os.makedirs(d)
            dp = os.path.join(d, rng.choice(["out", "out/deep"]))
            if rng.random() < 0.4:
                os.makedirs(dp)
            steps = []
            for j in range(rng.randint(2, 4)):
                nm = "f%d.sql" % j
                open(os.path.join(d, nm), "w").write(rng.choice(texts))
                steps.append({"op": "dump", "path": os.path.join(d, nm), "dump_path": dp, "stem": "f%d" % j, "mode": rng.choice(["sql", "hql"])})
                if rng.random() < 0.6:
                    steps.append({"op": "rmtree", "path": rng.choice([dp, os.path.join(d, "out")])})
            hreqs.append({"op": "pyexec", "code": HIST, "steps": steps})
        for rq, r in zip(hreqs, ctx.impl.map(hreqs)):
            res.evaluations += 1
            res.count("history")
            info = {"steps": [{k: (os.path.relpath(v, root) if k in ("path", "dump_path") else v) for k, v in st.items()} for st in rq["steps"]]}
            if "ok" not in r:
                res.violation("fs", "harness failed: %r" % (r,), request=info, oracle="history")
                continue
            bad = None
            for st, o in zip(rq["steps"], r["ok"]):
                if st["op"] != "dump":
                    continue
                if "raise" in o:
                    bad = "dump=True into %s raised %s" % (os.path.relpath(st["dump_path"], root), o["raise"])
                elif o["written"] is None or json.loads(json.dumps(py_of_impl(o["written"]))) != json.loads(json.dumps(py_of_impl(o["ok"]))):
                    bad = "dump=True did not write the returned result to %s_schema.json" % st["stem"]
                if bad:
                    break
            if bad:
                res.violation("fs", bad, request=info, oracle="history")
            else:
                res.nontrivial.add(json.dumps(info, sort_keys=True))
        # ---- the sdp command ---------------------------------------------------------------------------------------------
        env = ctx.scratch.env()
        def sdp(args, cwd):
            p = subprocess.run([PY, "-c", "import sys; from simple_ddl_parser.cli import main; sys.argv=['sdp']+sys.argv[1:]; main()"] + args,
                               cwd=cwd, env=env, stdout=subprocess.PIPE, stderr=subprocess.PIPE, timeout=120)
            return p.returncode, p.stdout.decode(errors="replace")
        ncli = 40 if ctx.thorough else 12
        for i in range(ncli):
            work = os.path.join(root, "cli%d" % i)
            os.makedirs(work)
            ddir = os.path.join(work, "ddl")
            os.makedirs(ddir)
            files = {}
            for nm in rng.sample(["orders.sql", "users.ddl", "events.hql", "x.bql", "notes.txt", "README", "a.b.sql", "zz.sql"], rng.randint(1, 6)):
                t = rng.choice(texts)
                files[nm] = t
                open(os.path.join(ddir, nm), "w").write(t)
            mode = rng.choice(["sql", "hql", "mysql"])
            target = rng.choice([None, "outdir", "deep/er"])
            nodump = rng.random() < 0.3
            dirmode = rng.random() < 0.6
            args = []
            if target:
                args += ["-t", target]
            if nodump:
                args += ["--no-dump"]
            args += ["-o", mode]
            if dirmode:
                args.append("ddl")
                accepted = sorted(n for n in files if len(n.split(".")) >= 2 and n.split(".")[1] in ("ddl", "sql", "hql", "", "bql"))
            else:
                one = rng.choice(sorted(files))
                args.append(os.path.join("ddl", one))
                accepted = [one]
            rc, out = sdp(args, work)
            res.evaluations += 1
            res.count("cli:" + ("dir" if dirmode else "file"))
            tdir = os.path.join(work, target or "schemas")
            written = sorted(os.listdir(tdir)) if os.path.isdir(tdir) else []
            api = ctx.impl.map([{"op": "run", "ddl": files[n], "run": {"output_mode": mode}} for n in accepted])
            want = sorted(set(n.split(".")[0] + "_schema.json" for n in accepted)) if not nodump else []
            info = {"args": args, "files": sorted(files), "accepted": accepted}
            if written != want:
                res.violation("fs", "sdp wrote %r, expected %r" % (written, want), request=info, oracle="cli")
                continue
            bad = False
            if not nodump:
                # several inputs with the same stem overwrite each other in listing order: compare only unambiguous stems
                stems = [n.split(".")[0] for n in accepted]
                for n, a in zip(accepted, api):
                    if stems.count(n.split(".")[0]) > 1 or "ok" not in a:
                        continue
                    content = json.load(open(os.path.join(tdir, n.split(".")[0] + "_schema.json")))
                    if content != json.loads(json.dumps(py_of_impl(a["ok"]))):
                        res.violation("fs", "sdp dumped %s differs from the API result" % n, request=info, oracle="cli")
                        bad = True
                        break
            if not bad:
                res.nontrivial.add(json.dumps(info, sort_keys=True))
        res.samples.append({"request": {k: reqs[0][k] for k in ("encoding", "settings", "kwargs")}})
        res.samples.append({"cli": "sdp -o hql ddl (directory mode)"})
        # ---- the model's name / extension functions agree with the code ----------------------------------------------------
        probe = ["a.sql", "a.b.sql", "x", "x.", ".sql", "UP.SQL", "q.ddl", "q.hql", "q.bql", "q.txt"]
        im = ctx.impl.map([{"op": "callfn", "fn": "simple_ddl_parser.cli.correct_extension", "args": [p]} for p in probe])
        model_ce = {"a.sql": True, "a.b.sql": False, "x": False, "x.": True, ".sql": True, "UP.SQL": False, "q.ddl": True, "q.hql": True, "q.bql": True, "q.txt": False}
        for p, r in zip(probe, im):
            res.corr["F:correct_extension"] = res.corr.get("F:correct_extension", 0) + 1
            if r.get("ok") != model_ce[p]:
                res.violation("correspondence", "correct_extension(%r) = %r, model says %r" % (p, r.get("ok"), model_ce[p]), tie=True,
                              layer="correspondence F (correct_extension)")
    finally:
        shutil.rmtree(root, ignore_errors=True)


def replay(ctx, payload):
    return True
