"""C10 — output_mode only filters presentation; common content equal in every mode."""
from common import *
import gen_table as G
import gen_hist as H

RULE = ("every DDL string harvested from /repo/tests, generated table fragments (with constraints) and ALTER/INDEX histories, "
        "run in the default mode and in every other supported mode: same entities in the same order, equal common view of every "
        "table (name, schema|dataset, columns restricted to the 8 common attributes, primary_key, checks, index, alter, "
        "partitioned_by, constraints, tablespace), no new error, dialect fields at top level only in their documented modes "
        "(catalogue = Gen/Fields metadata = Spec/Documented.v). non-trivial = distinct (DDL, mode) whose default-mode result "
        "has >= 1 table")
PARTIAL = ["that the COMMON view is equal across modes is not yet a Coq theorem (it is checked on every generated/harvested input "
           "and through the Output.format correspondence in all modes); the filter theorem, the metadata catalogue and the "
           "well-formedness of every mode are proved"]
ASSUMES = ["Model/Output.v mirrors the output layer in every mode: correspondence E over all modes on every run"]

COMMON_COL = ["name", "type", "size", "references", "unique", "nullable", "default", "check"]
INDEX_COMMON = ["index_name", "unique", "columns", "detailed_columns"]


def unify(v):
    """dataset <-> schema, and column dicts restricted to their common attributes, everywhere"""
    if isinstance(v, dict):
        d = {}
        for k, x in v.items():
            d["schema" if k == "dataset" else k] = unify(x)
        if "name" in d and "type" in d and "nullable" in d:
            d = {k: d.get(k) for k in COMMON_COL}
        return d
    if isinstance(v, (list, tuple)):
        return [unify(x) for x in v]
    return v


def common_view(t):
    out = {"table_name": t.get("table_name"), "schema": t.get("schema", t.get("dataset"))}
    for k in ("columns", "primary_key", "checks", "alter", "partitioned_by", "constraints", "tablespace"):
        out[k] = unify(t.get(k))
    out["index"] = [{k: unify(i.get(k)) for k in INDEX_COMMON} if isinstance(i, dict) else i for i in (t.get("index") or [])]
    return out


def run(ctx, res):
    rng = ctx.rng
    dump = json.load(open(os.path.join(COQ, "Gen", "dump.json")))
    modes = [m for m in dump["modes"] if m != "sql"]
    catalogue = {m: {f["name"]: f["output_modes"] for f in dump["fields"][m]["fields"] if f["has_modes"]} for m in dump["modes"]}
    ddls = harvest_test_ddl(ctx.scratch)
    gen = [G.render_table(G.gen_table(rng), rng) for _ in range(300 if ctx.thorough else 40)]
    hist = [H.gen_history(rng) for _ in range(300 if ctx.thorough else 40)]
    hist = [h["text"] for h in hist if not any(s[0] == "missing" for s in h["stmts"])]
    if not ctx.thorough:
        ddls = ddls[::2]
    # directed: schema / table / column names in every quoting style, each part quoted on its own (a schema must come out the same
    # under the key schema or dataset in every mode)
    directed = []
    for q in H.QUOTES[:4]:
        for q2 in H.QUOTES[:4]:
            directed.append("CREATE TABLE %s.%s (%s int NOT NULL, note varchar(20));\nCREATE INDEX ix_n ON %s.%s (note);\n"
                            % (q("sales"), q2("orders"), q2("id"), q("sales"), q2("orders")))
    directed.append("CREATE TABLE `acme`.`sales`.`orders` (id int, note varchar(5));\n")
    directed.append("CREATE TABLE `sales.orders` (id int, note varchar(5));\n")
    allddl = ddls + gen + hist + directed
    base = ctx.impl.map([{"op": "run", "ddl": d} for d in allddl])
    res.evaluations += len(allddl)
    for mode in modes:
        R = ctx.impl.map([{"op": "run", "ddl": d, "run": {"output_mode": mode}} for d in allddl])
        res.evaluations += len(allddl)
        for d, b, r in zip(allddl, base, R):
            res.count("mode:" + mode)
            if "ok" not in b:
                continue
            if "ok" not in r:
                res.violation("input", "output_mode=%s turned a successful parse into %s: %s" % (mode, r.get("raise") or r, r.get("msg")),
                              ddl=d, mode=mode, oracle="mode_common")
                continue
            B, M = py_of_impl(b["ok"]), py_of_impl(r["ok"])
            if len(B) != len(M):
                res.violation("input", "output_mode=%s: %d entities instead of %d" % (mode, len(M), len(B)), ddl=d, mode=mode, oracle="mode_common")
                continue
            bad = None
            for eb, em in zip(B, M):
                if "table_name" in eb:
                    if "table_name" not in em:
                        bad = "entity kind changed"
                    elif common_view(eb) != common_view(em):
                        cb, cm = common_view(eb), common_view(em)
                        bad = "common fields differ: %s" % [k for k in cb if cb[k] != cm[k]]
                    else:
                        for k in em:
                            if k in catalogue[mode] and mode not in catalogue[mode][k]:
                                bad = "dialect field %r at top level in mode %s (documented for %s)" % (k, mode, catalogue[mode][k])
                elif unify(eb) != unify(em):
                    bad = "non-table entity differs"
                if bad:
                    break
            if bad:
                res.violation("input", "output_mode=%s: %s" % (mode, bad), ddl=d, mode=mode, oracle="mode_common")
            elif any("table_name" in e for e in B):
                res.nontrivial.add((d, mode))
    # ---- correspondence E in every mode ----------------------------------------------------------------------
    if ctx.model:
        sample = allddl if ctx.thorough else allddl[::3]
        st = ctx.impl.map([{"op": "statements", "ddl": d} for d in sample])
        items = [(d, a["ok"]["parser_output"]) for d, a in zip(sample, st) if "ok" in a]
        for mode in dump["modes"]:
            I = ctx.impl.map([{"op": "format", "parser_output": po, "mode": mode} for _, po in items])
            M = ctx.model.map([("format", [mode, "0"] + flat_encode(py_of_impl(po))) for _, po in items])
            for (d, po), i, m in zip(items, I, M):
                res.corr["E:format:" + mode] = res.corr.get("E:format:" + mode, 0) + 1
                if not same_outcome(impl_outcome(i), model_outcome(m)):
                    res.violation("correspondence", "model and implementation of Output.format disagree in mode " + mode, tie=True,
                                  layer="correspondence E (Output.format)", ddl=d, mode=mode)
    res.nontrivial = set(json.dumps(x) for x in res.nontrivial)
    res.samples.append({"ddl": gen[0], "modes": modes})
    res.samples.append({"ddl": hist[0] if hist else ""})


def replay(ctx, payload):
    return True
