"""C05 — parsing is invariant under keyword case, whitespace and line layout."""
import re
from common import *
import gen_table as G
import gen_hist as H
from props import C17 as S

RULE = ("statements of the CREATE TABLE (core fragment + constraints), ALTER TABLE, CREATE INDEX and CREATE SEQUENCE fragments; each "
        "script is tokenised and re-laid-out 3-6 times: every SQL keyword in random letter case, separators drawn from spaces, "
        "tabs, LF, CRLF, blank lines, nothing around ',' '(' ')', line breaks between any two tokens (continuation lines "
        "indented; no line starts with a statement-level word that does not start a statement, as the property provides); "
        "expected = the result of the canonical one-line layout. non-trivial = distinct re-laid-out script differing from the "
        "canonical text in >= 5 separators or keyword spellings")
PARTIAL = ["the character-level layout invariance (regex pre-processing + scanner) is explored, not proved; proved: lexing depends "
           "on the upper-cased spelling only (all words), blank lines are neutral for the line machine, ID values are verbatim",
           "a line break immediately followed by a quoted literal at column 0 is known finding D15 (continuation lines are indented here)"]
ASSUMES = ["Model/Lexer.v info_of mirrors t_ID's table look-ups: correspondence B on every run"]

KW = {"CREATE", "TABLE", "NOT", "NULL", "DEFAULT", "PRIMARY", "KEY", "UNIQUE", "REFERENCES", "ON", "DELETE", "UPDATE",
      "CONSTRAINT", "FOREIGN", "CHECK", "ALTER", "ADD", "DROP", "COLUMN", "RENAME", "MODIFY", "INDEX", "SEQUENCE", "INCREMENT",
      "BY", "START", "WITH", "MINVALUE", "MAXVALUE", "NO", "CACHE", "ORDER", "NOORDER", "FOR", "ASC", "DESC"}
STMT_WORDS = ("CREATE", "ALTER", "DROP", "SET", "GO", "USE", "INSERT", "GRANT", "DELETE")
TOK = re.compile(r"'[^']*'|\"[^\"]*\"|[(),;]|[^\s(),;]+")


def tokens_of(stmt):
    return TOK.findall(stmt)


def relayout(rng, stmt, crlf):
    toks = tokens_of(stmt)
    out = ""
    changes = 0
    nl = "\r\n" if crlf else "\n"
    for i, t in enumerate(toks):
        w = t
        if t.upper() in KW and not t.startswith(("'", '"')):
            w = "".join(c.upper() if rng.random() < 0.5 else c.lower() for c in t)
            changes += w != t
        if i == 0:
            out += w
            continue
        prev = toks[i - 1]
        quoted = t[0] in "'\"" or prev[0] in "'\""
        if t == ";":
            sep = ""
        elif "." in (t, prev) and False:
            sep = ""
        elif (t in ",()" or prev in ",(") and not quoted:
            sep = rng.choice(["", "", " ", "  ", "\t", nl + "  "])
        else:
            sep = rng.choice([" ", " ", "  ", "\t", " \t ", nl + " ", nl + "\t", nl + nl + "   "])
        if "\n" in sep and (t.upper() in STMT_WORDS or t == ";"):
            sep = " "
        changes += sep != " "
        out += sep + w
    return out, changes


def run(ctx, res):
    rng = ctx.rng
    scripts = []
    n = 1500 if ctx.thorough else 250
    for i in range(n):
        k = i % 4
        if k == 0:
            t = G.gen_table(rng)
            scripts.append([G.render_table(t, None, oneline=True)])
        elif k == 1:
            h = H.gen_history(rng)
            if any(s[0] == "missing" for s in h["stmts"]):
                continue
            scripts.append([G.render_table(t, None, oneline=True) for t in h["tables"]] + [s[2] for s in h["stmts"]])
        elif k == 2:
            t = G.gen_table(rng, constraints=False, ncols=rng.choice([1, 2, 9]))
            scripts.append([G.render_table(t, None, oneline=True)])
        else:
            a = S.gen_ast(rng)
            sp = ctx.model.one("seq_spec", ["0"] + a) if ctx.model else {}
            if sp.get("wf"):
                scripts.append([" ".join(x[1] for x in sp["lexemes"]).replace(" . ", ".") + ";"])
    base = ctx.impl.map([{"op": "run", "ddl": "\n".join(s) + "\n"} for s in scripts])
    variants = []
    for si, s in enumerate(scripts):
        for v in range(6 if ctx.thorough else 3):
            crlf = rng.random() < 0.3
            parts, ch = [], 0
            for st in s:
                r, c = relayout(rng, st, crlf)
                parts.append(r)
                ch += c
            sep = ("\r\n" if crlf else "\n") * rng.choice([1, 1, 2, 3])
            variants.append((si, sep.join(parts) + ("\r\n" if crlf else "\n"), ch))
    R = ctx.impl.map([{"op": "run", "ddl": v[1]} for v in variants])
    res.evaluations += len(variants)
    for (si, text, ch), r in zip(variants, R):
        b = base[si]
        res.count("kind:%d" % (si % 4))
        if "ok" not in b:
            continue
        same = "ok" in r and canon_impl(r["ok"]) == canon_impl(b["ok"])
        if not same:
            res.violation("input", "a different layout / keyword case of the same statements gives a different result", ddl=text,
                          canonical="\n".join(scripts[si]) + "\n", oracle="layout")
        elif ch >= 5:
            res.nontrivial.add(text)
    # ---- correspondence B (lexer incl. info_of) on the re-laid-out single statements -----------------------------------------
    if ctx.model:
        stm = ctx.impl.map([{"op": "statements", "ddl": v[1]} for v in variants[:: (3 if ctx.thorough else 6)]])
        sts = sorted(set(s for a in stm if "ok" in a for s in a["ok"]["statements"] if s))
        I = ctx.impl.map([{"op": "lex", "s": s} for s in sts])
        M = ctx.model.map([("lex", [s]) for s in sts])
        for s, i, m in zip(sts, I, M):
            res.corr["B:lex"] = res.corr.get("B:lex", 0) + 1
            io, mo = impl_outcome(i), model_outcome(m)
            good = (io[0] == "ok" and mo[0] == "ok" and io[1]["tokens"] == mo[1]["tokens"] and io[1]["flags"] == mo[1]["flags"]) or \
                   (io[0] == "raise" and mo[0] == "raise" and io[1] == mo[1])
            if not good:
                res.violation("correspondence", "lexer model and implementation disagree", tie=True, layer="correspondence B (lex)", statement=s)
    res.samples.append({"canonical": "\n".join(scripts[0]), "variant": variants[0][1]})
    res.samples.append({"variant": variants[4][1]})


def replay(ctx, payload):
    if payload.get("oracle") == "layout":
        a = ctx.impl.one({"op": "run", "ddl": payload["canonical"]})
        b = ctx.impl.one({"op": "run", "ddl": payload["ddl"]})
        return not ("ok" in a and "ok" in b and canon_impl(a["ok"]) == canon_impl(b["ok"]))
    return True
