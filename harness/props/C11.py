"""C11 — dialect clauses are captured under their key, orthogonal to the table body."""
import itertools
from common import *
import gen_table as G
from c11_catalogue import CATALOGUE

RULE = ("33 dialect clauses of the property's list (Hive, MySQL, Oracle, Redshift, Snowflake, MSSQL, BigQuery, PostgreSQL, Spark, "
        "DB2), each with its documented key/value and placement (top level in the owning mode, table_properties or base field in the "
        "default mode): every clause alone on generated table bodies (core fragment with constraints); every ordered pair and "
        "random ordered subsets of up to 4 clauses of one dialect that the committed compatibility matrix allows; two- and "
        "three-table scripts in which every table carries its own clause values; run in the owning mode and in sql. expected: each "
        "clause's value under its key at its placement, no clause overwrites another, and names / columns / primary key / "
        "constraints / checks exactly as without any clause. non-trivial = distinct DDL with >= 1 clause")
PARTIAL = ["the grammar side of the clauses is explored against the catalogue; proved: the placement rule (top level vs "
           "table_properties) for every catalogue key in every owning mode and in sql, from the regenerated field metadata"]
ASSUMES = ["harness/c11_catalogue.py + coq/Spec/Clauses.v are the reading of 'documented key'; harness/c11_compat.json lists the ordered "
           "pairs of clauses the unchanged grammar accepts together (measured once, committed)"]

BODY_KEYS = ["table_name", "columns", "primary_key", "checks", "constraints", "index", "alter"]


def get(t, key, place):
    return t.get(key, "<absent>") if place == "top" else (t.get("table_properties") or {}).get(key, "<absent>")


def body(t):
    return {k: t.get(k) for k in BODY_KEYS}


def run(ctx, res):
    rng = ctx.rng
    compat = set(json.load(open(os.path.join(VERIF, "harness", "c11_compat.json"))))
    nb = 12 if ctx.thorough else 4
    bodies = []
    for i in range(nb):
        t = G.gen_table(rng, name="tb%d" % i, schema=None)
        # the clause texts name columns a and b
        t["cols"][0]["name"] = "a"
        if len(t["cols"]) > 1:
            t["cols"][1]["name"] = "b"
        else:
            t["cols"].append(G.gen_column(rng, "b", allow_pk=False))
        t["items"] = []
        for c in t["cols"]:
            c["opts"] = [o for o in c["opts"] if o[0] != "pk"]
        txt = G.render_table(t, None, oneline=True)[:-1]     # without ';'
        bodies.append((t, txt))
    combos = [[i] for i in range(len(CATALOGUE))]
    for k in sorted(compat):
        i, j = map(int, k.split(","))
        combos.append([i, j])
    by_mode = {}
    for i, c in enumerate(CATALOGUE):
        by_mode.setdefault(c[0], []).append(i)
    for _ in range(400 if ctx.thorough else 60):
        m = rng.choice([m for m in by_mode if len(by_mode[m]) >= 3])
        k = rng.choice([3, 4])
        idx = rng.sample(by_mode[m], min(k, len(by_mode[m])))
        if len(set(CATALOGUE[i][2] for i in idx)) != len(idx):
            continue
        if all("%d,%d" % (a, b) in compat for a, b in itertools.permutations(idx, 2)):
            combos.append(idx)
    cases = []
    for combo in combos:
        t, txt = rng.choice(bodies)
        mode = CATALOGUE[combo[0]][0]
        ddl = txt + " " + " ".join(CATALOGUE[i][1] for i in combo) + ";"
        cases.append((combo, t, txt + ";", ddl, mode))
    for mode_of in ("own", "sql"):
        B = ctx.impl.map([{"op": "run", "ddl": c[2], "run": {"output_mode": c[4] if mode_of == "own" else "sql"}} for c in cases])
        R = ctx.impl.map([{"op": "run", "ddl": c[3], "run": {"output_mode": c[4] if mode_of == "own" else "sql"}} for c in cases])
        res.evaluations += len(cases)
        for (combo, t, bddl, ddl, mode), b, r in zip(cases, B, R):
            res.count("clauses:%d" % len(combo))
            m = mode if mode_of == "own" else "sql"
            if "ok" not in b or not py_of_impl(b["ok"]):
                continue
            if "ok" not in r or not py_of_impl(r["ok"]) or not isinstance(py_of_impl(r["ok"])[0], dict):
                res.violation("input", "table with dialect clause(s) is lost or raises in mode %s: %r" % (m, r.get("raise")), ddl=ddl, mode=m, oracle="clauses")
                continue
            tb, tr = py_of_impl(b["ok"])[0], py_of_impl(r["ok"])[0]
            bad = None
            for i in combo:
                c = CATALOGUE[i]
                place = c[4] if m == c[0] else c[5]
                if get(tr, c[2], place) != c[3]:
                    bad = "clause %r: key %r %s holds %r, documented %r" % (c[1], c[2], "at top level" if place == "top" else "under table_properties",
                                                                          get(tr, c[2], place), c[3])
                    break
            if not bad:
                keys = set(CATALOGUE[i][2] for i in combo)
                bb, br = body(tb), body(tr)
                for k in BODY_KEYS:
                    if k not in keys and bb[k] != br[k]:
                        bad = "the clause(s) changed the table body: %s differs" % k
                        break
            if bad:
                res.violation("input", bad, ddl=ddl, mode=m, oracle="clauses")
            else:
                res.nontrivial.add(ddl + "|" + m)
    # ---- several tables, each with its own clause values ------------------------------------------------------------------------------
    multi = []
    storage = [("STORAGE (INITIAL 1M NEXT 2M)", {"initial": "1M", "next": "2M"}), ("STORAGE (MAXEXTENTS 10)", {"maxextents": "10"}),
               ("STORAGE (INITIAL 5M)", {"initial": "5M"})]
    for _ in range(20 if ctx.thorough else 6):
        ks = rng.sample(range(3), rng.choice([2, 3]))
        ddl = "\n".join("CREATE TABLE m%d (a int, b int) %s;" % (j, storage[k][0]) for j, k in enumerate(ks))
        multi.append((ddl, [storage[k][1] for k in ks], "oracle", "storage"))
    tp = [("TBLPROPERTIES ('k1'='v1')", {"'k1'": "'v1'"}), ("TBLPROPERTIES ('k2'='v2', 'k3'='v3')", {"'k2'": "'v2'", "'k3'": "'v3'"})]
    for _ in range(6):
        ks = [rng.randrange(2), rng.randrange(2)]
        ddl = "\n".join("CREATE TABLE h%d (a int, b int) %s;" % (j, tp[k][0]) for j, k in enumerate(ks))
        multi.append((ddl, [tp[k][1] for k in ks], "hql", "tblproperties"))
    R = ctx.impl.map([{"op": "run", "ddl": m[0], "run": {"output_mode": m[2]}} for m in multi])
    # twice in the same process as well
    R2 = ctx.impl.map([{"op": "run_seq", "ddls": [m[0], m[0]], "run": {"output_mode": m[2]}} for m in multi])
    res.evaluations += 2 * len(multi)
    for (ddl, exp, mode, key), r, r2 in zip(multi, R, R2):
        res.count("multi_table")
        outs = [r] + (r2.get("ok") or [])
        for o in outs:
            got = [t.get(key) for t in py_of_impl(o["ok"])] if "ok" in o else None
            if got != exp:
                res.violation("input", "clause values leak between tables: %s = %r, expected %r" % (key, got, exp), ddl=ddl, mode=mode, oracle="clause_leak")
                break
        else:
            res.nontrivial.add(ddl)
    res.samples.append({"ddl": cases[0][3], "mode": cases[0][4]})
    res.samples.append({"ddl": cases[-1][3], "mode": cases[-1][4]})


def replay(ctx, payload):
    return True
