"""C11 — dialect clauses are captured under their key, orthogonal to the table body."""
import itertools
from common import *
import gen_table as G
from c11_catalogue import CATALOGUE

RULE = ("33 dialect clauses of the property's list (Hive, MySQL, Oracle, Redshift, Snowflake, MSSQL, BigQuery, PostgreSQL, Spark, "
        "DB2), each with its documented key/value and placement (top level in the owning mode, table_properties or base field in the "
        "default mode): every clause alone on generated table bodies (core fragment with constraints); every ordered pair and "
        "random ordered subsets of up to 4 clauses of one dialect that the committed compatibility matrix allows; two- and "
        "three-table scripts in which every table carries its own clause values; run in the owning mode and in sql. expected: each "
        "clause's value under its key at its placement, no clause overwrites another, and names / columns / primary key / "
        "constraints / checks exactly as without any clause. non-trivial = distinct DDL with >= 1 clause")
PARTIAL = ["the grammar side of the clauses is explored against the catalogue; proved: the placement rule (top level vs "
           "table_properties) for every catalogue key in every owning mode and in sql, from the regenerated field metadata"]
ASSUMES = ["harness/c11_catalogue.py + coq/Spec/Clauses.v are the reading of 'documented key'; harness/c11_compat.json lists the ordered "
           "pairs of clauses the unchanged grammar accepts together (measured once, committed)"]

BODY_KEYS = ["table_name", "columns", "primary_key", "checks", "constraints", "index", "alter"]


def get(t, key, place):
    return t.get(key, "<absent>") if place == "top" else (t.get("table_properties") or {}).get(key, "<absent>")


def body(t):
    return {k: t.get(k) for k in BODY_KEYS}


def gen_clause_args(rng):
    """one clause of the fragment under C11_clauses_after_the_table_exact: tag + five words (unused ones empty)"""
    from props import C01 as P1
    k = rng.randrange(18)
    lit = lambda: rng.choice(["','", "'|'", "'\\t'", "'x'", "';'", "'a b'"])
    if k == 0:
        c = ["TS", P1.kwc(rng, "TABLESPACE"), rng.choice(["ts1", "Users_ts", "t_2"])]
    elif k == 1:
        c = ["ST", P1.kwc(rng, "STORED"), P1.kwc(rng, "AS"), rng.choice(["TEXTFILE", "parquet", "ORC"])]
    elif k == 2:
        c = ["LO", P1.kwc(rng, "LOCATION"), rng.choice(["'s3://b/p'", "'/data/x y'", "'p'"])]
    elif k == 3:
        c = ["EN", P1.kwc(rng, "ENGINE"), rng.choice(["InnoDB", "MyISAM", "x1"])]
    elif k == 4:
        c = ["CO", P1.kwc(rng, "COMMENT"), rng.choice(["'tbl'", "'a b c'", "'x-1'"])]
    elif k == 5:
        c = ["US", P1.kwc(rng, "USING"), rng.choice(["parquet", "delta", "csv"])]
    elif k == 6:
        c = ["IN", P1.kwc(rng, "IN"), rng.choice(["ts1", "space_2"])]
    elif k == 7:
        c = ["RS", P1.kwc(rng, "ROW"), P1.kwc(rng, "FORMAT"), P1.kwc(rng, "SERDE"), rng.choice(["'org.apache.hadoop.hive.serde2.OpenCSVSerde'", "'my.Serde'"])]
    elif k == 8:
        c = ["RW", P1.kwc(rng, "ROW"), P1.kwc(rng, "FORMAT"), rng.choice(["DELIMITED", "delimited", "Delimited"])]
    elif k == 9:
        c = ["TE", rng.choice(["FIELDS", "LINES", "fields", "Lines"]), P1.kwc(rng, "TERMINATED"), P1.kwc(rng, "BY"), lit()]
    elif k == 10:
        c = ["CI", P1.kwc(rng, "COLLECTION"), P1.kwc(rng, "ITEMS"), P1.kwc(rng, "TERMINATED"), P1.kwc(rng, "BY"), lit()]
    elif k == 11:
        c = ["MK", P1.kwc(rng, "MAP"), P1.kwc(rng, "KEYS"), P1.kwc(rng, "TERMINATED"), P1.kwc(rng, "BY"), lit()]
    elif k == 12:
        c = ["CS", P1.kwc(rng, "COMMENT"), rng.choice(["'tbl'", "'a b c'", "'x-1'"])]
    elif k == 13:
        c = ["GE", rng.choice(["DISTSTYLE", "diststyle", "Backup", "SORTSTYLE"]), rng.choice(["EVEN", "ALL", "auto", "x1"])]
    elif k == 14:
        c = ["IT", P1.kwc(rng, "INTO"), rng.choice(["4", "32", "1"]), rng.choice(["BUCKETS", "buckets"])]
    elif k == 15:
        c = ["DK", rng.choice(["DISTKEY", "distkey", "Distkey"]), rng.choice(["a", "b", "col_1"])]
    elif k == 16:
        c = ["ON", P1.kwc(rng, "ON"), rng.choice(["fg1", "[PRIMARY]", "Main"])]
    else:
        c = ["TO", P1.kwc(rng, "TEXTIMAGE_ON"), rng.choice(["fg2", "[PRIMARY]"])]
    return c + [""] * (6 - len(c))


def theorem_forms(ctx, res):
    """the forms under C11_clauses_after_the_table_exact: the expected entity is the extracted Coq denote_x; whole runs are compared
    with the model's run"""
    from props import C01 as P1
    from props import C02 as P2
    rng = ctx.rng
    n = 1200 if ctx.thorough else 250
    asts = []
    for i in range(n):
        t = G.gen_table(rng, constraints=(i % 2 == 0), ncols=rng.choice([1, 2, 3, 5]))
        t["items"] = [it for it in t["items"] if it[0] != "check"]
        cl = []
        for _ in range(rng.choice([0, 1, 1, 2, 3, 5, 8])):
            c = gen_clause_args(rng)
            if c[0] in ("IN", "TE", "GE", "DK") and cl and cl[-1][0] == "TS":
                continue                   # TABLESPACE x IN ... / TABLESPACE x word ... is one clause (tablespace properties) for the grammar
            cl.append(c)
        args = P2.clause_args(t, rng) + ["CLAUSES"] + [x for c in cl for x in c]
        asts.append((t, cl, args))
    for norm in (False, True):
        sp = ctx.model.map([("tabx_spec", ["1" if norm else "0"] + a) for _, _, a in asts])
        texts = [P1.text_of_lexemes(s_["lexemes"], rng) if "lexemes" in s_ else None for s_ in sp]
        SC = ctx.model.map([("scan", [t or ""]) for t in texts])
        TR = ctx.impl.map([{"op": "trace", "s": t or "", "ctor": {"normalize_names": norm}} for t in texts])
        res.evaluations += len(asts)
        for (t, cl, a), s_, x, sc, tr in zip(asts, sp, texts, SC, TR):
            if not s_.get("wf") or "ok" not in s_.get("denote", {}):
                res.count("theorem_form:not_wf")
                continue
            res.count("theorem_form:clauses:%d" % len(cl))
            if "ok" not in sc or [list(l) for l in sc["ok"]] != [list(l) for l in s_["lexemes"]]:
                res.violation("correspondence", "the scanner model does not cut the rendered statement into the lexemes of the specification",
                              stmt=x, oracle="scan")
                continue
            io = impl_outcome(tr)
            got = canon_impl(io[1]["result"]) if io[0] == "ok" and io[1]["result"] is not None else ("raise/none", str(io)[:200])
            if got != canon_model(s_["denote"]["ok"]):
                res.violation("input", "parser stage: the entity differs from the Coq specification (Table.denote_x): %s" %
                              (json.dumps(py_of_impl(io[1]["result"]))[:600] if io[0] == "ok" else str(io)), stmt=x, norm=norm, args=a,
                              oracle="coq_denote")
            else:
                res.nontrivial.add(x)
        if not norm:
            corr_run(ctx, res, [x.rstrip() + ";\n" for x, s_ in zip(texts, sp) if x and s_.get("wf")][:: (1 if ctx.thorough else 3)],
                     label="F:run(clause forms)")


def run(ctx, res):
    rng = ctx.rng
    compat = set(json.load(open(os.path.join(VERIF, "harness", "c11_compat.json"))))
    nb = 12 if ctx.thorough else 4
    bodies = []
    for i in range(nb):
        t = G.gen_table(rng, name="tb%d" % i, schema=None)
        # the clause texts name columns a and b
        t["cols"][0]["name"] = "a"
        if len(t["cols"]) > 1:
            t["cols"][1]["name"] = "b"
        else:
            t["cols"].append(G.gen_column(rng, "b", allow_pk=False))
        t["items"] = []
        for c in t["cols"]:
            c["opts"] = [o for o in c["opts"] if o[0] != "pk"]
        txt = G.render_table(t, None, oneline=True)[:-1]     # without ';'
        bodies.append((t, txt))
    combos = [[i] for i in range(len(CATALOGUE))]
    for k in sorted(compat):
        i, j = map(int, k.split(","))
        combos.append([i, j])
    by_mode = {}
    for i, c in enumerate(CATALOGUE):
        by_mode.setdefault(c[0], []).append(i)
    for _ in range(400 if ctx.thorough else 60):
        m = rng.choice([m for m in by_mode if len(by_mode[m]) >= 3])
        k = rng.choice([3, 4])
        idx = rng.sample(by_mode[m], min(k, len(by_mode[m])))
        if len(set(CATALOGUE[i][2] for i in idx)) != len(idx):
            continue
        if all("%d,%d" % (a, b) in compat for a, b in itertools.permutations(idx, 2)):
            combos.append(idx)
    cases = []
    for combo in combos:
        t, txt = rng.choice(bodies)
        mode = CATALOGUE[combo[0]][0]
        ddl = txt + " " + " ".join(CATALOGUE[i][1] for i in combo) + ";"
        if rng.random() < 0.35:
            # a trailing comment on the line of the clauses (with an apostrophe, a quote, an equals sign): it changes nothing
            ddl += rng.choice([" -- don't change", " -- it's the owner's choice", " -- k=v isn't parsed", ' -- say "hi"'])
        cases.append((combo, t, txt + ";", ddl, mode))
    for mode_of in ("own", "sql"):
        B = ctx.impl.map([{"op": "run", "ddl": c[2], "run": {"output_mode": c[4] if mode_of == "own" else "sql"}} for c in cases])
        R = ctx.impl.map([{"op": "run", "ddl": c[3], "run": {"output_mode": c[4] if mode_of == "own" else "sql"}} for c in cases])
        res.evaluations += len(cases)
        for (combo, t, bddl, ddl, mode), b, r in zip(cases, B, R):
            res.count("clauses:%d" % len(combo))
            m = mode if mode_of == "own" else "sql"
            if "ok" not in b or not py_of_impl(b["ok"]):
                continue
            if "ok" not in r or not py_of_impl(r["ok"]) or not isinstance(py_of_impl(r["ok"])[0], dict):
                res.violation("input", "table with dialect clause(s) is lost or raises in mode %s: %r" % (m, r.get("raise")), ddl=ddl, mode=m, oracle="clauses")
                continue
            tb, tr = py_of_impl(b["ok"])[0], py_of_impl(r["ok"])[0]
            bad = None
            for i in combo:
                c = CATALOGUE[i]
                place = c[4] if m == c[0] else c[5]
                if get(tr, c[2], place) != c[3]:
                    bad = "clause %r: key %r %s holds %r, documented %r" % (c[1], c[2], "at top level" if place == "top" else "under table_properties",
                                                                          get(tr, c[2], place), c[3])
                    break
            if not bad:
                keys = set(CATALOGUE[i][2] for i in combo)
                bb, br = body(tb), body(tr)
                for k in BODY_KEYS:
                    if k not in keys and bb[k] != br[k]:
                        bad = "the clause(s) changed the table body: %s differs" % k
                        break
            if bad:
                res.violation("input", bad, ddl=ddl, mode=m, oracle="clauses")
            else:
                res.nontrivial.add(ddl + "|" + m)
    # ---- several tables, each with its own clause values ------------------------------------------------------------------------------
    multi = []
    storage = [("STORAGE (INITIAL 1M NEXT 2M)", {"initial": "1M", "next": "2M"}), ("STORAGE (MAXEXTENTS 10)", {"maxextents": "10"}),
               ("STORAGE (INITIAL 5M)", {"initial": "5M"})]
    for _ in range(20 if ctx.thorough else 6):
        ks = rng.sample(range(3), rng.choice([2, 3]))
        ddl = "\n".join("CREATE TABLE m%d (a int, b int) %s;" % (j, storage[k][0]) for j, k in enumerate(ks))
        multi.append((ddl, [storage[k][1] for k in ks], "oracle", "storage"))
    tp = [("TBLPROPERTIES ('k1'='v1')", {"'k1'": "'v1'"}), ("TBLPROPERTIES ('k2'='v2', 'k3'='v3')", {"'k2'": "'v2'", "'k3'": "'v3'"})]
    for _ in range(6):
        ks = [rng.randrange(2), rng.randrange(2)]
        ddl = "\n".join("CREATE TABLE h%d (a int, b int) %s;" % (j, tp[k][0]) for j, k in enumerate(ks))
        multi.append((ddl, [tp[k][1] for k in ks], "hql", "tblproperties"))
    R = ctx.impl.map([{"op": "run", "ddl": m[0], "run": {"output_mode": m[2]}} for m in multi])
    # twice in the same process as well
    R2 = ctx.impl.map([{"op": "run_seq", "ddls": [m[0], m[0]], "run": {"output_mode": m[2]}} for m in multi])
    res.evaluations += 2 * len(multi)
    for (ddl, exp, mode, key), r, r2 in zip(multi, R, R2):
        res.count("multi_table")
        outs = [r] + (r2.get("ok") or [])
        for o in outs:
            got = [t.get(key) for t in py_of_impl(o["ok"])] if "ok" in o else None
            if got != exp:
                res.violation("input", "clause values leak between tables: %s = %r, expected %r" % (key, got, exp), ddl=ddl, mode=mode, oracle="clause_leak")
                break
        else:
            res.nontrivial.add(ddl)
    res.samples.append({"ddl": cases[0][3], "mode": cases[0][4]})
    res.samples.append({"ddl": cases[-1][3], "mode": cases[-1][4]})
    if ctx.model:
        theorem_forms(ctx, res)


def replay(ctx, payload):
    return True
