"""C12 — successful output has the documented shape and is JSON-serialisable."""
from common import *
import gen_table as G
import gen_hist as H

RULE = ("every DDL harvested from /repo/tests + generated table fragments + ALTER/INDEX histories x every output mode x "
        "group_by_type in {False, True}: shape validator on the returned value (list of dicts; table keys and their kinds; the 8 "
        "column keys with boolean unique/nullable), every value inside the JSON universe, and run(json_dump=True) == "
        "json.dumps(run()) computed in the same process; on generated fragments additionally primary_key is a list of that "
        "table's column names. non-trivial = distinct (DDL, mode) with >= 1 table")
PARTIAL = ["'JSON-serialisable' for the implementation is monitored on every explored input (a value outside the JSON universe is "
           "reported) rather than proved; the key-presence theorem covers every mode and every parser output",
           "column entries having the 8 documented keys depends on the semantic actions (p_defcolumn): explored"]
ASSUMES = ["Gen/Fields.v is the live dataclass metadata of every mode"]

TABLE_KEYS = {"table_name": (str,), "primary_key": (list,), "columns": (list,), "alter": (dict,), "checks": (list,),
              "index": (list,), "partitioned_by": (list,), "tablespace": (str, type(None), dict)}
COL_KEYS = ["name", "type", "size", "references", "unique", "nullable", "default", "check"]

JSON_CHECK = r'''
import json
p = DDLParser(req["ddl"])
a = p.run(output_mode=req["mode"], group_by_type=req["group"])
b = DDLParser(req["ddl"]).run(output_mode=req["mode"], group_by_type=req["group"], json_dump=True)
out = {"same": isinstance(b, str) and b == json.dumps(a), "type": type(b).__name__}
'''


def shape_errors(v, mode, strict_cols=False):
    errs = []
    if not isinstance(v, list):
        return ["result is %s, not a list" % type(v).__name__]
    sk = "dataset" if mode == "bigquery" else "schema"
    for e in v:
        if not isinstance(e, dict):
            errs.append("entity is %s" % type(e).__name__)
            continue
        if "table_name" not in e:
            continue
        for k, kinds in TABLE_KEYS.items():
            if k not in e:
                errs.append("table %r lacks key %r" % (e.get("table_name"), k))
            elif not isinstance(e[k], kinds):
                errs.append("table %r: %s is %s" % (e.get("table_name"), k, type(e[k]).__name__))
        if sk not in e:
            errs.append("table %r lacks key %r" % (e.get("table_name"), sk))
        for c in e.get("columns", []) if isinstance(e.get("columns"), list) else []:
            if not isinstance(c, dict):
                errs.append("column entry is %s" % type(c).__name__)
                continue
            if "type" not in c and not strict_cols:
                continue       # the stub of an ALTER ... ADD FOREIGN KEY on an undeclared column (an input that names one)
            for k in COL_KEYS:
                if k not in c:
                    errs.append("column %r lacks key %r" % (c.get("name"), k))
            for k in ("unique", "nullable"):
                if k in c and not isinstance(c[k], bool):
                    errs.append("column %r: %s is %s" % (c.get("name"), k, type(c[k]).__name__))
    return errs


def run(ctx, res):
    rng = ctx.rng
    dump = json.load(open(os.path.join(COQ, "Gen", "dump.json")))
    modes = dump["modes"]
    ddls = harvest_test_ddl(ctx.scratch)
    tabs = [G.gen_table(rng) for _ in range(300 if ctx.thorough else 50)]
    gen = [G.render_table(t, rng) for t in tabs]
    hist = [H.gen_history(rng)["text"] for _ in range(200 if ctx.thorough else 30)]
    if not ctx.thorough:
        ddls = ddls[::2]
    # directed: a column declared with one kind of delimiter and named with another (or none) by a later ALTER ... FOREIGN KEY —
    # every column entry of the table must still have the documented keys
    directed = []
    for q1 in H.QUOTES[:4]:
        for q2 in H.QUOTES[:4]:
            directed.append("CREATE TABLE t (%s int, %s int NOT NULL, note varchar(10));\nALTER TABLE t ADD CONSTRAINT fk_c FOREIGN KEY (%s) "
                            "REFERENCES customers (id);\n" % (q1("id"), q1("customer_id"), q2("customer_id")))
    # directed: histories in which a column is renamed (or dropped and added again) after an earlier ALTER touched the table, and is then
    # named by a later ADD ... FOREIGN KEY / UNIQUE: no stub entry may appear among the columns
    for first in ("ALTER TABLE t ADD extra int;", "ALTER TABLE t ADD CONSTRAINT fk0 FOREIGN KEY (id) REFERENCES p (id);", "ALTER TABLE t ADD UNIQUE (note);"):
        for mid, col in (("ALTER TABLE t RENAME COLUMN customer_id TO cust;", "cust"),
                         ("ALTER TABLE t DROP COLUMN customer_id;\nALTER TABLE t ADD customer_id bigint;", "customer_id")):
            directed.append("CREATE TABLE t (id int, customer_id int NOT NULL, note varchar(10));\n%s\n%s\n"
                            "ALTER TABLE t ADD CONSTRAINT fk_c FOREIGN KEY (%s) REFERENCES customers (id);\n" % (first, mid, col))
    allddl = [(d, None) for d in ddls] + list(zip(gen, tabs)) + [(h, "hist") for h in hist] + [(d, "hist") for d in directed]
    for mode in modes:
        for group in (False, True):
            if not ctx.thorough and group and mode not in ("sql", "hql", "bigquery"):
                continue
            R = ctx.impl.map([{"op": "run", "ddl": d, "run": {"output_mode": mode, "group_by_type": group}} for d, _ in allddl])
            res.evaluations += len(allddl)
            for (d, t), r in zip(allddl, R):
                res.count("mode:" + mode)
                if "nonpyval" in r:
                    res.violation("input", "result holds a value outside the JSON universe: %s" % r["nonpyval"], ddl=d, mode=mode, group=group, oracle="shape")
                    continue
                if "ok" not in r:
                    continue       # raising inputs are not 'supported, well-formed DDL' (C04/C16 territory)
                v = py_of_impl(r["ok"])
                if group:
                    if not isinstance(v, dict):
                        res.violation("input", "group_by_type result is not a dict", ddl=d, mode=mode, group=group, oracle="shape")
                        continue
                    flat = [e for k, l in v.items() if k != "comments" and isinstance(l, list) for e in l]
                else:
                    flat = v
                errs = shape_errors(flat, mode, strict_cols=(t is not None))    # generated inputs only name declared columns
                if isinstance(t, dict) and not group and flat and isinstance(flat[0], dict):
                    names = [c.get("name") for c in flat[0].get("columns", [])]
                    pk = flat[0].get("primary_key")
                    if not isinstance(pk, list) or any(x not in names for x in pk):
                        errs.append("primary_key %r is not a list of the table's column names %r" % (pk, names))
                if errs:
                    res.violation("input", "; ".join(errs[:4]), ddl=d, mode=mode, group=group, oracle="shape")
                elif any(isinstance(e, dict) and "table_name" in e for e in flat):
                    res.nontrivial.add(json.dumps([d, mode]))
    # ---- json_dump=True returns exactly the JSON encoding -----------------------------------------------------------
    sample = allddl if ctx.thorough else allddl[::2]
    for mode in (modes if ctx.thorough else ["sql", "mysql", "bigquery", "snowflake"]):
        for group in (False, True):
            R = ctx.impl.map([{"op": "pyexec", "code": JSON_CHECK, "ddl": d, "mode": mode, "group": group} for d, _ in sample])
            res.evaluations += len(sample)
            for (d, _), r in zip(sample, R):
                res.count("json_dump")
                if "ok" in r and not r["ok"]["same"]:
                    res.violation("input", "json_dump=True returned %s that is not json.dumps of the result" % r["ok"]["type"],
                                  ddl=d, mode=mode, group=group, oracle="json_dump")
                if r.get("raise") == "TypeError":
                    res.violation("input", "json.dumps failed: %s" % r.get("msg"), ddl=d, mode=mode, group=group, oracle="json_dump")
    # dump=True together with json_dump=True (files are written into a scratch directory)
    DUMP = JSON_CHECK.replace('json_dump=True)', 'json_dump=True, dump=True, dump_path=req["tmp"])')
    import tempfile, shutil
    tmp = tempfile.mkdtemp(prefix="sdp_c12_", dir=TMPBASE)
    try:
        R = ctx.impl.map([{"op": "pyexec", "code": DUMP, "ddl": d, "mode": "sql", "group": False, "tmp": tmp} for d in gen[:20]])
        for d, r in zip(gen[:20], R):
            res.evaluations += 1
            if "ok" in r and not r["ok"]["same"]:
                res.violation("input", "run(dump=True, json_dump=True) returned %s, not the JSON text" % r["ok"]["type"], ddl=d,
                              mode="sql", oracle="json_dump_with_dump")
    finally:
        shutil.rmtree(tmp, ignore_errors=True)
    res.samples.append({"ddl": gen[0]})
    res.samples.append({"ddl": hist[0]})


def replay(ctx, payload):
    return True
