"""C07 — string and numeric literals are reported exactly as written."""
from common import *

RULE = ("literals drawn from the class the unchanged code preserves — letters, digits, runs of 1-4 spaces, _ . : ! ? @ $ % & * + - / "
        "< > [ ] { } | ~ ; # \" the line-comment marker -- (also after an unpaired \") and doubled quotes '' (never '/*', '*/', comma, parentheses, '=', backslash, non-ASCII: those are "
        "the known-finding mechanisms D7) — placed as column DEFAULT, column COMMENT, operand of an inline CHECK, member of a "
        "CHECK ... IN list, column ENUM value (every position of the list), CREATE TYPE ... AS ENUM value, table COMMENT= option and "
        "LOCATION; purely numeric defaults of 1-30 digits incl. leading zeros. expected: the value reported equals the literal as "
        "written incl. its quotes; numeric defaults are ints of the same value. non-trivial = distinct DDL whose literal has >= 3 "
        "characters")
PARTIAL = ["fidelity holds for the safe literal class only; the full statement of the property is false of the code (D7: comma / "
           "parenthesis / equals re-spacing inside literals, non-ASCII mangling, comment markers) — known findings, one per mechanism",
           "the semantic actions p_default / p_comment / p_check_st are not under a theorem; proved: int() of a decimal rendering is "
           "the integer itself for all integers, quoted pieces are concatenated verbatim by p_string"]
ASSUMES = []

SAFE = "abcdefghijklmnopqrstuvwxyzABCDEFGHIJKLMNOPQRSTUVWXYZ0123456789_.:!?@$%&*+/<>[]{}|~;\"#"


def lit(rng, allow_qq=True):
    n = rng.choice([0, 1, 2, 3, 5, 8, 13, 21])
    out = ""
    while len(out) < n:
        k = rng.random()
        if k < 0.2 and out and not out.endswith(" "):
            out += " " * rng.choice([1, 1, 2, 3, 4])
        elif k < 0.25 and allow_qq and out:
            out += "''"
        elif k < 0.3:
            out += "-"
        elif k < 0.36:
            out += rng.choice(["--", " -- ", '"', '" -- ', "#", " # ", "; drop table tmp", "; CREATE TABLE y", ";alter table q add c int",
                               "; Drop index i", " create table z"])        # whole statements inside a literal are plain text
        else:
            out += rng.choice(SAFE)
    out = out.strip().replace("/*", "/ *").replace("*/", "* /")
    if out.endswith(";"):
        out += "z"
    return "'" + out + "'"


FINDINGS = [
    ("D7-comma", "CREATE TABLE t (a text DEFAULT 'a, b');", "'a, b'", "a comma inside a literal is re-spaced by the pre-processor"),
    ("D7-paren", "CREATE TABLE t (a text DEFAULT '(x)');", "'(x)'", "parentheses inside a literal are re-spaced by the pre-processor"),
    ("D7-equals", "CREATE TABLE t (a text DEFAULT 'a=b');", "'a=b'", "an equals sign inside a literal is re-spaced"),
    ("D7-nonascii", "CREATE TABLE t (a text DEFAULT 'ü');", "'ü'", "a non-ASCII character inside a literal is mangled (\\x -> \\0)"),
]


def default_of(r):
    v = py_of_impl(r["ok"]) if "ok" in r else None
    try:
        return v[0]["columns"][0]["default"]
    except Exception:
        return ("no value", r.get("raise"))


def run(ctx, res):
    rng = ctx.rng
    n = 4000 if ctx.thorough else 500
    cases = []
    for i in range(n):
        k = i % 9
        L = lit(rng)
        if k == 0:
            cases.append(("default", "CREATE TABLE t (a varchar(50) DEFAULT %s, b int);" % L, L, lambda v: v[0]["columns"][0]["default"]))
        elif k == 1:
            cases.append(("col_comment", "CREATE TABLE t (a int COMMENT %s, b int);" % L, L, lambda v: v[0]["columns"][0]["comment"]))
        elif k == 2:
            tail = rng.choice(["", "", " NOT NULL", " DEFAULT 'd'", " NULL UNIQUE", " NOT NULL DEFAULT 1"])      # options after the CHECK
            cases.append(("check_operand", "CREATE TABLE t (a text CHECK (a <> %s)%s, b int);" % (L, tail), "a <> " + L, lambda v: v[0]["columns"][0]["check"]))
        elif k == 3:
            Ls = [lit(rng) for _ in range(rng.randint(1, 4))]
            cases.append(("check_in", "CREATE TABLE t (a text, CONSTRAINT ck CHECK (a IN (%s)));" % ", ".join(Ls), Ls,
                          lambda v: v[0]["checks"][0]["statement"]["in_statement"]["in"]))
        elif k == 4:
            Ls = [lit(rng) for _ in range(rng.randint(1, 5))]
            cases.append(("col_enum", "CREATE TABLE t (a ENUM(%s), b int);" % ",".join(Ls), Ls, lambda v: v[0]["columns"][0]["values"]))
        elif k == 5:
            Ls = [lit(rng) for _ in range(rng.randint(1, 5))]
            cases.append(("type_enum", "CREATE TYPE ty AS ENUM (%s);" % ", ".join(Ls), Ls, lambda v: v[0]["properties"]["values"]))
        elif k == 6:
            cases.append(("table_comment", "CREATE TABLE t (a int) COMMENT=%s;" % L, L, lambda v: v[0]["comment"]))
        elif k == 7:
            d = "".join(rng.choice("0123456789") for _ in range(rng.choice([1, 2, 4, 5, 9, 10, 19, 20, 30])))
            cases.append(("numeric_default", "CREATE TABLE t (a numeric DEFAULT %s NOT NULL, b int);" % d, int(d), lambda v: v[0]["columns"][0]["default"]))
        else:
            L2 = lit(rng, allow_qq=False)
            cases.append(("location", "CREATE TABLE t (a int) LOCATION %s;" % L2, L2, lambda v: v[0]["location"], {"output_mode": "hql"}))
    R = ctx.impl.map([{"op": "run", "ddl": c[1], "run": (c[4] if len(c) > 4 else {})} for c in cases])
    res.evaluations += len(cases)
    for c, r in zip(cases, R):
        kind, ddl, exp, get = c[0], c[1], c[2], c[3]
        res.count("pos:" + kind)
        try:
            got = get(py_of_impl(r["ok"]))
        except Exception as e:
            got = ("no value", r.get("raise") or type(e).__name__)
        if got != exp or type(got) is not type(exp):
            res.violation("input", "%s literal reported as %r, written %r" % (kind, got, exp), ddl=ddl, oracle="literal")
        elif len(str(exp)) >= 5 or kind == "numeric_default":
            res.nontrivial.add(ddl)
    # ---- the known findings (D7): one witness per mechanism -----------------------------------------------------------------------
    for key, ddl, written, what in FINDINGS:
        r = ctx.impl.one({"op": "run", "ddl": ddl})
        got = default_of(r)
        if got != written:
            res.violation("input", "%s: written %r, reported %r" % (what, written, got), ddl=ddl, finding_key=key, oracle="finding")
    r = ctx.impl.one({"op": "run", "ddl": "CREATE TABLE t (a text DEFAULT '/* x */', b int);"})
    if "ok" not in r or default_of(r) != "'/* x */'":
        res.violation("input", "a comment marker inside a literal is treated as a comment: %r" % (r.get("raise") or default_of(r),),
                      ddl="CREATE TABLE t (a text DEFAULT '/* x */', b int);", finding_key="D7-comment-marker", oracle="finding")
    res.samples.append({"ddl": cases[0][1], "expected": cases[0][2]})
    res.samples.append({"ddl": cases[4][1], "expected": cases[4][2]})


def replay(ctx, payload):
    return True
