"""C13 — group_by_type is a lossless, order-preserving regrouping."""
from common import *
import gens

RULE = ("(a) generated flat lists of 0-12 entities drawn from every kind, entities with 2 marker keys, unmarked entities, "
        "comment items (incl. empty texts): model group_by_type_result vs Output.group_by_type_result; (b) end to end: every DDL "
        "harvested from /repo/tests + generated multi-kind scripts, in every output mode: run(group_by_type=False) vs True, "
        "checked against the regrouping specification. non-trivial = distinct input with >= 2 entities of >= 2 kinds")
PARTIAL = []
ASSUMES = ["Model/Output.v group_by_type_result mirrors Output.group_by_type_result: correspondence on every run"]

KEYS_MAP = [("table_name", "tables"), ("sequence_name", "sequences"), ("type_name", "types"), ("domain_name", "domains"),
            ("schema_name", "schemas"), ("tablespace_name", "tablespaces"), ("database_name", "databases"),
            ("value", "ddl_properties"), ("comments", "comments")]
ALWAYS = ["tables", "types", "sequences", "domains", "schemas", "ddl_properties"]


def kind_of(item):
    for k, b in KEYS_MAP:
        if k in item:
            return b
    return None


def spec_group(flat):
    """the regrouping the property describes, independent of the implementation"""
    out = {b: [] for b in ALWAYS}
    comments = []
    for it in flat:
        b = kind_of(it)
        if b is None:
            continue
        if b == "comments":
            comments += list(it["comments"])
        else:
            out.setdefault(b, []).append(it)
    if comments:
        out["comments"] = comments
    return out


def gen_entity(rng, i):
    k = rng.randrange(12)
    name = "n%d" % i
    if k == 0:
        return {"table_name": name, "schema": None, "columns": [], "alter": {}}
    if k == 1:
        return {"schema": None, "sequence_name": name, "start": rng.randrange(5)}
    if k == 2:
        return {"schema": None, "type_name": name, "base_type": "ENUM", "properties": {"values": ["'a'"]}}
    if k == 3:
        return {"schema": None, "domain_name": name, "base_type": "int", "properties": {}}
    if k == 4:
        return {"schema_name": name}
    if k == 5:
        return {"tablespace_name": name, "properties": None, "type": None, "temporary": False}
    if k == 6:
        return {"database_name": name}
    if k == 7:
        return {"name": name, "value": "v%d" % i}
    if k == 8:
        return {"comments": [rng.choice(["", " x", " a -- b", " c%d" % i]) for _ in range(rng.randrange(3))]}
    if k == 9:   # two marker keys
        a, b = rng.sample([x for x, _ in KEYS_MAP[:8]], 2)
        return {a: name, b: name + "_2"}
    if k == 10:  # no marker key
        return {"other": name}
    return {"table_name": name, "value": "also a value", "schema_name": "x"}


MULTI = [
    "CREATE SCHEMA s1;\nCREATE TABLE s1.t (a int, b varchar(10));\nCREATE SEQUENCE s1.sq START 1;\n-- a comment\nCREATE TYPE s1.ty AS ENUM ('a','b');\nCREATE DOMAIN s1.d AS int CHECK (value > 0);\nCREATE TABLE t2 (x int); -- trailing\n",
    "CREATE DATABASE db1;\nCREATE TABLESPACE ts1;\nCREATE TABLE a (b int);\nCREATE DATABASE db2;\nSET x = 1;\nCREATE TABLESPACE ts2;\n/* block */\nCREATE TABLE c (d int);\n",
    "CREATE TABLE a (b int, --\n c int);\nCREATE SEQUENCE q;\nCREATE TABLE e (f int);\nCREATE SEQUENCE r INCREMENT 2;\n",
]


def run(ctx, res):
    rng = ctx.rng
    # ---- (a) correspondence + spec on generated flat lists ---------------------------------------------
    n = 3000 if ctx.thorough else 400
    flats = []
    for _ in range(n):
        flats.append([gen_entity(rng, i) for i in range(rng.randrange(13))])
    I = ctx.impl.map([{"op": "group", "flat": enc_py(f)} for f in flats])
    M = ctx.model.map([("group", flat_encode(f)) for f in flats]) if ctx.model else [None] * len(flats)
    res.evaluations += len(flats)
    for f, i, m in zip(flats, I, M):
        io = impl_outcome(i)
        res.corr["E:group_by_type_result"] = res.corr.get("E:group_by_type_result", 0) + 1
        if m is not None and not same_outcome(io, model_outcome(m)):
            res.violation("correspondence", "model and implementation of group_by_type_result disagree", tie=True,
                          layer="correspondence E (group_by_type_result)", flat=f, impl=io, model=model_outcome(m))
        if io[0] != "ok":
            res.violation("input", "group_by_type_result raised %r" % (io,), flat=f, oracle="group_spec")
            continue
        got = py_of_impl(io[1])
        if got != spec_group(f):
            res.violation("input", "regrouping is not the lossless order-preserving one", flat=f, expected=spec_group(f),
                          actual=got, oracle="group_spec")
        elif len(f) >= 2 and len(set(kind_of(x) for x in f)) >= 2:
            res.nontrivial.add(json.dumps(f, sort_keys=True))
        res.count("flat_len:%d" % min(len(f), 12))
    # ---- (b) end to end ------------------------------------------------------------------------------------
    modes = json.load(open(os.path.join(COQ, "Gen", "dump.json")))["modes"] if ctx.gen_meta else ["sql"]
    ddls = harvest_test_ddl(ctx.scratch) + MULTI
    if not ctx.thorough:
        ddls = ddls[::3] + MULTI
        modes = ["sql", "bigquery", "hql", "mssql", "snowflake"]
    for mode in modes:
        A = ctx.impl.map([{"op": "run", "ddl": d, "run": {"output_mode": mode}} for d in ddls])
        B = ctx.impl.map([{"op": "run", "ddl": d, "run": {"output_mode": mode, "group_by_type": True}} for d in ddls])
        res.evaluations += len(ddls)
        for d, a, b in zip(ddls, A, B):
            res.count("e2e:" + mode)
            if "ok" not in a:
                if a.get("raise") != b.get("raise"):
                    res.violation("input", "flat run raised %r, grouped run %r" % (a.get("raise"), b.get("raise") or "ok"),
                                  ddl=d, mode=mode, oracle="group_e2e")
                continue
            if "ok" not in b:
                res.violation("input", "grouped run raised %r but flat run succeeded" % (b,), ddl=d, mode=mode, oracle="group_e2e")
                continue
            flat, grouped = py_of_impl(a["ok"]), py_of_impl(b["ok"])
            if grouped != spec_group(flat):
                res.violation("input", "group_by_type=True is not the regrouping of the flat result", ddl=d, mode=mode,
                              expected=spec_group(flat), actual=grouped, oracle="group_e2e")
            elif len(flat) >= 2 and len(set(kind_of(x) for x in flat)) >= 2:
                res.nontrivial.add(d)
    res.samples.append({"flat": flats[3], "grouped_spec": spec_group(flats[3])})
    res.samples.append({"ddl": MULTI[0]})


def replay(ctx, payload):
    if payload.get("oracle") == "group_spec":
        i = ctx.impl.one({"op": "group", "flat": enc_py(payload["flat"])})
        return not ("ok" in i and py_of_impl(i["ok"]) == spec_group(payload["flat"]))
    if payload.get("oracle") == "group_e2e":
        a = ctx.impl.one({"op": "run", "ddl": payload["ddl"], "run": {"output_mode": payload["mode"]}})
        b = ctx.impl.one({"op": "run", "ddl": payload["ddl"], "run": {"output_mode": payload["mode"], "group_by_type": True}})
        return not ("ok" in a and "ok" in b and py_of_impl(b["ok"]) == spec_group(py_of_impl(a["ok"])))
    return True
