"""C18 — types, domains, schemas, databases, tablespaces yield one exact entity each."""
from common import *

RULE = ("every statement form the property lists, with every option subset: CREATE TYPE [s.]n AS ENUM (1-5 values) | AS OBJECT "
        "(1-4 attributes) | AS TABLE (1-4 columns); CREATE DOMAIN [s.]n AS type(n) | AS ENUM (values) in any letter case; scripts of 2-5 such statements; CREATE SCHEMA [IF NOT EXISTS] n "
        "[AUTHORIZATION u] [COMMENT='c']; CREATE DATABASE n; CREATE [BIGFILE|SMALLFILE] [TEMPORARY] TABLESPACE n — keywords in "
        "random letter case, names plain / mixed case / keyword-like (comment, sequence, key, type, order ...); expected entity "
        "built from the statement's parts; a following table that uses the type as a column type must report the (possibly "
        "schema-qualified) type name verbatim. non-trivial = distinct statement")
PARTIAL = ["CREATE TABLESPACE / DATABASE / SCHEMA [IF NOT EXISTS] are under the engine theorem (names over 97 keywords + plain words); CREATE TYPE / "
           "DOMAIN and SCHEMA with AUTHORIZATION / COMMENT are explored against their specification",
           "CREATE DOMAIN without a parenthesised type parameter is not supported by the grammar (silently skipped): outside the forms checked"]
ASSUMES = []

NAMES = ["my_type", "Status", "addr", "t1", "comment", "sequence", "key", "type", "order", "data", "x_9"]
SCHEMAS = [None, None, "s", "Dev", "sequence", "key"]


def kwc(rng, w):
    return "".join(c.upper() if rng.random() < 0.5 else c.lower() for c in w) if rng.random() < 0.6 else w


def run(ctx, res):
    rng = ctx.rng
    n = 2500 if ctx.thorough else 400
    cases = []
    for i in range(n):
        k = i % 8
        name = rng.choice(NAMES)
        schema = rng.choice(SCHEMAS)
        qn = ((schema + ".") if schema else "") + name
        if k == 0:
            vals = ["'%s'" % rng.choice(["a", "b c", "x;y", "V1", "o''k"]) for _ in range(rng.randint(1, 5))]
            ddl = "%s %s %s %s %s (%s);" % (kwc(rng, "CREATE"), kwc(rng, "TYPE"), qn, kwc(rng, "AS"), kwc(rng, "ENUM"), ", ".join(vals))
            exp = {"schema": schema, "type_name": name, "properties": {"values": vals}, "base_type": None}
            cases.append(("type_enum", ddl, exp, "base_type_ci:ENUM"))
        elif k == 1:
            attrs = [("f%d" % j, rng.choice(["int", "varchar(20)", "date"])) for j in range(rng.randint(1, 4))]
            ddl = "%s %s %s %s %s (%s);" % (kwc(rng, "CREATE"), kwc(rng, "TYPE"), qn, kwc(rng, "AS"), kwc(rng, "OBJECT"),
                                          ", ".join("%s %s" % a for a in attrs))
            ea = []
            for f, t in attrs:
                ea.append({"name": f, "type": t.split("(")[0], "size": int(t.split("(")[1][:-1]) if "(" in t else None})
            exp = {"schema": schema, "type_name": name, "properties": {"attributes": ea}, "base_type": None}
            cases.append(("type_object", ddl, exp, "base_type_ci:OBJECT"))
        elif k == 2:
            colsd = [("c%d" % j, rng.choice(["int", "varchar(5)", "text"])) for j in range(rng.randint(1, 4))]
            ddl = "%s %s %s %s %s (%s);" % (kwc(rng, "CREATE"), kwc(rng, "TYPE"), qn, kwc(rng, "AS"), kwc(rng, "TABLE"),
                                          ", ".join("%s %s" % a for a in colsd))
            ec = []
            for f, t in colsd:
                ec.append({"name": f, "type": t.split("(")[0], "size": int(t.split("(")[1][:-1]) if "(" in t else None,
                           "references": None, "unique": False, "primary_key": False, "nullable": True, "default": None, "check": None})
            exp = {"schema": schema, "type_name": name, "properties": {"columns": ec}, "base_type": None}
            cases.append(("type_table", ddl, exp, None))
        elif k == 3:
            if rng.random() < 0.4:
                vals = ["'%s'" % rng.choice(["a", "b c", "x;y", "V1"]) for _ in range(rng.randint(1, 4))]
                en = kwc(rng, "ENUM")
                ddl = "%s %s %s %s %s (%s);" % (kwc(rng, "CREATE"), kwc(rng, "DOMAIN"), qn, kwc(rng, "AS"), en, ", ".join(vals))
                cases.append(("domain_enum", ddl, {"schema": schema, "domain_name": name, "base_type": en, "properties": {"values": vals}}, None))
                continue
            ty = rng.choice(["CHAR", "varchar", "numeric"])
            ddl = "%s %s %s %s %s(%d);" % (kwc(rng, "CREATE"), kwc(rng, "DOMAIN"), qn, kwc(rng, "AS"), ty, rng.randrange(1, 99))
            cases.append(("domain", ddl, {"schema": schema, "domain_name": name, "base_type": ty, "properties": {}}, None))
        elif k == 4:
            ine = rng.random() < 0.5
            auth = rng.choice([None, "joe", "Admin"])
            com = rng.choice([None, "'note'", "'a b'"])
            ddl = "%s %s %s%s%s%s;" % (kwc(rng, "CREATE"), kwc(rng, "SCHEMA"), (kwc(rng, "IF NOT EXISTS") + " ") if ine else "", name,
                                     (" AUTHORIZATION " + auth) if auth else "", (" COMMENT=" + com) if com else "")
            exp = {}
            if ine:
                exp["if_not_exists"] = True
            exp["schema_name"] = name
            if auth:
                exp["authorization"] = auth
            if com:
                exp["comment"] = com
            if auth and ine:
                continue          # combination outside the grammar's alternatives (IF NOT EXISTS id only)
            cases.append(("schema", ddl, exp, None))
        elif k == 5:
            ddl = "%s %s %s;" % (kwc(rng, "CREATE"), kwc(rng, "DATABASE"), name)
            cases.append(("database", ddl, {"database_name": name}, None))
        elif k in (6, 7):
            kind = rng.choice([None, "BIGFILE", "SMALLFILE"])
            temp = rng.random() < 0.5
            kw_kind = kwc(rng, kind) if kind else None
            ddl = "%s %s%s%s %s;" % (kwc(rng, "CREATE"), (kw_kind + " ") if kind else "", (kwc(rng, "TEMPORARY") + " ") if temp else "",
                                   kwc(rng, "TABLESPACE"), name)
            exp = {"tablespace_name": name, "properties": None, "type": kw_kind, "temporary": temp}
            cases.append(("tablespace", ddl, exp, None))
    R = ctx.impl.map([{"op": "run", "ddl": c[1]} for c in cases])
    res.evaluations += len(cases)
    for (kind, ddl, exp, note), r in zip(cases, R):
        res.count("form:" + kind)
        got = py_of_impl(r["ok"]) if "ok" in r else ("raise", r.get("raise"))
        e = dict(exp)
        if isinstance(got, list) and len(got) == 1 and isinstance(got[0], dict) and note and note.startswith("base_type_ci:"):
            bt = got[0].get("base_type")
            if isinstance(bt, str) and bt.upper() == note.split(":")[1]:
                e["base_type"] = bt            # the base type word is reported as written
        if got != [e]:
            res.violation("input", "%s: entity differs from the statement's parts: got %r" % (kind, got), ddl=ddl, expected=[e], oracle="entity")
        else:
            res.nontrivial.add(ddl)
    # ---- several of these statements in ONE script: one entity each, in order, none influenced by its neighbours ------------------
    good = [(c, py_of_impl(r["ok"])) for c, r in zip(cases, R) if "ok" in r and len(py_of_impl(r["ok"])) == 1]
    scripts = []
    for i in range(150 if ctx.thorough else 40):
        pick = [rng.choice(good) for _ in range(rng.randint(2, 5))]
        scripts.append(("\n".join(c[0][1] for c in pick), [c[1][0] for c in pick], [c[0][0] for c in pick]))
    R3 = ctx.impl.map([{"op": "run", "ddl": s_[0]} for s_ in scripts])
    res.evaluations += len(scripts)
    for (ddl, exp, kinds), r in zip(scripts, R3):
        res.count("script_of_entities")
        got = py_of_impl(r["ok"]) if "ok" in r else ("raise", r.get("raise"))
        if got != exp:
            res.violation("input", "a script of %s statements is not reported as one entity each, in order: got %r" % ("/".join(kinds), got),
                          ddl=ddl, expected=exp, oracle="entity_script")
        else:
            res.nontrivial.add(ddl)
    # ---- a table using the type as a column type -----------------------------------------------------------------------------
    uses = []
    for i in range(120 if ctx.thorough else 30):
        name = rng.choice([x for x in NAMES if x not in ("key", "comment", "order", "type", "sequence", "data")])
        schema = rng.choice([None, "s", "Dev"])
        qn = ((schema + ".") if schema else "") + name
        ddl = "CREATE TYPE %s AS ENUM ('a', 'b');\nCREATE TABLE uses_it (id int, col1 %s%s, z int);" % (qn, qn, rng.choice(["", " NOT NULL", " DEFAULT 'a'"]))
        uses.append((ddl, qn))
    R = ctx.impl.map([{"op": "run", "ddl": u[0]} for u in uses])
    res.evaluations += len(uses)
    for (ddl, qn), r in zip(uses, R):
        v = py_of_impl(r["ok"]) if "ok" in r else []
        okk = len(v) == 2 and "type_name" in v[0] and v[1].get("table_name") == "uses_it" and \
            [c.get("name") for c in v[1].get("columns", [])] == ["id", "col1", "z"] and v[1]["columns"][1].get("type") == qn
        if not okk:
            res.violation("input", "a column typed with the user type %r is not reported verbatim" % qn, ddl=ddl, oracle="type_use")
        else:
            res.nontrivial.add(ddl)
    # ---- the forms under the theorem: expected value = the extracted Coq denote, names over ALL accepted keywords ----------
    if ctx.model:
        dump = json.load(open(os.path.join(COQ, "Gen", "dump.json")))
        nonkw = {"ID", "DOT", "STRING_BASE", "DQ_STRING", "LP", "RP", "LT", "RT", "COMMAT", "EQ", "COMMA"}
        kws = [t for t in dump["tokens"] if t not in nonkw]
        names = kws + [k.lower() for k in kws] + ["plain_1", "MixedCase", "[br]", "`bt`", "temporary", "Temporary", "TEMPORARY", "bigfile", "SMALLFILE"]
        asts = []
        for nm_ in names:
            form = rng.randrange(7)
            if form <= 2:
                pre = [[], [rng.choice(["BIGFILE", "smallfile", "Temporary", "TEMPORARY"])],
                       [rng.choice(["BIGFILE", "SMALLFILE"]), rng.choice(["temporary", "TEMPORARY", "other"])]][form]
                asts.append(["T", kwc(rng, "CREATE"), kwc(rng, "TABLESPACE"), nm_] + pre)
            elif form == 3:
                asts.append(["D", kwc(rng, "CREATE"), kwc(rng, "DATABASE"), nm_])
            elif form == 4:
                asts.append(["S", kwc(rng, "CREATE"), kwc(rng, "SCHEMA"), nm_])
            else:
                asts.append(["S", kwc(rng, "CREATE"), kwc(rng, "SCHEMA"), nm_, kwc(rng, "IF"), kwc(rng, "NOT"), kwc(rng, "EXISTS")])
        for norm in (False, True):
            sp = ctx.model.map([("ent_spec", ["1" if norm else "0"] + a) for a in asts])
            texts = [" ".join(x[1] for x in s_["lexemes"]) + ";" if "lexemes" in s_ else None for s_ in sp]
            R2 = ctx.impl.map([{"op": "run", "ddl": t or "", "ctor": {"normalize_names": norm}} for t in texts])
            res.evaluations += len(asts)
            for a, s_, t, r in zip(asts, sp, texts, R2):
                if not s_.get("wf"):
                    res.count("theorem_form:not_wf")
                    continue
                res.count("theorem_form:wf")
                got = canon_impl(r["ok"]) if "ok" in r else ("raise", r.get("raise"))
                if got != ("list", (canon_model(s_["denote"]),)):
                    res.violation("input", "entity differs from the Coq specification (denote)", ddl=t, ctor={"normalize_names": norm},
                                  expected=s_["denote"], actual=py_of_impl(r["ok"]) if "ok" in r else r, oracle="ent_denote")
                else:
                    res.nontrivial.add(t + str(norm))
    # ---- CREATE TYPE / DOMAIN ... AS base (values): expected value = the extracted Coq denote (C18_type_domain_exact) ----------------
    if ctx.model:
        plain = ["my_type", "Status", "addr", "t1", "x_9", "[Dev]", "`bt`", "MixedCase", "lvl"]
        bases = ["ENUM", "enum", "Enum", "eNuM", "CHAR", "varchar", "numeric", "mytype", "[enum]", "set_of"]
        vwords = ["a", "b1", "V1", "low", "42", "x_y", "[q]"]
        vlits = ["'a'", "'b c'", "'x;y'", "'V1'", "'o''k'", "'--'", "'it is'", "''", "'ENUM'", "'a\"b'"]
        tds = []
        for i in range(600 if ctx.thorough else 120):
            t = rng.random() < 0.5
            vals = [("w:" + rng.choice(vwords)) if rng.random() < 0.35 else ("s:" + rng.choice(vlits)) for _ in range(rng.choice([1, 1, 2, 3, 4, 6, 9]))]
            tds.append(["T" if t else "D", kwc(rng, "CREATE"), kwc(rng, "TYPE" if t else "DOMAIN"), rng.choice(["", "", "s", "Dev", "[Dev]"]),
                        rng.choice(plain), kwc(rng, "AS"), rng.choice(bases)] + vals)
        for norm in (False, True):
            sp = ctx.model.map([("td_spec", ["1" if norm else "0"] + a) for a in tds])
            texts = []
            for s_ in sp:
                if "lexemes" not in s_:
                    texts.append(None)
                    continue
                out = ""
                for rule, tx in s_["lexemes"]:
                    out += tx if (tx in (".", ",", ")") or out.endswith(".") or out.endswith("(")) else ((" " if out else "") + tx)
                texts.append(out + ";")
            for mode in ("sql", "bigquery"):
                R4 = ctx.impl.map([{"op": "run", "ddl": t or "", "ctor": {"normalize_names": norm}, "run": {"output_mode": mode}} for t in texts])
                res.evaluations += len(tds)
                for a, s_, t, r in zip(tds, sp, texts, R4):
                    if not s_.get("wf"):
                        res.count("td_form:not_wf")
                        continue
                    res.count("td_form:wf")
                    got = canon_impl(r["ok"]) if "ok" in r else ("raise", r.get("raise"))
                    exp = s_["denote"]
                    if mode == "bigquery" and exp.get("schema"):
                        # C18_type_domain_bigquery: a written (non-empty) schema moves under the key dataset
                        exp = dict([(k, v) for k, v in exp.items() if k != "schema"] + [("dataset", exp["schema"])])
                    if got != ("list", (canon_model(exp),)):
                        res.violation("input", "type/domain entity differs from the Coq specification (denote) in mode %s" % mode, ddl=t,
                                      ctor={"normalize_names": norm}, expected=exp, actual=py_of_impl(r["ok"]) if "ok" in r else r, oracle="td_denote")
                    else:
                        res.nontrivial.add(t + str(norm) + mode)
    # ---- CREATE TYPE ... AS OBJECT (attributes): expected value = the extracted Coq denote (C18_object_type_exact) -------------------------
    if ctx.model:
        plain = ["my_type", "Status", "addr", "t1", "x_9", "[Dev]", "`bt`", "MixedCase", "lvl"]
        obases = ["OBJECT", "object", "Object", "ObJeCt", "record", "ENUM", "[object]"]
        anames = ["street", "zip", "Amount", "f1", "x_y", "[q]", "`b`", "note"]
        atypes = ["int", "varchar", "numeric", "date", "VARCHAR2", "decimal", "text"]
        tos = []
        for i in range(500 if ctx.thorough else 100):
            attrs = []
            for _ in range(rng.choice([1, 1, 2, 3, 4, 7])):
                k = rng.randrange(3)
                attrs += [rng.choice(anames), rng.choice(atypes), (str(rng.choice([1, 10, 255, 4000])) if k else ""), (str(rng.choice([0, 2, 4])) if k == 2 else "")]
            tos.append([kwc(rng, "CREATE"), kwc(rng, "TYPE"), rng.choice(["", "", "s", "Dev", "[Dev]"]), rng.choice(plain), kwc(rng, "AS"), rng.choice(obases)] + attrs)
        for norm in (False, True):
            sp = ctx.model.map([("to_spec", ["1" if norm else "0"] + a) for a in tos])
            texts = []
            for s_ in sp:
                if "lexemes" not in s_:
                    texts.append(None)
                    continue
                out = ""
                for rule, tx in s_["lexemes"]:
                    out += tx if (tx in (".", ",", ")") or out.endswith(".") or out.endswith("(")) else ((" " if out else "") + tx)
                texts.append(out + ";")
            for mode in ("sql", "bigquery"):
                R5 = ctx.impl.map([{"op": "run", "ddl": t or "", "ctor": {"normalize_names": norm}, "run": {"output_mode": mode}} for t in texts])
                res.evaluations += len(tos)
                for a, s_, t, r in zip(tos, sp, texts, R5):
                    if not s_.get("wf"):
                        res.count("to_form:not_wf")
                        continue
                    res.count("to_form:wf")
                    got = canon_impl(r["ok"]) if "ok" in r else ("raise", r.get("raise"))
                    exp = s_["denote"]
                    if mode == "bigquery" and exp.get("schema"):
                        exp = dict([(k, v) for k, v in exp.items() if k != "schema"] + [("dataset", exp["schema"])])
                    if got != ("list", (canon_model(exp),)):
                        res.violation("input", "object type entity differs from the Coq specification (denote) in mode %s" % mode, ddl=t,
                                      ctor={"normalize_names": norm}, expected=exp, actual=py_of_impl(r["ok"]) if "ok" in r else r, oracle="to_denote")
                    else:
                        res.nontrivial.add(t + str(norm) + mode)
    # ---- CREATE SCHEMA [IF NOT EXISTS] n [AUTHORIZATION u] [COMMENT [=] 'c']: expected = the extracted Coq denote ------------------------
    if ctx.model:
        sxs = []
        for i in range(300 if ctx.thorough else 80):
            ine = rng.random() < 0.4
            auth = (not ine) and rng.random() < 0.5
            com = rng.choice([None, None, (False, "'note'"), (True, "'a b'"), (True, "'x;y'"), (False, "'it''s'")])
            sxs.append([kwc(rng, "CREATE"), kwc(rng, "SCHEMA")] + ([kwc(rng, "IF"), kwc(rng, "NOT"), kwc(rng, "EXISTS")] if ine else ["", "", ""]) +
                       [rng.choice(["sales", "Dev", "[Dev]", "`bt`", "x_9", "s1"]), (rng.choice(["joe", "Admin", "[dbo]"]) if auth else ""),
                        (kwc(rng, "COMMENT") if com else ""), ("=" if com and com[0] else ""), (com[1] if com else "")])
        for norm in (False, True):
            sp = ctx.model.map([("sx_spec", ["1" if norm else "0"] + a) for a in sxs])
            texts = [(" ".join(tx for _, tx in s_["lexemes"]) + ";") if "lexemes" in s_ else None for s_ in sp]
            for mode in ("sql", "bigquery", "hql"):
                R6 = ctx.impl.map([{"op": "run", "ddl": t or "", "ctor": {"normalize_names": norm}, "run": {"output_mode": mode}} for t in texts])
                res.evaluations += len(sxs)
                for a, s_, t, r in zip(sxs, sp, texts, R6):
                    if not s_.get("wf"):
                        res.count("sx_form:not_wf")
                        continue
                    res.count("sx_form:wf")
                    got = canon_impl(r["ok"]) if "ok" in r else ("raise", r.get("raise"))
                    if got != ("list", (canon_model(s_["denote"]),)):
                        res.violation("input", "schema entity differs from the Coq specification (denote) in mode %s" % mode, ddl=t,
                                      ctor={"normalize_names": norm}, expected=s_["denote"], actual=py_of_impl(r["ok"]) if "ok" in r else r, oracle="sx_denote")
                    else:
                        res.nontrivial.add(t + str(norm) + mode)
    res.samples.append({"ddl": cases[0][1], "expected": cases[0][2]})
    res.samples.append({"ddl": cases[6][1], "expected": cases[6][2]})


def replay(ctx, payload):
    return True
