"""C01 — column definitions are reproduced exactly and in order; none lost or invented."""
from common import *
import gen_table as G

RULE = ("generated scripts of 1-5 CREATE TABLE statements of the core column syntax, 1-25 columns each, every column with a "
        "random subset and order of NULL/NOT NULL, DEFAULT (ints of 1-21 digits, negative, strings, NULL, words), PRIMARY KEY, "
        "UNIQUE, REFERENCES [s.]t[(c)] [ON DELETE a][ON UPDATE a]; types of one/two words with (n)/(p,s); keyword case, spacing "
        "around commas/parentheses, line layout and line ends (LF / CRLF) random; a fifth of the scripts name columns with words that start other statements (begin, end, commit, update, select ...) at the "
        "beginning of a line, a quarter with keyword-like words "
        "(comment, order, key, type ...), a third reference keyword-named columns; expected = harness/gen_table.expected_table per table, compared in "
        "full and in order. non-trivial = distinct script with >= 3 columns in total")
PARTIAL = ["the theorem (Props/C01.v C01_columns_exact) is about the parser stage (lexer flag logic, LALR driver on the real tables, "
           "semantic actions) for ONE statement of any size; the scanner (regex cutting of the text into lexemes), the line "
           "pre-processor, the output stage (table_init / to_dict) and scripts of several tables are tied to it by the "
           "correspondence and searched here against the extracted Coq denote and the Python reading of the property",
           "names, type words and values under the theorem are plain words (not grammar keywords, no dots/brackets); keyword-named "
           "columns, ARRAY/ENUM/IDENTITY types, function-call defaults, multi-word referential actions (SET NULL) are explored only"]
ASSUMES = ["harness/gen_table.expected_table is the reading of C01 for the run() output of the fragment",
           "Spec/Table.v denote is the reading of C01 for the parser stage"]


def kwc(rng, w):
    return "".join(c.upper() if rng.random() < 0.5 else c.lower() for c in w) if rng.random() < 0.6 else w


def coq_args(t, rng):
    """gen_table AST -> flat arguments of the tab_spec command (Spec/Table.v table_of_args), keyword spellings random.
    A reference directly followed by NULL / NOT NULL takes it as its own trailing clause (the grammar's reading)."""
    a = [kwc(rng, "CREATE"), kwc(rng, "TABLE"), t["schema"] or "", t["name"]]
    for c in t["cols"]:
        ty = c["type"].split(" ")
        sz = c["size"] or ()
        a += ["C", c["name"], ty[0], ty[1] if len(ty) > 1 else "", str(sz[0]) if len(sz) >= 1 else "", str(sz[1]) if len(sz) >= 2 else ""]
        opts = list(c["opts"])
        i = 0
        while i < len(opts):
            o = opts[i]
            i += 1
            if o[0] == "null":
                a += ["N", kwc(rng, "NULL"), ""] if o[1] else ["NN", kwc(rng, "NOT"), kwc(rng, "NULL")]
            elif o[0] == "default":
                txt = o[1]
                if txt.upper() == "NULL":
                    a += ["DN", kwc(rng, "DEFAULT"), txt]
                elif txt.startswith("'"):
                    a += ["DS", kwc(rng, "DEFAULT"), txt]
                else:
                    a += ["DW", kwc(rng, "DEFAULT"), txt]
            elif o[0] == "unique":
                a += ["UQ", kwc(rng, "UNIQUE"), ""]
            elif o[0] == "pk":
                a += ["PK", kwc(rng, "PRIMARY"), kwc(rng, "KEY")]
            elif o[0] == "ref":
                r = o[1]
                a += ["R", kwc(rng, "REFERENCES"), r["schema"] or "", r["table"], r["column"] or ""]
                a += [kwc(rng, "ON"), kwc(rng, "DELETE"), r["on_delete"]] if r["on_delete"] else ["", "", ""]
                a += [kwc(rng, "ON"), kwc(rng, "UPDATE"), r["on_update"]] if r["on_update"] else ["", "", ""]
                if i < len(opts) and opts[i][0] == "null":
                    a += ["N", kwc(rng, "NULL"), ""] if opts[i][1] else ["NN", kwc(rng, "NOT"), kwc(rng, "NULL")]
                    i += 1
                else:
                    a += ["", "", ""]
    return a


def text_of_lexemes(lxs, rng):
    """a statement text whose lexemes are lxs: words separated by blanks, dots glued or spaced"""
    out = ""
    for i, (rule, txt) in enumerate(lxs):
        if rule == "t_DOT" or (i > 0 and lxs[i - 1][0] == "t_DOT"):
            out += (txt if rng.random() < 0.8 else " " + txt)
        else:
            out += (" " if i else "") + txt + (" " if rng.random() < 0.2 else "")
    return out + " "


def run_keeps(v, d):
    """the (encoded) run() result is one table whose schema, name and column list are those of the model value d"""
    if not (isinstance(v, list) and len(v) == 1 and isinstance(v[0], dict) and "__dict__" in v[0]):
        return False
    e = v[0]["__dict__"]
    if not all(k in e and canon_impl(e[k]) == canon_model(d[k]) for k in ("table_name", "schema")):
        return False
    # the output stage moves the per-column primary_key flag into the table's primary_key list (property C02's subject)
    # and reports a primary-key column as not nullable whatever a (contradictory) later NULL said
    cols = [{k: (False if k == "nullable" and c["primary_key"] else x) for k, x in c.items() if k != "primary_key"} for c in d["columns"]]
    pk = [c["name"] for c in d["columns"] if c["primary_key"]]
    return "columns" in e and canon_impl(e["columns"]) == canon_model(cols) and canon_impl(e.get("primary_key")) == canon_model(pk)


def theorem_forms(ctx, res):
    """the forms under C01_columns_exact: expected value = the extracted Coq denote (parser stage), and the columns of run()"""
    rng = ctx.rng
    n = 1500 if ctx.thorough else 250
    asts = []
    for i in range(n):
        nc = rng.choice([1, 2, 3, 5, 9, 17, 40]) if i % 6 == 0 else None
        t = G.gen_table(rng, ncols=nc, constraints=False, name=rng.choice(G.TABLE_NAMES + ["order", "Type", "COMMENT", "sequence", "index"]),
                        kw_names=(i % 3 == 0), kw_refs=(i % 2 == 0))
        if i % 9 == 0:                     # keyword names in other letter cases, and the rejected ones (counted as not_wf)
            pool = ["COMMENT", "Order", "DEFAULT", "references", "Update", "unique", "check", "KEY", "with"]
            rng.shuffle(pool)
            taken = {c["name"].lower() for c in t["cols"]}
            for c in t["cols"]:
                if rng.random() < 0.5 and pool and pool[-1].lower() not in taken:       # column names stay distinct
                    c["name"] = pool.pop()
                    taken.add(c["name"].lower())
        if i % 7 == 0:
            for c in t["cols"]:            # stress: options repeated / in long chains, several references
                extra = [G.gen_column(rng, "z")["opts"] for _ in range(2)]
                c["opts"] = c["opts"] + extra[0] + extra[1]
        asts.append((t, coq_args(t, rng)))
    for norm in (False, True):
        sp = ctx.model.map([("tab_spec", ["1" if norm else "0"] + a) for _, a in asts])
        texts = [text_of_lexemes(s_["lexemes"], rng) if "lexemes" in s_ else None for s_ in sp]
        SC = ctx.model.map([("scan", [t or ""]) for t in texts])
        TR = ctx.impl.map([{"op": "trace", "s": t or "", "ctor": {"normalize_names": norm}} for t in texts])
        RU = ctx.impl.map([{"op": "run", "ddl": (t or "").rstrip() + ";", "ctor": {"normalize_names": norm}} for t in texts])
        res.evaluations += 2 * len(asts)
        for (t, a), s_, x, sc, tr, ru in zip(asts, sp, texts, SC, TR, RU):
            if not s_.get("wf"):
                res.count("theorem_form:not_wf")
                continue
            res.count("theorem_form:wf")
            res.count("theorem_form:cols:%d" % min(len(t["cols"]), 40))
            if "ok" not in sc or [list(l) for l in sc["ok"]] != [list(l) for l in s_["lexemes"]]:
                res.violation("correspondence", "the scanner model does not cut the rendered statement into the lexemes of the specification",
                              stmt=x, lexemes=s_["lexemes"], oracle="scan")
                continue
            want = canon_model(s_["denote"])
            io = impl_outcome(tr)
            got = canon_impl(io[1]["result"]) if io[0] == "ok" else ("raise", io[1])
            if got != want:
                res.violation("input", "parser stage: the entity differs from the Coq specification (Table.denote): %s" %
                              (json.dumps(py_of_impl(io[1]["result"]))[:600] if io[0] == "ok" else str(io)),
                              stmt=x, norm=norm, args=a, oracle="coq_denote")
                continue
            # the run() result keeps schema, name and the column list of the entity
            ok = "ok" in ru
            if ok:
                ok = run_keeps(ru["ok"], s_["denote"])
                # ... and is exactly the table of theorem C01_columns_exact_in_the_reported_table (extracted Output.format on denote)
                rep = s_.get("reported", {})
                if "ok" in rep and canon_impl(ru["ok"]) != canon_model(rep["ok"]):
                    ok = False
            if not ok:
                res.violation("input", "run(): columns / name / schema differ from the Coq specification (Table.denote)",
                              ddl=x.rstrip() + ";", norm=norm, args=a, oracle="coq_denote_run")
            else:
                res.nontrivial.add(x)


def run(ctx, res):
    rng = ctx.rng
    n = 5000 if ctx.thorough else 600
    scripts = []
    for i in range(n):
        k = rng.choice([1, 1, 2, 3, 5])
        tabs = []
        for j in range(k):
            nc = rng.choice([1, 2, 3, 4, 5, 6, 8, 12, 25]) if i % 5 == 0 else None
            tabs.append(G.gen_table(rng, ncols=nc, constraints=False, name="t%d_%d" % (i % 50, j), kw_refs=(i % 3 == 0),
                                    kw_names=(i % 4 == 0)))
        if i % 4 == 3:
            # look-alike names: a column whose name differs from another column's (preferably a key column's) only in letter case
            # or quoting is a column of its own, with its own nullability and default
            for t in tabs:
                if len(t["cols"]) < 2:
                    continue
                keys = [c for c in t["cols"] if any(o[0] == "pk" for o in c["opts"])]
                src = rng.choice(keys or t["cols"])
                dst = rng.choice([c for c in t["cols"] if c is not src])
                base = src["name"].strip('"`[]')
                variants = [v for v in (base.upper(), base.lower(), base.capitalize(), '"%s"' % base, "[%s]" % base, "`%s`" % base,
                                        '"%s"' % base.upper(), "[%s]" % base.capitalize())
                            if v not in {c["name"] for c in t["cols"]} and v.lower() not in G.KW_NAMES and base.lower() not in G.KW_NAMES]
                if variants:
                    dst["name"] = rng.choice(variants)
                    dst["opts"] = [o for o in dst["opts"] if o[0] not in ("pk",)]
            res.count("names:look_alike")
        if i % 5 == 2:
            # statement-like words as column names, one column per line (each name then starts a line)
            for t in tabs:
                pool = list(G.STMT_LIKE_NAMES)
                rng.shuffle(pool)
                taken = {c["name"].lower() for c in t["cols"]}
                for c in t["cols"]:
                    if rng.random() < 0.6 and pool and pool[-1].lower() not in taken:
                        c["name"] = pool.pop()
                        taken.add(c["name"].lower())
            res.count("names:statement_like")
            text = "\n".join(G.render_table(t, rng, oneline=False) for t in tabs) + "\n"
        else:
            text = "\n".join(G.render_table(t, rng, oneline=(rng.random() < 0.25)) for t in tabs) + "\n"
        if i % 6 == 1:
            text = text.replace("\n", "\r\n")          # Windows line ends
            res.count("layout:crlf")
        scripts.append((tabs, text))
    R = ctx.impl.map([{"op": "run", "ddl": x} for _, x in scripts])
    res.evaluations += len(scripts)
    for (tabs, x), r in zip(scripts, R):
        res.count("tables:%d" % len(tabs))
        for t in tabs:
            res.count("cols:%d" % min(len(t["cols"]), 25))
            for c in t["cols"]:
                res.count("opts:%d" % len(c["opts"]))
        exp = [G.expected_table(t) for t in tabs]
        got = G.norm_refs(py_of_impl(r["ok"])) if "ok" in r else r
        if got != exp:
            why = "exception/shape"
            if isinstance(got, list):
                if len(got) != len(exp):
                    why = "%d tables reported instead of %d" % (len(got), len(exp))
                else:
                    for e, g in zip(exp, got):
                        if e != g:
                            en = [c["name"] for c in e["columns"]]
                            gn = [c.get("name") for c in g.get("columns", [])] if isinstance(g, dict) else None
                            why = "table %s: columns %s" % (e["table_name"], "lost/invented/reordered: %r vs %r" % (gn, en) if gn != en else
                                                            "attributes differ: %s" % [k for k in e if e[k] != g.get(k)])
                            break
            res.violation("input", why, ddl=x, expected=exp, actual=got if isinstance(got, list) else str(got), oracle="columns_spec")
        elif sum(len(t["cols"]) for t in tabs) >= 3:
            res.nontrivial.add(x)
    res.samples.append({"ddl": scripts[0][1], "expected": [G.expected_table(t) for t in scripts[0][0]]})
    res.samples.append({"ddl": scripts[5][1]})
    if ctx.model:
        theorem_forms(ctx, res)
        # the models the theorem is about, on the Python-generated scripts: statements through lexer + LR + actions, scripts through run()
        sub = scripts[:: (2 if ctx.thorough else 6)]
        st = ctx.impl.map([{"op": "statements", "ddl": x} for _, x in sub])
        corr_parse(ctx, res, [s_ for a in st if "ok" in a for s_ in a["ok"]["statements"]])
        corr_run(ctx, res, [x for _, x in sub])


def replay(ctx, payload):
    if payload.get("oracle") in ("coq_denote", "coq_denote_run") and ctx.model:
        norm = payload["norm"]
        s_ = ctx.model.one("tab_spec", ["1" if norm else "0"] + payload["args"])
        if payload["oracle"] == "coq_denote":
            tr = ctx.impl.one({"op": "trace", "s": payload["stmt"], "ctor": {"normalize_names": norm}})
            io = impl_outcome(tr)
            return not (io[0] == "ok" and canon_impl(io[1]["result"]) == canon_model(s_["denote"]))
        ru = ctx.impl.one({"op": "run", "ddl": payload["ddl"], "ctor": {"normalize_names": norm}})
        return not ("ok" in ru and run_keeps(ru["ok"], s_["denote"]))
    if payload.get("oracle") == "columns_spec":
        r = ctx.impl.one({"op": "run", "ddl": payload["ddl"]})
        got = G.norm_refs(py_of_impl(r["ok"])) if "ok" in r else None
        return got is None or canon_impl(enc_py(got)) != canon_impl(enc_py(payload["expected"]))
    return True
