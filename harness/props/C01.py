"""C01 — column definitions are reproduced exactly and in order; none lost or invented."""
from common import *
import gen_table as G

RULE = ("generated scripts of 1-5 CREATE TABLE statements of the core column syntax, 1-25 columns each, every column with a "
        "random subset and order of NULL/NOT NULL, DEFAULT (ints of 1-21 digits, negative, strings, NULL, words), PRIMARY KEY, "
        "UNIQUE, REFERENCES [s.]t[(c)] [ON DELETE a][ON UPDATE a]; types of one/two words with (n)/(p,s); keyword case, spacing "
        "around commas/parentheses and line layout random; expected = harness/gen_table.expected_table per table, compared in "
        "full and in order. non-trivial = distinct script with >= 3 columns in total")
PARTIAL = ["the end-to-end statement for the Table fragment is explored against the specification; the Coq side proves the "
           "lexer/LR structure for the column list (see Props/C01.v) — the semantic actions of p_column/p_defcolumn are not yet "
           "under a theorem"]
ASSUMES = ["harness/gen_table.expected_table is the reading of C01 for the fragment"]


def run(ctx, res):
    rng = ctx.rng
    n = 5000 if ctx.thorough else 600
    scripts = []
    for i in range(n):
        k = rng.choice([1, 1, 2, 3, 5])
        tabs = []
        for j in range(k):
            nc = rng.choice([1, 2, 3, 4, 5, 6, 8, 12, 25]) if i % 5 == 0 else None
            tabs.append(G.gen_table(rng, ncols=nc, constraints=False, name="t%d_%d" % (i % 50, j)))
        text = "\n".join(G.render_table(t, rng, oneline=(rng.random() < 0.25)) for t in tabs) + "\n"
        scripts.append((tabs, text))
    R = ctx.impl.map([{"op": "run", "ddl": x} for _, x in scripts])
    res.evaluations += len(scripts)
    for (tabs, x), r in zip(scripts, R):
        res.count("tables:%d" % len(tabs))
        for t in tabs:
            res.count("cols:%d" % min(len(t["cols"]), 25))
            for c in t["cols"]:
                res.count("opts:%d" % len(c["opts"]))
        exp = [G.expected_table(t) for t in tabs]
        got = G.norm_refs(py_of_impl(r["ok"])) if "ok" in r else r
        if got != exp:
            why = "exception/shape"
            if isinstance(got, list):
                if len(got) != len(exp):
                    why = "%d tables reported instead of %d" % (len(got), len(exp))
                else:
                    for e, g in zip(exp, got):
                        if e != g:
                            en = [c["name"] for c in e["columns"]]
                            gn = [c.get("name") for c in g.get("columns", [])] if isinstance(g, dict) else None
                            why = "table %s: columns %s" % (e["table_name"], "lost/invented/reordered: %r vs %r" % (gn, en) if gn != en else
                                                            "attributes differ: %s" % [k for k in e if e[k] != g.get(k)])
                            break
            res.violation("input", why, ddl=x, expected=exp, actual=got if isinstance(got, list) else str(got), oracle="columns_spec")
        elif sum(len(t["cols"]) for t in tabs) >= 3:
            res.nontrivial.add(x)
    res.samples.append({"ddl": scripts[0][1], "expected": [G.expected_table(t) for t in scripts[0][0]]})
    res.samples.append({"ddl": scripts[5][1]})


def replay(ctx, payload):
    if payload.get("oracle") == "columns_spec":
        r = ctx.impl.one({"op": "run", "ddl": payload["ddl"]})
        got = G.norm_refs(py_of_impl(r["ok"])) if "ok" in r else None
        return got is None or canon_impl(enc_py(got)) != canon_impl(enc_py(payload["expected"]))
    return True
