"""C17 — CREATE SEQUENCE options exact, any order."""
from common import *
import gens

RULE = ("random sequence ASTs (0-7 options drawn with repetition from the 14 option forms, optional schema, keyword case "
        "random per letter, integers from {0,+-1,+-2^63,2^63-1,2^64,leading zeros,'+n',1..40 random digits}) rendered with "
        "random separators/line breaks; expected value = the Coq spec function denote (extracted), compared with "
        "DDLParser(...).run() for normalize_names in {False,True} and silent in {True,False}; scripts of 2-4 "
        "sequences/tables check non-leakage. non-trivial = distinct rendered text whose AST is well-formed (wf) and "
        "has >= 1 option")
PARTIAL = ["the theorem is stated on lexeme lists (what PLY's scanner cuts out); that every layout of the statement scans to "
           "those lexemes is covered by the scanner correspondence (layer B) and the rendered-text runs, not by a theorem",
           "side conditions of wf (keyword spelling has the keyword's info; integer literal parses with int()) are decidable "
           "and evaluated per case by the extracted wf; their universal forms (every case variant / every z) are not yet theorems"]
ASSUMES = ["Model/Lexer.v classify, Model/LR.v, Model/Actions.v mirror t_ID..., parseopt_notrack, p_id/p_create_seq/p_seq_name/"
           "p_expression_seq: checked by correspondence layers B, C, D on every run"]

KW = {"I": "INCREMENT", "S": "START", "m": "MINVALUE", "M": "MAXVALUE", "C": "CACHE", "c": "CACHE", "O": "ORDER", "N": "NOORDER"}


def rcase(rng, w):
    k = rng.randrange(4)
    if k == 0:
        return w.upper()
    if k == 1:
        return w.lower()
    if k == 2:
        return w.capitalize()
    return "".join(c.upper() if rng.random() < 0.5 else c.lower() for c in w)


def rnum(rng):
    k = rng.randrange(10)
    if k == 0:
        return rng.choice(["0", "1", "-1", "+5", "007", "-0"])
    if k == 1:
        return rng.choice([str(2 ** 63), str(-2 ** 63), str(2 ** 63 - 1), str(2 ** 64), str(-2 ** 64 - 1)])
    if k == 2:
        return ("-" if rng.random() < 0.5 else "") + "".join(rng.choice("0123456789") for _ in range(rng.randint(20, 40)))
    return ("-" if rng.random() < 0.3 else "") + str(rng.randrange(1, 10 ** rng.randint(1, 9)))


NAMES = ["s", "seq1", "Incremental_IDs", "my_seq", "X", "a1", "dev", "public", "[dbo]", "`q`", "[my seq]".replace(" ", "_"), "t_9"]
ODD_NAMES = ["order", "cache", "start", "table", "no", "key", "by", "with", "index", "check", "sequence", "create"]


def gen_ast(rng, odd=False):
    args = [rcase(rng, "CREATE"), rcase(rng, "SEQUENCE")]
    names = NAMES + (ODD_NAMES if odd else [])
    args.append(rng.choice(names) if rng.random() < 0.5 else "")
    args.append(rng.choice(names))
    nopt = rng.choice([0, 1, 1, 2, 3, 4, 5, 7])
    for _ in range(nopt):
        t = rng.choice(["I", "I", "S", "S", "m", "M", "nm", "nM", "C", "c", "O", "N"])
        if t in ("I", "S"):
            second = rcase(rng, "BY" if t == "I" else "WITH") if rng.random() < 0.5 else ""
            args += [t, rcase(rng, KW[t]), second, rnum(rng)]
        elif t in ("m", "M", "C"):
            args += [t, rcase(rng, KW[t]), "", rnum(rng)]
        elif t in ("nm", "nM"):
            args += [t, rcase(rng, "NO"), rcase(rng, "MINVALUE" if t == "nm" else "MAXVALUE"), ""]
        else:
            args += [t, rcase(rng, KW[t]), "", ""]
    return args


SEPS = [" ", " ", "  ", "\n", "\n  ", "\t", " \n", "\n\n   "]
BAD_LINE_START = ("CREATE", "ALTER", "DROP", "SET", "GO", "USE", "INSERT", "GRANT", "DELETE")


def render(rng, lexemes, oneline=False):
    out = ""
    for i, (rule, text) in enumerate(lexemes):
        if i == 0:
            out += text
            continue
        prev_rule = lexemes[i - 1][0]
        if rule == "t_DOT" or prev_rule == "t_DOT":
            sep = "" if rng.random() < 0.8 else " "
        else:
            sep = " " if oneline else rng.choice(SEPS)
            if "\n" in sep and text.upper().startswith(BAD_LINE_START):
                sep = " "
        out += sep + text
    return out


def run(ctx, res):
    rng = ctx.rng
    n = 4000 if ctx.thorough else 500
    asts = [gen_ast(rng, odd=(i % 10 == 9)) for i in range(n)]
    specs = {}
    for norm in (False, True):
        out = ctx.model.map([("seq_spec", ["1" if norm else "0"] + a) for a in asts])
        specs[norm] = out
    cases = []
    for i, a in enumerate(asts):
        sp = specs[False][i]
        if "lexemes" not in sp:
            res.violation("harness", "model rejected AST args %r: %r" % (a, sp), tie=True, layer="protocol")
            continue
        lay = render(rng, sp["lexemes"], oneline=(i % 4 == 0))
        cases.append((i, lay))
    # ---- the property on the implementation, oracle = denote ---------------------------------------
    for norm in (False, True):
        for silent in (True, False):
            if not ctx.thorough and norm and not silent:
                continue
            R = ctx.impl.map([{"op": "run", "ddl": lay + ";\n", "ctor": {"normalize_names": norm, "silent": silent}} for _, lay in cases])
            res.evaluations += len(cases)
            for (i, lay), r in zip(cases, R):
                sp = specs[norm][i]
                if not sp["wf"]:
                    res.count("ast:not_wf")
                    continue
                res.count("ast:wf")
                res.count("options:%d" % ((len(asts[i]) - 4) // 4))
                exp = ("list", (canon_model(sp["denote"]),))
                got = canon_impl(r["ok"]) if "ok" in r else ("raise", r.get("raise"))
                if got != exp:
                    res.violation("input", "sequence entity differs from the specification (denote)", ddl=lay + ";\n",
                                  ctor={"normalize_names": norm, "silent": silent}, expected=sp["denote"],
                                  actual=py_of_impl(r["ok"]) if "ok" in r else r, oracle="seq_denote")
                elif len(asts[i]) > 4:
                    res.nontrivial.add(lay)
    # ---- correspondence D: model parse_statement vs yacc.parse on the same text ------------------------
    one = [(i, " ".join(lay.split())) for i, lay in cases]
    for norm in (False, True):
        M = ctx.model.map([("parse", ["1" if norm else "0", "1", s]) for _, s in one])
        I = ctx.impl.map([{"op": "trace", "s": s, "ctor": {"normalize_names": norm}} for _, s in one])
        for (i, s), m, r in zip(one, M, I):
            res.corr["D:parse_statement"] = res.corr.get("D:parse_statement", 0) + 1
            mo, io = model_outcome(m), impl_outcome(r)
            if io[0] == "ok":
                iv = io[1]["result"]
                good = mo[0] == "ok" and ((iv is None and "none" in mo[1]) or
                                          (iv is not None and "value" in mo[1] and canon_impl(iv) == canon_model(mo[1]["value"])))
            elif io[0] == "raise":
                good = mo[0] == "raise" and mo[1] == io[1]
            else:
                good = False
            if mo[0] == "unsupported" and not specs[False][i]["wf"]:
                res.count("corrD:unsupported_action_on_non_wf")
                continue      # outside the modelled productions (keyword-named sequences may parse as something else)
            if not good:
                res.violation("correspondence", "model parse_statement and yacc.parse disagree", tie=True,
                              layer="correspondence D (parse_statement, sequences)", statement=s, normalize_names=norm,
                              impl=io if io[0] != "ok" else io[1]["result"], model=mo)
    # ---- non-leakage: several sequences and tables in one script ------------------------------------------
    wfcases = [(i, lay) for (i, lay) in cases if specs[False][i]["wf"]]
    nscripts = 400 if ctx.thorough else 60
    scripts = []
    for _ in range(nscripts):
        k = rng.randint(2, 4)
        parts = []
        for _ in range(k):
            if rng.random() < 0.3 or not wfcases:
                parts.append(("table", gens.simple_table(rng)))
            else:
                parts.append(("seq", rng.choice(wfcases)))
        scripts.append(parts)
    texts = ["\n".join((p[1] if p[0] == "table" else p[1][1] + ";") for p in parts) + "\n" for parts in scripts]
    R = ctx.impl.map([{"op": "run", "ddl": t} for t in texts])
    alone = ctx.impl.map([{"op": "run", "ddl": p[1]} for parts in scripts for p in parts if p[0] == "table"])
    ai = 0
    res.evaluations += len(texts)
    for parts, t, r in zip(scripts, texts, R):
        exp = []
        for p in parts:
            if p[0] == "table":
                a = alone[ai]
                ai += 1
                exp += list(canon_impl(a["ok"])[1]) if "ok" in a else [("?",)]
            else:
                exp.append(canon_model(specs[False][p[1][0]]["denote"]))
        got = canon_impl(r["ok"]) if "ok" in r else ("raise", r.get("raise"))
        if got != ("list", tuple(exp)):
            res.violation("input", "entities of a multi-statement script differ from each statement's own entity (leak between sequences/tables)",
                          ddl=t, oracle="seq_leak", actual=py_of_impl(r["ok"]) if "ok" in r else r)
        else:
            res.nontrivial.add(t)
    if cases:
        i, lay = cases[1]
        res.samples.append({"ddl": lay + ";", "ast_args": asts[i], "expected": specs[False][i].get("denote")})
        res.samples.append({"script": texts[0]})


def replay(ctx, payload):
    if payload.get("oracle") in ("seq_denote",):
        r = ctx.impl.one({"op": "run", "ddl": payload["ddl"], "ctor": payload.get("ctor", {})})
        exp = ("list", (canon_model(payload["expected"]),))
        got = canon_impl(r["ok"]) if "ok" in r else ("raise", r.get("raise"))
        return got != exp
    return True
