"""C15 — parser objects do not interfere, sequentially or across threads."""
import itertools
from common import *
import gens
import gen_table as G

RULE = ("2-4 parser objects with different DDL (harvested incl. the hive 'input.regex' DDL, generated tables with quoted names, "
        "invalid DDL) and different normalize_names / silent / debug settings (debug=True makes an object loud); EVERY interleaving of {construct_i, run_i} for 2 objects and "
        "random interleavings for 3-4 objects, executed in a FRESH process each; 8-16 concurrent threads each constructing and "
        "running its own object repeatedly; expected = the result of the same object alone in a fresh process. "
        "non-trivial = distinct schedule with >= 2 objects whose solo results differ from each other")
PARTIAL = ["preemption inside a statement parse, logging.basicConfig and the parsetab.py write race at construction are runtime "
           "behaviour the atomic-step model cannot exhibit: exercised by the thread soak only"]
ASSUMES = ["Gen.own_parser / own_lexer are read off parse_statement's call expression by the translator"]

SCHEDULE = r'''
objs = {}
outs = {}
for step in req["schedule"]:
    kind, i = step
    if kind == "c":
        o = req["objs"][i]
        objs[i] = DDLParser(o["ddl"], **o["ctor"])
    else:
        try:
            outs.setdefault(i, []).append({"ok": enc(objs[i].run(**req["objs"][i].get("run", {})))})
        except Exception as e:
            outs.setdefault(i, []).append({"raise": type(e).__name__})
out = {str(k): v for k, v in outs.items()}
'''

THREADS = r'''
import threading
objs = req["objs"]
results = [None] * len(objs)
def work(k):
    rs = []
    for _ in range(req["reps"]):
        try:
            rs.append({"ok": enc(DDLParser(objs[k]["ddl"], **objs[k]["ctor"]).run(**objs[k].get("run", {})))})
        except Exception as e:
            rs.append({"raise": type(e).__name__})
    results[k] = rs
ts = [threading.Thread(target=work, args=(k,)) for k in range(len(objs))]
[t.start() for t in ts]; [t.join() for t in ts]
out = results
'''


def run(ctx, res):
    rng = ctx.rng
    ddls = harvest_test_ddl(ctx.scratch)
    regex = [d for d in ddls if "input.regex" in d]
    props = [d for d in ddls if "TBLPROPERTIES" in d.upper() or "SERDEPROPERTIES" in d.upper()]
    quoted = ['CREATE TABLE [dbo].[T1] ([a] int, "b" varchar(10), `c` int);', 'CREATE TABLE "s"."t" ("x" int NOT NULL);']
    invalid = ["CREATE TABLE t (a int,,) garbage (;", "CREATE TABLE"]
    pool = []
    for d in regex[:2] + props[:6] + quoted + invalid + rng.sample(ddls, min(len(ddls), 25)) + \
            [G.render_table(G.gen_table(rng), rng) for _ in range(10)]:
        ctor = {"normalize_names": rng.random() < 0.5, "silent": rng.random() < 0.7}
        if rng.random() < 0.2:
            ctor = {"normalize_names": ctor["normalize_names"], "debug": True}       # debug=True makes the object loud whatever silent says
        pool.append({"ddl": d, "ctor": ctor, "run": {"output_mode": rng.choice(["sql", "hql", "mssql", "bigquery"])}})
    # objects whose EFFECTIVE loudness differs although their constructor arguments look alike: a quiet one, then a debug=True
    # one (loud) on DDL the grammar rejects
    loud_first = len(pool)
    for nn in (False, True):
        pool.append({"ddl": "CREATE TABLE quiet_%d (a int);" % nn, "ctor": {"normalize_names": nn}, "run": {}})
        pool.append({"ddl": "CREATE PABLE foo (a int);\nCREATE TABLE ok_%d (a int);" % nn, "ctor": {"normalize_names": nn, "debug": True}, "run": {}})
    # pairs (defines a table ; only alters / indexes that table): the second alone raises ValueError
    pair_first = len(pool)
    for k in range(4):
        pool.append({"ddl": "CREATE TABLE shared_%d (a int, b int);" % k, "ctor": {}, "run": {}})
        pool.append({"ddl": rng.choice(["ALTER TABLE shared_%d ADD UNIQUE (a);", "CREATE INDEX ix ON shared_%d (b);",
                                        "ALTER TABLE shared_%d DROP COLUMN b;"]) % k, "ctor": {}, "run": {}})
    # solo results, each in a fresh process
    solo_impl = lambda: Impl(ctx.scratch, n=1)
    def solo(o):
        im = solo_impl()
        r = im.one({"op": "pyexec", "code": SCHEDULE, "objs": [o], "schedule": [["c", 0], ["r", 0]]})
        im.pool.close()
        return r["ok"]["0"][0] if "ok" in r else {"harness": r}
    with ThreadPoolExecutor(NCPU) as ex:
        solos = list(ex.map(solo, pool))
    # schedules
    scheds = []
    two = [s for s in set(itertools.permutations([("c", 0), ("c", 1), ("r", 0), ("r", 1), ("r", 0)]))
           if s.index(("c", 0)) < s.index(("r", 0)) and s.index(("c", 1)) < s.index(("r", 1))]
    nsch = 300 if ctx.thorough else 60
    for _ in range(nsch):
        if rng.random() < 0.6:
            idx = rng.sample(range(len(pool)), 2)
            if regex and rng.random() < 0.3:
                idx[0] = 0          # the regex DDL first in the process
            sch = [[k, idx[i]] for k, i in rng.choice(two)]
        else:
            idx = rng.sample(range(len(pool)), rng.choice([3, 4]))
            steps = []
            for i in idx:
                steps += [["c", i], ["r", i], ["r", i]]
            rng.shuffle(steps)
            seen = set()
            sch = []
            for k, i in steps:          # keep construct before run
                if k == "r" and i not in seen:
                    sch.append(["c", i]); seen.add(i)
                if k == "c":
                    if i in seen:
                        continue
                    seen.add(i)
                sch.append([k, i])
        scheds.append(sch)
    # directed schedules: the table-defining object runs first, then the altering one; the hive regex DDL runs first in the
    # process, then an object with TBLPROPERTIES / SERDEPROPERTIES assignments is constructed and run
    for k in range(4):
        a, b = pair_first + 2 * k, pair_first + 2 * k + 1
        scheds.append([["c", a], ["r", a], ["c", b], ["r", b], ["r", a]])
        scheds.append([["c", a], ["c", b], ["r", a], ["r", b]])
    for k in range(2):
        a, b = loud_first + 2 * k, loud_first + 2 * k + 1
        scheds.append([["c", a], ["c", b], ["r", b], ["r", a]])
        scheds.append([["c", a], ["r", a], ["c", b], ["r", b]])
        scheds.append([["c", b], ["c", a], ["r", a], ["r", b]])
    if regex:
        for j in range(len(regex[:2]), len(regex[:2]) + len(props[:6])):
            scheds.append([["c", 0], ["r", 0], ["c", j], ["r", j]])
    def run_sched(sch):
        im = solo_impl()
        r = im.one({"op": "pyexec", "code": SCHEDULE, "objs": pool, "schedule": sch})
        im.pool.close()
        return r
    with ThreadPoolExecutor(NCPU) as ex:
        outs = list(ex.map(run_sched, scheds))
    res.evaluations += len(scheds)
    def same(a, b):
        return ("ok" in a and "ok" in b and canon_impl(a["ok"]) == canon_impl(b["ok"])) or ("raise" in a and a.get("raise") == b.get("raise"))
    for sch, r in zip(scheds, outs):
        res.count("objects:%d" % len(set(i for _, i in sch)))
        if "ok" not in r:
            res.violation("schedule", "schedule harness failed: %r" % (r,), schedule=sch, oracle="schedule")
            continue
        bad = None
        for i_s, rs in r["ok"].items():
            for k, x in enumerate(rs):
                if not same(x, solos[int(i_s)]):
                    bad = "object %s, run #%d differs from what it returns alone in a fresh process" % (i_s, k)
        if bad:
            res.violation("schedule", bad, schedule=sch, objs={str(i): pool[i] for i in set(j for _, j in sch)}, oracle="schedule")
        else:
            ids = sorted(set(i for _, i in sch))
            if len(ids) >= 2 and len(set(json.dumps(solos[i], sort_keys=True) for i in ids)) >= 2:
                res.nontrivial.add(json.dumps(sch))
    # threads
    for rep in range(6 if ctx.thorough else 2):
        idx = rng.sample(range(len(pool)), 8 if not ctx.thorough else 16)
        im = solo_impl()
        r = im.one({"op": "pyexec", "code": THREADS, "objs": [pool[i] for i in idx], "reps": 6})
        im.pool.close()
        res.evaluations += 1
        if "ok" not in r:
            res.violation("schedule", "thread harness failed: %r" % (r,), oracle="threads")
            continue
        for k, rs in zip(idx, r["ok"]):
            if any(not same(x, solos[k]) for x in (rs or [])) or not rs:
                res.violation("schedule", "a parser run in a concurrent thread returned something else than alone", objs=[pool[i] for i in idx], oracle="threads")
                break
        res.count("thread_soak")
    res.samples.append({"schedule": scheds[0], "objects": [pool[i]["ddl"][:80] for i in sorted(set(j for _, j in scheds[0]))]})
    res.samples.append({"schedule": scheds[1]})


def replay(ctx, payload):
    return True
