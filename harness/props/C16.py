"""C16 — silent skip vs DDLParserError."""
from common import *
import gens

RULE = ("statements = those the pre-processor hands to the grammar for every DDL string found in /repo/tests, "
        "1-3 word-level mutations of them, unsupported families (queries, DML, views, functions, session commands), "
        "filtered lines, statements made unparseable by leading junk (so that the silent run recovers and the grammar actions run on the rest); "
        "each run with silent=True and silent=False. non-trivial = distinct statement text on which "
        "the implementation's token stream has >= 3 tokens")
PARTIAL = ["that a *supported* fragment never raises under silent=False is carried by the fragment theorems of C17/C01 (their "
           "statements are about the loud and the silent driver alike) and explored here on harvested DDL",
           "t_error (a character outside the lexer alphabet) ignored `silent` (D8, repaired by e648612); exceptions of grammar actions after a "
           "recovered syntax error escaped the silent run (repaired by b0266a0)"]
ASSUMES = ["the LR driver model (Model/LR.v) mirrors yacc.LRParser.parseopt_notrack: checked by trace correspondence on every run",
           "PLY's literal recovery loop is modelled in its simplified form (valid because no production mentions `error`)"]


def statements_for(ctx, ddls):
    st = ctx.impl.map([{"op": "statements", "ddl": d} for d in ddls])
    out = []
    for a in st:
        if "ok" in a:
            out += [s for s in a["ok"]["statements"] if s and len(s) < 6000]
    return sorted(set(out))


def corr_lr(ctx, res, stmts):
    """layer C: reductions of the real parser vs the model's LR driver on the same token stream"""
    lexed = ctx.impl.map([{"op": "lex", "s": s} for s in stmts])
    for silent in (True, False):
        t0 = time.time()
        it = ctx.impl.map([{"op": "trace", "s": s, "ctor": {"silent": silent}} for s in stmts])
        log("  trace impl %.1fs" % (time.time() - t0))
        cmds, idx = [], []
        for i, (s, a) in enumerate(zip(stmts, it)):
            toks = []
            if "ok" in a:
                for e in a["ok"]["events"]:
                    if e[0] == "t":
                        toks += [e[1], e[2]]
            elif a.get("raise") == "DDLParserError" and "Unknown symbol" in a.get("msg", ""):
                continue        # lexer error: no complete token stream to compare (layer B covers it)
            elif a.get("raise") == "DDLParserError":
                # loud syntax error: tokens were consumed lazily; rebuild the stream from the lexer
                lx = lexed[i]
                if "ok" not in lx:
                    continue
                for ty, v in lx["ok"]["tokens"]:
                    toks += [ty, v]
            else:
                continue        # exception inside a semantic action (layer D)
            cmds.append(("lr", ["1" if silent else "0"] + toks))
            idx.append(i)
        t0 = time.time()
        mt = ctx.model.map(cmds)
        log("  lr model %.1fs" % (time.time() - t0))
        if silent:
            ctx.silent_perr = {stmts[i]: any(e[0] == "perr" for e in it[i]["ok"]["events"]) for i in range(len(stmts)) if "ok" in it[i]}
        else:
            # the property on the implementation alone: a statement on which the silent parser met a syntax
            # error (p_error was called) must raise DDLParserError when silent=False, and only such statements
            for i, s in enumerate(stmts):
                if s not in ctx.silent_perr:
                    continue
                a = it[i]
                if ctx.silent_perr[s] and "ok" in a:
                    res.violation("input", "the grammar rejects this statement (p_error was called in silent mode) but silent=False did not raise",
                                  statement=s, oracle="rejected_raises")
                if not ctx.silent_perr[s] and a.get("raise") == "DDLParserError":
                    res.violation("input", "silent mode parses this statement without a syntax error but silent=False raised DDLParserError",
                                  statement=s, oracle="accepted_never_raises")
        for i, b in zip(idx, mt):
            a, s = it[i], stmts[i]
            io, mo = impl_outcome(a), model_outcome(b)
            res.corr["C:lr_trace"] = res.corr.get("C:lr_trace", 0) + 1
            if io[0] == "ok":
                ir = [e[1] for e in io[1]["events"] if e[0] == "r"]
                good = mo[0] == "ok" and ir == [e[1] for e in mo[1] if e[0] == "r"] and \
                    ((io[1]["result"] is None) == (mo[1][-1][0] == "eend"))
                if good and len([e for e in io[1]["events"] if e[0] == "t"]) >= 3:
                    res.nontrivial.add(("lr", s))
                if good and any(e[0] in ("e", "eend") for e in mo[1]):
                    res.count("lr:with_recovery")
            else:
                good = mo[0] == "raise" and mo[1] == io[1]
                res.count("lr:loud_raise")
            if not good:
                res.violation("correspondence", "LR driver model and implementation disagree", tie=True,
                              layer="correspondence C (lr_trace)", statement=s, silent=silent,
                              impl=io if io[0] != "ok" else "ok", model=mo if mo[0] != "ok" else "ok")


def check_lockstep(ctx, ddl):
    """the property itself on one DDL text. returns None or a description of the violation"""
    a = ctx.impl.one({"op": "run", "ddl": ddl, "ctor": {"silent": True}})
    b = ctx.impl.one({"op": "run", "ddl": ddl, "ctor": {"silent": False}})
    return judge_lockstep(a, b)


def judge_lockstep(a, b):
    if "raise" in a:
        if a["raise"] == "DDLParserError" and "Unknown symbol" in a.get("msg", ""):
            return ("D8", "silent=True raised DDLParserError (t_error)")
        if b.get("raise") == a["raise"] and a["raise"] != "DDLParserError":
            return None     # the same exception from a semantic action / the output layer in both settings (C04 etc.)
        if a["raise"] == "ValueError" and "does not exists in tables data" in a.get("msg", "") and b.get("raise") == "DDLParserError":
            # an unparseable prefix followed by an ALTER / CREATE INDEX naming an unknown table: after PLY's recovery the ALTER is
            # parsed and the output layer reports the unknown table (property C04's ValueError); the loud run stops at the prefix
            return None
        return (None, "silent=True raised %s: %s" % (a["raise"], a.get("msg")))
    if "ok" not in a:
        return (None, "silent=True: %r" % (a,))
    if "ok" in b:
        if canon_impl(a["ok"]) != canon_impl(b["ok"]):
            return (None, "silent=False did not raise but returned a different result")
        return None
    if "raise" in b:
        if "SimpleDDLParserException" not in b.get("mro", []) or b["raise"] != "DDLParserError":
            # exceptions thrown by semantic actions in both settings are not C16's subject
            if "raise" in a and a["raise"] == b["raise"]:
                return None
            return (None, "silent=False raised %s (not DDLParserError): %s" % (b["raise"], b.get("msg")))
        return None
    return (None, "silent=False: %r" % (b,))


def run(ctx, res):
    rng = ctx.rng
    ddls = harvest_test_ddl(ctx.scratch)
    stmts = statements_for(ctx, ddls)
    nmut = 3 if ctx.thorough else 1
    muts = []
    for s in stmts:
        for k in range(nmut):
            muts.append(gens.mutate_words(rng, s, 1 + k % 3))
    unsup = [x for fam in gens.UNSUPPORTED_FAMILIES.values() for x in fam]
    all_stmts = sorted(set(stmts + muts + unsup))
    if not ctx.thorough:
        rng.shuffle(all_stmts)
        all_stmts = all_stmts[:700]
    res.evaluations += 2 * len(all_stmts)
    if ctx.model:
        corr_lr(ctx, res, all_stmts)

    # ---- the property on whole scripts ----------------------------------------------------------------
    scripts = []
    for d in ddls:
        scripts.append(("harvested", d))
    for fam, xs in gens.UNSUPPORTED_FAMILIES.items():
        for x in xs:
            t1, t2 = gens.simple_table(rng, "t_before"), gens.simple_table(rng, "t_after")
            scripts.append(("unsupported:" + fam, "%s\n%s;\n%s\n" % (t1, x, t2)))
            scripts.append(("unsupported_alone:" + fam, x + ";\n"))
    for x in gens.FILTERED:
        scripts.append(("filtered", "%s\n%s;\n%s\n" % (gens.simple_table(rng, "t1"), x, gens.simple_table(rng, "t2"))))
    for s in muts[: (2000 if ctx.thorough else 300)]:
        scripts.append(("mutated", s + ";\n"))
    # a statement made unparseable by leading junk: the silent run gets past the syntax error (PLY's recovery) and the grammar
    # actions then work on what is left of it — whatever they do, nothing may escape run(); the loud run raises DDLParserError
    for s in (stmts if ctx.thorough else stmts[::2]):
        scripts.append(("recovered", rng.choice(["select select ", "zz ", ") ", "grant x "]) + s + ";\n"))
    # directed: after the recovery a grammar action meets a table without the row format it expects
    for junk in ("select select ", "zz ", ") "):
        for tail in ("ROW FORMAT 'c' WITH SERDEPROPERTIES ('k'='v')", "WITH SERDEPROPERTIES ('k'='v')", "ROW FORMAT , 'my_serde' WITH SERDEPROPERTIES ( 'key1'='value1' )"):
            scripts.append(("recovered", "%sCREATE TABLE x (a STRING) %s;\n%s\n" % (junk, tail, gens.simple_table(rng, "t_after"))))
    A = ctx.impl.map([{"op": "run", "ddl": d, "ctor": {"silent": True}} for _, d in scripts])
    B = ctx.impl.map([{"op": "run", "ddl": d, "ctor": {"silent": False}} for _, d in scripts])
    res.evaluations += 2 * len(scripts)
    for (kind, d), a, b in zip(scripts, A, B):
        res.count("script:" + kind.split(":")[0])
        v = judge_lockstep(a, b)
        if v is None and "ok" in a:
            res.nontrivial.add(("script", d))
        if v is not None:
            res.violation("input", v[1], finding_key=v[0], ddl=d, oracle="lockstep", family=kind)
            continue
        # unsupported statement between two tables: silent -> exactly the two tables; loud -> raises
        if kind.startswith("unsupported:"):
            names = [e.get("table_name") for e in py_of_impl(a["ok"]) if isinstance(e, dict)] if "ok" in a else None
            if names != ["t_before", "t_after"]:
                res.violation("input", "unsupported statement altered the silent result: %r" % (names,), ddl=d,
                              oracle="unsupported_neutral", family=kind)
            if "raise" not in b:
                res.violation("input", "unsupported statement did not raise under silent=False", ddl=d,
                              oracle="unsupported_raises", family=kind)
        if kind.startswith("unsupported_alone:"):
            if "ok" in a and py_of_impl(a["ok"]) != []:
                res.violation("input", "unsupported statement yielded an entity: %r" % (py_of_impl(a["ok"]),), ddl=d,
                              oracle="unsupported_none", family=kind)
        if kind == "filtered":
            if "ok" not in b or "ok" not in a:
                res.violation("input", "filtered line raised", ddl=d, oracle="filtered")
    if scripts:
        res.samples.append({"script": scripts[len(scripts) // 2][1][:300], "kind": scripts[len(scripts) // 2][0]})
        res.samples.append({"statement": all_stmts[0][:300]})

    # ---- unknown output_mode ---------------------------------------------------------------------------
    modes = ctx.gen_meta and json.load(open(os.path.join(COQ, "Gen", "dump.json")))["modes"] or []
    bad_modes = ["", "SQL", "postgresql", "sql ", "hive", "x" * 5, "Snowflake", "none"] + ["m%d" % rng.randrange(1000) for _ in range(5)]
    R = ctx.impl.map([{"op": "run", "ddl": "create table a (b int);", "run": {"output_mode": m}} for m in bad_modes])
    res.evaluations += len(bad_modes)
    for m, r in zip(bad_modes, R):
        if m in modes:
            continue
        okk = r.get("raise") == "SimpleDDLParserException" and all(x in r.get("msg", "") for x in modes[:8])
        if not okk:
            res.violation("input", "unknown output_mode %r: %r" % (m, r), ddl="create table a (b int);", mode=m, oracle="bad_mode")
    R = ctx.impl.map([{"op": "run", "ddl": "create table a (b int);", "run": {"output_mode": m}} for m in modes])
    for m, r in zip(modes, R):
        if "ok" not in r:
            res.violation("input", "documented output_mode %r rejected: %r" % (m, r), mode=m, oracle="good_mode")


def replay(ctx, payload):
    if payload.get("oracle") in ("rejected_raises", "accepted_never_raises"):
        s = payload["statement"]
        a = ctx.impl.one({"op": "trace", "s": s, "ctor": {"silent": True}})
        b = ctx.impl.one({"op": "trace", "s": s, "ctor": {"silent": False}})
        perr = "ok" in a and any(e[0] == "perr" for e in a["ok"]["events"])
        return (perr and "ok" in b) or ((not perr) and b.get("raise") == "DDLParserError")
    if "ddl" in payload and payload.get("oracle") in ("lockstep", "unsupported_neutral", "unsupported_raises", "unsupported_none", "filtered"):
        r = Result("C16")
        v = check_lockstep(ctx, payload["ddl"])
        return v is not None
    return True
