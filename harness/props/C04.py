"""C04 — ALTER TABLE / CREATE INDEX change exactly the table they name, as declared."""
import copy
from common import *
import gen_table as G
import gen_hist as H

RULE = ("histories: 1-4 CREATE TABLEs (names colliding across schemas a/b/c/none) followed by 0-8 ALTER TABLE / CREATE INDEX "
        "statements (add, drop, rename, add unique 1/k, add default for 1-3 columns, add pk, add fk 1-3 columns, add check, "
        "(unique) index with directions, statement on a missing table), table and column names quoted/cased at random; "
        "expected = each table parsed alone + the declared effects on the named table only (ValueError for a missing table); "
        "plus model-vs-implementation correspondence of Output.format on the implementation's own parser output. "
        "non-trivial = distinct script with >= 2 tables and >= 1 alter/index")
PARTIAL = ["the grammar side of ALTER / CREATE INDEX (that the statement text yields the parser-output dict) is explored against "
           "the effect specification, not proved (the Alter/Index fragment is not yet under the engine theorem)"]
ASSUMES = ["Model/Output.v mirrors output/core.py + base_data.py: correspondence layer E on every run"]


def norm(s):
    for ch in '[]"`':
        s = s.replace(ch, "")
    return s.lower()


def simulate(tbl, stmts):
    """apply the declared effects to the entity of the table parsed alone"""
    t = copy.deepcopy(tbl)
    for kind, _, _, info in stmts:
        cols = t["columns"]
        if kind == "add":
            c = {"name": info["name"], "type": "int", "size": None, "references": None, "unique": False, "primary_key": False,
                 "nullable": True, "default": None, "check": None}
            t["alter"].setdefault("columns", []).append(copy.deepcopy(c))
            if norm(info["name"]) not in [norm(x["name"]) for x in cols]:
                cols.append(c)
        elif kind == "drop":
            for i, c in enumerate(cols):
                if norm(c["name"]) == norm(info["name"]):
                    t["alter"]["dropped_columns"] = c
                    del cols[i]
                    break
            else:
                t["alter"].setdefault("dropped_columns", [])
        elif kind == "modify":
            for i, c in enumerate(cols):
                if norm(c["name"]) == norm(info["name"]):
                    t["alter"]["modified_columns"] = c
                    cols[i] = {"name": info["written"], "type": "varchar", "size": info["size"], "references": None, "unique": False,
                               "primary_key": False, "nullable": True, "default": None, "check": None}
                    break
            else:
                t["alter"].setdefault("modified_columns", [])
        elif kind == "rename":
            for c in cols:
                if norm(c["name"]) == norm(info["from"]):
                    c["name"] = info["to"]
                    break
            t["alter"].setdefault("renamed_columns", []).append({"from": None, "to": info["to"]})
        elif kind in ("unique1", "uniquek"):
            t["alter"].setdefault("uniques", []).append({"constraint_name": "uq_x" if kind == "uniquek" else None, "columns": list(info["cols"])})
            if len(info["cols"]) == 1:
                for c in cols:
                    if c["name"] == info["cols"][0]:
                        c["unique"] = True
        elif kind == "default":
            t["alter"].setdefault("defaults", []).append({"constraint_name": "df_x", "columns": list(info["cols"]), "value": info["value"]})
            for c in cols:
                if c["name"] in info["cols"]:
                    c["default"] = info["value"]
        elif kind == "pk":
            t["alter"].setdefault("primary_keys", []).append({"constraint_name": None, "columns": list(info["cols"])})
        elif kind == "fk":
            for cn, rc in zip(info["cols"], info["rcols"]):
                e = {"name": cn, "constraint_name": "fk_x",
                     "references": {"table": "parent", "schema": "o", "on_delete": None, "on_update": None,
                                    "deferrable_initially": None, "column": rc}}
                t["alter"].setdefault("columns", []).append(e)
                if norm(cn) not in [norm(x["name"]) for x in cols]:
                    cols.append(e)
        elif kind == "check":
            t["alter"].setdefault("checks", []).append({"constraint_name": "ck_x", "statement": "%s > 0" % info["col"]})
        elif kind in ("index", "uindex"):
            t["index"].append({"index_name": info["name"], "unique": info["unique"], "columns": list(info["cols"]),
                               "detailed_columns": [{"name": c, "order": "DESC" if d.strip() == "DESC" else "ASC", "nulls": "LAST"}
                                                    for c, d in zip(info["cols"], info["dirs"])]})
    return t


def strip_from(v):
    """renamed_columns 'from' keeps the spelling written in the statement: compare 'to' only; the column list of an
    ADD DEFAULT ... FOR a, b record keeps the comma tokens (['a', ',', 'b']): compared without them"""
    t = copy.deepcopy(v)
    for r in t.get("alter", {}).get("defaults", []) if isinstance(t.get("alter"), dict) else []:
        if isinstance(r, dict) and isinstance(r.get("columns"), list):
            r["columns"] = [x for x in r["columns"] if x != ","]
    for r in t.get("alter", {}).get("renamed_columns", []) if isinstance(t.get("alter"), dict) else []:
        if isinstance(r, dict):
            r["from"] = None
    return t


def check_history(ctx, h, full, bases):
    """returns a description of the violation or None"""
    stmts = h["stmts"]
    missing = [s for s in stmts if s[0] == "missing"]
    if missing:
        if full.get("raise") != "ValueError":
            return "statement on an undefined table did not raise ValueError: %r" % (full.get("raise") or "returned a result",)
        return None
    if "ok" not in full:
        return "script raised %r" % (full,)
    got = py_of_impl(full["ok"])
    if len(got) != len(h["tables"]):
        return "expected %d table entities, got %d" % (len(h["tables"]), len(got))
    for i, (b, g) in enumerate(zip(bases, got)):
        mine = [s for s in stmts if s[1] == i]
        exp = simulate(b, mine)
        if strip_from(G.norm_refs(g)) != strip_from(G.norm_refs(exp)):
            if not mine:
                return "table #%d (%s) is not named by any statement but changed" % (i, b.get("table_name"))
            keys = [k for k in set(exp) | set(g) if strip_from(G.norm_refs(g)).get(k) != strip_from(G.norm_refs(exp)).get(k)]
            return "table #%d (%s): effect differs from the declared one in %s" % (i, b.get("table_name"), keys)
    return None


def kwc(rng, w):
    return "".join(c.upper() if rng.random() < 0.5 else c.lower() for c in w) if rng.random() < 0.6 else w


def gen_alter_args(rng):
    """flat arguments of the alt_spec command (Spec/Alter.v alter_of_args): one ALTER TABLE statement of the fragment"""
    names = ["a", "b2", "user_id", "Name", "qty", "created_at", "x_1", "ZIP", "k9", "val"]
    head = [kwc(rng, "ALTER"), kwc(rng, "TABLE"), rng.choice(["", "", "s", "Dev"]), rng.choice(["t", "orders", "Users", "line_items"])]
    def nlist():
        k = rng.choice([1, 1, 2, 3, 5, 9])
        l = rng.sample(names, min(k, len(names)))
        return [str(len(l))] + l
    def cons():
        return [kwc(rng, "CONSTRAINT"), rng.choice(["pk_1", "uq_x", "fk_orders"])] if rng.random() < 0.5 else ["", ""]
    form = rng.randrange(8)
    if form == 0:
        return head + ["DROP", kwc(rng, "DROP"), kwc(rng, "COLUMN"), rng.choice(names)]
    if form == 1:
        return head + ["REN", kwc(rng, "RENAME"), kwc(rng, "COLUMN"), rng.choice(names), rng.choice(["TO", "to"]), rng.choice(names)]
    if form == 2:
        return head + ["ADDC", kwc(rng, "ADD"), rng.choice(names), rng.choice(["int", "text", "DATE", "bigint"])]
    if form == 3:
        kind = rng.choice(["MC", "AC", "M"])
        k1, k2 = {"MC": ("MODIFY", "COLUMN"), "AC": ("ALTER", "COLUMN"), "M": ("MODIFY", "")}[kind]
        return head + ["MOD", kind, kwc(rng, k1), kwc(rng, k2) if k2 else "", rng.choice(names), rng.choice(["varchar", "int", "NUMBER"]),
                       rng.choice(["", "10", "255", "0"])]
    if form in (4, 5):
        kind = rng.choice(["U", "P"])
        return head + ["KEY", kwc(rng, "ADD")] + cons() + ([kind, kwc(rng, "UNIQUE"), ""] if kind == "U" else [kind, kwc(rng, "PRIMARY"), kwc(rng, "KEY")]) + nlist()
    cols = nlist()
    rcols = [cols[0]] + ["r%d" % i for i in range(int(cols[0]))]
    od = [kwc(rng, "ON"), kwc(rng, "DELETE"), rng.choice(["CASCADE", "restrict"])] if rng.random() < 0.5 else ["", "", ""]
    ou = [kwc(rng, "ON"), kwc(rng, "UPDATE"), rng.choice(["CASCADE", "restrict"])] if rng.random() < 0.4 else ["", "", ""]
    return head + ["FK", kwc(rng, "ADD")] + cons() + [kwc(rng, "FOREIGN"), kwc(rng, "KEY")] + cols + \
        [kwc(rng, "REFERENCES"), rng.choice(["", "o"]), rng.choice(["p", "parents"])] + rcols + od + ou


def theorem_forms(ctx, res):
    """the forms under C04_alter_statement_exact: expected statement entity = the extracted Coq denote"""
    rng = ctx.rng
    n = 1500 if ctx.thorough else 300
    asts = [gen_alter_args(rng) for _ in range(n)]
    for norm in (False, True):
        sp = ctx.model.map([("alt_spec", ["1" if norm else "0"] + a) for a in asts])
        texts = []
        for s_ in sp:
            if "lexemes" not in s_:
                texts.append(None)
                continue
            out = ""
            lx = s_["lexemes"]
            for i, (rule, txt) in enumerate(lx):
                glue = rule == "t_DOT" or (i > 0 and lx[i - 1][0] == "t_DOT")
                out += txt if glue else ((" " if i else "") + txt + (" " if rng.random() < 0.2 else ""))
            texts.append(out + " ")
        SC = ctx.model.map([("scan", [t or ""]) for t in texts])
        TR = ctx.impl.map([{"op": "trace", "s": t or "", "ctor": {"normalize_names": norm}} for t in texts])
        res.evaluations += len(asts)
        for a, s_, x, sc, tr in zip(asts, sp, texts, SC, TR):
            if not s_.get("wf"):
                res.count("theorem_form:not_wf")
                continue
            res.count("theorem_form:" + a[4])
            if "ok" not in sc or [list(l) for l in sc["ok"]] != [list(l) for l in s_["lexemes"]]:
                res.violation("correspondence", "the scanner model does not cut the rendered statement into the lexemes of the specification",
                              stmt=x, oracle="scan")
                continue
            io = impl_outcome(tr)
            got = canon_impl(io[1]["result"]) if io[0] == "ok" and io[1]["result"] is not None else ("raise/none", str(io)[:200])
            if got != canon_model(s_["denote"]):
                res.violation("input", "parser stage: the ALTER entity differs from the Coq specification (Alter.denote): %s" %
                              (json.dumps(py_of_impl(io[1]["result"]))[:500] if io[0] == "ok" else str(io)), stmt=x, norm=norm, args=a,
                              oracle="coq_denote")
            else:
                res.nontrivial.add(x)
        # whole scripts: a table, then the statement (model run vs implementation run)
        if not norm:
            scripts = []
            for a, s_, x in zip(asts, sp, texts):
                if s_.get("wf"):
                    tn = ((a[2] + ".") if a[2] else "") + a[3]
                    scripts.append("CREATE TABLE %s (a int, b2 int, user_id int, Name text, qty int, created_at date, x_1 int, ZIP int, k9 int, val int);\n%s;\n" % (tn, x.rstrip()))
            corr_run(ctx, res, scripts[:: (1 if ctx.thorough else 3)], label="F:run(alter forms)")


def run(ctx, res):
    rng = ctx.rng
    n = 3000 if ctx.thorough else 350
    hs = [H.gen_history(rng) for _ in range(n)]
    full = ctx.impl.map([{"op": "run", "ddl": h["text"]} for h in hs])
    flat_tables = [(hi, ti, t) for hi, h in enumerate(hs) for ti, t in enumerate(h["tables"])]
    alone = ctx.impl.map([{"op": "run", "ddl": G.render_table(t, None)} for _, _, t in flat_tables])
    bases = {}
    for (hi, ti, t), a in zip(flat_tables, alone):
        bases.setdefault(hi, []).append(py_of_impl(a["ok"])[0] if "ok" in a and py_of_impl(a["ok"]) else {})
    res.evaluations += len(hs)
    for hi, (h, f) in enumerate(zip(hs, full)):
        for s in h["stmts"]:
            res.count("stmt:" + s[0])
        res.count("tables:%d" % len(h["tables"]))
        v = check_history(ctx, h, f, bases[hi])
        if v:
            res.violation("input", v, ddl=h["text"], oracle="history")
        elif len(h["tables"]) >= 2 and h["stmts"]:
            res.nontrivial.add(h["text"])
    # ---- the same histories in other output modes: the declared effects do not depend on the mode (incl. the error for a missing table)
    hmodes = ["bigquery", "mssql", "hql"] if not ctx.thorough else ["bigquery", "mssql", "hql", "mysql", "oracle", "redshift", "snowflake", "postgres"]
    sub_h = list(zip(hs, full))[:: (1 if ctx.thorough else 2)]
    for mode in hmodes:
        FM = ctx.impl.map([{"op": "run", "ddl": h["text"], "run": {"output_mode": mode}} for h, _ in sub_h])
        res.evaluations += len(sub_h)
        for (h, f), fm in zip(sub_h, FM):
            res.count("mode:" + mode)
            if ("ok" in f) != ("ok" in fm):
                res.violation("input", "output_mode=%s: %s, default mode: %s" % (mode, "ok" if "ok" in fm else fm.get("raise"), "ok" if "ok" in f else f.get("raise")),
                              ddl=h["text"], mode=mode, oracle="history_modes")
                continue
            if "ok" not in f:
                if f.get("raise") != fm.get("raise"):
                    res.violation("input", "output_mode=%s raises %s, default mode %s" % (mode, fm.get("raise"), f.get("raise")), ddl=h["text"], mode=mode, oracle="history_modes")
                continue
            def undataset(v):          # bigquery reports every schema under the key dataset
                if isinstance(v, dict):
                    return {("schema" if k == "dataset" else k): undataset(x) for k, x in v.items()}
                if isinstance(v, list):
                    return [undataset(x) for x in v]
                return v
            a, b = undataset(py_of_impl(f["ok"])), undataset(py_of_impl(fm["ok"]))
            def part(t, k):
                if k == "columns":
                    return [(c.get("name"), c.get("type"), c.get("unique"), c.get("nullable"), c.get("default")) for c in t.get("columns", [])]
                if k == "index":       # dialect modes add their own index fields (clustered ...): the common ones are compared
                    return [{x: ix.get(x) for x in ("index_name", "unique", "detailed_columns", "columns")} for ix in (t.get("index") or [])]
                return t.get(k)
            view = lambda v: [{k: part(t, k) for k in ("table_name", "columns", "primary_key", "alter", "index", "checks")}
                              for t in v if isinstance(t, dict) and "table_name" in t]
            def within(x, y):        # y (dialect mode) may add its own documented keys to any dict; everything of x must be there unchanged
                if isinstance(x, dict) and isinstance(y, dict):
                    return all(k in y and within(v, y[k]) for k, v in x.items())
                if isinstance(x, (list, tuple)) and isinstance(y, (list, tuple)):
                    return len(x) == len(y) and all(within(u, w) for u, w in zip(x, y))
                return x == y
            if not within(view(a), view(b)):
                res.violation("input", "output_mode=%s: the tables after the ALTER / INDEX statements differ from the default mode" % mode, ddl=h["text"], mode=mode,
                              oracle="history_modes")
    # ---- correspondence E on the implementation's own parser output ---------------------------------------
    if ctx.model:
        st = ctx.impl.map([{"op": "statements", "ddl": h["text"]} for h in hs])
        items = [(h, a["ok"]["parser_output"]) for h, a in zip(hs, st) if "ok" in a]
        modes = ["sql", "mssql", "bigquery"] if not ctx.thorough else json.load(open(os.path.join(COQ, "Gen", "dump.json")))["modes"]
        for mode in modes:
            I = ctx.impl.map([{"op": "format", "parser_output": po, "mode": mode} for _, po in items])
            M = ctx.model.map([("format", [mode, "0"] + flat_encode(py_of_impl(po))) for _, po in items])
            for (h, po), i, m in zip(items, I, M):
                res.corr["E:format"] = res.corr.get("E:format", 0) + 1
                if not same_outcome(impl_outcome(i), model_outcome(m)):
                    res.violation("correspondence", "model and implementation of Output.format disagree", tie=True,
                                  layer="correspondence E (Output.format)", ddl=h["text"], mode=mode,
                                  impl=impl_outcome(i) if impl_outcome(i)[0] != "ok" else "ok(differs)", model=model_outcome(m) if model_outcome(m)[0] != "ok" else "ok(differs)")
    # ---- correspondence D on every ALTER / INDEX / CREATE statement of the histories, F on the whole scripts -----------------
    if ctx.model:
        sub = st[:: (1 if ctx.thorough else 2)]
        corr_parse(ctx, res, [s_ for a in sub if "ok" in a for s_ in a["ok"]["statements"]], norms=(False,))
        corr_run(ctx, res, [h["text"] for h in hs[:: (1 if ctx.thorough else 2)]])
    if ctx.model:
        theorem_forms(ctx, res)
    # ---- a later run() in the same process must not see the tables of an earlier one ---------------------------
    pairs = []
    for h in hs[: (400 if ctx.thorough else 60)]:
        t = h["tables"][0]
        tn = ((t["schema"] + ".") if t["schema"] else "") + t["name"]
        second = rng.choice(["ALTER TABLE %s ADD UNIQUE (%s);" % (tn, t["cols"][0]["name"]),
                             "CREATE INDEX ix_later ON %s (%s);" % (tn, t["cols"][0]["name"]),
                             "ALTER TABLE %s DROP COLUMN %s;" % (tn, t["cols"][0]["name"])])
        pairs.append((G.render_table(t, None), second))
    SEQ = ctx.impl.map([{"op": "run_seq", "ddls": [a, b, a]} for a, b in pairs])
    res.evaluations += len(pairs)
    for (a, b), r in zip(pairs, SEQ):
        res.count("cross_run")
        outs = r.get("ok") if "ok" in r else None
        if not outs or len(outs) != 3:
            res.violation("history", "run sequence failed: %r" % (r,), ddls=[a, b, a], oracle="cross_run")
            continue
        if outs[1].get("raise") != "ValueError":
            res.violation("history", "a script that only alters/indexes a table defined by an EARLIER run() did not raise ValueError: %r" % (outs[1],),
                          ddls=[a, b, a], oracle="cross_run")
        elif "ok" not in outs[0] or "ok" not in outs[2] or canon_impl(outs[0]["ok"]) != canon_impl(outs[2]["ok"]):
            res.violation("history", "the same CREATE TABLE parsed differently after another run in the process", ddls=[a, b, a], oracle="cross_run")
    res.samples.append({"ddl": hs[0]["text"]})
    res.samples.append({"ddl": hs[1]["text"]})


def replay(ctx, payload):
    return True
