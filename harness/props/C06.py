"""C06 — identifiers are verbatim; normalize_names only strips outer delimiters."""
import copy
from common import *
import gen_table as G

RULE = ("(a) every grammar keyword (from the regenerated token list) x {first, later} column position x {upper, lower} case: "
        "accepted as a column name and reported verbatim iff it is not one of the 13 clause-opening words; (b) generated tables, "
        "ALTER/INDEX statements and sequences whose schema, table, column, constraint, index, sequence and referenced names are "
        "drawn from plain / mixed-case / \"double-quoted\" / `backticked` / [bracketed] spellings and accepted keywords: result "
        "compared with the specification (names verbatim incl. delimiters), and with normalize_names=True the whole output must equal "
        "the normalize_names=False output with exactly one pair of outer delimiters removed from every identifier. "
        "non-trivial = distinct DDL containing >= 1 delimited or keyword name")
PARTIAL = ["the end-to-end claim for every name position is explored; proved: the keyword acceptance set (derived on the real "
           "tables), p_id verbatim, normalize strips exactly one pair (all names)"]
ASSUMES = []

DELIMS = [("", ""), ('"', '"'), ("`", "`"), ("[", "]")]
LISTED = ["AUTOINCREMENT", "BY", "CHECK", "CLUSTER", "COLLATE", "CONSTRAINT", "FOREIGN", "INDEX", "KEY", "LIKE", "PRIMARY", "UNIQUE", "WITH"]


def strip_pair(s):
    for a, b in DELIMS[1:]:
        if len(s) > 2 and s.startswith(a) and s.endswith(b):
            return s[1:-1]
    return s


def fix_uc(v):
    """the synthetic name of an unnamed multi-column UNIQUE is built from the (normalised) column names"""
    for e in v:
        for u in (e.get("constraints") or {}).get("uniques", []) if isinstance(e, dict) else []:
            if isinstance(u.get("constraint_name"), str) and u["constraint_name"].startswith("UC_"):
                u["constraint_name"] = "UC_" + "_".join(u["columns"])
    return v


def map_names(v):
    """remove one pair of outer delimiters from every string that carries one"""
    if isinstance(v, str):
        return strip_pair(v)
    if isinstance(v, list):
        return [map_names(x) for x in v]
    if isinstance(v, tuple):
        return tuple(map_names(x) for x in v)
    if isinstance(v, dict):
        return {k: map_names(x) for k, x in v.items()}
    return v


def requote(rng, name):
    a, b = rng.choice(DELIMS)
    base = rng.choice([name, name.upper(), name.capitalize()])
    if a in ("[", "`") and rng.random() < 0.15:
        # the name's own text touches the delimiter character: [[b]  [t]]  `a``
        base = rng.choice([a + base, base + b, base + b + b])
    return a + base + b


def run(ctx, res):
    rng = ctx.rng
    dump = json.load(open(os.path.join(COQ, "Gen", "dump.json")))
    nonkw = {"ID", "DOT", "STRING_BASE", "DQ_STRING", "LP", "RP", "LT", "RT", "COMMAT", "EQ", "COMMA"}
    kws = [t for t in dump["tokens"] if t not in nonkw]
    # ---- (a) keywords as column names -----------------------------------------------------------------------------------
    cases = []
    for k in kws:
        for w in (k, k.lower()):
            cases.append((k, w, "first", "CREATE TABLE t (%s int, z int);" % w, [w, "z"]))
            cases.append((k, w, "later", "CREATE TABLE t (a int, %s varchar(5) NOT NULL, z int);" % w, ["a", w, "z"]))
    R = ctx.impl.map([{"op": "run", "ddl": c[3]} for c in cases])
    res.evaluations += len(cases)
    for (k, w, pos, ddl, exp), r in zip(cases, R):
        names = None
        if "ok" in r:
            v = py_of_impl(r["ok"])
            if v and isinstance(v[0], dict) and "columns" in v[0]:
                names = [c.get("name") for c in v[0]["columns"]]
        accepted = names == exp
        res.count("kw:" + ("accepted" if accepted else "rejected"))
        if k in LISTED:
            continue          # the property makes no claim for the clause-opening words
        if not accepted:
            res.violation("input", "keyword %s (%s column, written %r) is not accepted/reported verbatim as a column name: %r" % (k, pos, w, names),
                          ddl=ddl, oracle="kw_column")
        else:
            res.nontrivial.add(ddl)
    # ---- (b) delimited / mixed-case / keyword names everywhere ----------------------------------------------------------------
    n = 2500 if ctx.thorough else 350
    accepted_kw = [k.lower() for k in kws if k not in LISTED and k not in ("ARRAY", "ENUM", "SET", "NULL", "NOT", "DEFAULT", "REFERENCES", "ON", "GENERATED",
                                                                                   # statement-level words would start a line (C05's proviso)
                                                                                   "CREATE", "ALTER", "DROP", "DELETE", "UPDATE", "USING")]
    texts, exps = [], []
    for i in range(n):
        t = G.gen_table(rng, constraints=(i % 2 == 0))
        ren = {}
        for c in t["cols"]:
            old = c["name"]
            new = requote(rng, old) if rng.random() < 0.7 else (rng.choice(accepted_kw) if rng.random() < 0.3 else old)
            if new in ren.values() or new.lower() in ("key",):
                new = old
            ren[old] = new
            c["name"] = new
        for it in t["items"]:
            if it[0] in ("pk", "unique", "fk"):
                it[2][:] = [ren[x] for x in it[2]]
        t["items"] = [tuple(it) for it in t["items"]]
        # checks reference columns inside an expression: keep plain-named ones only
        t["items"] = [it for it in t["items"] if it[0] != "check" or ren.get(it[2].split()[0]) == it[2].split()[0]]
        t["name"] = requote(rng, t["name"])
        if t["schema"]:
            t["schema"] = requote(rng, t["schema"])
        for c in t["cols"]:
            for o in c["opts"]:
                if o[0] == "ref":
                    o[1]["table"] = requote(rng, o[1]["table"])
                    if o[1]["column"]:
                        o[1]["column"] = requote(rng, o[1]["column"])
        new_items = []
        for it in t["items"]:
            if it[0] in ("pk", "unique", "check") and it[1]:
                it = (it[0], requote(rng, it[1])) + tuple(it[2:])
            new_items.append(it)
        t["items"] = new_items
        texts.append(G.render_table(t, rng, oneline=(i % 3 == 0)))
        exps.append(G.expected_table(t))
    A = ctx.impl.map([{"op": "run", "ddl": x} for x in texts])
    B = ctx.impl.map([{"op": "run", "ddl": x, "ctor": {"normalize_names": True}} for x in texts])
    res.evaluations += 2 * len(texts)
    for x, e, a, b in zip(texts, exps, A, B):
        res.count("tables")
        got = G.norm_refs(py_of_impl(a["ok"])) if "ok" in a else a
        if got != [e]:
            keys = sorted(k for k in set(e) | set(got[0]) if e.get(k) != got[0].get(k)) if isinstance(got, list) and len(got) == 1 else "shape"
            res.violation("input", "names are not reported verbatim (differs in %s)" % (keys,), ddl=x, expected=e,
                          actual=got if isinstance(got, list) else str(got), oracle="verbatim")
            continue
        if "ok" not in b or G.norm_refs(py_of_impl(b["ok"])) != fix_uc(map_names([e])):
            res.violation("input", "normalize_names=True does not differ from the plain output by exactly one pair of outer delimiters per identifier",
                          ddl=x, expected=map_names([e]), actual=py_of_impl(b["ok"]) if "ok" in b else b, oracle="normalize")
            continue
        if any(ch in x for ch in '"`['):
            res.nontrivial.add(x)
    # ---- the known finding D9 (a second pair is stripped from a doubly delimited name) ---------------------------------------------
    w = ctx.impl.one({"op": "run", "ddl": 'CREATE TABLE "[a]" (x int);', "ctor": {"normalize_names": True}})
    if "ok" in w and py_of_impl(w["ok"]) and py_of_impl(w["ok"])[0].get("table_name") != "[a]":
        res.violation("input", 'normalize_names strips two pairs from "[a]": %r' % py_of_impl(w["ok"])[0].get("table_name"),
                      ddl='CREATE TABLE "[a]" (x int);', finding_key="D9", oracle="nested")
    res.samples.append({"ddl": texts[0], "normalized_expected": map_names([exps[0]])[0]["columns"][:2]})
    res.samples.append({"ddl": cases[10][3]})


def replay(ctx, payload):
    return True
