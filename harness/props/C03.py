"""C03 — statements of a script are parsed independently and reported in order."""
import itertools
from common import *
import gens
import gen_table as G
from props import C17 as S

RULE = ("scripts of 2-6 statements, each ending with ';' at the end of a line, drawn from generated tables (core fragment, with "
        "constraints), generated sequences, CREATE TYPE/DOMAIN/SCHEMA samples, tables whose literals hold unpaired parentheses, SET statements, unsupported statements (queries incl. "
        "unbalanced '<' '>', DML, views, session commands) and filtered lines; all orders for n<=3, random orders beyond; "
        "expected = in-order concatenation of each statement parsed alone (SET entries excluded: a trailing SET is dropped by the "
        "line machine, documented); plus layer-A correspondence (statement boundaries, SET entries, comments) between Model/Pre.v "
        "and the implementation. non-trivial = distinct script with >= 2 supported statements")
PARTIAL = ["that a statement ending with ';' returns the line machine to its initial state is the hypothesis of the chunk theorem; "
           "it is evaluated per case by the model (correspondence A) rather than proved from the text of the statement"]
ASSUMES = ["Model/Pre.v mirrors pre_process_data / parse_data / process_line: correspondence A on every run"]

SAMPLES = [
    "CREATE TYPE my_enum AS ENUM ('a', 'b')", "CREATE DOMAIN d1 AS int", "CREATE SCHEMA sch1", "CREATE DATABASE db1",
    "CREATE TABLESPACE ts1", "CREATE TYPE s.addr AS OBJECT (street varchar(20), zip int)",
]
UNSUP = [x for fam in gens.UNSUPPORTED_FAMILIES.values() for x in fam] + \
        ["SELECT id FROM a WHERE id < 5", "SELECT x FROM t WHERE a > 3 AND b < 4", "UPDATE t SET v = 1 WHERE k > 2"] + gens.FILTERED


def only_entities(v):
    return [e for e in v if not (isinstance(e, dict) and set(e.keys()) <= {"name", "value"})]


def run(ctx, res):
    rng = ctx.rng
    # ---- building blocks ----------------------------------------------------------------------------------------
    blocks = []
    for i in range(60 if ctx.thorough else 25):
        t = G.gen_table(rng, name="tb%d" % i)
        blocks.append(("table", G.render_table(t, rng, oneline=(i % 3 == 0))))
    seq_asts = [S.gen_ast(rng) for _ in range(30)]
    specs = ctx.model.map([("seq_spec", ["0"] + a) for a in seq_asts]) if ctx.model else []
    for a, sp in zip(seq_asts, specs):
        if sp.get("wf"):
            blocks.append(("seq", S.render(rng, sp["lexemes"]) + ";"))
    blocks += [("entity", s + ";") for s in SAMPLES]
    # statements whose string literals hold an unpaired parenthesis / a semicolon-free smiley: the end of a statement is its ';',
    # whatever the literals contain
    for i, lit in enumerate(["'1) first step'", "':('", "'a (b'", "'x) y) z'", "'(('"]):
        blocks.append(("table", "CREATE TABLE lit_%d (\n  id int,\n  note varchar(20) DEFAULT %s,\n  z int\n);" % (i, lit)))
        blocks.append(("table", "CREATE TABLE litc_%d (id int COMMENT %s, z int);" % (i, lit)))
    # a table and an ALTER TABLE laid out over two lines, the action word (not one of CREATE / ALTER / DROP / SET) starting the
    # continuation line; and one-line tables to follow them: a statement ends at its ';', wherever its lines break
    for i, act in enumerate(["RENAME COLUMN a TO c", "ADD COLUMN d int", "MODIFY COLUMN a varchar(10)", "rename column b to e", "ADD d2 int",
                             "ADD CONSTRAINT uq_x UNIQUE (a)"]):
        blocks.append(("table_alter", "CREATE TABLE al_%d (a int, b int);\nALTER TABLE al_%d\n%s%s;" % (i, i, rng.choice(["", "  ", "\t"]), act)))
        blocks.append(("table", "CREATE TABLE one_%d (x int, y varchar(5));" % i))
    unsup = [("unsup", s + ";") for s in UNSUP]
    sets = [("set", "SET search_path = public;"), ("set", "set hive.x.y = true;")]
    alone = {}
    allb = blocks + unsup + sets
    R = ctx.impl.map([{"op": "run", "ddl": b[1] + "\n"} for b in allb])
    for b, r in zip(allb, R):
        alone[b[1]] = only_entities(py_of_impl(r["ok"])) if "ok" in r else None
    for b in unsup:
        if alone[b[1]] not in ([],):
            res.notes.append("unsupported statement yields %r alone: %s" % (alone[b[1]], b[1][:60]))
    # ---- scripts -------------------------------------------------------------------------------------------------
    scripts = []
    n = 3000 if ctx.thorough else 400
    for _ in range(n):
        k = rng.choice([2, 2, 3, 3, 4, 6])
        parts = [rng.choice(blocks) for _ in range(k)]
        for _ in range(rng.choice([0, 1, 1, 2])):
            parts.insert(rng.randrange(len(parts) + 1), rng.choice(unsup))
        if rng.random() < 0.3:
            parts.insert(rng.randrange(len(parts)), rng.choice(sets))      # never last
        scripts.append(parts)
        if k <= 3 and rng.random() < 0.3:
            for perm in itertools.permutations(parts):
                scripts.append(list(perm))
    scripts = [p for p in scripts if p[-1][0] != "set"]
    texts = ["\n".join(b[1] for b in parts) + "\n" for parts in scripts]
    R = ctx.impl.map([{"op": "run", "ddl": t} for t in texts])
    res.evaluations += len(texts)
    for parts, t, r in zip(scripts, texts, R):
        for b in parts:
            res.count("stmt:" + b[0])
        if any(alone[b[1]] is None for b in parts):
            continue
        exp = [e for b in parts for e in alone[b[1]]]
        got = only_entities(py_of_impl(r["ok"])) if "ok" in r else ("raise", r.get("raise"))
        if got != exp:
            res.violation("input", "script result is not the in-order concatenation of its statements parsed alone", ddl=t,
                          expected=exp, actual=got, oracle="concat")
        elif sum(1 for b in parts if b[0] in ("table", "seq", "entity")) >= 2:
            res.nontrivial.add(t)
    # ---- correspondence A ----------------------------------------------------------------------------------------
    if ctx.model:
        ddls = harvest_test_ddl(ctx.scratch)
        ddls = [d for d in ddls if "input.regex" not in d and len(d) < 20000]
        sample = (ddls if ctx.thorough else ddls[::2]) + texts[: (600 if ctx.thorough else 150)]
        I = ctx.impl.map([{"op": "markers", "ddl": d} for d in sample])
        M = ctx.model.map([("statements", [escaped(d)]) for d in sample])
        for d, i, m in zip(sample, I, M):
            res.corr["A:statements"] = res.corr.get("A:statements", 0) + 1
            if not same_outcome(impl_outcome(i), model_outcome(m)):
                res.violation("correspondence", "line machine model and implementation disagree on statement boundaries / SET entries / comments",
                              tie=True, layer="correspondence A (parse_data)", ddl=d,
                              impl=impl_outcome(i) if impl_outcome(i)[0] != "ok" else "ok(differs)",
                              model=model_outcome(m) if model_outcome(m)[0] != "ok" else "ok(differs)")
    res.samples.append({"ddl": texts[0]})
    res.samples.append({"ddl": texts[1]})


def replay(ctx, payload):
    return True
