"""C14 — run() is deterministic, repeatable and free of side effects."""
from common import *
import gens
import gen_table as G

RULE = ("DDL = harvested from /repo/tests + generated tables + scripts ending in a SET statement / inside an unterminated /* "
        "comment / with comments; histories on ONE object: run();run(), run(mode A);run(mode B);run(mode A), group_by_type toggled, "
        "with deep-copied snapshots of every returned value re-compared after all later calls; a fresh object; a fresh process; "
        "hash seeds 0,1,12345; directory listing of cwd and dump dir before/after; run of a second script between two runs of the "
        "first. non-trivial = distinct DDL whose result is non-empty; model correspondence = Api.run on the escaped text for the "
        "fragments the action model covers (sequences)")
PARTIAL = ["other processes / hash seeds, file-system side effects and aliasing of returned values are runtime behaviour: "
           "exercised on real runs, not modelled (the model's results are values)",
           "the translator's two workers (hash seeds 0 and 1) must produce identical tokens, grammar and tables (checked on every run)"]
ASSUMES = ["the per-run re-initialisation list is read off parse_data's source by the translator (Gen.parse_data_resets)"]

HISTORY = r'''
import copy, os, json
ddl = req["ddl"]; modes = req["modes"]
before = sorted(os.listdir("."))
p = DDLParser(ddl, **req.get("ctor", {}))
results, snaps = [], []
for (m, g) in req["calls"]:
    try:
        r = p.run(output_mode=m, group_by_type=g)
        results.append(r); snaps.append(copy.deepcopy(r))
    except Exception as e:
        results.append(("raise", type(e).__name__)); snaps.append(("raise", type(e).__name__))
fresh = []
for (m, g) in req["calls"]:
    try:
        fresh.append(DDLParser(ddl, **req.get("ctor", {})).run(output_mode=m, group_by_type=g))
    except Exception as e:
        fresh.append(("raise", type(e).__name__))
after = sorted(os.listdir("."))
def j(x):
    return json.dumps(x, sort_keys=True, default=str)
out = {"mutated": [i for i, (r, s) in enumerate(zip(results, snaps)) if j(r) != j(s)],
       "differs_from_fresh": [i for i, (s, f) in enumerate(zip(snaps, fresh)) if j(s) != j(f)],
       "new_files": [x for x in after if x not in before and not x.endswith(".pyc")],
       "first": enc(snaps[0]) if not isinstance(snaps[0], tuple) else {"raise": snaps[0][1]}}
'''

TAILS = ["\nSET x = 1;", "\nset a.b = c;\n", "\n/* unterminated comment\n still inside", "\n-- last line comment", "\nSET search_path = s;\n-- c\n"]


def run(ctx, res):
    rng = ctx.rng
    modes = json.load(open(os.path.join(COQ, "Gen", "dump.json")))["modes"]
    ddls = harvest_test_ddl(ctx.scratch)
    if not ctx.thorough:
        ddls = ddls[::3]
    gen = [G.render_table(G.gen_table(rng), rng) for _ in range(100 if ctx.thorough else 30)]
    tailed = [g + rng.choice(TAILS) for g in gen[:20]] + ["-- c1\n" + g + " -- c2\n/* c3 */\n" for g in gen[:10]]
    allddl = ddls + gen + tailed
    reqs = []
    for d in allddl:
        k = rng.randrange(4)
        if k == 0:
            calls = [["sql", False], ["sql", False]]
        elif k == 1:
            a, b = rng.sample(modes, 2)
            calls = [[a, False], [b, False], [a, False]]
        elif k == 2:
            calls = [["sql", False], ["sql", True], ["sql", False], ["hql", True]]
        else:
            calls = [[rng.choice(modes), rng.random() < 0.5] for _ in range(4)]
        reqs.append({"op": "pyexec", "code": HISTORY, "ddl": d, "modes": modes, "calls": calls})
    R = ctx.impl.map(reqs)
    res.evaluations += len(reqs)
    firsts = {}
    for d, rq, r in zip(allddl, reqs, R):
        res.count("history_len:%d" % len(rq["calls"]))
        if "ok" not in r:
            res.violation("history", "history harness failed: %r" % (r,), ddl=d, calls=rq["calls"], oracle="history")
            continue
        o = r["ok"]
        if o["mutated"]:
            res.violation("history", "a value returned by run() #%s was modified by later calls on the same object" % o["mutated"],
                          ddl=d, calls=rq["calls"], oracle="history")
        elif o["differs_from_fresh"]:
            res.violation("history", "run() #%s on a reused object differs from a fresh object" % o["differs_from_fresh"],
                          ddl=d, calls=rq["calls"], oracle="history")
        elif o["new_files"]:
            res.violation("history", "run() created files: %s" % o["new_files"], ddl=d, calls=rq["calls"], oracle="history")
        else:
            if "raise" not in o["first"] and py_of_impl(o["first"]):
                res.nontrivial.add(d)
        firsts[d] = (rq["calls"][0], o["first"])
    # ---- other processes, other hash seeds -----------------------------------------------------------------------------
    for seed in (1, 12345):
        impl2 = Impl(ctx.scratch, n=8, seed=seed)
        sub = [d for d in allddl if d in firsts]
        R2 = impl2.map([{"op": "run", "ddl": d, "run": {"output_mode": firsts[d][0][0], "group_by_type": firsts[d][0][1]}} for d in sub])
        impl2.pool.close()
        res.evaluations += len(sub)
        for d, r in zip(sub, R2):
            res.count("seed:%d" % seed)
            a = firsts[d][1]
            same = ("ok" in r and "raise" not in a and canon_impl(r["ok"]) == canon_impl(a)) or \
                   ("raise" in r and a.get("raise") == r["raise"])
            if not same:
                res.violation("history", "result differs in another process under PYTHONHASHSEED=%d" % seed, ddl=d, seed=seed,
                              call=firsts[d][0], oracle="seed")
    # ---- a run of ANOTHER script between two runs -----------------------------------------------------------------------
    pairs = [(gen[i], gen[i + 1]) for i in range(0, min(len(gen) - 1, 20), 2)]
    SEQ = ctx.impl.map([{"op": "run_seq", "ddls": [a, b, a]} for a, b in pairs])
    for (a, b), r in zip(pairs, SEQ):
        res.evaluations += 1
        o = r.get("ok")
        if not o or "ok" not in o[0] or "ok" not in o[2] or canon_impl(o[0]["ok"]) != canon_impl(o[2]["ok"]):
            res.violation("history", "same script parsed differently after another script ran in the process", ddls=[a, b, a], oracle="seq")
    # ---- a later run that only alters/indexes a table of an earlier run must not touch the earlier result ----------------
    LATER = r"""
import copy, json
a = DDLParser(req["a"]).run()
snap = copy.deepcopy(a)
try:
    b = DDLParser(req["b"]).run(); braise = None
except Exception as e:
    b = None; braise = type(e).__name__
out = {"mutated": json.dumps(a, sort_keys=True, default=str) != json.dumps(snap, sort_keys=True, default=str), "second": braise or "ok"}
"""
    lat = []
    for k in range(12):
        t = G.gen_table(rng, constraints=False, name="later_%d" % k, schema=None)
        c0 = t["cols"][0]["name"]
        lat.append({"op": "pyexec", "code": LATER, "a": G.render_table(t, None),
                    "b": rng.choice(["CREATE INDEX ix_l ON later_%d (%s);" % (k, c0), "ALTER TABLE later_%d ADD UNIQUE (%s);" % (k, c0),
                                     "ALTER TABLE later_%d DROP COLUMN %s;" % (k, c0)])})
    for rq, r in zip(lat, ctx.impl.map(lat)):
        res.evaluations += 1
        res.count("later_run")
        if "ok" not in r:
            res.violation("history", "harness failed: %r" % (r,), oracle="later")
        elif r["ok"]["mutated"]:
            res.violation("history", "a result already returned was modified by a later run() of another script", ddls=[rq["a"], rq["b"]], oracle="later")
        elif r["ok"]["second"] != "ValueError":
            res.violation("history", "a script altering a table it does not define depends on earlier runs in the process: %s instead of ValueError" % r["ok"]["second"],
                          ddls=[rq["a"], rq["b"]], oracle="later")
    # ---- model correspondence of the whole run() on what the action model covers -------------------------------------------
    if ctx.model:
        from props import C17 as S
        asts = [S.gen_ast(rng) for _ in range(60)]
        sp = ctx.model.map([("seq_spec", ["0"] + a) for a in asts])
        texts = ["-- c\n" + S.render(rng, x["lexemes"]) + ";\n" for x in sp if x.get("wf")]
        I = ctx.impl.map([{"op": "run", "ddl": t, "run": {"group_by_type": True}} for t in texts])
        M = ctx.model.map([("run", ["0", "1", "sql", "1", "0", escaped(t)]) for t in texts])
        for t, i, m in zip(texts, I, M):
            res.corr["all:run"] = res.corr.get("all:run", 0) + 1
            if not same_outcome(impl_outcome(i), model_outcome(m)):
                res.violation("correspondence", "model Api.run and DDLParser.run disagree", tie=True, layer="correspondence all (run)", ddl=t)
        # ... and on every harvested test script the model can run (what it cannot is counted, not compared)
        corr_run(ctx, res, ddls, label="F:run(harvested)")
    res.samples.append({"ddl": tailed[0], "calls": reqs[len(ddls) + len(gen)]["calls"]})
    res.samples.append({"ddl": gen[0]})


def replay(ctx, payload):
    return True
