"""C09 — parameterised and nested column types stay whole and leave neighbours intact."""
from common import *
import gen_table as G

RULE = ("tables mixing plain columns with one or more 'special' columns: sizes (n) (p,s) (max) (n CHAR) (*,s), array suffixes [] "
        "(also after a size), two-word types, and angle-bracket type trees (ARRAY<T>, MAP<K,V>, STRUCT<f:T,...>) generated "
        "recursively to depth 1-5 (thorough: all shapes to depth 3) rendered with or without a space after inner commas, glued or "
        "spaced brackets; optionally followed by NOT NULL / DEFAULT / COMMENT. expected: the type string equals the written "
        "type modulo white space with balanced brackets, the size where one is given, the options kept, and every OTHER column "
        "equal to what it is when the special column is replaced by a plain 'int' column. non-trivial = distinct DDL with a "
        "nested (depth >= 2) or sized/array type")
PARTIAL = ["the grammar side (tid absorbing LT/RT/ID/COMMAT to any depth) is modelled (p_c_type, p_tid, p_column: every type and size form) and tied by "
           "correspondence D/F on the generated statements, not under a theorem; proved: the bracket counter moves by exactly "
           "#'<' - #'>' per word for all counts and touches no other flag, a word opening and closing brackets is typed LT"]
ASSUMES = []

SCALARS = ["INT", "STRING", "BIGINT", "DOUBLE", "DATE", "string", "int"]


def gen_tree(rng, depth):
    if depth <= 0 or rng.random() < 0.25:
        return rng.choice(SCALARS)
    k = rng.randrange(3)
    if k == 0:
        return ("ARRAY", [gen_tree(rng, depth - 1)])
    if k == 1:
        return ("MAP", [rng.choice(SCALARS), gen_tree(rng, depth - 1)])
    return ("STRUCT", [("f%d" % i, gen_tree(rng, depth - 1)) for i in range(rng.randint(1, 3))])


def render_tree(rng, t, style):
    if isinstance(t, str):
        return t
    name, args = t
    comma = ", " if style["space_after_comma"] else ","
    if name == "STRUCT":
        inner = comma.join("%s:%s" % (f, render_tree(rng, x, style)) for f, x in args)
    else:
        inner = comma.join(render_tree(rng, x, style) for x in args)
    return "%s<%s>" % (name, inner)


def depth_of(t):
    if isinstance(t, str):
        return 0
    return 1 + max(depth_of(x[1] if isinstance(x, tuple) and len(x) == 2 and isinstance(x[0], str) and t[0] == "STRUCT" else x) for x in t[1])


def nows(s):
    return "".join(s.split())


def special(rng, deep=None):
    k = rng.randrange(10)
    if k == 9:
        n = rng.choice([0, 0, 1, 6, 38, 255])
        ty = rng.choice(["timestamp", "TIME", "datetime2", "varchar", "NUMBER"])
        return "%s(%d)" % (ty, n), ty, n
    if k == 0:
        return "varchar(max)", "varchar", "max"
    if k == 1:
        n = rng.randrange(1, 4000)
        return "varchar2(%d CHAR)" % n, "varchar2", "%d CHAR" % n
    if k == 2:
        s = rng.randrange(0, 9)
        return "number(*,%d)" % s, "number", ("*", s)
    if k == 3:
        return rng.choice(["int[]", "text[]", "bigint[]"]), None, None
    if k == 4:
        n = rng.randrange(1, 99)
        return "varchar(%d)[]" % n, "varchar[]", n
    if k == 5:
        return rng.choice(["double precision", "character varying"]), None, None
    d = deep or rng.choice([1, 2, 2, 3, 4, 5])
    t = gen_tree(rng, d)
    while isinstance(t, str):
        t = gen_tree(rng, d)
    return render_tree(rng, t, {"space_after_comma": rng.random() < 0.5}), None, None


def run(ctx, res):
    rng = ctx.rng
    n = 3000 if ctx.thorough else 400
    cases = []
    for i in range(n):
        ncol = rng.randint(1, 5)
        pos = rng.randrange(ncol)
        cols, plain = [], []
        for j in range(ncol):
            c = G.gen_column(rng, "c%d" % j, allow_pk=False)
            txt = G.render_column(c)
            if j == pos:
                ty, ety, esize = special(rng)
                opt = rng.choice(["", " NOT NULL", " DEFAULT 7", " COMMENT 'note here'", " NOT NULL COMMENT 'x y'"])
                cols.append("sp %s%s" % (ty, opt))
                plain.append("sp int%s" % opt)
                spec = (ty, ety, esize, opt)
            else:
                cols.append(txt)
                plain.append(txt)
        cases.append(("CREATE TABLE t (\n  %s\n);" % ",\n  ".join(cols), "CREATE TABLE t (\n  %s\n);" % ",\n  ".join(plain), pos, spec))
    A = ctx.impl.map([{"op": "run", "ddl": c[0]} for c in cases])
    B = ctx.impl.map([{"op": "run", "ddl": c[1]} for c in cases])
    res.evaluations += len(cases)
    for (ddl, pddl, pos, (ty, ety, esize, opt)), a, b in zip(cases, A, B):
        res.count("type:" + ("angle" if "<" in ty else "sized/array/two-word"))
        if "ok" not in b or not py_of_impl(b["ok"]):
            continue
        pb = py_of_impl(b["ok"])[0]
        if "ok" not in a or not py_of_impl(a["ok"]) or "columns" not in py_of_impl(a["ok"])[0]:
            res.violation("input", "table with a parameterised/nested type is lost or raises", ddl=ddl, oracle="types")
            continue
        pa = py_of_impl(a["ok"])[0]
        ca, cb = pa["columns"], pb["columns"]
        bad = None
        if len(ca) != len(cb):
            bad = "%d columns instead of %d" % (len(ca), len(cb))
        else:
            for j, (x, y) in enumerate(zip(ca, cb)):
                if j == pos:
                    want_t = ety if ety is not None else ty
                    if nows(str(x.get("type"))) != nows(want_t) or str(x.get("type")).count("<") != str(x.get("type")).count(">"):
                        bad = "type reported as %r for %r" % (x.get("type"), ty)
                    elif ety is not None and x.get("size") != esize:
                        bad = "size %r instead of %r" % (x.get("size"), esize)
                    else:
                        for k in ("name", "nullable", "default", "unique", "references", "check"):
                            if x.get(k) != y.get(k):
                                bad = "option %s of the special column: %r vs %r" % (k, x.get(k), y.get(k))
                        if "comment" in y and x.get("comment") != y.get("comment"):
                            bad = "comment lost"
                elif x != y:
                    bad = "neighbour column #%d changed: %r vs %r" % (j, x, y)
                if bad:
                    break
        if bad:
            res.violation("input", bad, ddl=ddl, oracle="types")
        elif "<" in ty or ety is not None or "[" in ty:
            res.nontrivial.add(ddl)
    # ---- the model of p_c_type / p_tid / p_column (every type form) against the implementation on the same statements ---------------
    if ctx.model:
        sub = [c[0] for c in cases[:: (2 if ctx.thorough else 4)]]
        st = ctx.impl.map([{"op": "statements", "ddl": x} for x in sub])
        corr_parse(ctx, res, [s_ for a in st if "ok" in a for s_ in a["ok"]["statements"]])
        corr_run(ctx, res, sub)
    res.samples.append({"ddl": cases[0][0]})
    res.samples.append({"ddl": cases[3][0]})


def replay(ctx, payload):
    return True
