"""C20 — parse tables in use are those of the declared grammar, whatever the cache state."""
from common import *
import gens
import stat

RULE = ("cache states {valid, missing, stale signature, old table version, other hash seed, read-only package dir} x "
        "every DDL string harvested from /repo/tests (+ generated tables); for each state the tables the live parser "
        "object holds are compared entry by entry with the translator's fresh tables and every result with the valid-cache "
        "run. non-trivial = distinct DDL whose valid-cache result is a non-empty list")
PARTIAL = ["that PLY's generator computes *the LALR(1)* tables of the grammar is not proved (no verified LALR generator "
           "is available; the grammar has 1263 resolved conflicts): a fresh PLY generation in a clean process is the "
           "definition of 'derived from the grammar'",
           "Python's import of parsetab.py and file-system permissions are runtime behaviour, exercised not modelled"]
ASSUMES = ["Gen/Parsetab.v is the literal content of /repo/simple_ddl_parser/parsetab.py (read with ast.literal_eval)",
           "Gen/Tables.v are PLY's tables generated from the current source in a clean process (two hash seeds, equal)"]

DUMP_TABLES = r'''
p = DDLParser("")
y = p.yacc
import hashlib, json
act = sorted((int(s), t, int(a)) for s, row in y.action.items() for t, a in row.items())
got = sorted((int(s), t, int(a)) for s, row in y.goto.items() for t, a in row.items())
prods = [[pr.str, pr.name, pr.len, pr.func or ""] for pr in y.productions]
out = {"action": hashlib.sha256(json.dumps(act).encode()).hexdigest(),
       "goto": hashlib.sha256(json.dumps(got).encode()).hexdigest(),
       "prods": hashlib.sha256(json.dumps(prods).encode()).hexdigest(),
       "kind": type(y.productions[1]).__name__, "n": len(act)}
'''


def fresh_digests():
    d = json.load(open(os.path.join(COQ, "Gen", "dump.json")))
    act = sorted((int(s), t, int(a)) for s, row in d["action"].items() for t, a in row)
    got = sorted((int(s), t, int(a)) for s, row in d["goto"].items() for t, a in row)
    prods = [["%s -> %s" % (n, " ".join(r) if r else "<empty>"), n, len(r), f] for n, r, f in d["productions"]]
    h = lambda x: hashlib.sha256(json.dumps(x).encode()).hexdigest()
    return {"action": h(act), "goto": h(got), "prods": h(prods)}


def edit_parsetab(root, fn):
    p = os.path.join(root, "simple_ddl_parser", "parsetab.py")
    s = open(p).read()
    open(p, "w").write(fn(s))


def corrupt_actions(src):
    """change what the cached tables do for `CREATE TABLE`: the stale file must not be believed"""
    import ast as _ast
    out = []
    for line in src.splitlines(True):
        if line.startswith("_lr_action_items = "):
            d = _ast.literal_eval(line[len("_lr_action_items = "):])
            states, acts = d["TABLE"]
            d["TABLE"] = (states, [(-7 if a > 0 else a) for a in acts])
            line = "_lr_action_items = %r\n" % (d,)
        out.append(line)
    return "".join(out)


def make_state(name):
    sc = Scratch()
    pt = os.path.join(sc.root, "simple_ddl_parser", "parsetab.py")
    seed = 0
    if name == "missing":
        if os.path.exists(pt):
            os.remove(pt)
    elif name == "stale_signature":
        # a cache left over from ANOTHER grammar: different signature and different content
        if os.path.exists(pt):
            edit_parsetab(sc.root, lambda s: corrupt_actions(s.replace("_lr_signature = '", "_lr_signature = 'STALE ", 1)))
    elif name == "old_version":
        if os.path.exists(pt):
            edit_parsetab(sc.root, lambda s: s.replace("_tabversion = '3.10'", "_tabversion = '3.8'", 1))
    elif name == "other_seed":
        seed = 12345
    elif name == "readonly_missing":
        if os.path.exists(pt):
            os.remove(pt)
        os.chmod(os.path.join(sc.root, "simple_ddl_parser"), stat.S_IRUSR | stat.S_IXUSR)
    return sc, seed


def run(ctx, res):
    rng = ctx.rng
    ddls = harvest_test_ddl(ctx.scratch)
    extra = [gens.simple_table(rng) for _ in range(60 if ctx.thorough else 20)]
    ddls = ddls + extra
    if not ctx.thorough:
        ddls = ddls[:120] + extra
    fresh = fresh_digests() if ctx.gen_meta else None
    states = ["valid", "missing", "stale_signature", "old_version", "other_seed", "readonly_missing"]
    base = None
    for st in states:
        sc, seed = make_state(st)
        try:
            impl = Impl(sc, n=8, seed=seed)
            dg = impl.one({"op": "pyexec", "code": DUMP_TABLES})
            out = impl.map([{"op": "run", "ddl": d} for d in ddls])
            # a second construction in the same process (the regenerated file may now be on disk)
            dg2 = impl.one({"op": "pyexec", "code": DUMP_TABLES})
            impl.pool.close()
        finally:
            try:
                os.chmod(os.path.join(sc.root, "simple_ddl_parser"), 0o755)
            except OSError:
                pass
            sc.cleanup()
        res.evaluations += len(ddls) + 2
        res.count("state:" + st, len(ddls))
        for which, d in (("first", dg), ("second", dg2)):
            if "ok" not in d:
                res.violation("cache", "constructing a parser failed in cache state %s: %r" % (st, d), state=st, oracle="tables_in_use")
                continue
            if fresh and any(d["ok"][k] != fresh[k] for k in ("action", "goto", "prods")):
                res.violation("cache", "tables held by the live parser differ from a fresh generation (state %s, %s construction)" % (st, which),
                              state=st, oracle="tables_in_use", digests=d["ok"], fresh=fresh)
        if st in ("missing", "stale_signature", "old_version", "readonly_missing"):
            # correspondence with Model/Cache.v (used_in c = false for these states): PLY must have regenerated
            if dg.get("ok", {}).get("kind") == "MiniProduction":
                res.violation("cache", "cache state %s: the library used the cached table file although the model's decision "
                              "function (and PLY's signature/version check) says it must regenerate" % st, state=st, tie=True,
                              layer="correspondence F (cache decision)")
        if st == "valid":
            res.notes.append("valid state: productions are %s (MiniProduction = read from parsetab.py)" % dg.get("ok", {}).get("kind"))
            if ctx.gen_meta and ctx.gen_meta.get("parsetab_sig_matches") and dg.get("ok", {}).get("kind") != "MiniProduction":
                res.notes.append("the cached file was NOT used although its signature matches the grammar modulo token order "
                                 "(PLY's signature depends on the hash-seed dependent order of the token tuple)")
            base = out
            for d, o in zip(ddls, out):
                if "ok" in o and py_of_impl(o["ok"]):
                    res.nontrivial.add(d)
        else:
            for d, o, b in zip(ddls, out, base):
                same = (("ok" in o and "ok" in b and canon_impl(o["ok"]) == canon_impl(b["ok"]))
                        or ("raise" in o and "raise" in b and o["raise"] == b["raise"]))
                if not same:
                    res.violation("cache", "result differs from the valid-cache run in cache state %s" % st, state=st, ddl=d,
                                  oracle="same_results")
    res.samples.append({"states": states, "ddl": ddls[0][:300]})
    res.samples.append({"fresh_table_digests": fresh})


def replay(ctx, payload):
    r = Result("C20")
    run(ctx, r)
    return bool(r.violations)
