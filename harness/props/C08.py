"""C08 — comments never change what is parsed and are reported separately."""
from common import *
import gen_table as G

RULE = ("generated scripts (1-3 tables of the core fragment, multi-line layout) with comments inserted at the positions the "
        "property lists: whole-line '--' / '#' / '/* .. */' lines (indented or not) between and inside statements and as the very last line of a script whose last statement may lack its ';', multi-line "
        "blocks starting at column 0 between or inside statements (closing line with or without leading text), trailing '-- c' "
        "and '/* c */' after the code of a line (a trailing '-- c' also after a quoted literal, its text possibly holding apostrophes, "
        "quotes and further '--' / '#' markers); other comment texts are quote-free words incl. statement-level words (create, go, use, "
        "insert, set ...). expected: entities equal to those of the comment-free script; every item of the comments entry is a "
        "piece of an inserted comment text, in source order. non-trivial = distinct script with >= 2 comments")
PARTIAL = ["comment texts containing '(' ')' ',' '=' (the pre-processor's re-spacing) and block-comment texts with quotes or markers are outside the explored class; indented multi-line blocks and a second /* */ on one code line are outside the positions "
           "the property lists",
           "trailing comments on multi-line statements and /* */ trailers are explored, not under a theorem"]
ASSUMES = ["Model/Pre.v mirrors the comment handling of parser.py: correspondence A on every run"]

WORDS = ["note", "todo", "create", "table", "Use", "Go", "insert", "Grant", "delete", "set", "alter", "drop", "x1", "primary", "key",
         "created_at", "for", "partitioning", "names", "id", "the", "column", "int", "NULL"]


def ctext(rng):
    return " ".join(rng.choice(WORDS) for _ in range(rng.randint(1, 5)))


def insert_comments(rng, script):
    lines = script.split("\n")
    out = []
    texts = []
    for ln in lines:
        # before the line
        r = rng.random()
        if r < 0.18:
            t = ctext(rng)
            out.append(rng.choice(["", "  ", "\t"]) + rng.choice(["-- ", "--", "# "]) + t)
            if False:
                texts.append(t)      # whole-line -- / # comments are not recorded by the implementation
        elif r < 0.28:
            t = ctext(rng)
            out.append(rng.choice(["", "  "]) + "/* " + t + " */")
            texts.append(t)
        elif r < 0.38:
            k = rng.randint(1, 3)
            ts = [ctext(rng) for _ in range(k)]
            out.append("/* " + ts[0])
            for x in ts[1:]:
                out.append(rng.choice(["", "   ", " * "]) + x)
            closing = rng.choice(["", ctext(rng), ""])
            out.append(("   " + closing + " */") if closing else rng.choice(["*/", " */"]))
            texts += ts + ([closing] if closing else [])
        # the line itself, maybe with a trailing comment
        if ln.strip() and rng.random() < 0.25 and ("'" not in ln or rng.random() < 0.7):
            t = ctext(rng)
            if "'" in ln or rng.random() < 0.6:
                # a trailing -- comment, also after a quoted literal; its text may hold apostrophes, quotes and further markers
                if rng.random() < 0.5:
                    t += " " + rng.choice(["it's", "don't", 'say "hi"', "-- more", "users' choice", "'quoted'", "# hash"])
                out.append(ln + " -- " + t)
            else:
                out.append(ln + " /* " + t + " */")
            texts.append(t)
        else:
            out.append(ln)
    return "\n".join(out), texts


def entities(v):
    return [e for e in v if not (isinstance(e, dict) and list(e.keys()) == ["comments"])]


def comments_of(v):
    for e in v:
        if isinstance(e, dict) and list(e.keys()) == ["comments"]:
            return e["comments"]
    return []


def run(ctx, res):
    rng = ctx.rng
    n = 4000 if ctx.thorough else 500
    cases = []
    for i in range(n):
        tabs = [G.gen_table(rng, name="t%d_%d" % (i % 40, j)) for j in range(rng.choice([1, 1, 2, 3]))]
        base = "\n".join(G.render_table(t, None) for t in tabs) + "\n"
        # the end of the script varies: last statement with or without its ';', final newline or not
        if i % 4 == 1:
            base = base.rstrip("\n")
            res.count("end:no_final_newline")
        elif i % 4 == 2:
            base = base.rstrip("\n").rstrip(";")
            res.count("end:unterminated_last_statement")
        commented, texts = insert_comments(rng, base)
        if i % 4 in (1, 2) and rng.random() < 0.7:
            # a comment-only line as the very last line of the script (no newline after it)
            t = ctext(rng)
            k = rng.randrange(3)
            commented += "\n" + (("-- " + t) if k == 0 else ("# " + t) if k == 1 else ("/* " + t + " */"))
            if k == 2:
                texts.append(t)
            res.count("end:final_comment_line")
        cases.append((base, commented, texts))
    # directed: a literal ending in a backslash closes at its quote like any other; the trailing comment after it is a comment
    for lit in ("'C:\\'", "'C:\\\\'", "'dir\\sub\\'"):
        for note in ("the note", "a path", 'say "x"'):
            directed = [("CREATE TABLE bs (\n  p varchar(20) DEFAULT %s,%s\n  b int\n);\n", lit),
                        ("CREATE TABLE bs (\n  p varchar(20) DEFAULT %s%s\n, b int\n);\n", lit),
                        ("CREATE TABLE bs (\n  a int\n) ROW FORMAT DELIMITED FIELDS TERMINATED BY ',' ESCAPED BY %s%s\n;\n", lit)]
            for tmpl, l_ in directed:
                cases.append((tmpl % (l_, ""), tmpl % (l_, " -- " + note), [note]))
    # known finding D13 (KNOWN_FINDINGS.json): an apostrophe in a comment makes the script's quote count odd, which switches on the
    # "backslash-quote is an escaped quote" reading for the whole script; one witness, replayed on every run
    kb = "CREATE TABLE bs (\n  p varchar(20) DEFAULT 'C:\\\\'\n, b int\n);\n"
    kc = "CREATE TABLE bs (\n  p varchar(20) DEFAULT 'C:\\\\' -- it's a path\n, b int\n);\n"
    ka, kr = ctx.impl.one({"op": "run", "ddl": kb}), ctx.impl.one({"op": "run", "ddl": kc})
    if "ok" in ka and ("ok" not in kr or entities(py_of_impl(ka["ok"])) != entities(py_of_impl(kr["ok"]))):
        res.violation("input", "an apostrophe in a trailing comment after a literal ending in a backslash changes the entity", ddl=kc, base=kb,
                      finding_key="D13-odd-quote-count", oracle="comments_neutral")
    A = ctx.impl.map([{"op": "run", "ddl": b} for b, _, _ in cases])
    B = ctx.impl.map([{"op": "run", "ddl": c} for _, c, _ in cases])
    res.evaluations += len(cases)
    for (b, c, texts), ra, rb in zip(cases, A, B):
        res.count("comments:%d" % min(len(texts), 6))
        if "ok" not in ra:
            continue
        if "ok" not in rb:
            res.violation("input", "adding comments made the script raise %r" % (rb,), ddl=c, base=b, oracle="comments_neutral")
            continue
        ea, eb = entities(py_of_impl(ra["ok"])), entities(py_of_impl(rb["ok"]))
        if ea != eb:
            res.violation("input", "adding comments changed the parsed entities", ddl=c, base=b, oracle="comments_neutral")
            continue
        bad = None
        pos = 0
        blob = "\n".join(texts)
        for item in comments_of(py_of_impl(rb["ok"])):
            s = item.replace("*/", "").replace("/*", "").strip().strip("*").strip()
            if not s:
                continue
            k = blob.find(s, 0)
            if k < 0:
                bad = "comments entry holds %r, which is not (part of) any comment text" % (item,)
                break
        if bad:
            res.violation("input", bad, ddl=c, base=b, oracle="comments_entry")
        elif len(texts) >= 2:
            res.nontrivial.add(c)
    # ---- correspondence A on the commented scripts -------------------------------------------------------------------
    if ctx.model:
        sample = [c for _, c, _ in cases][:: (2 if ctx.thorough else 3)]
        I = ctx.impl.map([{"op": "markers", "ddl": d} for d in sample])
        M = ctx.model.map([("statements", [escaped(d)]) for d in sample])
        for d, i, m in zip(sample, I, M):
            res.corr["A:statements"] = res.corr.get("A:statements", 0) + 1
            if not same_outcome(impl_outcome(i), model_outcome(m)):
                res.violation("correspondence", "line machine model and implementation disagree on a commented script", tie=True,
                              layer="correspondence A (parse_data)", ddl=d)
    res.samples.append({"ddl": cases[0][1]})
    res.samples.append({"ddl": cases[1][1]})


def replay(ctx, payload):
    if payload.get("oracle") == "comments_neutral":
        a = ctx.impl.one({"op": "run", "ddl": payload["base"]})
        b = ctx.impl.one({"op": "run", "ddl": payload["ddl"]})
        return not ("ok" in a and "ok" in b and entities(py_of_impl(a["ok"])) == entities(py_of_impl(b["ok"])))
    return True
