"""C02 — keys, uniqueness, checks and foreign keys land on the right columns."""
from common import *
import gen_table as G

RULE = ("generated tables of the core fragment with table-level items: PRIMARY KEY declared by exactly one mechanism (inline on "
        ">=1 columns | one unnamed clause of 1-3 columns | one named constraint), UNIQUE (1-5 columns, named or not), "
        "[CONSTRAINT n] FOREIGN KEY (1-2 columns) REFERENCES [s.]t (..) [ON DELETE a] [ON UPDATE a] (one-word actions), "
        "[CONSTRAINT n] CHECK (col op n); keyword case and layout random; expected entity = harness/gen_table.expected_table "
        "(the reading of the property), compared in full with run(); also the model of the output layer on the implementation's "
        "parser output. non-trivial = distinct DDL with >= 1 table-level item or inline key")
PARTIAL = ["the grammar side (statement text -> parser-output dict for constraints) is explored against the specification, not "
           "proved; the output-layer half (flagging rules) is proved",
           "two-word referential actions (SET NULL, NO ACTION, SET DEFAULT) are outside the fragment: known finding D13"]
ASSUMES = ["harness/gen_table.expected_table is the reading of C02 for the fragment"]


def run(ctx, res):
    rng = ctx.rng
    n = 6000 if ctx.thorough else 700
    tabs = [G.gen_table(rng, constraints=True) for _ in range(n)]
    # make sure wide uniques are always present
    for i, t in enumerate(tabs):
        if i % 7 == 0 and len(t["cols"]) >= 3:
            k = rng.choice([3, 4, 5])
            t["items"].append(("unique", None, [c["name"] for c in t["cols"]][:k]))
    texts = [G.render_table(t, rng, oneline=(i % 4 == 0)) for i, t in enumerate(tabs)]
    R = ctx.impl.map([{"op": "run", "ddl": x} for x in texts])
    res.evaluations += len(texts)
    for t, x, r in zip(tabs, texts, R):
        for it in t["items"]:
            res.count("item:%s:%s:%d" % (it[0], "named" if it[1] else "unnamed", len(it[2]) if it[0] != "check" else 1))
        exp = G.expected_table(t)
        got = G.norm_refs(py_of_impl(r["ok"])) if "ok" in r else r
        if got != [exp]:
            keys = []
            if isinstance(got, list) and len(got) == 1 and isinstance(got[0], dict):
                keys = sorted(k for k in set(exp) | set(got[0]) if exp.get(k) != got[0].get(k))
            res.violation("input", "table entity differs from the specification in %s" % (keys or "shape/exception"), ddl=x,
                          expected=exp, actual=got if isinstance(got, list) else str(got), oracle="table_spec")
        elif t["items"] or any(o[0] in ("pk", "unique", "ref") for c in t["cols"] for o in c["opts"]):
            res.nontrivial.add(x)
    # ---- correspondence E on these parser outputs ------------------------------------------------------------------
    if ctx.model:
        sample = texts[:: (2 if ctx.thorough else 4)]
        st = ctx.impl.map([{"op": "statements", "ddl": d} for d in sample])
        items = [(d, a["ok"]["parser_output"]) for d, a in zip(sample, st) if "ok" in a]
        I = ctx.impl.map([{"op": "format", "parser_output": po, "mode": "sql"} for _, po in items])
        M = ctx.model.map([("format", ["sql", "0"] + flat_encode(py_of_impl(po))) for _, po in items])
        for (d, po), i, m in zip(items, I, M):
            res.corr["E:format"] = res.corr.get("E:format", 0) + 1
            if not same_outcome(impl_outcome(i), model_outcome(m)):
                res.violation("correspondence", "model and implementation of Output.format disagree", tie=True,
                              layer="correspondence E (Output.format)", ddl=d)
        # ---- correspondence D (lexer + LR + semantic actions incl. the table-level clauses) and F (whole run) ------------------
        corr_parse(ctx, res, [s_ for a in st if "ok" in a for s_ in a["ok"]["statements"]])
        corr_run(ctx, res, sample)
    res.samples.append({"ddl": texts[0], "expected": G.expected_table(tabs[0])})
    res.samples.append({"ddl": texts[7]})


def replay(ctx, payload):
    if payload.get("oracle") == "table_spec":
        r = ctx.impl.one({"op": "run", "ddl": payload["ddl"]})
        exp = payload["expected"]
        got = G.norm_refs(py_of_impl(r["ok"])) if "ok" in r else None
        return canon_impl(enc_py(got)) != canon_impl(enc_py([exp])) if got is not None else True
    return True
