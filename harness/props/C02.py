"""C02 — keys, uniqueness, checks and foreign keys land on the right columns."""
from common import *
import gen_table as G

RULE = ("generated tables of the core fragment with table-level items: PRIMARY KEY declared by exactly one mechanism (inline on "
        ">=1 columns | one unnamed clause of 1-3 columns | one named constraint), UNIQUE (1-5 columns, named or not), "
        "[CONSTRAINT n] FOREIGN KEY (1-2 columns) REFERENCES [s.]t (..) [ON DELETE a] [ON UPDATE a] (one-word actions), "
        "[CONSTRAINT n] CHECK (col op n); keyword case and layout random; expected entity = harness/gen_table.expected_table "
        "(the reading of the property), compared in full with run(); also the model of the output layer on the implementation's "
        "parser output. non-trivial = distinct DDL with >= 1 table-level item or inline key")
PARTIAL = ["the grammar side (statement text -> parser-output dict for constraints) is explored against the specification, not "
           "proved; the output-layer half (flagging rules) is proved",
           "two-word referential actions (SET NULL, NO ACTION, SET DEFAULT) are outside the fragment: known finding D13"]
ASSUMES = ["harness/gen_table.expected_table is the reading of C02 for the fragment"]


def clause_args(t, rng):
    """gen_table AST (check items dropped) -> arguments of the tabc_spec command (Spec/Table.v tablec_of_args)"""
    from props import C01 as P1
    a = P1.coq_args(t, rng) + ["ITEMS"]
    for it in t["items"]:
        cons = [P1.kwc(rng, "CONSTRAINT"), it[1]] if it[1] else ["", ""]
        if it[0] == "pk":
            a += ["PK"] + cons + [P1.kwc(rng, "PRIMARY"), P1.kwc(rng, "KEY"), str(len(it[2]))] + list(it[2])
        elif it[0] == "unique":
            a += ["UQ"] + cons + [P1.kwc(rng, "UNIQUE"), "", str(len(it[2]))] + list(it[2])
        elif it[0] == "fk":
            r = it[3]
            a += ["FK"] + cons + [P1.kwc(rng, "FOREIGN"), P1.kwc(rng, "KEY"), str(len(it[2]))] + list(it[2])
            a += [P1.kwc(rng, "REFERENCES"), r["schema"] or "", r["table"], str(len(r["columns"]))] + list(r["columns"])
            a += [P1.kwc(rng, "ON"), P1.kwc(rng, "DELETE"), r["on_delete"]] if r["on_delete"] else ["", "", ""]
            a += [P1.kwc(rng, "ON"), P1.kwc(rng, "UPDATE"), r["on_update"]] if r["on_update"] else ["", "", ""]
    return a


def theorem_forms(ctx, res):
    """the forms under C02_table_clauses_exact / C02_inline_keys_end_to_end: the extracted Coq denote (parser stage) and the
    extracted Output.format on it (what run() must report)"""
    from props import C01 as P1
    rng = ctx.rng
    n = 1200 if ctx.thorough else 250
    asts = []
    for i in range(n):
        t = G.gen_table(rng, constraints=True, ncols=rng.choice([2, 3, 4, 6, 9]))
        t["items"] = [it for it in t["items"] if it[0] != "check"]
        if i % 5 == 0 and len(t["cols"]) >= 3:       # long lists, several clauses of a kind
            names = [c["name"] for c in t["cols"]]
            t["items"].append(("unique", "uq_all", names))
            t["items"].append(("unique", None, names[:1]))
        asts.append((t, clause_args(t, rng)))
    for norm in (False, True):
        sp = ctx.model.map([("tabc_spec", ["1" if norm else "0"] + a) for _, a in asts])
        texts = [P1.text_of_lexemes(s_["lexemes"], rng) if "lexemes" in s_ else None for s_ in sp]
        SC = ctx.model.map([("scan", [t or ""]) for t in texts])
        TR = ctx.impl.map([{"op": "trace", "s": t or "", "ctor": {"normalize_names": norm}} for t in texts])
        RU = ctx.impl.map([{"op": "run", "ddl": (t or "").rstrip() + ";", "ctor": {"normalize_names": norm}} for t in texts])
        res.evaluations += 2 * len(asts)
        for (t, a), s_, x, sc, tr, ru in zip(asts, sp, texts, SC, TR, RU):
            if not s_.get("wf") or "ok" not in s_.get("denote", {}):
                res.count("theorem_form:not_wf")
                continue
            res.count("theorem_form:clauses:%d" % len(t["items"]))
            if "ok" not in sc or [list(l) for l in sc["ok"]] != [list(l) for l in s_["lexemes"]]:
                res.violation("correspondence", "the scanner model does not cut the rendered statement into the lexemes of the specification",
                              stmt=x, oracle="scan")
                continue
            io = impl_outcome(tr)
            got = canon_impl(io[1]["result"]) if io[0] == "ok" and io[1]["result"] is not None else ("raise/none", str(io)[:200])
            if got != canon_model(s_["denote"]["ok"]):
                res.violation("input", "parser stage: the table entity differs from the Coq specification (Table.denote_c): %s" %
                              (json.dumps(py_of_impl(io[1]["result"]))[:600] if io[0] == "ok" else str(io)), stmt=x, norm=norm, args=a,
                              oracle="coq_denote")
                continue
            rep = s_.get("reported", {})
            if "ok" in rep:
                if "ok" not in ru or canon_impl(ru["ok"]) != canon_model(rep["ok"]):
                    res.violation("input", "run(): the reported table differs from the extracted Output.format on the specified entity",
                                  ddl=x.rstrip() + ";", norm=norm, args=a, oracle="coq_reported")
                    continue
            res.nontrivial.add(x)


def run(ctx, res):
    rng = ctx.rng
    n = 6000 if ctx.thorough else 700
    tabs = [G.gen_table(rng, constraints=True) for _ in range(n)]
    # make sure wide uniques are always present
    for i, t in enumerate(tabs):
        if i % 7 == 0 and len(t["cols"]) >= 3:
            k = rng.choice([3, 4, 5])
            t["items"].append(("unique", None, [c["name"] for c in t["cols"]][:k]))
    texts = [G.render_table(t, rng, oneline=(i % 4 == 0)) for i, t in enumerate(tabs)]
    R = ctx.impl.map([{"op": "run", "ddl": x} for x in texts])
    res.evaluations += len(texts)
    for t, x, r in zip(tabs, texts, R):
        for it in t["items"]:
            res.count("item:%s:%s:%d" % (it[0], "named" if it[1] else "unnamed", len(it[2]) if it[0] != "check" else 1))
        exp = G.expected_table(t)
        got = G.norm_refs(py_of_impl(r["ok"])) if "ok" in r else r
        if got != [exp]:
            keys = []
            if isinstance(got, list) and len(got) == 1 and isinstance(got[0], dict):
                keys = sorted(k for k in set(exp) | set(got[0]) if exp.get(k) != got[0].get(k))
            res.violation("input", "table entity differs from the specification in %s" % (keys or "shape/exception"), ddl=x,
                          expected=exp, actual=got if isinstance(got, list) else str(got), oracle="table_spec")
        elif t["items"] or any(o[0] in ("pk", "unique", "ref") for c in t["cols"] for o in c["opts"]):
            res.nontrivial.add(x)
    # ---- correspondence E on these parser outputs ------------------------------------------------------------------
    if ctx.model:
        sample = texts[:: (2 if ctx.thorough else 4)]
        st = ctx.impl.map([{"op": "statements", "ddl": d} for d in sample])
        items = [(d, a["ok"]["parser_output"]) for d, a in zip(sample, st) if "ok" in a]
        I = ctx.impl.map([{"op": "format", "parser_output": po, "mode": "sql"} for _, po in items])
        M = ctx.model.map([("format", ["sql", "0"] + flat_encode(py_of_impl(po))) for _, po in items])
        for (d, po), i, m in zip(items, I, M):
            res.corr["E:format"] = res.corr.get("E:format", 0) + 1
            if not same_outcome(impl_outcome(i), model_outcome(m)):
                res.violation("correspondence", "model and implementation of Output.format disagree", tie=True,
                              layer="correspondence E (Output.format)", ddl=d)
        # ---- correspondence D (lexer + LR + semantic actions incl. the table-level clauses) and F (whole run) ------------------
        corr_parse(ctx, res, [s_ for a in st if "ok" in a for s_ in a["ok"]["statements"]])
        corr_run(ctx, res, sample)
        theorem_forms(ctx, res)
    res.samples.append({"ddl": texts[0], "expected": G.expected_table(tabs[0])})
    res.samples.append({"ddl": texts[7]})


def replay(ctx, payload):
    if payload.get("oracle") == "table_spec":
        r = ctx.impl.one({"op": "run", "ddl": payload["ddl"]})
        exp = payload["expected"]
        got = G.norm_refs(py_of_impl(r["ok"])) if "ok" in r else None
        return canon_impl(enc_py(got)) != canon_impl(enc_py([exp])) if got is not None else True
    return True
