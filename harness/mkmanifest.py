#!/usr/bin/env python3
"""Writes MANIFEST.json from the table below (kept in one place so it stays valid)."""
import json, os
V = os.path.dirname(os.path.dirname(os.path.abspath(__file__)))
props = [json.loads(l) for l in open(os.path.join(V, "properties.jsonl"))]
CLAIMED = json.load(open(os.path.join(V, "harness", "claims.json")))
checks, na = [], []
for p in props:
    pid = p["id"]
    c = CLAIMED.get(pid)
    if not c or c.get("not_applicable"):
        na.append({"property_id": pid, "reason": (c or {}).get("reason", "check not built yet in this round (see DESIGN.md section 4 for the planned theorem); will be claimed when its Props/%s.v exists" % pid)})
        continue
    checks.append({
        "property_id": pid,
        "quick_cmd": "bin/check %s --tier quick" % pid,
        "thorough_cmd": "bin/check %s --tier thorough" % pid,
        "evidence_file": "/verif/evidence/%s.json" % pid,
        "replay_cmd_template": "bin/check %s --replay {path}" % pid,
        "engine": "coq-model",
        "level_claimed": {"category": "proof", "text": c["text"], "design_ref": c.get("design_ref", "DESIGN.md section 4, " + pid)},
        "level_note": c["note"],
        "technique": c["technique"],
    })
m = {
    "version": 1,
    "setup_cmd": "bin/build",
    "hooks": {
        "guard": "SIMPLE_DDL_PARSER_VERIF",
        "enable": "no source hooks exist: every observation point is reached from outside the package (run-time wrapping in harness/impl_worker.py on a scratch copy of /repo/simple_ddl_parser)",
        "baseline_off_cmd": "cd /repo && /venv/bin/python -m pytest -ra -q -p no:cacheprovider --timeout=900 --continue-on-collection-errors",
        "source_commits": [],
        "add_only": True,
    },
    "engines": [{"name": "coq-model", "path": "/verif/coq", "serves_properties": [c["property_id"] for c in checks],
                 "kind_free_text": "Coq 8.16.1 development: Gen/*.v regenerated from /repo by gen/translate.py on every run, hand-written executable Gallina models, theorems in Props/; extracted to OCaml (ocaml/model_driver) for the model-vs-implementation correspondence runs"}],
    "checks": checks,
    "not_applicable": na,
    "notes": "Machine-checked proof in Coq; see DESIGN.md. fix: commits in /repo are recorded in KNOWN_FINDINGS.json.",
}
json.dump(m, open(os.path.join(V, "MANIFEST.json"), "w"), indent=1)
print("claimed", [c["property_id"] for c in checks], "n/a", len(na))
