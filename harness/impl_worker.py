"""Runs inside a scratch copy of the package (PYTHONPATH forced by the parent). JSON lines in/out.

Every request is {"op": ..., ...}; every answer {"ok": value} | {"raise": class name, "msg": ...} |
{"nonpyval": description}.
"""
import copy
import json
import logging
import os
import sys

logging.disable(logging.CRITICAL)

import simple_ddl_parser  # noqa: E402
from simple_ddl_parser import DDLParser  # noqa: E402

ROOT = os.environ.get("VERIF_IMPL_ROOT", "")
if ROOT and not os.path.abspath(simple_ddl_parser.__file__).startswith(os.path.abspath(ROOT)):
    sys.stderr.write("impl_worker imported the wrong copy: %s\n" % simple_ddl_parser.__file__)
    sys.exit(97)


class NonPyval(Exception):
    pass


def enc(v):
    """python value -> JSON with tuples tagged; anything outside the pyval universe is an error"""
    if v is None or v is True or v is False:
        return v
    if isinstance(v, int):
        return {"__int__": str(v)}
    if isinstance(v, str):
        return v
    if isinstance(v, list):
        return [enc(x) for x in v]
    if isinstance(v, tuple):
        return {"__tuple__": [enc(x) for x in v]}
    if isinstance(v, dict):
        out = {}
        for k, x in v.items():
            if not isinstance(k, str):
                raise NonPyval("dict key %r" % (k,))
            out[k] = enc(x)
        return {"__dict__": out, "__order__": list(v.keys())}
    raise NonPyval("%s: %r" % (type(v).__name__, v))


def dec(v):
    if isinstance(v, dict):
        if "__int__" in v:
            return int(v["__int__"])
        if "__tuple__" in v:
            return tuple(dec(x) for x in v["__tuple__"])
        if "__dict__" in v:
            return {k: dec(v["__dict__"][k]) for k in v["__order__"]}
        return {k: dec(x) for k, x in v.items()}
    if isinstance(v, list):
        return [dec(x) for x in v]
    return v


FLAG_NAMES = ["is_table", "sequence", "last_token", "columns_def", "after_columns", "check", "last_par",
              "lp_open", "is_alter", "is_like", "lt_open"]


def flags_of(lexer):
    out = {}
    for k in FLAG_NAMES:
        v = getattr(lexer, k, "<unset>")
        if k in ("last_token", "last_par"):
            v = "" if v is False else v
        elif k in ("lp_open", "lt_open"):
            v = int(v)
        else:
            v = bool(v) if v in (True, False) else v
        out[k] = v
    return out


def op_lex(req):
    p = DDLParser("", **req.get("ctor", {}))
    p.set_default_flags_in_lexer()
    p.lexer.input(req["s"])
    toks = []
    while True:
        t = p.lexer.token()
        if not t:
            break
        toks.append([t.type, t.value])
    return {"tokens": toks, "flags": flags_of(p.lexer)}


def op_trace(req):
    """one statement through the object's own lexer+parser; logs tokens and reductions"""
    p = DDLParser("", **req.get("ctor", {}))
    events = []
    for num, prod in enumerate(p.yacc.productions):
        if prod.callable is not None:
            def mk(num, f):
                def g(pp):
                    events.append(["r", num])
                    return f(pp)
                return g
            prod.callable = mk(num, prod.callable)
    real_token = p.lexer.token

    def token():
        t = real_token()
        if t is not None:
            events.append(["t", t.type, t.value])
        return t

    p.lexer.token = token
    orig_err = p.yacc.errorfunc

    def errf(tok):
        events.append(["perr", None if tok is None else tok.type])
        return orig_err(tok)

    p.yacc.errorfunc = errf
    p.set_default_flags_in_lexer()
    res = p.yacc.parse(req["s"], lexer=p.lexer)
    return {"events": events, "result": enc(res)}


def op_run(req):
    p = DDLParser(req["ddl"], **req.get("ctor", {}))
    return enc(p.run(**req.get("run", {})))


def op_run_seq(req):
    """several run() calls in THIS process, in order; each outcome separately"""
    outs = []
    for ddl in req["ddls"]:
        try:
            outs.append({"ok": enc(DDLParser(ddl, **req.get("ctor", {})).run(**req.get("run", {})))})
        except Exception as e:  # noqa
            outs.append({"raise": type(e).__name__, "msg": str(e)[:200]})
    return outs


def op_statements(req):
    """the statements handed to the grammar, in order, plus comments"""
    stmts = []

    p = DDLParser(req["ddl"], **req.get("ctor", {}))
    orig = p.parse_statement

    def ps():
        stmts.append(p.statement)
        orig()

    p.parse_statement = ps   # instance attribute: no subclass (a subclass would make PLY write a parsetab elsewhere)
    tables = p.parse_data()
    return {"statements": stmts, "parser_output": enc(tables)}


def op_markers(req):
    """parse_data with parse_statement replaced by a marker: the sequence of statements, SET entries and comments"""
    p = DDLParser(req["ddl"], **req.get("ctor", {}))

    def ps():
        p.tables.append({"__stmt__": p.statement})

    p.parse_statement = ps
    return enc(p.parse_data())


def op_preprocess(req):
    p = DDLParser(req["ddl"])
    return p.pre_process_data(p.data)


def op_format(req):
    from simple_ddl_parser.output.core import Output

    po = dec(req["parser_output"])
    out = Output(parser_output=po, output_mode=req.get("mode", "sql"), group_by_type=req.get("group", False)).format()
    return enc(out)


def op_group(req):
    from simple_ddl_parser.output.core import Output

    o = Output(parser_output=[], output_mode="sql", group_by_type=True)
    o.final_result = dec(req["flat"])
    o.group_by_type_result()
    return enc(o.final_result)


def op_callfn(req):
    """call a module-level function by dotted name with pyval arguments"""
    import importlib

    mod, fn = req["fn"].rsplit(".", 1)
    f = getattr(importlib.import_module(mod), fn)
    return enc(f(*[dec(a) for a in req.get("args", [])]))


def op_pyexec(req):
    """escape hatch for property-specific probes: exec code with `req` in scope, result in `out`"""
    env = {"req": req, "enc": enc, "dec": dec, "DDLParser": DDLParser, "copy": copy}
    exec(req["code"], env)
    return env.get("out")


OPS = {k[3:]: v for k, v in list(globals().items()) if k.startswith("op_")}


def main():
    for line in sys.stdin:
        line = line.strip()
        if not line:
            continue
        req = json.loads(line)
        try:
            ans = {"ok": OPS[req["op"]](req)}
        except NonPyval as e:
            ans = {"nonpyval": str(e)}
        except BaseException as e:  # noqa
            if isinstance(e, (KeyboardInterrupt, SystemExit)):
                raise
            ans = {"raise": type(e).__name__, "msg": str(e)[:300],
                   "mro": [c.__name__ for c in type(e).__mro__]}
        sys.stdout.write(json.dumps(ans) + "\n")
        sys.stdout.flush()


if __name__ == "__main__":
    main()
