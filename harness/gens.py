"""Input generators shared by the property modules. Every random choice comes from the rng passed in."""
import json

IDENT_POOL = ["a", "b", "c", "id", "x1", "user_id", "Name", "col_2", "t", "tbl", "orders", "Price", "qty", "zz_9"]
TYPE_POOL = ["int", "INT", "integer", "bigint", "text", "varchar", "date", "timestamp", "boolean", "decimal", "numeric", "float"]

UNSUPPORTED_FAMILIES = {
    # statements that reach the grammar and are rejected (no inner line starts with a statement-level word)
    "select": ["SELECT a , b FROM t WHERE a > 1", "select * from s.t", "SELECT count ( x ) FROM t GROUP BY y"],
    "update": ["UPDATE t SET a = 1 WHERE b = 2", "update s.t set x = 'v'"],
    "view": ["CREATE VIEW v AS SELECT a FROM t", "CREATE OR REPLACE VIEW s.v AS SELECT 1"],
    "function": ["CREATE FUNCTION f ( ) RETURNS int AS 'select 1' LANGUAGE SQL",
                 "CREATE PROCEDURE p ( ) BEGIN END"],
    "session": ["COMMIT", "BEGIN", "ROLLBACK", "ANALYZE t", "VACUUM", "TRUNCATE TABLE t", "SHOW TABLES", "EXPLAIN SELECT 1"],
    "misc": ["MERGE INTO t USING s ON t.a = s.a", "CALL p ( 1 )", "REVOKE ALL ON t FROM u", "LOCK TABLE t"],
}
# lines dropped by the line filter before they reach the grammar: raise in neither setting
FILTERED = ["GO", "USE db1", "INSERT INTO t VALUES ( 1 , 2 )", "GRANT SELECT ON t TO u", "DELETE FROM t WHERE a = 1",
            "insert into t ( a ) values ( 'x' )", "use [db]", "go"]


def mutate_words(rng, s, n=1):
    w = s.split()
    if len(w) < 3:
        return s
    for _ in range(n):
        k = rng.randrange(4)
        i = rng.randrange(len(w))
        if k == 0:
            del w[i]
        elif k == 1:
            w.insert(i, w[i])
        elif k == 2:
            j = rng.randrange(len(w))
            w[i], w[j] = w[j], w[i]
        else:
            w.insert(i, rng.choice(["FOO", "select", "(", ")", ",", "KEY", "NOT", "x"]))
        if not w:
            return s
    return " ".join(w)


def simple_table(rng, name=None, ncols=None):
    name = name or rng.choice(IDENT_POOL)
    n = ncols or rng.randint(1, 5)
    cols = []
    used = set()
    for i in range(n):
        c = rng.choice(IDENT_POOL) + str(i)
        t = rng.choice(TYPE_POOL)
        extra = rng.choice(["", " NOT NULL", " NULL", " DEFAULT 1", " PRIMARY KEY" if "pk" not in used else "", " UNIQUE"])
        if "PRIMARY" in extra:
            used.add("pk")
        size = rng.choice(["", "", "(10)", "(10,2)"]) if t.lower() in ("varchar", "decimal", "numeric") else ""
        cols.append("%s %s%s%s" % (c, t, size, extra))
    return "CREATE TABLE %s (\n  %s\n);" % (name, ",\n  ".join(cols))
