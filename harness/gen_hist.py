"""Scripts of CREATE TABLEs followed by ALTER TABLE / CREATE INDEX statements (C04, C10, C12)."""
import gen_table as G

QUOTES = [lambda s: s, lambda s: '"%s"' % s, lambda s: "[%s]" % s, lambda s: "`%s`" % s, lambda s: s.upper(), lambda s: s.lower()]


def qname(rng, schema, name):
    q1, q2 = rng.choice(QUOTES), rng.choice(QUOTES)
    return ((q1(schema) + ".") if schema else "") + q2(name)


def gen_history(rng, nalters=None):
    """returns dict(tables=[table ast...], stmts=[(kind, target_index or None, text, info)], text=script)"""
    nt = rng.choice([1, 2, 2, 3, 4])
    base = rng.choice(["t", "orders", "Users"])
    tables = []
    used = set()
    for i in range(nt):
        # colliding names across schemas on purpose
        name = base if rng.random() < 0.6 else rng.choice(G.TABLE_NAMES)
        schema = rng.choice([None, "a", "b", "c"])
        key = (name.lower(), schema)
        if key in used:
            continue
        used.add(key)
        tables.append(G.gen_table(rng, ncols=rng.choice([2, 3, 4, 5]), constraints=False, name=name, schema=schema))
    stmts = []
    na = nalters if nalters is not None else rng.choice([0, 1, 1, 2, 3, 5, 8])
    # some columns are declared with delimiters; statements that match by normalised name may spell them differently
    for t in tables:
        for c in t["cols"]:
            if rng.random() < 0.3:
                c["name"] = rng.choice(QUOTES[1:4])(c["name"])
    live = {i: [c["name"] for c in t["cols"]] for i, t in enumerate(tables)}
    bare = lambda x: x.strip('"[]`')
    for _ in range(na):
        ti = rng.randrange(len(tables))
        t = tables[ti]
        cols = live[ti]       # later statements only name columns that still exist under that name
        if not cols:
            continue
        tn = qname(rng, t["schema"], t["name"])
        k = rng.choice(["add", "drop", "rename", "unique1", "uniquek", "default", "pk", "fk", "check", "index", "uindex", "missing", "modify", "modify"])
        if k == "add":
            nm = "new_%d" % rng.randrange(1000)
            stmts.append((k, ti, "ALTER TABLE %s ADD %s int;" % (tn, nm), {"name": nm}))
        elif k == "drop":
            c = rng.choice(cols)
            stmts.append((k, ti, "ALTER TABLE %s DROP COLUMN %s;" % (tn, rng.choice(QUOTES)(bare(c))), {"name": c}))
            live[ti] = [x for x in cols if x != c]
        elif k == "rename":
            c = rng.choice(cols)
            nn = "ren_%d" % rng.randrange(1000)
            stmts.append((k, ti, "ALTER TABLE %s RENAME COLUMN %s TO %s;" % (tn, rng.choice(QUOTES)(bare(c)), nn), {"from": c, "to": nn}))
            live[ti] = [x for x in cols if x != c]
        elif k == "modify":
            c = rng.choice(cols)
            form = rng.choice(["MODIFY COLUMN", "ALTER COLUMN", "MODIFY"])
            sz = rng.randrange(1, 300)
            wr = rng.choice(QUOTES[:4])(bare(c))
            stmts.append((k, ti, "ALTER TABLE %s %s %s varchar(%d);" % (tn, form, wr, sz), {"name": c, "written": wr, "size": sz}))
        elif k == "unique1":
            c = rng.choice(cols)
            stmts.append((k, ti, "ALTER TABLE %s ADD UNIQUE (%s);" % (tn, c), {"cols": [c]}))
        elif k == "uniquek":
            cs = rng.sample(cols, min(len(cols), rng.choice([2, 3, 4])))
            stmts.append((k, ti, "ALTER TABLE %s ADD CONSTRAINT uq_x UNIQUE (%s);" % (tn, ", ".join(cs)), {"cols": cs}))
        elif k == "default":
            cs = rng.sample(cols, min(len(cols), rng.choice([1, 2, 3])))
            v = str(rng.randrange(100))
            stmts.append((k, ti, "ALTER TABLE %s ADD CONSTRAINT df_x DEFAULT %s FOR %s;" % (tn, v, ", ".join(cs)), {"cols": cs, "value": v}))
        elif k == "pk":
            cs = rng.sample(cols, min(len(cols), rng.choice([1, 2])))
            stmts.append((k, ti, "ALTER TABLE %s ADD PRIMARY KEY (%s);" % (tn, ", ".join(cs)), {"cols": cs}))
        elif k == "fk":
            cs = rng.sample(cols, min(len(cols), rng.choice([1, 2, 3])))
            rc = ["r%d" % i for i in range(len(cs))]
            wcs = [rng.choice(QUOTES[:4])(bare(c)) for c in cs]
            stmts.append((k, ti, "ALTER TABLE %s ADD CONSTRAINT fk_x FOREIGN KEY (%s) REFERENCES o.parent (%s);" % (tn, ", ".join(wcs), ", ".join(rc)),
                          {"cols": wcs, "rcols": rc}))
        elif k == "check":
            c = rng.choice(cols)
            stmts.append((k, ti, "ALTER TABLE %s ADD CONSTRAINT ck_x CHECK (%s > 0);" % (tn, c), {"col": c}))
        elif k in ("index", "uindex"):
            cs = rng.sample(cols, min(len(cols), rng.choice([1, 2, 3])))
            dirs = [rng.choice(["", " ASC", " DESC"]) for _ in cs]
            iname = "ix_%d" % rng.randrange(1000)
            stmts.append((k, ti, "CREATE %sINDEX %s ON %s (%s);" % ("UNIQUE " if k == "uindex" else "", iname, tn,
                                                                   ", ".join(c + d for c, d in zip(cs, dirs))),
                          {"name": iname, "cols": cs, "dirs": dirs, "unique": k == "uindex"}))
        else:
            sch = rng.choice([None, "zz", "a", "b"])
            nm = "nosuch_%d" % rng.randrange(100)
            if rng.random() < 0.6:
                # the NAME of a defined table under a schema (or without one) for which the script defines no table:
                # an unqualified reference must not fall back to a same-named table of some schema, nor the other way round
                cand = [s_ for s_ in [None, "a", "b", "c", "zz"] if (t["name"].lower(), s_) not in used]
                if cand:
                    sch, nm = rng.choice(cand), rng.choice(QUOTES)(t["name"])
            target = ((rng.choice(QUOTES)(sch) + ".") if sch else "") + nm
            c0 = bare(cols[0])
            stmts.append((k, None, rng.choice(["ALTER TABLE %s ADD UNIQUE (%s);" % (target, c0),
                                               "ALTER TABLE %s DROP COLUMN %s;" % (target, c0),
                                               "ALTER TABLE %s ADD new_1 int;" % target,
                                               "CREATE UNIQUE INDEX ix_m ON %s (%s);" % (target, c0)]), {}))
    text = "\n".join(G.render_table(t, None) for t in tables) + "\n" + "\n".join(s[2] for s in stmts) + "\n"
    return {"tables": tables, "stmts": stmts, "text": text}
