(* Line protocol around the extracted model: "cmd<TAB>hex<TAB>hex..." -> one JSON line. *)
let explode s = List.init (String.length s) (String.get s)
let implode l = let b = Buffer.create 64 in List.iter (Buffer.add_char b) l; Buffer.contents b
let unhex s =
  let n = String.length s / 2 in
  String.init n (fun i -> Char.chr (int_of_string ("0x" ^ String.sub s (2 * i) 2)))
let () =
  try
    while true do
      let line = input_line stdin in
      (match String.split_on_char '\t' line with
       | [] -> print_endline "{\"unsupported\":\"empty\"}"
       | cmd :: args ->
         let r =
           try implode (Model.dispatch (explode cmd) (List.map (fun a -> explode (unhex a)) args))
           with Stack_overflow -> "{\"outoffuel\":true,\"why\":\"stack\"}" in
         print_endline r);
      flush stdout
    done
  with End_of_file -> ()
