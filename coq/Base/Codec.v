(* pyval <- flat list of strings (protocol input).  Prefix code:
   N | T | F | I <int> | S <str> | L <n> items... | U <n> items... | D <n> (key value)... *)
From Coq Require Import String Ascii List ZArith NArith Bool.
From SDP Require Import Base PyStr.
Import ListNotations.
Open Scope string_scope.

Definition nat_of_string (s : string) : nat := match int_of_string s with Some z => Z.to_nat z | None => 0 end.

Fixpoint decode (fuel : nat) (l : list string) : option (pyval * list string) :=
  match fuel with
  | O => None
  | S f =>
    match l with
    | [] => None
    | tag :: r =>
      if String.eqb tag "N" then Some (PNone, r)
      else if String.eqb tag "T" then Some (PBool true, r)
      else if String.eqb tag "F" then Some (PBool false, r)
      else if String.eqb tag "I" then
        match r with z :: r' => match int_of_string z with Some v => Some (PInt v, r') | None => None end | [] => None end
      else if String.eqb tag "S" then
        match r with s :: r' => Some (PStr s, r') | [] => None end
      else if String.eqb tag "L" || String.eqb tag "U" then
        match r with
        | n :: r' =>
          match (fix items (k : nat) (l : list string) : option (list pyval * list string) :=
                   match k with
                   | O => Some ([], l)
                   | S k' => match decode f l with
                             | Some (v, l') => match items k' l' with Some (vs, l'') => Some (v :: vs, l'') | None => None end
                             | None => None end
                   end) (nat_of_string n) r' with
          | Some (vs, rest) => Some (if String.eqb tag "L" then PList vs else PTuple vs, rest)
          | None => None
          end
        | [] => None
        end
      else if String.eqb tag "D" then
        match r with
        | n :: r' =>
          match (fix items (k : nat) (l : list string) : option (list (string * pyval) * list string) :=
                   match k with
                   | O => Some ([], l)
                   | S k' => match l with
                             | key :: l0 =>
                               match decode f l0 with
                               | Some (v, l') => match items k' l' with Some (vs, l'') => Some ((key, v) :: vs, l'') | None => None end
                               | None => None end
                             | [] => None end
                   end) (nat_of_string n) r' with
          | Some (kvs, rest) => Some (PDict kvs, rest)
          | None => None
          end
        | [] => None
        end
      else None
    end
  end.

Definition decode_all (l : list string) : option pyval :=
  match decode (S (List.length l)) l with Some (v, []) => Some v | _ => None end.
