(* Python str operations over 7-bit ASCII Coq strings (executable; no proofs here). *)
From Coq Require Import String Ascii List ZArith NArith Bool Arith.
From SDP Require Import Base.
Import ListNotations.
Open Scope string_scope.
Open Scope nat_scope.

Definition chars := list ascii.
Definition s2l := list_ascii_of_string.
Definition l2s := string_of_list_ascii.

Definition code (c : ascii) : nat := nat_of_ascii c.
Definition is_upper_c (c : ascii) := let n := code c in (65 <=? n) && (n <=? 90).
Definition is_lower_c (c : ascii) := let n := code c in (97 <=? n) && (n <=? 122).
Definition is_digit_c (c : ascii) := let n := code c in (48 <=? n) && (n <=? 57).
Definition is_alpha_c (c : ascii) := is_upper_c c || is_lower_c c.
(* \w for ASCII text *)
Definition is_word_c (c : ascii) := is_alpha_c c || is_digit_c c || Ascii.eqb c "_"%char.
(* python str.strip()/split() whitespace restricted to ASCII: space \t \n \r \x0b \x0c and \x1c-\x1f *)
Definition is_space_c (c : ascii) :=
  let n := code c in (n =? 32) || ((9 <=? n) && (n <=? 13)) || ((28 <=? n) && (n <=? 31)).

Definition upper_c (c : ascii) := if is_lower_c c then ascii_of_nat (code c - 32) else c.
Definition lower_c (c : ascii) := if is_upper_c c then ascii_of_nat (code c + 32) else c.

Fixpoint smap (f : ascii -> ascii) (s : string) : string :=
  match s with EmptyString => EmptyString | String c r => String (f c) (smap f r) end.
Definition upper := smap upper_c.
Definition lower := smap lower_c.

Fixpoint sforall (f : ascii -> bool) (s : string) : bool :=
  match s with EmptyString => true | String c r => f c && sforall f r end.
Fixpoint sexists (f : ascii -> bool) (s : string) : bool :=
  match s with EmptyString => false | String c r => f c || sexists f r end.
Definition has_char (c : ascii) (s : string) := sexists (Ascii.eqb c) s.
Fixpoint count_char (c : ascii) (s : string) : nat :=
  match s with EmptyString => 0 | String d r => (if Ascii.eqb c d then 1 else 0) + count_char c r end.

Definition startswith (s p : string) : bool := String.prefix p s.
Fixpoint drop (n : nat) (s : string) : string :=
  match n, s with O, _ => s | S k, String _ r => drop k r | S _, EmptyString => EmptyString end.
Fixpoint take (n : nat) (s : string) : string :=
  match n, s with O, _ => EmptyString | S k, String c r => String c (take k r) | S _, EmptyString => EmptyString end.
Definition endswith (s p : string) : bool :=
  let ls := String.length s in let lp := String.length p in
  (lp <=? ls) && String.eqb (drop (ls - lp) s) p.

(* [sub in s] for non-empty or empty sub *)
Fixpoint contains (s sub : string) : bool :=
  if String.prefix sub s then true else
  match s with EmptyString => false | String _ r => contains r sub end.

(* index of first occurrence *)
Fixpoint find_from (s sub : string) (i : nat) : option nat :=
  if String.prefix sub s then Some i else
  match s with EmptyString => None | String _ r => find_from r sub (S i) end.
Definition find (s sub : string) := find_from s sub 0.

(* str.split(sep) with non-empty sep : always at least one piece *)
Fixpoint split_fuel (fuel : nat) (sep : string) (s : string) (acc : string) : list string :=
  match fuel with
  | O => [acc ++ s]
  | S k =>
    match s with
    | EmptyString => [acc]
    | String c r =>
      if String.prefix sep s then acc :: split_fuel k sep (drop (String.length sep) s) EmptyString
      else split_fuel k sep r (acc ++ String c EmptyString)
    end
  end.
Definition split (s sep : string) : list string := split_fuel (S (String.length s)) sep s EmptyString.

(* str.split() on whitespace *)
Fixpoint words_aux (s : string) (cur : string) : list string :=
  match s with
  | EmptyString => match cur with EmptyString => [] | _ => [cur] end
  | String c r => if is_space_c c
                  then match cur with EmptyString => words_aux r EmptyString | _ => cur :: words_aux r EmptyString end
                  else words_aux r (cur ++ String c EmptyString)
  end.
Definition words (s : string) : list string := words_aux s EmptyString.

Fixpoint lstrip (s : string) : string :=
  match s with String c r => if is_space_c c then lstrip r else s | EmptyString => EmptyString end.
Definition srev (s : string) : string := l2s (rev (s2l s)).
Definition rstrip (s : string) : string := srev (lstrip (srev s)).
Definition strip (s : string) : string := rstrip (lstrip s).

Fixpoint join (sep : string) (l : list string) : string :=
  match l with [] => EmptyString | [x] => x | x :: r => x ++ sep ++ join sep r end.

(* str.replace(old,new), old non-empty *)
Definition replace (s old new : string) : string := join new (split s old).

(* non-overlapping count, sub non-empty *)
Definition count (s sub : string) : nat := List.length (split s sub) - 1.

Definition isnumeric (s : string) : bool :=
  match s with EmptyString => false | _ => sforall is_digit_c s end.

Definition digit_val (c : ascii) : Z := Z.of_nat (code c - 48).
Fixpoint digits_val (s : string) (acc : Z) : Z :=
  match s with EmptyString => acc | String c r => digits_val r (acc * 10 + digit_val c)%Z end.
(* python int(s) for s matching [+-]?[0-9]+ (after strip); None = ValueError.
   (underscores between digits, which int() also accepts, are reported as None and are excluded
   by every theorem's hypothesis) *)
Definition int_of_string (s0 : string) : option Z :=
  let s := strip s0 in
  match s with
  | String "-"%char r => if isnumeric r then Some (- digits_val r 0)%Z else None
  | String "+"%char r => if isnumeric r then Some (digits_val r 0) else None
  | _ => if isnumeric s then Some (digits_val s 0) else None
  end.

Definition digit_char (n : N) : ascii := ascii_of_N (48 + n).
Fixpoint string_of_pos_fuel (fuel : nat) (n : N) (acc : string) : string :=
  match fuel with
  | O => acc
  | S k => let acc' := String (digit_char (N.modulo n 10)) acc in
           if (N.div n 10 =? 0)%N then acc' else string_of_pos_fuel k (N.div n 10) acc'
  end.
Definition string_of_N (n : N) : string := string_of_pos_fuel (S (N.to_nat (N.log2 n))) n EmptyString.
Definition string_of_Z (z : Z) : string :=
  match z with
  | Z0 => "0"
  | Zpos p => string_of_N (Npos p)
  | Zneg p => String "-"%char (string_of_N (Npos p))
  end.

Fixpoint assoc {A} (k : string) (l : list (string * A)) : option A :=
  match l with [] => None | (k', v) :: r => if String.eqb k k' then Some v else assoc k r end.
Definition mem (k : string) (l : list string) : bool := existsb (String.eqb k) l.
Definition assoc_mem {A} (k : string) (l : list (string * A)) : bool :=
  match assoc k l with Some _ => true | None => false end.

Definition last_char (s : string) : option ascii :=
  match rev (s2l s) with c :: _ => Some c | [] => None end.
Definition drop_last (s : string) : string := take (String.length s - 1) s.
