(* A backtracking regular-expression matcher with Python `re` semantics (leftmost, ordered
   alternation, greedy/lazy repetition with give-back, look-ahead, \b) over ASCII text.
   The regex ASTs it runs are GENERATED from the pattern texts found in /repo (Gen/RegexAst.v);
   no proofs here. *)
From Coq Require Import String Ascii List Bool Arith.
From SDP Require Import Base PyStr.
Import ListNotations.
Open Scope nat_scope.

Inductive set_item :=
| SChar (c : ascii)
| SRange (a b : ascii).

Inductive re :=
| RFail                                  (* never matches (non-ASCII literal) *)
| RChar (c : ascii)
| RNotChar (c : ascii)
| RSet (neg : bool) (items : list set_item)
| RAny                                   (* . without DOTALL: anything but newline *)
| RSeq (l : list re)
| RAlt (l : list re)
| RRepeat (min : nat) (max : option nat) (greedy : bool) (r : re)
| RAhead (neg : bool) (r : re)
| RBoundary | RBegin | REnd
| RIgnoreCase (r : re).

Inductive mres (A : Type) := MNo | MYes (a : A) | MFuel.
Arguments MNo {A}.
Arguments MYes {A} a.
Arguments MFuel {A}.

Definition in_item (ic : bool) (c : ascii) (it : set_item) : bool :=
  match it with
  | SChar d => Ascii.eqb c d || (ic && (Ascii.eqb (lower_c c) (lower_c d)))
  | SRange a b =>
      let t x := (code a <=? code x) && (code x <=? code b) in
      t c || (ic && (t (lower_c c) || t (upper_c c)))
  end.
Definition in_set (ic : bool) (c : ascii) (items : list set_item) : bool := existsb (in_item ic c) items.

Definition is_word_opt (o : option ascii) : bool := match o with Some c => is_word_c c | None => false end.

(* [mt fuel ic r prev s n k] : match r at the front of s (prev = character before, if any;
   n = characters consumed so far), then call the continuation on what is left.  The answer type
   is fixed so that look-aheads can re-enter the matcher. *)
Definition pos := (option ascii * list ascii * nat)%type.
Definition kont := option ascii -> list ascii -> nat -> mres pos.

Fixpoint mt (fuel : nat) (ic : bool) (r : re) (prev : option ascii) (s : list ascii) (n : nat)
         (k : kont) {struct fuel} : mres pos :=
  match fuel with
  | O => MFuel
  | S f =>
    match r with
    | RFail => MNo
    | RChar c => match s with
                 | d :: s' => if Ascii.eqb c d || (ic && Ascii.eqb (lower_c c) (lower_c d)) then k (Some d) s' (S n) else MNo
                 | [] => MNo end
    | RNotChar c => match s with
                    | d :: s' => if Ascii.eqb c d || (ic && Ascii.eqb (lower_c c) (lower_c d)) then MNo else k (Some d) s' (S n)
                    | [] => MNo end
    | RSet neg items => match s with
                        | d :: s' => if xorb neg (in_set ic d items) then k (Some d) s' (S n) else MNo
                        | [] => MNo end
    | RAny => match s with
              | d :: s' => if Ascii.eqb d "010"%char then MNo else k (Some d) s' (S n)
              | [] => MNo end
    | RSeq l =>
        (fix seq (l : list re) (prev : option ascii) (s : list ascii) (n : nat) {struct l} : mres pos :=
           match l with
           | [] => k prev s n
           | r1 :: rest => mt f ic r1 prev s n (fun p' s' n' => seq rest p' s' n')
           end) l prev s n
    | RAlt l =>
        (fix alt (l : list re) : mres pos :=
           match l with
           | [] => MNo
           | r1 :: rest => match mt f ic r1 prev s n k with
                           | MNo => alt rest
                           | other => other end
           end) l
    | RRepeat mn mx greedy r1 =>
        let more (prev' : option ascii) (s' : list ascii) (n' : nat) : mres pos :=
            (* one more iteration; an optional iteration that consumes nothing is not taken (sre) *)
            match mx with
            | Some O => MNo
            | _ =>
              mt f ic r1 prev' s' n'
                 (fun p2 s2 n2 =>
                    if (n2 =? n')%nat && (match mn with O => true | _ => false end) then MNo
                    else mt f ic (RRepeat (pred mn) (match mx with Some m => Some (pred m) | None => None end) greedy r1) p2 s2 n2 k)
            end in
        match mn with
        | S _ => more prev s n
        | O => if greedy
               then match more prev s n with
                    | MNo => k prev s n
                    | other => other end
               else match k prev s n with
                    | MNo => more prev s n
                    | other => other end
        end
    | RAhead neg r1 =>
        match mt f ic r1 prev s n (fun p' s' n' => MYes (p', s', n')) with
        | MFuel => MFuel
        | MYes _ => if neg then MNo else k prev s n
        | MNo => if neg then k prev s n else MNo
        end
    | RBoundary =>
        let nxt := match s with c :: _ => Some c | [] => None end in
        if xorb (is_word_opt prev) (is_word_opt nxt) then k prev s n else MNo
    | RBegin => match prev with None => k prev s n | Some _ => MNo end
    | REnd => match s with [] => k prev s n | _ => MNo end
    | RIgnoreCase r1 => mt f true r1 prev s n k
    end
  end.

Definition accept : kont := fun p s n => MYes (p, s, n).

(* re.match at a position: what is left and how many characters were consumed *)
Definition match_at (fuel : nat) (r : re) (prev : option ascii) (s : list ascii) : mres pos :=
  mt fuel false r prev s 0 accept.

Definition default_fuel (s : list ascii) : nat := 2 * List.length s + 200.

(* pattern.match(str) is not None *)
Definition re_match_b (r : re) (s : string) : res bool :=
  let l := s2l s in
  match match_at (default_fuel l) r None l with
  | MYes _ => Ok true | MNo => Ok false | MFuel => OutOfFuel end.

(* pattern.search(str) is not None *)
Fixpoint search_from (fuel : nat) (r : re) (prev : option ascii) (s : list ascii) : res bool :=
  match match_at fuel r prev s with
  | MYes _ => Ok true
  | MFuel => OutOfFuel
  | MNo => match s with [] => Ok false | c :: s' => search_from fuel r (Some c) s' end
  end.
Definition re_search_b (r : re) (s : string) : res bool :=
  let l := s2l s in search_from (default_fuel l) r None l.

(* re.sub(pattern, literal, text) for patterns that cannot match the empty string *)
Fixpoint sub_loop (m : nat) (fuel : nat) (r : re) (repl : list ascii) (prev : option ascii) (s : list ascii)
  : res (list ascii) :=
  match m with
  | O => match s with [] => Ok [] | _ => OutOfFuel end
  | S m' =>
    match s with
    | [] => Ok []
    | c :: s' =>
      match match_at fuel r prev s with
      | MFuel => OutOfFuel
      | MYes (p', rest, n) =>
          match n with
          | O => Unsupported "re.sub: empty match"
          | _ => do t <- sub_loop m' fuel r repl p' rest; Ok (repl ++ t)%list
          end
      | MNo => do t <- sub_loop m' fuel r repl (Some c) s'; Ok (c :: t)
      end
    end
  end.
Definition re_sub (r : re) (repl : string) (s : string) : res string :=
  let l := s2l s in
  do t <- sub_loop (S (List.length l)) (default_fuel l) r (s2l repl) None l; Ok (l2s t).

(* re.split(pattern, text) where the pattern is ONE capturing group around everything and cannot
   match empty: pieces and separators alternate *)
Fixpoint split_loop (m : nat) (fuel : nat) (r : re) (prev : option ascii) (s : list ascii) (cur : list ascii)
  : res (list string) :=
  match m with
  | O => match s with [] => Ok [l2s (rev cur)] | _ => OutOfFuel end
  | S m' =>
    match s with
    | [] => Ok [l2s (rev cur)]
    | c :: s' =>
      match match_at fuel r prev s with
      | MFuel => OutOfFuel
      | MYes (p', rest, n) =>
          match n with
          | O => Unsupported "re.split: empty match"
          | _ => do t <- split_loop m' fuel r p' rest []; Ok (l2s (rev cur) :: l2s (firstn n s) :: t)
          end
      | MNo => split_loop m' fuel r (Some c) s' (c :: cur)
      end
    end
  end.
Definition re_split (r : re) (s : string) : res (list string) :=
  let l := s2l s in split_loop (S (List.length l)) (default_fuel l) r None l [].
