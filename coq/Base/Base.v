(* Base datatypes shared by generated files and models. No proofs here. *)
From Coq Require Import String Ascii List ZArith NArith PArith Bool.
Import ListNotations.
Open Scope string_scope.

Inductive pyval :=
| PNone
| PBool (b : bool)
| PInt (z : Z)
| PStr (s : string)
| PList (l : list pyval)
| PTuple (l : list pyval)
| PDict (d : list (string * pyval)).     (* insertion ordered, keys unique by construction *)

Inductive exn := DDLParserError | SimpleDDLParserException | ValueError | KeyError
               | AttributeError | TypeError | IndexError.

Inductive res (A : Type) :=
| Ok (a : A) | Raise (e : exn) | Unsupported (why : string) | OutOfFuel.
Arguments Ok {A} a.
Arguments Raise {A} e.
Arguments Unsupported {A} why.
Arguments OutOfFuel {A}.

Definition bind {A B} (r : res A) (f : A -> res B) : res B :=
  match r with Ok a => f a | Raise e => Raise e | Unsupported w => Unsupported w | OutOfFuel => OutOfFuel end.
Notation "'do' x <- e ; f" := (bind e (fun x => f)) (at level 200, x name, e at level 100, f at level 200).
Notation "'do' ' p <- e ; f" := (bind e (fun x => match x with p => f end)) (at level 200, p pattern, e at level 100, f at level 200).

Definition str_of_codes (l : list nat) : string :=
  fold_right (fun n s => String (ascii_of_nat n) s) EmptyString l.

Record production := mkProd {
  p_name : string;           (* left-hand side *)
  p_lhs  : N;                (* nonterminal id, 0 for S' *)
  p_rhs  : list (bool * positive);   (* (is_terminal, id) *)
  p_rhs_names : list string;
  p_func : string            (* name of the p_* function *)
}.

Record field := mkField {
  f_name : string;
  f_default : pyval;
  f_exclude_always : bool;
  f_exclude_if_not_provided : bool;
  f_exclude_if_empty : bool;
  f_has_modes : bool;
  f_output_modes : list string;
  f_alias : string           (* "" = none *)
}.
