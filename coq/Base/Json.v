(* Minimal JSON text output for the driver protocol, and a model of json.dumps (default args). *)
From Coq Require Import String Ascii List ZArith NArith Bool Arith.
From SDP Require Import Base PyStr.
Import ListNotations.
Open Scope string_scope.

Inductive json := JNull | JBool (b : bool) | JNum (z : Z) | JStr (s : string) | JArr (l : list json)
                | JObj (l : list (string * json)).

Definition hex_digit (n : nat) : ascii :=
  if (n <? 10)%nat then ascii_of_nat (48 + n) else ascii_of_nat (87 + n).
Definition esc_char (c : ascii) : string :=
  let n := code c in
  if Ascii.eqb c """"%char then "\"""
  else if Ascii.eqb c "\"%char then "\\"
  else if (n =? 10)%nat then "\n"
  else if (n =? 13)%nat then "\r"
  else if (n =? 9)%nat then "\t"
  else if ((n <? 32) || (126 <? n))%nat then
    "\u00" ++ String (hex_digit (n / 16)) (String (hex_digit (n mod 16)) "")
  else String c "".
Fixpoint esc (s : string) : string :=
  match s with EmptyString => "" | String c r => esc_char c ++ esc r end.
Definition quote (s : string) : string := """" ++ esc s ++ """".

(* separators are parameters so that the same printer serves the protocol (compact) and json.dumps
   (", " and ": ") *)
Fixpoint render (isep ksep : string) (j : json) : string :=
  match j with
  | JNull => "null"
  | JBool true => "true"
  | JBool false => "false"
  | JNum z => string_of_Z z
  | JStr s => quote s
  | JArr l => "[" ++ join isep (map (render isep ksep) l) ++ "]"
  | JObj l => "{" ++ join isep (map (fun kv => quote (fst kv) ++ ksep ++ render isep ksep (snd kv)) l) ++ "}"
  end.
Definition compact := render "," ":".

(* pyval -> JSON for the protocol: tuples are tagged so that they stay distinct from lists *)
Fixpoint json_of_pyval (v : pyval) : json :=
  match v with
  | PNone => JNull
  | PBool b => JBool b
  | PInt z => JNum z
  | PStr s => JStr s
  | PList l => JArr (map json_of_pyval l)
  | PTuple l => JObj [("__tuple__", JArr (map json_of_pyval l))]
  | PDict d => JObj (map (fun kv => (fst kv, json_of_pyval (snd kv))) d)
  end.

(* json.dumps(v) with default arguments on the pyval universe: tuples print as arrays,
   ensure_ascii escapes (text is ASCII here), separators ", " and ": " *)
Fixpoint dumps_json (v : pyval) : json :=
  match v with
  | PNone => JNull
  | PBool b => JBool b
  | PInt z => JNum z
  | PStr s => JStr s
  | PList l => JArr (map dumps_json l)
  | PTuple l => JArr (map dumps_json l)
  | PDict d => JObj (map (fun kv => (fst kv, dumps_json (snd kv))) d)
  end.
Definition json_dumps (v : pyval) : string := render ", " ": " (dumps_json v).

Definition exn_name (e : exn) : string :=
  match e with
  | DDLParserError => "DDLParserError" | SimpleDDLParserException => "SimpleDDLParserException"
  | ValueError => "ValueError" | KeyError => "KeyError" | AttributeError => "AttributeError"
  | TypeError => "TypeError" | IndexError => "IndexError" end.

Definition json_of_res {A} (f : A -> json) (r : res A) : json :=
  match r with
  | Ok a => JObj [("ok", f a)]
  | Raise e => JObj [("raise", JStr (exn_name e))]
  | Unsupported w => JObj [("unsupported", JStr w)]
  | OutOfFuel => JObj [("outoffuel", JBool true)]
  end.

(* hex decoding of protocol arguments *)
Definition hex_val (c : ascii) : nat :=
  let n := code c in
  if (n <? 58)%nat then n - 48 else if (n <? 71)%nat then n - 55 else n - 87.
Fixpoint unhex (s : string) : string :=
  match s with
  | String a (String b r) => String (ascii_of_nat (16 * hex_val a + hex_val b)) (unhex r)
  | _ => EmptyString
  end.
