(* Extraction of the executable model. Directives in use: those of ExtrOcamlBasic
   (bool, option, unit, prod, list, sumbool, sumor -> OCaml natives) and ExtrOcamlString
   (ascii -> char, string -> char list, with its Extract Constant for ascii comparison /
   conversion). nat, N, Z, positive stay Coq datatypes. *)
From Coq Require Import Extraction ExtrOcamlBasic ExtrOcamlString.
From SDP Require Import Main.
Extraction "model.ml" Main.dispatch Json.unhex.
