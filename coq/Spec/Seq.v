(* Fragment "CREATE SEQUENCE": AST, rendering to lexemes, what the property says must come out
   (denote), and the hand-written reference machine F.  This file has no counterpart in the code:
   it is the reading of property C17. *)
From Coq Require Import String Ascii List ZArith NArith Bool.
From SDP Require Import Base PyStr Lexer Actions Engine.
Import ListNotations.
Open Scope string_scope.

(* ---------- decidable equality on info ------------------------------------------------------- *)
Definition ostr_eqb (a b : option string) : bool :=
  match a, b with Some x, Some y => String.eqb x y | None, None => true | _, _ => false end.
Lemma ostr_eqb_eq a b : ostr_eqb a b = true -> a = b.
Proof. destruct a, b; simpl; try congruence. intro H. apply String.eqb_eq in H. congruence. Qed.

Definition info_eqb (a b : info) : bool :=
  ostr_eqb (i_sym a) (i_sym b) && Bool.eqb (i_skip a) (i_skip b) && ostr_eqb (i_first a) (i_first b)
  && ostr_eqb (i_def a) (i_def b) && ostr_eqb (i_common a) (i_common b) && ostr_eqb (i_coldef a) (i_coldef b)
  && ostr_eqb (i_after a) (i_after b) && ostr_eqb (i_seq a) (i_seq b) && ostr_eqb (i_alter a) (i_alter b)
  && Bool.eqb (i_if a) (i_if b) && Bool.eqb (i_tablespace a) (i_tablespace b) && Bool.eqb (i_tag a) (i_tag b)
  && Z.eqb (i_lt a) (i_lt b) && Z.eqb (i_gt a) (i_gt b) && Bool.eqb (i_array a) (i_array b).
Lemma info_eqb_eq a b : info_eqb a b = true -> a = b.
Proof.
  unfold info_eqb. intro H. repeat (apply andb_true_iff in H; destruct H as [H ?]).
  destruct a, b; simpl in *.
  repeat match goal with
         | [ X : Bool.eqb _ _ = true |- _ ] => apply Bool.eqb_prop in X
         | [ X : ostr_eqb _ _ = true |- _ ] => apply ostr_eqb_eq in X
         | [ X : Z.eqb _ _ = true |- _ ] => apply Z.eqb_eq in X
         end.
  subst. reflexivity.
Qed.

Definition letter_eqb (a b : letter) : bool :=
  match a, b with
  | LWord i, LWord j => info_eqb i j
  | LDot, LDot | LEq, LEq | LStr, LStr | LDq, LDq => true
  | _, _ => false
  end.
Lemma letter_eqb_eq a b : letter_eqb a b = true -> a = b.
Proof. destruct a, b; simpl; try congruence. intro H. apply info_eqb_eq in H. congruence. Qed.

(* the info of a word that is in no keyword table and has no special character *)
Definition generic_info : info := info_of "zzqx".

(* a word spelled kw is the keyword K (any letter case) *)
Definition is_kw (kw K : string) : bool :=
  String.eqb (upper kw) K && info_eqb (info_of kw) (info_of K) && String.eqb (strip_trailing_comma kw) kw.
(* a plain word: lexed like an ordinary identifier wherever it stands *)
Definition is_plain (w : string) : bool :=
  info_eqb (info_of w) generic_info && String.eqb (strip_trailing_comma w) w.

(* ---------- AST -------------------------------------------------------------------------------- *)
Inductive opt :=
| OIncr (kw : string) (by_ : option string) (num : string)
| OStart (kw : string) (with_ : option string) (num : string)
| OMin (kw num : string)
| OMax (kw num : string)
| ONoMin (no kw : string)
| ONoMax (no kw : string)
| OCacheN (kw num : string)
| OCache (kw : string)
| OOrder (kw : string)
| ONoOrder (kw : string).

Record seq := mkSeq {
  s_create : string; s_sequence : string;
  s_schema : option string; s_name : string;
  s_opts : list opt
}.

Definition is_num (w : string) : bool :=
  is_plain w && match int_of_string w with Some _ => true | None => false end
  && String.eqb (normalize_id w) w.

Definition okw (o : option string) (K : string) : bool :=
  match o with Some k => is_kw k K | None => true end.

Definition wf_opt (o : opt) : bool :=
  match o with
  | OIncr kw b n => is_kw kw "INCREMENT" && okw b "BY" && is_num n
  | OStart kw w n => is_kw kw "START" && okw w "WITH" && is_num n
  | OMin kw n => is_kw kw "MINVALUE" && is_num n
  | OMax kw n => is_kw kw "MAXVALUE" && is_num n
  | ONoMin no kw => is_kw no "NO" && is_kw kw "MINVALUE"
  | ONoMax no kw => is_kw no "NO" && is_kw kw "MAXVALUE"
  | OCacheN kw n => is_kw kw "CACHE" && is_num n
  | OCache kw => is_kw kw "CACHE"
  | OOrder kw => is_kw kw "ORDER"
  | ONoOrder kw => is_kw kw "NOORDER"
  end.

Definition wf (a : seq) : bool :=
  is_kw (s_create a) "CREATE" && is_kw (s_sequence a) "SEQUENCE"
  && match s_schema a with Some s => is_plain s | None => true end
  && is_plain (s_name a) && forallb wf_opt (s_opts a).

(* ---------- rendering: the lexemes the scanner cuts out of any layout of the statement -------- *)
Definition W (w : string) : lexeme := ("t_ID", w).
Definition DOTL : lexeme := ("t_DOT", ".").

Definition ow (o : option string) : list lexeme := match o with Some k => [W k] | None => [] end.

Definition opt_lexemes (o : opt) : list lexeme :=
  match o with
  | OIncr kw b n => W kw :: ow b ++ [W n]
  | OStart kw w n => W kw :: ow w ++ [W n]
  | OMin kw n | OMax kw n | OCacheN kw n => [W kw; W n]
  | ONoMin no kw | ONoMax no kw => [W no; W kw]
  | OCache kw | OOrder kw | ONoOrder kw => [W kw]
  end.

Definition name_lexemes (a : seq) : list lexeme :=
  match s_schema a with
  | Some s => [W s; DOTL; W (s_name a)]
  | None => [W (s_name a)]
  end.

Definition lexemes (a : seq) : list lexeme :=
  W (s_create a) :: W (s_sequence a) :: name_lexemes a ++ flat_map opt_lexemes (s_opts a).

(* ---------- denotation: what C17 says the entity is ----------------------------------------- *)
Definition num_val (w : string) : pyval :=
  match int_of_string w with Some z => PInt z | None => PNone end.

Definition denote_opt (o : opt) (d : list (string * pyval)) : list (string * pyval) :=
  match o with
  | OIncr _ None n => dict_set d "increment" (num_val n)
  | OIncr _ (Some _) n => dict_set d "increment_by" (num_val n)
  | OStart _ None n => dict_set d "start" (num_val n)
  | OStart _ (Some _) n => dict_set d "start_with" (num_val n)
  | OMin _ n => dict_set d "minvalue" (num_val n)
  | OMax _ n => dict_set d "maxvalue" (num_val n)
  | ONoMin _ _ => dict_set d "minvalue" (PBool false)
  | ONoMax _ _ => dict_set d "maxvalue" (PBool false)
  | OCacheN _ n => dict_set d "cache" (num_val n)
  | OCache _ => dict_set d "cache" (PBool true)
  | OOrder _ => dict_set d "order" (PBool true)
  | ONoOrder _ => dict_set d "noorder" (PBool true)
  end.

Definition nm (norm : bool) (s : string) : pyval := PStr (if norm then normalize_id s else s).

Definition denote (norm : bool) (a : seq) : pyval :=
  PDict (fold_left (fun d o => denote_opt o d) (s_opts a)
                   [("schema", match s_schema a with Some s => nm norm s | None => PNone end);
                    ("sequence_name", nm norm (s_name a))]).

(* ---------- letters ----------------------------------------------------------------------------- *)
Definition K (k : string) : letter := LWord (info_of k).
Definition G : letter := LWord generic_info.

Definition okl (o : option string) (k : string) : list letter := match o with Some _ => [K k] | None => [] end.

Definition opt_letters (o : opt) : list letter :=
  match o with
  | OIncr _ b _ => K "INCREMENT" :: okl b "BY" ++ [G]
  | OStart _ w _ => K "START" :: okl w "WITH" ++ [G]
  | OMin _ _ => [K "MINVALUE"; G]
  | OMax _ _ => [K "MAXVALUE"; G]
  | OCacheN _ _ => [K "CACHE"; G]
  | ONoMin _ _ => [K "NO"; K "MINVALUE"]
  | ONoMax _ _ => [K "NO"; K "MAXVALUE"]
  | OCache _ => [K "CACHE"]
  | OOrder _ => [K "ORDER"]
  | ONoOrder _ => [K "NOORDER"]
  end.

Definition name_letters (a : seq) : list letter :=
  match s_schema a with Some _ => [G; LDot; G] | None => [G] end.

Definition letters (a : seq) : list letter :=
  K "CREATE" :: K "SEQUENCE" :: name_letters a ++ flat_map opt_letters (s_opts a).

Definition alphabet : list letter :=
  [K "CREATE"; K "SEQUENCE"; G; LDot; K "INCREMENT"; K "BY"; K "START"; K "WITH"; K "MINVALUE"; K "MAXVALUE";
   K "NO"; K "CACHE"; K "ORDER"; K "NOORDER"].

(* ---------- the reference machine F --------------------------------------------------------------- *)
(* what is still to be reduced when the next option (or the end) arrives *)
Inductive pend := PName1 | PName2 | PIncr | PIncrBy | PStart | PStartWith | PMin | PMax
                | PNoMin | PNoMax | PCacheN | PCache0 | POrder | PNoOrder.

Definition pending (p : pend) : list string :=
  match p with
  | PName1 => ["id -> ID"; "seq_name -> create_seq id"; "expr -> seq_name"]
  | PName2 => ["id -> ID"; "seq_name -> create_seq id DOT id"; "expr -> seq_name"]
  | PIncr => ["id -> ID"; "expr -> expr INCREMENT id"]
  | PIncrBy => ["id -> ID"; "expr -> expr INCREMENT BY id"]
  | PStart => ["id -> ID"; "expr -> expr START id"]
  | PStartWith => ["id -> ID"; "expr -> expr START WITH id"]
  | PMin => ["id -> ID"; "expr -> expr MINVALUE id"]
  | PMax => ["id -> ID"; "expr -> expr MAXVALUE id"]
  | PNoMin => ["expr -> expr NO MINVALUE"]
  | PNoMax => ["expr -> expr NO MAXVALUE"]
  | PCacheN => ["id -> ID"; "expr -> expr CACHE id"]
  | PCache0 => ["expr -> expr CACHE"]
  | POrder => ["expr -> expr ORDER"]
  | PNoOrder => ["expr -> expr NOORDER"]
  end.

Inductive q := Q0 | QC | QS | QD | QI | QIB | QSt | QSW | QMin | QMax | QNo | B (p : pend).

Definition pend_eqb (a b : pend) : bool :=
  match a, b with
  | PName1, PName1 | PName2, PName2 | PIncr, PIncr | PIncrBy, PIncrBy | PStart, PStart | PStartWith, PStartWith
  | PMin, PMin | PMax, PMax | PNoMin, PNoMin | PNoMax, PNoMax | PCacheN, PCacheN | PCache0, PCache0
  | POrder, POrder | PNoOrder, PNoOrder => true
  | _, _ => false
  end.
Definition q_eqb (a b : q) : bool :=
  match a, b with
  | Q0, Q0 | QC, QC | QS, QS | QD, QD | QI, QI | QIB, QIB | QSt, QSt | QSW, QSW | QMin, QMin
  | QMax, QMax | QNo, QNo => true
  | B x, B y => pend_eqb x y
  | _, _ => false
  end.
Lemma q_eqb_eq a b : q_eqb a b = true -> a = b.
Proof. destruct a, b; simpl; try congruence; destruct p, p0; simpl; congruence. Qed.

Definition is (l : letter) (k : string) : bool := letter_eqb l (K k).

(* an option keyword arriving in a boundary state whose pending reductions are ps *)
Definition opt_start (ps : list string) (l : letter) : option (fout * q) :=
  if is l "INCREMENT" then Some ((ps, "INCREMENT", Upper), QI)
  else if is l "START" then Some ((ps, "START", Upper), QSt)
  else if is l "MINVALUE" then Some ((ps, "MINVALUE", Upper), QMin)
  else if is l "MAXVALUE" then Some ((ps, "MAXVALUE", Upper), QMax)
  else if is l "NO" then Some ((ps, "NO", Upper), QNo)
  else if is l "CACHE" then Some ((ps, "CACHE", Upper), B PCache0)
  else if is l "ORDER" then Some ((ps, "ORDER", Upper), B POrder)
  else if is l "NOORDER" then Some ((ps, "NOORDER", Upper), B PNoOrder)
  else None.

Definition isG (l : letter) : bool := letter_eqb l G.

Definition fstep (s : q) (l : letter) : option (fout * q) :=
  match s with
  | Q0 => if is l "CREATE" then Some (([], "CREATE", Upper), QC) else None
  | QC => if is l "SEQUENCE" then Some (([], "SEQUENCE", Upper), QS) else None
  | QS => if isG l then Some ((["create_seq -> CREATE SEQUENCE"], "ID", Keep), B PName1) else None
  | B PName1 => if letter_eqb l LDot then Some ((["id -> ID"], "DOT", Keep), QD) else opt_start (pending PName1) l
  | QD => if isG l then Some (([], "ID", Keep), B PName2) else None
  | QI => if is l "BY" then Some (([], "BY", Upper), QIB)
          else if isG l then Some (([], "ID", Keep), B PIncr) else None
  | QIB => if isG l then Some (([], "ID", Keep), B PIncrBy) else None
  | QSt => if is l "WITH" then Some (([], "WITH", Upper), QSW)
           else if isG l then Some (([], "ID", Keep), B PStart) else None
  | QSW => if isG l then Some (([], "ID", Keep), B PStartWith) else None
  | QMin => if isG l then Some (([], "ID", Keep), B PMin) else None
  | QMax => if isG l then Some (([], "ID", Keep), B PMax) else None
  | QNo => if is l "MINVALUE" then Some (([], "MINVALUE", Upper), B PNoMin)
           else if is l "MAXVALUE" then Some (([], "MAXVALUE", Upper), B PNoMax) else None
  | B PCache0 => if isG l then Some (([], "ID", Keep), B PCacheN) else opt_start (pending PCache0) l
  | B p => opt_start (pending p) l
  end.

Definition ffinish (s : q) : option (list string) :=
  match s with
  | B p => Some (pending p)
  | _ => None
  end.

(* ---------- protocol: an AST given as flat arguments (used by the harness to obtain denote) ------ *)
Definition onone (s : string) : option string := if String.eqb s "" then None else Some s.
Fixpoint opts_of_args (fuel : nat) (l : list string) : option (list opt) :=
  match fuel with
  | O => None
  | S f =>
    match l with
    | [] => Some []
    | tag :: a :: b :: c :: r =>
      match opts_of_args f r with
      | None => None
      | Some os =>
        if String.eqb tag "I" then Some (OIncr a (onone b) c :: os)
        else if String.eqb tag "S" then Some (OStart a (onone b) c :: os)
        else if String.eqb tag "m" then Some (OMin a c :: os)
        else if String.eqb tag "M" then Some (OMax a c :: os)
        else if String.eqb tag "nm" then Some (ONoMin a b :: os)
        else if String.eqb tag "nM" then Some (ONoMax a b :: os)
        else if String.eqb tag "C" then Some (OCacheN a c :: os)
        else if String.eqb tag "c" then Some (OCache a :: os)
        else if String.eqb tag "O" then Some (OOrder a :: os)
        else if String.eqb tag "N" then Some (ONoOrder a :: os)
        else None
      end
    | _ => None
    end
  end.
Definition seq_of_args (l : list string) : option seq :=
  match l with
  | cr :: sq :: sch :: name :: r =>
    match opts_of_args (S (List.length r)) r with
    | Some os => Some (mkSeq cr sq (onone sch) name os)
    | None => None
    end
  | _ => None
  end.
