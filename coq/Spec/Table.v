(* Fragment "Table": CREATE TABLE [schema.]name ( column {, column} ) in the core column syntax of property C01:
   column = name type [ (n) | (p , s) ] option*          type = one or two plain words
   option = NULL | NOT NULL | DEFAULT word | DEFAULT NULL | DEFAULT 'string' | PRIMARY KEY | UNIQUE
          | REFERENCES [schema.]table [(column)] [ON DELETE action] [ON UPDATE action] [NULL | NOT NULL]
   AST, rendering to lexemes, the entity the property prescribes for the parser stage (denote), the reference machine F. *)
From Coq Require Import String Ascii List ZArith NArith Bool.
From SDP Require Import Base PyStr Regex LR RealTables Lexer Actions Parse Engine Seq KeywordProofs Entity.
Import ListNotations.
Open Scope string_scope.

(* ---------- AST --------------------------------------------------------------------------------------- *)
Inductive nullk := NNull (kw : string) | NNot (kw1 kw2 : string).

Record refspec := mkRef {
  r_kw : string;                                   (* REFERENCES *)
  r_schema : option string; r_table : string;
  r_col : option string;
  r_ondel : option (string * string * string);      (* ON DELETE action : spellings of ON, DELETE + the action word *)
  r_onupd : option (string * string * string);
  r_null : option nullk                            (* NULL / NOT NULL written directly after the reference *)
}.

Inductive copt :=
| ONull (n : nullk)
| ODefWord (kw v : string)          (* DEFAULT <one plain word or number> *)
| ODefNull (kw kwnull : string)     (* DEFAULT NULL *)
| ODefStr (kw s : string)           (* DEFAULT 'literal' : s is the STRING_BASE lexeme *)
| OPk (kw1 kw2 : string)
| OUnique (kw : string)
| ORef (r : refspec).

Record column := mkCol {
  c_name : string; c_ty1 : string; c_ty2 : option string;
  c_size : option (string * option string);
  c_opts : list copt
}.

Record table := mkTable {
  t_create : string; t_table : string; t_schema : option string; t_name : string;
  t_first : column; t_rest : list column
}.

(* ---------- which grammar keywords may name a column / a referenced column --------------------------------------------- *)
(* derived by running the model on the real tables; Proofs/TableProofs.colname_keywords_are_the_accepted *)
Definition accepted_column_name (k : string) : bool :=
  acc_at ("CREATE TABLE t ( " ++ k ++ " int )") 4 k && acc_at ("CREATE TABLE t ( a int , " ++ k ++ " int )") 7 k
  && acc_at ("CREATE TABLE t ( a int REFERENCES o ( " ++ k ++ " ) )") 9 k.
Definition colname_keywords : list string :=
  ["ADD"; "ALTER"; "ARRAY"; "AS"; "AUTO_REFRESH"; "CACHE"; "CATALOG"; "CHANGE_TRACKING"; "CLONE"; "CLUSTERED"; "COLLECTION"; "COLUMN"; "COMMENT"; "CREATE"; "DATABASE"; "DATA_RETENTION_TIME_IN_DAYS"; "DEFAULT"; "DEFERRABLE"; "DELETE"; "DOMAIN"; "DROP"; "ENCODE"; "ENCRYPT"; "ENFORCED"; "ENGINE"; "ENUM"; "ESCAPED"; "EXISTS"; "FILE_FORMAT"; "FOR"; "FORMAT"; "GENERATED"; "IF"; "IN"; "INCREMENT"; "INHERITS"; "INITIALLY"; "INTO"; "INVISIBLE"; "ITEMS"; "KEY"; "KEYS"; "LOCATION"; "MAP"; "MASKING"; "MAXVALUE"; "MAX_DATA_EXTENSION_TIME_IN_DAYS"; "MINVALUE"; "MODIFY"; "NO"; "NOORDER"; "NOT"; "NULL"; "ON"; "OPTIONS"; "OR"; "ORDER"; "PARTITION"; "PARTITIONED"; "PATTERN"; "POLICY"; "REFERENCES"; "RENAME"; "REPLACE"; "ROW"; "SALT"; "SCHEMA"; "SEQUENCE"; "SERDE"; "SERDEPROPERTIES"; "SET"; "SKEWED"; "STAGE_FILE_FORMAT"; "START"; "STORAGE"; "STORED"; "TABLE"; "TABLESPACE"; "TABLE_FORMAT"; "TAG"; "TBLPROPERTIES"; "TERMINATED"; "TEXTIMAGE_ON"; "TYPE"; "UPDATE"; "USING"; "VISIBLE"; "WITHOUT"].
Definition colname_letters : list letter := G :: map K colname_keywords.
Definition is_col_letter (l : letter) : bool := existsb (letter_eqb l) colname_letters.
(* a word the lexer types ID where a column name is expected: a plain word or one of those keywords, in any letter case *)
Definition is_col_word (w : string) : bool :=
  is_col_letter (LWord (info_of w)) && String.eqb (strip_trailing_comma w) w.

(* ---------- well-formedness ------------------------------------------------------------------------------ *)
(* a name as the parser reports it: as written, or without its one pair of delimiters under normalize_names
   (nms is Entity.nms) *)

(* an unsigned integer literal *)
Definition is_digits (w : string) : bool := is_num w && isnumeric w.
(* a type word the code gives no special treatment (no ARRAY, <, [, ENUM, SET, IDENTITY, distkey, encode ...) *)
Definition is_type_word (norm : bool) (w : string) : bool := is_plain w && plain_type_word (nms norm w).
Definition is_value_word (norm : bool) (w : string) : bool := is_plain w && negb (default_bad (nms norm w)).
Definition is_action_word (norm : bool) (w : string) : bool := is_plain w && negb (refaction_bad (nms norm w)).
Definition is_colname (norm : bool) (w : string) : bool := is_col_word w && negb (colname_bad (nms norm w)).

Definition wf_null (n : nullk) : bool :=
  match n with NNull k => is_kw k "NULL" | NNot a b => is_kw a "NOT" && is_kw b "NULL" end.
Definition wf_on (norm : bool) (o : option (string * string * string)) (what : string) : bool :=
  match o with Some (a, b, act) => is_kw a "ON" && is_kw b what && is_action_word norm act | None => true end.
Definition wf_ref (norm : bool) (r : refspec) : bool :=
  is_kw (r_kw r) "REFERENCES" && match r_schema r with Some s => is_plain s | None => true end && is_plain (r_table r)
  && match r_col r with Some c => is_col_word c | None => true end
  && wf_on norm (r_ondel r) "DELETE" && wf_on norm (r_onupd r) "UPDATE"
  && match r_null r with Some n => wf_null n | None => true end.
Definition wf_opt (norm : bool) (o : copt) : bool :=
  match o with
  | ONull n => wf_null n
  | ODefWord kw v => is_kw kw "DEFAULT" && is_value_word norm v
  | ODefNull kw kn => is_kw kw "DEFAULT" && is_kw kn "NULL"
  | ODefStr kw s => is_kw kw "DEFAULT" && negb (default_bad s)      (* true of every quoted literal *)
  | OPk a b => is_kw a "PRIMARY" && is_kw b "KEY"
  | OUnique k => is_kw k "UNIQUE"
  | ORef r => wf_ref norm r
  end.
(* a reference WITHOUT its own trailing NULL / NOT NULL must not be followed by a NULL / NOT NULL option:
   the grammar reads that pair as `ref null`; it is written as the reference's r_null *)
Definition opens_ref (o : copt) : bool :=
  match o with ORef r => match r_null r with None => true | Some _ => false end | _ => false end.
Definition is_null_opt (o : copt) : bool := match o with ONull _ => true | _ => false end.
Fixpoint no_ref_then_null (l : list copt) : bool :=
  match l with
  | o :: rest => negb (opens_ref o && match rest with o2 :: _ => is_null_opt o2 | [] => false end) && no_ref_then_null rest
  | [] => true
  end.
Definition wf_col (norm : bool) (c : column) : bool :=
  is_colname norm (c_name c) && is_type_word norm (c_ty1 c) && match c_ty2 c with Some w => is_type_word norm w | None => true end
  && match c_size c with
     | Some (a, None) => is_digits a
     | Some (a, Some b) => is_digits a && is_digits b
     | None => true end
  && forallb (wf_opt norm) (c_opts c) && no_ref_then_null (c_opts c).
Definition wf (norm : bool) (t : table) : bool :=
  is_kw (t_create t) "CREATE" && is_kw (t_table t) "TABLE"
  && match t_schema t with Some s => is_name s | None => true end && is_name (t_name t)
  && wf_col norm (t_first t) && forallb (wf_col norm) (t_rest t).

(* ---------- rendering ------------------------------------------------------------------------------------------- *)
Definition LPx : lexeme := W "(".
Definition RPx : lexeme := W ")".
Definition CMx : lexeme := W ",".
Definition SB (s : string) : lexeme := ("t_STRING_BASE"%string, s).

Definition null_lexemes (n : nullk) : list lexeme := match n with NNull k => [W k] | NNot a b => [W a; W b] end.
Definition on_lexemes (o : option (string * string * string)) : list lexeme :=
  match o with Some (a, b, act) => [W a; W b; W act] | None => [] end.
Definition ref_lexemes (r : refspec) : list lexeme :=
  W (r_kw r) :: (match r_schema r with Some s => [W s; DOTL] | None => [] end) ++ [W (r_table r)]
  ++ (match r_col r with Some c => [LPx; W c; RPx] | None => [] end)
  ++ on_lexemes (r_ondel r) ++ on_lexemes (r_onupd r)
  ++ (match r_null r with Some n => null_lexemes n | None => [] end).
Definition opt_lexemes (o : copt) : list lexeme :=
  match o with
  | ONull n => null_lexemes n
  | ODefWord kw v => [W kw; W v]
  | ODefNull kw kn => [W kw; W kn]
  | ODefStr kw s => [W kw; SB s]
  | OPk a b => [W a; W b]
  | OUnique k => [W k]
  | ORef r => ref_lexemes r
  end.
Definition col_lexemes (c : column) : list lexeme :=
  W (c_name c) :: W (c_ty1 c) :: (match c_ty2 c with Some w => [W w] | None => [] end)
  ++ (match c_size c with
      | Some (a, None) => [LPx; W a; RPx]
      | Some (a, Some b) => [LPx; W a; CMx; W b; RPx]
      | None => [] end)
  ++ flat_map opt_lexemes (c_opts c).
Definition lexemes (t : table) : list lexeme :=
  W (t_create t) :: W (t_table t) :: (match t_schema t with Some s => [W s; DOTL] | None => [] end) ++ [W (t_name t); LPx]
  ++ col_lexemes (t_first t) ++ flat_map (fun c => CMx :: col_lexemes c) (t_rest t) ++ [RPx].

(* ---------- denotation: the parser-stage entity (what yacc.parse returns for the statement) ------------------------- *)
Definition nmv (norm : bool) (s : string) : pyval := PStr (nms norm s).
Definition onm (norm : bool) (o : option string) : pyval := match o with Some s => nmv norm s | None => PNone end.
Definition on_val (norm : bool) (o : option (string * string * string)) : pyval :=
  match o with Some (_, _, a) => nmv norm a | None => PNone end.

(* what the options of a column have established so far *)
Record cstate := mkCS { cs_refs : pyval; cs_unique : bool; cs_pk : bool; cs_nullable : pyval; cs_default : pyval }.
Definition cs0 : cstate := mkCS PNone false false (PBool true) PNone.

Definition null_val (n : nullk) : bool := match n with NNull _ => true | NNot _ _ => false end.
(* a reference followed by its own NULL / NOT NULL keeps the list form `columns` *)
Definition ref_list_form (norm : bool) (r : refspec) : list (string * pyval) :=
  [("table", nmv norm (r_table r)); ("columns", PList [onm norm (r_col r)]); ("schema", onm norm (r_schema r));
   ("on_delete", on_val norm (r_ondel r)); ("on_update", on_val norm (r_onupd r)); ("deferrable_initially", PNone)].
Definition ref_column_form (norm : bool) (r : refspec) : list (string * pyval) :=
  [("table", nmv norm (r_table r)); ("schema", onm norm (r_schema r));
   ("on_delete", on_val norm (r_ondel r)); ("on_update", on_val norm (r_onupd r)); ("deferrable_initially", PNone);
   ("column", onm norm (r_col r))].

Definition apply_opt (norm : bool) (cs : cstate) (o : copt) : cstate :=
  match o with
  | ONull n => mkCS (cs_refs cs) (cs_unique cs) (cs_pk cs) (PBool (null_val n)) (cs_default cs)
  | ODefWord _ v => mkCS (cs_refs cs) (cs_unique cs) (cs_pk cs) (cs_nullable cs) (default_value (nms norm v))
  | ODefNull _ _ => mkCS (cs_refs cs) (cs_unique cs) (cs_pk cs) (cs_nullable cs) (PStr "NULL")
  | ODefStr _ s => mkCS (cs_refs cs) (cs_unique cs) (cs_pk cs) (cs_nullable cs) (default_value s)
  | OPk _ _ => mkCS (cs_refs cs) (cs_unique cs) true (PBool false) (cs_default cs)
  | OUnique _ => mkCS (cs_refs cs) true (cs_pk cs) (cs_nullable cs) (cs_default cs)
  | ORef r =>
      match r_null r with
      | None => mkCS (PDict (ref_column_form norm r)) (cs_unique cs) (cs_pk cs) (cs_nullable cs) (cs_default cs)
      | Some n => mkCS (PDict (ref_list_form norm r)) (cs_unique cs) (cs_pk cs) (PBool (null_val n)) (cs_default cs)
      end
  end.

Definition size_val (z : string) : pyval := match int_of_string z with Some n => PInt n | None => PNone end.
Definition col_size (c : column) : pyval :=
  match c_size c with
  | None => PNone
  | Some (a, None) => size_val a
  | Some (a, Some b) => PTuple [size_val a; size_val b]
  end.
Definition col_type (norm : bool) (c : column) : string :=
  match c_ty2 c with Some w => nms norm (c_ty1 c) ++ " " ++ nms norm w | None => nms norm (c_ty1 c) end.
Definition cdict (name ty : string) (sz : pyval) (cs : cstate) : list (string * pyval) :=
  [("name", PStr name); ("type", PStr ty); ("size", sz);
   ("references", cs_refs cs); ("unique", PBool (cs_unique cs)); ("primary_key", PBool (cs_pk cs));
   ("nullable", cs_nullable cs); ("default", cs_default cs); ("check", PNone)].
Definition col_dict (norm : bool) (c : column) : pyval :=
  PDict (cdict (nms norm (c_name c)) (col_type norm c) (col_size c) (fold_left (apply_opt norm) (c_opts c) cs0)).

Definition tdict (sch name : pyval) (cols : list pyval) : list (string * pyval) :=
  [("schema", sch); ("table_name", name); ("columns", PList cols); ("checks", PList [])].
Definition denote (norm : bool) (t : table) : pyval :=
  PDict (tdict (onm norm (t_schema t)) (nmv norm (t_name t)) (map (col_dict norm) (t_first t :: t_rest t))).

(* ---------- letters ------------------------------------------------------------------------------------------------ *)
Definition LPl : letter := K "(".
Definition RPl : letter := K ")".
Definition CMl : letter := K ",".

Definition null_letters (n : nullk) : list letter := match n with NNull _ => [K "NULL"] | NNot _ _ => [K "NOT"; K "NULL"] end.
Definition on_letters (o : option (string * string * string)) (what : string) : list letter :=
  match o with Some _ => [K "ON"; K what; G] | None => [] end.
Definition ref_letters (r : refspec) : list letter :=
  K "REFERENCES" :: (match r_schema r with Some _ => [G; LDot] | None => [] end) ++ [G]
  ++ (match r_col r with Some c => [LPl; LWord (info_of c); RPl] | None => [] end)
  ++ on_letters (r_ondel r) "DELETE" ++ on_letters (r_onupd r) "UPDATE"
  ++ (match r_null r with Some n => null_letters n | None => [] end).
Definition opt_letters (o : copt) : list letter :=
  match o with
  | ONull n => null_letters n
  | ODefWord _ _ => [K "DEFAULT"; G]
  | ODefNull _ _ => [K "DEFAULT"; K "NULL"]
  | ODefStr _ _ => [K "DEFAULT"; LStr]
  | OPk _ _ => [K "PRIMARY"; K "KEY"]
  | OUnique _ => [K "UNIQUE"]
  | ORef r => ref_letters r
  end.
Definition col_letters (c : column) : list letter :=
  LWord (info_of (c_name c)) :: G :: (match c_ty2 c with Some _ => [G] | None => [] end)
  ++ (match c_size c with
      | Some (_, None) => [LPl; G; RPl]
      | Some (_, Some _) => [LPl; G; CMl; G; RPl]
      | None => [] end)
  ++ flat_map opt_letters (c_opts c).
Definition letters (t : table) : list letter :=
  K "CREATE" :: K "TABLE" :: (match t_schema t with Some s => [LWord (info_of s); LDot] | None => [] end) ++ [LWord (info_of (t_name t)); LPl]
  ++ col_letters (t_first t) ++ flat_map (fun c => CMl :: col_letters c) (t_rest t) ++ [RPl].

Definition alphabet : list letter :=
  [K "CREATE"; K "TABLE"; G; LDot; LStr; LPl; RPl; CMl; K "NOT"; K "NULL"; K "DEFAULT"; K "PRIMARY"; K "KEY"; K "UNIQUE";
   K "REFERENCES"; K "ON"; K "DELETE"; K "UPDATE"; K "CONSTRAINT"; K "FOREIGN";
   K "TABLESPACE"; K "STORED"; K "AS"; K "LOCATION"; K "ENGINE"; K "COMMENT"; K "USING"; K "IN"; LEq;
   K "ROW"; K "FORMAT"; K "SERDE"; K "TERMINATED"; K "BY"; K "COLLECTION"; K "ITEMS"; K "MAP"; K "KEYS"; K "INTO"; K "TEXTIMAGE_ON"] ++ name_letters ++ colname_letters.

(* ---------- the reference machine F ---------------------------------------------------------------------------------- *)
Inductive ctx := First | Later.
(* what is still to be reduced when the next option keyword, comma or closing parenthesis arrives *)
Inductive pend := PT1 | PT2 | PSz1 | PSz2 | PNull | PNotNull | PDefId | PDefNull | PDefStr | PPk | PUq
                | PRefT1 | PRefT2 | PRefCol | PRefDel | PRefUpd | PRefNull | PRefNotNull.

Definition refopen (p : pend) : bool :=
  match p with PRefT1 | PRefT2 | PRefCol | PRefDel | PRefUpd => true | _ => false end.
(* the reductions that complete an open reference *)
Definition ref_reds (p : pend) : list string :=
  match p with
  | PRefT1 => ["id -> ID"; "t_name -> id"; "ref -> REFERENCES t_name"]
  | PRefT2 => ["id -> ID"; "t_name -> id DOT id"; "ref -> REFERENCES t_name"]
  | PRefCol => ["ref -> ref LP pid RP"]
  | PRefDel => ["id -> ID"; "ref -> ref ON DELETE id"]
  | PRefUpd => ["id -> ID"; "ref -> ref ON UPDATE id"]
  | _ => []
  end.
(* the reductions that bring the stack back to `... defcolumn` *)
Definition pend_reds (p : pend) : list string :=
  match p with
  | PT1 => ["id -> ID"; "c_type -> id"; "column -> id c_type"; "defcolumn -> column"]
  | PT2 => ["id -> ID"; "c_type -> id id"; "column -> id c_type"; "defcolumn -> column"]
  | PSz1 => ["column -> column LP id RP"; "defcolumn -> column"]
  | PSz2 => ["column -> column LP id COMMA id RP"; "defcolumn -> column"]
  | PNull => ["null -> NULL"; "defcolumn -> defcolumn null"]
  | PNotNull => ["null -> NOT NULL"; "defcolumn -> defcolumn null"]
  | PDefId => ["id -> ID"; "multi_id -> id"; "funct_expr -> multi_id"; "default -> DEFAULT funct_expr"; "defcolumn -> defcolumn default"]
  | PDefNull => ["default -> DEFAULT NULL"; "defcolumn -> defcolumn default"]
  | PDefStr => ["STRING -> STRING_BASE"; "default -> DEFAULT STRING"; "defcolumn -> defcolumn default"]
  | PPk => ["defcolumn -> defcolumn PRIMARY KEY"]
  | PUq => ["defcolumn -> defcolumn UNIQUE"]
  | PRefNull => ["null -> NULL"; "defcolumn -> defcolumn ref null"]
  | PRefNotNull => ["null -> NOT NULL"; "defcolumn -> defcolumn ref null"]
  | _ => ref_reds p ++ ["defcolumn -> defcolumn ref"]
  end%list.
Definition close_red (c : ctx) : string :=
  match c with First => "expr -> table_name LP defcolumn" | Later => "expr -> expr COMMA defcolumn" end.

(* clauses after the column list: what is still to be reduced when the next clause (or the end) arrives *)
Inductive cpend := CPTs | CPStored | CPLoc | CPEng | CPCom | CPUs | CPIn
                 | CPRowSerde | CPRowWord | CPTerm | CPColl | CPMap | CPComStr | CPGen | CPInto | CPDist | CPOn | CPTextOn.
Definition cpend_eqb (a b : cpend) : bool :=
  match a, b with
  | CPTs, CPTs | CPStored, CPStored | CPLoc, CPLoc | CPEng, CPEng | CPCom, CPCom | CPUs, CPUs | CPIn, CPIn
  | CPRowSerde, CPRowSerde | CPRowWord, CPRowWord | CPTerm, CPTerm | CPColl, CPColl | CPMap, CPMap | CPComStr, CPComStr
  | CPGen, CPGen | CPInto, CPInto | CPDist, CPDist | CPOn, CPOn | CPTextOn, CPTextOn => true
  | _, _ => false
  end.
Lemma cpend_eqb_eq a b : cpend_eqb a b = true -> a = b.
Proof. destruct a, b; simpl; congruence. Qed.
Definition cpending (p : cpend) : list string :=
  match p with
  | CPTs => ["id -> ID"; "tablespace -> TABLESPACE id"; "expr -> expr tablespace"]
  | CPStored => ["id -> ID"; "expr -> expr STORED AS id"]
  | CPLoc => ["STRING -> STRING_BASE"; "expr -> expr LOCATION STRING"]
  | CPEng => ["id -> ID"; "expr -> expr ENGINE EQ id"]
  | CPCom => ["STRING -> STRING_BASE"; "option_comment -> COMMENT EQ STRING"; "expr -> expr option_comment"]
  | CPUs => ["id -> ID"; "using -> USING id"; "expr -> expr using"]
  | CPIn => ["id -> ID"; "expr -> expr IN id"]
  | CPRowSerde => ["STRING -> STRING_BASE"; "expr -> expr row_format STRING"]
  | CPRowWord => ["id -> ID"; "expr -> expr row_format id"]
  | CPTerm => ["STRING -> STRING_BASE"; "expr -> expr id TERMINATED BY STRING"]
  | CPColl => ["STRING -> STRING_BASE"; "expr -> expr COLLECTION ITEMS TERMINATED BY STRING"]
  | CPMap => ["STRING -> STRING_BASE"; "expr -> expr MAP KEYS TERMINATED BY STRING"]
  | CPComStr => ["STRING -> STRING_BASE"; "expr -> expr COMMENT STRING"]
  | CPGen => ["id -> ID"; "expr -> expr id id"]
  | CPInto => ["expr -> expr INTO ID ID"]
  | CPDist => ["expr -> expr id LP id RP"]
  | CPOn => ["id -> ID"; "expr -> expr ON id"]
  | CPTextOn => ["id -> ID"; "expr -> expr TEXTIMAGE_ON id"]
  end.

(* which table-level column list is being read: PRIMARY KEY / UNIQUE / FOREIGN KEY / the referenced columns (named by CONSTRAINT?) *)
Inductive tk := TkPk (named : bool) | TkUq (named : bool) | TkFk (named : bool) | TkRef (named : bool).

Inductive q :=
| TPK0 (n : bool) | TPK1 (n : bool) | TUQ0 (n : bool) | TCN0 | TCN1 | TFK0 (n : bool) | TFK1 (n : bool)
| TP0 (k : tk) | TP1 (k : tk) | TPn (k : tk) | TPm (k : tk) | TPEnd (k : tk)
| TFR0 (n : bool) | TFR1 (n : bool) | TFRD (n : bool) | TFR2 (n : bool)
| TRON (n : bool) (upd_only : bool) | TROD (n : bool) | TROU (n : bool) | TRDel (n : bool) | TRUpd (n : bool)
| XTS | XST | XSA | XLOC | XEN | XEE | XCM | XCE | XUS | XIN | CB (p : cpend)
| XRW | XRF | XRS | XG1 | XGT | XGB | XCO | XCI | XCT | XCY | XMP | XMK | XMT | XMY | XI1 | XI2 | XD1 | XD2 | XON | XTO
| T0 | T1 | T2 | N1 | ND | N2 | END
| C0 (c : ctx) | C1 (c : ctx)
| SZ0 (c : ctx) (two : bool) | SZ1 (c : ctx) | SZ2 (c : ctx) | SZ3 (c : ctx)
| NOT0 (c : ctx) | D0 (c : ctx) | PK0 (c : ctx)
| R0 (c : ctx) | RD (c : ctx) | RC0 (c : ctx) | RC1 (c : ctx) | RON (c : ctx) | ROD (c : ctx) | ROU (c : ctx) | RNOT (c : ctx)
| B (c : ctx) (p : pend).

Definition ctx_eqb (a b : ctx) : bool := match a, b with First, First | Later, Later => true | _, _ => false end.
Definition pend_eqb (a b : pend) : bool :=
  match a, b with
  | PT1, PT1 | PT2, PT2 | PSz1, PSz1 | PSz2, PSz2 | PNull, PNull | PNotNull, PNotNull | PDefId, PDefId | PDefNull, PDefNull
  | PDefStr, PDefStr | PPk, PPk | PUq, PUq | PRefT1, PRefT1 | PRefT2, PRefT2 | PRefCol, PRefCol | PRefDel, PRefDel
  | PRefUpd, PRefUpd | PRefNull, PRefNull | PRefNotNull, PRefNotNull => true
  | _, _ => false
  end.
Definition tk_eqb (a b : tk) : bool :=
  match a, b with TkPk x, TkPk y | TkUq x, TkUq y | TkFk x, TkFk y | TkRef x, TkRef y => Bool.eqb x y | _, _ => false end.
Definition q_eqb (a b : q) : bool :=
  match a, b with
  | XTS, XTS | XST, XST | XSA, XSA | XLOC, XLOC | XEN, XEN | XEE, XEE | XCM, XCM | XCE, XCE | XUS, XUS | XIN, XIN => true
  | XRW, XRW | XRF, XRF | XRS, XRS | XG1, XG1 | XGT, XGT | XGB, XGB | XCO, XCO | XCI, XCI | XCT, XCT | XCY, XCY
  | XMP, XMP | XMK, XMK | XMT, XMT | XMY, XMY | XI1, XI1 | XI2, XI2 | XD1, XD1 | XD2, XD2 | XON, XON | XTO, XTO => true
  | CB x, CB y => cpend_eqb x y
  | TCN0, TCN0 | TCN1, TCN1 => true
  | TPK0 x, TPK0 y | TPK1 x, TPK1 y | TUQ0 x, TUQ0 y | TFK0 x, TFK0 y | TFK1 x, TFK1 y | TFR0 x, TFR0 y | TFR1 x, TFR1 y
  | TFRD x, TFRD y | TFR2 x, TFR2 y | TROD x, TROD y | TROU x, TROU y | TRDel x, TRDel y | TRUpd x, TRUpd y => Bool.eqb x y
  | TRON x u, TRON y v => Bool.eqb x y && Bool.eqb u v
  | TP0 x, TP0 y | TP1 x, TP1 y | TPn x, TPn y | TPm x, TPm y | TPEnd x, TPEnd y => tk_eqb x y
  | T0, T0 | T1, T1 | T2, T2 | N1, N1 | ND, ND | N2, N2 | END, END => true
  | C0 x, C0 y | C1 x, C1 y | SZ1 x, SZ1 y | SZ2 x, SZ2 y | SZ3 x, SZ3 y | NOT0 x, NOT0 y | D0 x, D0 y | PK0 x, PK0 y
  | R0 x, R0 y | RD x, RD y | RC0 x, RC0 y | RC1 x, RC1 y | RON x, RON y | ROD x, ROD y | ROU x, ROU y | RNOT x, RNOT y => ctx_eqb x y
  | SZ0 x b, SZ0 y b' => ctx_eqb x y && Bool.eqb b b'
  | B x p, B y p' => ctx_eqb x y && pend_eqb p p'
  | _, _ => false
  end.
Lemma ctx_eqb_eq a b : ctx_eqb a b = true -> a = b.
Proof. destruct a, b; simpl; congruence. Qed.
Lemma pend_eqb_eq a b : pend_eqb a b = true -> a = b.
Proof. destruct a, b; simpl; congruence. Qed.
Lemma tk_eqb_eq a b : tk_eqb a b = true -> a = b.
Proof. destruct a, b; simpl; try congruence; intro H; apply Bool.eqb_prop in H; congruence. Qed.
Lemma q_eqb_eq a b : q_eqb a b = true -> a = b.
Proof.
  destruct a, b; simpl; try congruence; intro H;
    first [ apply ctx_eqb_eq in H; congruence
          | apply cpend_eqb_eq in H; congruence
          | apply tk_eqb_eq in H; congruence
          | apply Bool.eqb_prop in H; congruence
          | apply andb_true_iff in H; destruct H as [H1 H2];
            first [ apply ctx_eqb_eq in H1; first [apply Bool.eqb_prop in H2; congruence | apply pend_eqb_eq in H2; congruence]
                  | apply Bool.eqb_prop in H1; apply Bool.eqb_prop in H2; congruence ] ].
Qed.

Definition isl (l m : letter) : bool := letter_eqb l m.

(* an option keyword, a comma or the closing parenthesis arriving when ps is still to be reduced *)
Definition opt_start (c : ctx) (ps : list string) (l : letter) : option (fout * q) :=
  if is l "NULL" then Some ((ps, "NULL", Upper), B c PNull)
  else if is l "NOT" then Some ((ps, "NOT", Upper), NOT0 c)
  else if is l "DEFAULT" then Some ((ps, "DEFAULT", Upper), D0 c)
  else if is l "PRIMARY" then Some ((ps, "PRIMARY", Upper), PK0 c)
  else if is l "UNIQUE" then Some ((ps, "UNIQUE", Upper), B c PUq)
  else if is l "REFERENCES" then Some ((ps, "REFERENCES", Upper), R0 c)
  else if isl l CMl then Some (((ps ++ [close_red c])%list, "COMMA", Upper), C0 Later)
  else if isl l RPl then Some (((ps ++ [close_red c])%list, "RP", Upper), END)
  else None.

Definition tcons_reds : list string := ["id -> ID"; "constraint -> CONSTRAINT id"].
Definition tpid_first : list string := ["id -> ID"; "pid -> id"].
Definition tpid_next : list string := ["id -> ID"; "pid -> pid COMMA id"].
(* the reductions that complete a table-level clause when the next comma / closing parenthesis arrives *)
Definition item_reds (s : q) : list string :=
  match s with
  | TPEnd (TkPk n) => ["pkey -> pkey_statement LP pid RP"; if n then "expr -> expr COMMA constraint pkey" else "expr -> expr COMMA pkey"]
  | TPEnd (TkUq n) => ["uniq -> UNIQUE LP pid RP"; if n then "expr -> expr COMMA constraint uniq" else "expr -> expr COMMA uniq"]
  | TPEnd (TkRef n) => ["ref -> ref LP pid RP"; if n then "expr -> expr COMMA constraint foreign ref" else "expr -> expr COMMA foreign ref"]
  | TRDel n => ["id -> ID"; "ref -> ref ON DELETE id"; if n then "expr -> expr COMMA constraint foreign ref" else "expr -> expr COMMA foreign ref"]
  | TRUpd n => ["id -> ID"; "ref -> ref ON UPDATE id"; if n then "expr -> expr COMMA constraint foreign ref" else "expr -> expr COMMA foreign ref"]
  | _ => []
  end.
Definition item_end (ps : list string) (l : letter) : option (fout * q) :=
  if isl l CMl then Some ((ps, "COMMA", Upper), C0 Later)
  else if isl l RPl then Some ((ps, "RP", Upper), END)
  else None.

(* a clause keyword arriving when ps is still to be reduced *)
Definition clause_start (ps : list string) (l : letter) : option (fout * q) :=
  if is l "TABLESPACE" then Some ((ps, "TABLESPACE", Upper), XTS)
  else if is l "STORED" then Some ((ps, "STORED", Upper), XST)
  else if is l "LOCATION" then Some ((ps, "LOCATION", Upper), XLOC)
  else if is l "ENGINE" then Some ((ps, "ENGINE", Upper), XEN)
  else if is l "COMMENT" then Some ((ps, "COMMENT", Upper), XCM)
  else if is l "USING" then Some ((ps, "USING", Upper), XUS)
  else if is l "IN" then Some ((ps, "IN", Upper), XIN)
  else if is l "ROW" then Some ((ps, "ROW", Upper), XRW)
  else if is l "COLLECTION" then Some ((ps, "COLLECTION", Upper), XCO)
  else if is l "MAP" then Some ((ps, "MAP", Upper), XMP)
  else if is l "INTO" then Some ((ps, "INTO", Upper), XI1)
  else if is l "ON" then Some ((ps, "ON", Upper), XON)
  else if is l "TEXTIMAGE_ON" then Some ((ps, "TEXTIMAGE_ON", Upper), XTO)
  else if isG l then Some ((ps, "ID", Keep), XG1)
  else None.

Definition fstep (s : q) (l : letter) : option (fout * q) :=
  match s with
  | T0 => if is l "CREATE" then Some (([], "CREATE", Upper), T1) else None
  | T1 => if is l "TABLE" then Some (([], "TABLE", Upper), T2) else None
  | T2 => if is_name_letter l then Some ((["create_table -> CREATE TABLE"], "ID", Keep), N1) else None
  | N1 => if isl l LDot then Some ((["id -> ID"], "DOT", Keep), ND)
          else if isl l LPl then Some ((["id -> ID"; "t_name -> id"; "table_name -> create_table t_name"], "LP", Keep), C0 First)
          else None
  | ND => if is_name_letter l then Some (([], "ID", Keep), N2) else None
  | N2 => if isl l LPl then Some ((["id -> ID"; "t_name -> id DOT id"; "table_name -> create_table t_name"], "LP", Keep), C0 First)
          else None
  | END => clause_start ["expr -> expr RP"] l
  | CB p => if cpend_eqb p CPTs && (is l "IN" || isG l) then None   (* TABLESPACE x IN ... / TABLESPACE x w ...: tablespace properties *)
            else clause_start (cpending p) l
  | XTS => if isG l then Some (([], "ID", Keep), CB CPTs) else None
  | XST => if is l "AS" then Some (([], "AS", Upper), XSA) else None
  | XSA => if isG l then Some (([], "ID", Keep), CB CPStored) else None
  | XLOC => if isl l LStr then Some (([], "STRING_BASE", Keep), CB CPLoc) else None
  | XEN => if isl l LEq then Some (([], "EQ", Keep), XEE) else None
  | XEE => if isG l then Some (([], "ID", Keep), CB CPEng) else None
  | XCM => if isl l LEq then Some (([], "EQ", Keep), XCE)
           else if isl l LStr then Some (([], "STRING_BASE", Keep), CB CPComStr) else None
  | XRW => if is l "FORMAT" then Some (([], "FORMAT", Upper), XRF) else None
  | XRF => if is l "SERDE" then Some (([], "SERDE", Upper), XRS)
           else if isG l then Some ((["row_format -> ROW FORMAT"], "ID", Keep), CB CPRowWord) else None
  | XRS => if isl l LStr then Some ((["row_format -> ROW FORMAT SERDE"], "STRING_BASE", Keep), CB CPRowSerde) else None
  | XG1 => if is l "TERMINATED" then Some ((["id -> ID"], "TERMINATED", Upper), XGT)
           else if isG l then Some ((["id -> ID"], "ID", Keep), CB CPGen)
           else if isl l LPl then Some ((["id -> ID"], "LP", Keep), XD1) else None
  | XD1 => if isG l then Some (([], "ID", Keep), XD2) else None
  | XD2 => if isl l RPl then Some ((["id -> ID"], "RP", Upper), CB CPDist) else None
  | XON => if isG l then Some (([], "ID", Keep), CB CPOn) else None
  | XTO => if isG l then Some (([], "ID", Keep), CB CPTextOn) else None
  | XGT => if is l "BY" then Some (([], "BY", Upper), XGB) else None
  | XGB => if isl l LStr then Some (([], "STRING_BASE", Keep), CB CPTerm) else None
  | XCO => if is l "ITEMS" then Some (([], "ITEMS", Upper), XCI) else None
  | XCI => if is l "TERMINATED" then Some (([], "TERMINATED", Upper), XCT) else None
  | XCT => if is l "BY" then Some (([], "BY", Upper), XCY) else None
  | XCY => if isl l LStr then Some (([], "STRING_BASE", Keep), CB CPColl) else None
  | XMP => if is l "KEYS" then Some (([], "KEYS", Upper), XMK) else None
  | XMK => if is l "TERMINATED" then Some (([], "TERMINATED", Upper), XMT) else None
  | XMT => if is l "BY" then Some (([], "BY", Upper), XMY) else None
  | XMY => if isl l LStr then Some (([], "STRING_BASE", Keep), CB CPMap) else None
  | XI1 => if isG l then Some (([], "ID", Keep), XI2) else None
  | XI2 => if isG l then Some (([], "ID", Keep), CB CPInto) else None
  | XCE => if isl l LStr then Some (([], "STRING_BASE", Keep), CB CPCom) else None
  | XUS => if isG l then Some (([], "ID", Keep), CB CPUs) else None
  | XIN => if isG l then Some (([], "ID", Keep), CB CPIn) else None
  | C0 c => if is_col_letter l then Some (([], "ID", Keep), C1 c)
            else if ctx_eqb c Later && is l "PRIMARY" then Some (([], "PRIMARY", Upper), TPK0 false)
            else if ctx_eqb c Later && is l "UNIQUE" then Some (([], "UNIQUE", Upper), TUQ0 false)
            else if ctx_eqb c Later && is l "FOREIGN" then Some (([], "FOREIGN", Upper), TFK0 false)
            else if ctx_eqb c Later && is l "CONSTRAINT" then Some (([], "CONSTRAINT", Upper), TCN0)
            else None
  | TCN0 => if isG l then Some (([], "ID", Keep), TCN1) else None
  | TCN1 => if is l "PRIMARY" then Some ((tcons_reds, "PRIMARY", Upper), TPK0 true)
            else if is l "UNIQUE" then Some ((tcons_reds, "UNIQUE", Upper), TUQ0 true)
            else if is l "FOREIGN" then Some ((tcons_reds, "FOREIGN", Upper), TFK0 true) else None
  | TPK0 n => if is l "KEY" then Some (([], "KEY", Upper), TPK1 n) else None
  | TPK1 n => if isl l LPl then Some ((["pkey_statement -> PRIMARY KEY"], "LP", Keep), TP0 (TkPk n)) else None
  | TUQ0 n => if isl l LPl then Some (([], "LP", Keep), TP0 (TkUq n)) else None
  | TFK0 n => if is l "KEY" then Some (([], "KEY", Upper), TFK1 n) else None
  | TFK1 n => if isl l LPl then Some (([], "LP", Keep), TP0 (TkFk n)) else None
  | TP0 k => if isG l then Some (([], "ID", Keep), TP1 k) else None
  | TP1 k => if isl l CMl then Some ((tpid_first, "COMMA", Upper), TPn k)
             else if isl l RPl then Some ((tpid_first, "RP", Upper), TPEnd k) else None
  | TPn k => if isG l then Some (([], "ID", Keep), TPm k) else None
  | TPm k => if isl l CMl then Some ((tpid_next, "COMMA", Upper), TPn k)
             else if isl l RPl then Some ((tpid_next, "RP", Upper), TPEnd k) else None
  | TPEnd (TkFk n) => if is l "REFERENCES" then Some ((["foreign -> FOREIGN KEY LP pid RP"], "REFERENCES", Upper), TFR0 n) else None
  | TPEnd (TkRef n) => if is l "ON" then Some ((["ref -> ref LP pid RP"], "ON", Upper), TRON n false) else item_end (item_reds (TPEnd (TkRef n))) l
  | TPEnd k => item_end (item_reds (TPEnd k)) l
  | TFR0 n => if isG l then Some (([], "ID", Keep), TFR1 n) else None
  | TFR1 n => if isl l LDot then Some ((["id -> ID"], "DOT", Keep), TFRD n)
              else if isl l LPl then Some ((["id -> ID"; "t_name -> id"; "ref -> REFERENCES t_name"], "LP", Keep), TP0 (TkRef n)) else None
  | TFRD n => if isG l then Some (([], "ID", Keep), TFR2 n) else None
  | TFR2 n => if isl l LPl then Some ((["id -> ID"; "t_name -> id DOT id"; "ref -> REFERENCES t_name"], "LP", Keep), TP0 (TkRef n)) else None
  | TRON n u => if negb u && is l "DELETE" then Some (([], "DELETE", Upper), TROD n)
                else if is l "UPDATE" then Some (([], "UPDATE", Upper), TROU n) else None
  | TROD n => if isG l then Some (([], "ID", Keep), TRDel n) else None
  | TROU n => if isG l then Some (([], "ID", Keep), TRUpd n) else None
  | TRDel n => if is l "ON" then Some ((["id -> ID"; "ref -> ref ON DELETE id"], "ON", Upper), TRON n true) else item_end (item_reds (TRDel n)) l
  | TRUpd n => item_end (item_reds (TRUpd n)) l
  | C1 c => if isG l then Some ((["id -> ID"], "ID", Keep), B c PT1) else None
  | SZ0 c two => if isG l then Some (([], "ID", Keep), SZ1 c) else None
  | SZ1 c => if isl l RPl then Some ((["id -> ID"], "RP", Upper), B c PSz1)
             else if isl l CMl then Some ((["id -> ID"], "COMMA", Upper), SZ2 c) else None
  | SZ2 c => if isG l then Some (([], "ID", Keep), SZ3 c) else None
  | SZ3 c => if isl l RPl then Some ((["id -> ID"], "RP", Upper), B c PSz2) else None
  | NOT0 c => if is l "NULL" then Some (([], "NULL", Upper), B c PNotNull) else None
  | D0 c => if isG l then Some (([], "ID", Keep), B c PDefId)
            else if is l "NULL" then Some (([], "NULL", Upper), B c PDefNull)
            else if isl l LStr then Some (([], "STRING_BASE", Keep), B c PDefStr) else None
  | PK0 c => if is l "KEY" then Some (([], "KEY", Upper), B c PPk) else None
  | R0 c => if isG l then Some (([], "ID", Keep), B c PRefT1) else None
  | RD c => if isG l then Some (([], "ID", Keep), B c PRefT2) else None
  | RC0 c => if is_col_letter l then Some (([], "ID", Keep), RC1 c) else None
  | RC1 c => if isl l RPl then Some ((["id -> ID"; "pid -> id"], "RP", Upper), B c PRefCol) else None
  | RON c => if is l "DELETE" then Some (([], "DELETE", Upper), ROD c)
             else if is l "UPDATE" then Some (([], "UPDATE", Upper), ROU c) else None
  | ROD c => if isG l then Some (([], "ID", Keep), B c PRefDel) else None
  | ROU c => if isG l then Some (([], "ID", Keep), B c PRefUpd) else None
  | RNOT c => if is l "NULL" then Some (([], "NULL", Upper), B c PRefNotNull) else None
  | B c p =>
      if refopen p && is l "NULL" then Some ((ref_reds p, "NULL", Upper), B c PRefNull)
      else if refopen p && is l "NOT" then Some ((ref_reds p, "NOT", Upper), RNOT c)
      else if refopen p && is l "ON" then Some ((ref_reds p, "ON", Upper), RON c)
      else if (pend_eqb p PRefT1 || pend_eqb p PRefT2) && isl l LPl then Some ((ref_reds p, "LP", Keep), RC0 c)
      else if pend_eqb p PRefT1 && isl l LDot then Some ((["id -> ID"], "DOT", Keep), RD c)
      else if pend_eqb p PT1 && isG l then Some ((["id -> ID"], "ID", Keep), B c PT2)
      else if pend_eqb p PT1 && isl l LPl then Some ((["id -> ID"; "c_type -> id"; "column -> id c_type"], "LP", Keep), SZ0 c false)
      else if pend_eqb p PT2 && isl l LPl then Some ((["id -> ID"; "c_type -> id id"; "column -> id c_type"], "LP", Keep), SZ0 c true)
      else opt_start c (pend_reds p) l
  end.

Definition ffinish (s : q) : option (list string) :=
  match s with END => Some ["expr -> expr RP"] | CB p => Some (cpending p) | _ => None end.

(* ---------- protocol: an AST given as flat arguments (used by the harness to obtain wf / lexemes / denote) ------------ *)
Definition nullk_of (tag a b : string) : option (option nullk) :=
  if String.eqb tag "" then Some None
  else if String.eqb tag "N" then Some (Some (NNull a))
  else if String.eqb tag "NN" then Some (Some (NNot a b))
  else None.
Definition on_of (a b c : string) : option (string * string * string) := if String.eqb a "" then None else Some (a, b, c).

Fixpoint opts_of_args (fuel : nat) (l : list string) : option (list copt * list string) :=
  match fuel with
  | O => None
  | Datatypes.S f =>
    match l with
    | [] => Some ([], [])
    | "C" :: _ => Some ([], l)
    | "R" :: kw :: sch :: tbl :: col :: da :: db :: dc :: ua :: ub :: uc :: nt :: n1 :: n2 :: r =>
      match nullk_of nt n1 n2, opts_of_args f r with
      | Some nk, Some (os, rest) => Some (ORef (mkRef kw (onone sch) tbl (onone col) (on_of da db dc) (on_of ua ub uc) nk) :: os, rest)
      | _, _ => None
      end
    | tag :: a :: b :: r =>
      match opts_of_args f r with
      | None => None
      | Some (os, rest) =>
        if String.eqb tag "N" then Some (ONull (NNull a) :: os, rest)
        else if String.eqb tag "NN" then Some (ONull (NNot a b) :: os, rest)
        else if String.eqb tag "DW" then Some (ODefWord a b :: os, rest)
        else if String.eqb tag "DN" then Some (ODefNull a b :: os, rest)
        else if String.eqb tag "DS" then Some (ODefStr a b :: os, rest)
        else if String.eqb tag "PK" then Some (OPk a b :: os, rest)
        else if String.eqb tag "UQ" then Some (OUnique a :: os, rest)
        else None
      end
    | _ => None
    end
  end.
Fixpoint cols_of_args (fuel : nat) (l : list string) : option (list column) :=
  match fuel with
  | O => None
  | Datatypes.S f =>
    match l with
    | [] => Some []
    | "C" :: name :: t1 :: t2 :: s1 :: s2 :: r =>
      match opts_of_args (Datatypes.S (List.length r)) r with
      | Some (os, rest) =>
        match cols_of_args f rest with
        | Some cs => Some (mkCol name t1 (onone t2) (if String.eqb s1 "" then None else Some (s1, onone s2)) os :: cs)
        | None => None
        end
      | None => None
      end
    | _ => None
    end
  end.
Definition table_of_args (l : list string) : option table :=
  match l with
  | cr :: tb :: sch :: name :: r =>
    match cols_of_args (Datatypes.S (List.length r)) r with
    | Some (c :: cs) => Some (mkTable cr tb (onone sch) name c cs)
    | _ => None
    end
  | _ => None
  end.

(* ====================================================================================================================
   Table-level clauses after the columns (property C02):
     , [CONSTRAINT n] PRIMARY KEY ( c {, c} )  |  , [CONSTRAINT n] UNIQUE ( c {, c} )
     | , [CONSTRAINT n] FOREIGN KEY ( c {, c} ) REFERENCES [schema.]table ( c {, c} ) [ON DELETE a] [ON UPDATE a] *)
Definition tnames := (string * list string)%type.
Definition tnames_list (n : tnames) : list string := fst n :: snd n.
Record tfk := mkTFk {
  tf_kw : string; tf_schema : option string; tf_table : string; tf_cols : tnames;
  tf_ondel : option (string * string * string); tf_onupd : option (string * string * string)
}.
Inductive titem :=
| TIPk (cns : option (string * string)) (kw1 kw2 : string) (cols : tnames)
| TIUq (cns : option (string * string)) (kw : string) (cols : tnames)
| TIFk (cns : option (string * string)) (kw1 kw2 : string) (cols : tnames) (r : tfk).
Record tablec := mkTableC { tc_table : table; tc_items : list titem }.

Definition wf_tcons (c : option (string * string)) : bool :=
  match c with Some (kw, n) => is_kw kw "CONSTRAINT" && is_plain n | None => true end.
Definition wf_tnames (norm : bool) (n : tnames) : bool :=
  forallb (fun w => is_plain w && negb (String.eqb (upper (nms norm w)) "ASC") && negb (String.eqb (upper (nms norm w)) "DESC")
                    && negb (String.eqb (nms norm w) "constraint")) (tnames_list n).
Definition wf_titem (norm : bool) (i : titem) : bool :=
  match i with
  | TIPk c p k cols => wf_tcons c && is_kw p "PRIMARY" && is_kw k "KEY" && wf_tnames norm cols
  | TIUq c u cols => wf_tcons c && is_kw u "UNIQUE" && wf_tnames norm cols
  | TIFk c f k cols r =>
      wf_tcons c && is_kw f "FOREIGN" && is_kw k "KEY" && wf_tnames norm cols
      && is_kw (tf_kw r) "REFERENCES" && match tf_schema r with Some s => is_plain s | None => true end && is_plain (tf_table r)
      && wf_tnames norm (tf_cols r) && wf_on norm (tf_ondel r) "DELETE" && wf_on norm (tf_onupd r) "UPDATE"
  end.

Fixpoint tcommas (l : list string) : list lexeme := match l with [] => [] | x :: r => CMx :: W x :: tcommas r end.
Definition tnames_lexemes (n : tnames) : list lexeme := LPx :: W (fst n) :: tcommas (snd n) ++ [RPx].
Definition tcons_lexemes (c : option (string * string)) : list lexeme := match c with Some (kw, n) => [W kw; W n] | None => [] end.
Definition titem_lexemes (i : titem) : list lexeme :=
  match i with
  | TIPk c p k cols => tcons_lexemes c ++ [W p; W k] ++ tnames_lexemes cols
  | TIUq c u cols => tcons_lexemes c ++ [W u] ++ tnames_lexemes cols
  | TIFk c f k cols r =>
      tcons_lexemes c ++ [W f; W k] ++ tnames_lexemes cols
      ++ W (tf_kw r) :: (match tf_schema r with Some s => [W s; DOTL] | None => [] end) ++ [W (tf_table r)]
      ++ tnames_lexemes (tf_cols r) ++ on_lexemes (tf_ondel r) ++ on_lexemes (tf_onupd r)
  end.
Fixpoint tcomma_letters (l : list string) : list letter := match l with [] => [] | _ :: r => CMl :: G :: tcomma_letters r end.
Definition tnames_letters (n : tnames) : list letter := LPl :: G :: tcomma_letters (snd n) ++ [RPl].
Definition tcons_letters (c : option (string * string)) : list letter := match c with Some _ => [K "CONSTRAINT"; G] | None => [] end.
Definition titem_letters (i : titem) : list letter :=
  match i with
  | TIPk c _ _ cols => tcons_letters c ++ [K "PRIMARY"; K "KEY"] ++ tnames_letters cols
  | TIUq c _ cols => tcons_letters c ++ [K "UNIQUE"] ++ tnames_letters cols
  | TIFk c _ _ cols r =>
      tcons_letters c ++ [K "FOREIGN"; K "KEY"] ++ tnames_letters cols
      ++ K "REFERENCES" :: (match tf_schema r with Some _ => [G; LDot] | None => [] end) ++ [G]
      ++ tnames_letters (tf_cols r) ++ on_letters (tf_ondel r) "DELETE" ++ on_letters (tf_onupd r) "UPDATE"
  end.

Definition lexemes_c (tc : tablec) : list lexeme :=
  let t := tc_table tc in
  W (t_create t) :: W (t_table t) :: (match t_schema t with Some s => [W s; DOTL] | None => [] end) ++ [W (t_name t); LPx]
  ++ col_lexemes (t_first t) ++ flat_map (fun c => CMx :: col_lexemes c) (t_rest t)
  ++ flat_map (fun i => CMx :: titem_lexemes i) (tc_items tc) ++ [RPx].
Definition letters_c (tc : tablec) : list letter :=
  let t := tc_table tc in
  K "CREATE" :: K "TABLE" :: (match t_schema t with Some s => [LWord (info_of s); LDot] | None => [] end) ++ [LWord (info_of (t_name t)); LPl]
  ++ col_letters (t_first t) ++ flat_map (fun c => CMl :: col_letters c) (t_rest t)
  ++ flat_map (fun i => CMl :: titem_letters i) (tc_items tc) ++ [RPl].

(* the values the grammar hands to the table-level function for a clause: constraint name (if any), the column list and, for a
   foreign key, the reference entity *)
Definition tnlist (norm : bool) (n : tnames) : pyval := PList (map (nmv norm) (tnames_list n)).
Definition tcons_val (norm : bool) (c : option (string * string)) : list pyval :=
  match c with Some (_, n) => [PDict [("constraint", PDict [("name", nmv norm n)])]] | None => [] end.
Definition tfk_ref (norm : bool) (r : tfk) : list (string * pyval) :=
  [("table", nmv norm (tf_table r)); ("columns", tnlist norm (tf_cols r)); ("schema", onm norm (tf_schema r));
   ("on_delete", on_val norm (tf_ondel r)); ("on_update", on_val norm (tf_onupd r)); ("deferrable_initially", PNone)].
Definition titem_values (norm : bool) (i : titem) : list pyval :=
  match i with
  | TIPk c _ _ cols => tcons_val norm c ++ [PDict [("primary_key", tnlist norm cols)]]
  | TIUq c _ cols => tcons_val norm c ++ [PDict [("unique_statement", PDict [("columns", tnlist norm cols)])]]
  | TIFk c _ _ cols r => tcons_val norm c ++ [tnlist norm cols; PDict [("references", PDict (tfk_ref norm r))]]
  end%list.
(* the table entity after a clause: p_expression_table / process_constraints_and_refs (Model/Actions.act_expr_table_item)
   applied to the table so far and the clause values *)
Definition titem_apply (norm : bool) (d : list (string * pyval)) (i : titem) : res (list (string * pyval)) :=
  match act_expr_table_item (PDict d :: PStr "," :: titem_values norm i) with
  | Ok (PDict d') => Ok d'
  | Ok _ => Unsupported "table item: not a dict"
  | Raise e => Raise e | Unsupported w => Unsupported w | OutOfFuel => OutOfFuel
  end.
Definition table_dict0 (norm : bool) (t : table) : list (string * pyval) :=
  tdict (onm norm (t_schema t)) (nmv norm (t_name t)) (map (col_dict norm) (t_first t :: t_rest t)).
Definition denote_c (norm : bool) (tc : tablec) : res (list (string * pyval)) :=
  fold_left (fun acc i => do d <- acc; titem_apply norm d i) (tc_items tc) (Ok (table_dict0 norm (tc_table tc))).
(* what `expr -> expr RP` requires of the finished table entity *)
Definition closes_ok (d : list (string * pyval)) : bool :=
  negb (is_column_dict d || dict_has d "index_stmt" || dict_has d "check" || dict_has d "enforced" || dict_has d "constraint").
Definition wf_c (norm : bool) (tc : tablec) : bool :=
  wf norm (tc_table tc) && forallb (wf_titem norm) (tc_items tc)
  && match denote_c norm tc with Ok d => closes_ok d | _ => false end.

(* ---------- protocol for clauses: after the table arguments, the word ITEMS, then per clause
     PK ck cn p k <count> names.. | UQ ck cn u "" <count> names.. | FK ck cn f k <count> names.. rk rs rt <count> rnames.. da db dc ua ub uc *)
Definition take_tnames (l : list string) : option (tnames * list string) :=
  match l with
  | cnt :: r =>
      match int_of_string cnt with
      | Some z =>
          let n := Z.to_nat z in
          match firstn n r with
          | x :: xs => if Nat.eqb (List.length (x :: xs)) n then Some ((x, xs), skipn n r) else None
          | [] => None
          end
      | None => None
      end
  | [] => None
  end.
Definition tcons_of (ck cn : string) : option (string * string) := if String.eqb ck "" then None else Some (ck, cn).
Fixpoint titems_of_args (fuel : nat) (l : list string) : option (list titem) :=
  match fuel with
  | O => None
  | Datatypes.S f =>
    match l with
    | [] => Some []
    | tag :: ck :: cn :: k1 :: k2 :: rest =>
      match take_tnames rest with
      | None => None
      | Some (cols, rest1) =>
        if String.eqb tag "PK" then match titems_of_args f rest1 with Some is_ => Some (TIPk (tcons_of ck cn) k1 k2 cols :: is_) | None => None end
        else if String.eqb tag "UQ" then match titems_of_args f rest1 with Some is_ => Some (TIUq (tcons_of ck cn) k1 cols :: is_) | None => None end
        else if String.eqb tag "FK" then
          match rest1 with
          | rk :: rs :: rt :: rest2 =>
            match take_tnames rest2 with
            | Some (rcols, da :: db :: dc :: ua :: ub :: uc :: rest3) =>
              match titems_of_args f rest3 with
              | Some is_ => Some (TIFk (tcons_of ck cn) k1 k2 cols (mkTFk rk (onone rs) rt rcols (on_of da db dc) (on_of ua ub uc)) :: is_)
              | None => None
              end
            | _ => None
            end
          | _ => None
          end
        else None
      end
    | _ => None
    end
  end.
Fixpoint split_at_items (l : list string) : list string * list string :=
  match l with
  | [] => ([], [])
  | x :: r => if String.eqb x "ITEMS" then ([], r) else let '(a, b) := split_at_items r in (x :: a, b)
  end.
Definition tablec_of_args (l : list string) : option tablec :=
  let '(targs, iargs) := split_at_items l in
  match table_of_args targs, titems_of_args (Datatypes.S (List.length iargs)) iargs with
  | Some t, Some is_ => Some (mkTableC t is_)
  | _, _ => None
  end.

(* ====================================================================================================================
   Clauses after the column list (property C11), any number, subset and order:
     TABLESPACE n | STORED AS f | LOCATION 'path' | ENGINE = e | COMMENT = 'text' | USING f | IN n | ROW FORMAT SERDE 'class' |
     ROW FORMAT word | word TERMINATED BY 'c' | COLLECTION ITEMS TERMINATED BY 'c' | MAP KEYS TERMINATED BY 'c' | COMMENT 'text' |
     word word (DISTSTYLE EVEN ...) | INTO n BUCKETS | word (name) (DISTKEY (a)) | ON filegroup | TEXTIMAGE_ON filegroup *)
Inductive tclause :=
| CTablespace (kw n : string) | CStored (kw1 kw2 v : string) | CLocation (kw s : string) | CEngine (kw v : string)
| CComment (kw s : string) | CUsing (kw v : string) | CIn (kw v : string)
| CRowSerde (k1 k2 k3 s : string)          (* ROW FORMAT SERDE 'class' *)
| CRowWord (k1 k2 w : string)              (* ROW FORMAT DELIMITED *)
| CTerm (w k1 k2 s : string)               (* FIELDS | LINES ... TERMINATED BY 'c' *)
| CColl (k1 k2 k3 k4 s : string)           (* COLLECTION ITEMS TERMINATED BY 'c' *)
| CMapKeys (k1 k2 k3 k4 s : string)        (* MAP KEYS TERMINATED BY 'c' *)
| CCommentStr (kw s : string)              (* COMMENT 'text' *)
| CGen (w1 w2 : string)                    (* two plain words: DISTSTYLE EVEN ... *)
| CInto (kw n w : string)                  (* INTO 4 BUCKETS *)
| CDist (w v : string)                     (* DISTKEY (col): any plain word followed by one parenthesised name *)
| COn (kw v : string)                      (* ON filegroup *)
| CTextOn (kw v : string).                 (* TEXTIMAGE_ON filegroup *)
Record tablex := mkTableX { tx_tc : tablec; tx_clauses : list tclause }.

Definition EQL : lexeme := ("t_EQ", "=").
Definition wf_clause (c : tclause) : bool :=
  match c with
  | CTablespace k n => is_kw k "TABLESPACE" && is_plain n
  | CStored a b v => is_kw a "STORED" && is_kw b "AS" && is_plain v
  | CLocation k _ => is_kw k "LOCATION"
  | CEngine k v => is_kw k "ENGINE" && is_plain v
  | CComment k _ => is_kw k "COMMENT"
  | CUsing k v => is_kw k "USING" && is_plain v
  | CIn k v => is_kw k "IN" && is_plain v
  | CRowSerde a b c _ => is_kw a "ROW" && is_kw b "FORMAT" && is_kw c "SERDE"
  | CRowWord a b w => is_kw a "ROW" && is_kw b "FORMAT" && is_plain w
  | CTerm w a b _ => is_plain w && is_kw a "TERMINATED" && is_kw b "BY"
  | CColl a b c d _ => is_kw a "COLLECTION" && is_kw b "ITEMS" && is_kw c "TERMINATED" && is_kw d "BY"
  | CMapKeys a b c d _ => is_kw a "MAP" && is_kw b "KEYS" && is_kw c "TERMINATED" && is_kw d "BY"
  | CCommentStr k _ => is_kw k "COMMENT"
  | CGen w1 w2 => is_plain w1 && is_plain w2
  | CInto k n w => is_kw k "INTO" && is_plain n && is_plain w
  | CDist w v => is_plain w && is_plain v
  | COn k v => is_kw k "ON" && is_plain v
  | CTextOn k v => is_kw k "TEXTIMAGE_ON" && is_plain v
  end.
(* TABLESPACE x directly followed by IN ... or by a plain word is read by the grammar as one tablespace clause with properties *)
Definition starts_plain (c : tclause) : bool := match c with CIn _ _ | CTerm _ _ _ _ | CGen _ _ | CDist _ _ => true | _ => false end.
Fixpoint no_ts_then_in (l : list tclause) : bool :=
  match l with
  | CTablespace _ _ :: ((c :: _) as r) => negb (starts_plain c) && no_ts_then_in r
  | _ :: r => no_ts_then_in r
  | [] => true
  end.
Definition clause_lexemes (c : tclause) : list lexeme :=
  match c with
  | CTablespace k n => [W k; W n]
  | CStored a b v => [W a; W b; W v]
  | CLocation k s => [W k; SB s]
  | CEngine k v => [W k; EQL; W v]
  | CComment k s => [W k; EQL; SB s]
  | CUsing k v => [W k; W v]
  | CIn k v => [W k; W v]
  | CRowSerde a b c s => [W a; W b; W c; SB s]
  | CRowWord a b w => [W a; W b; W w]
  | CTerm w a b s => [W w; W a; W b; SB s]
  | CColl a b c d s | CMapKeys a b c d s => [W a; W b; W c; W d; SB s]
  | CCommentStr k s => [W k; SB s]
  | CGen w1 w2 => [W w1; W w2]
  | CInto k n w => [W k; W n; W w]
  | CDist w v => [W w; LPx; W v; RPx]
  | COn k v | CTextOn k v => [W k; W v]
  end.
Definition clause_letters (c : tclause) : list letter :=
  match c with
  | CTablespace _ _ => [K "TABLESPACE"; G]
  | CStored _ _ _ => [K "STORED"; K "AS"; G]
  | CLocation _ _ => [K "LOCATION"; LStr]
  | CEngine _ _ => [K "ENGINE"; LEq; G]
  | CComment _ _ => [K "COMMENT"; LEq; LStr]
  | CUsing _ _ => [K "USING"; G]
  | CIn _ _ => [K "IN"; G]
  | CRowSerde _ _ _ _ => [K "ROW"; K "FORMAT"; K "SERDE"; LStr]
  | CRowWord _ _ _ => [K "ROW"; K "FORMAT"; G]
  | CTerm _ _ _ _ => [G; K "TERMINATED"; K "BY"; LStr]
  | CColl _ _ _ _ _ => [K "COLLECTION"; K "ITEMS"; K "TERMINATED"; K "BY"; LStr]
  | CMapKeys _ _ _ _ _ => [K "MAP"; K "KEYS"; K "TERMINATED"; K "BY"; LStr]
  | CCommentStr _ _ => [K "COMMENT"; LStr]
  | CGen _ _ => [G; G]
  | CInto _ _ _ => [K "INTO"; G; G]
  | CDist _ _ => [G; LPl; G; RPl]
  | COn _ _ => [K "ON"; G]
  | CTextOn _ _ => [K "TEXTIMAGE_ON"; G]
  end.
(* each clause sets exactly one key of the table entity, to exactly the declared value, and touches nothing else *)
Definition clause_key (norm : bool) (c : tclause) : string :=
  match c with
  | CTablespace _ _ | CIn _ _ => "tablespace" | CStored _ _ _ => "stored_as" | CLocation _ _ => "location"
  | CEngine _ _ => "engine" | CComment _ _ | CCommentStr _ _ => "comment" | CUsing _ _ => "using"
  | CRowSerde _ _ _ _ | CRowWord _ _ _ => "row_format"
  | CTerm w _ _ _ => lower (nms norm w) ++ "_terminated_by"          (* fields_terminated_by, lines_terminated_by ... *)
  | CColl _ _ _ _ _ => "collection_items_terminated_by" | CMapKeys _ _ _ _ _ => "map_keys_terminated_by"
  | CGen w1 _ => nms norm w1                                          (* the first word as written is the key *)
  | CInto _ _ w => "into_" ++ lower w
  | CDist _ _ => "distkey"                                            (* whatever the word before the parenthesis is *)
  | COn _ _ => "on" | CTextOn _ _ => "textimage_on"
  end.
Definition clause_value (norm : bool) (c : tclause) : pyval :=
  match c with
  | CTablespace _ n => PDict [("tablespace_name", nmv norm n); ("properties", PNone); ("type", PNone); ("temporary", PBool false)]
  | CStored _ _ v | CEngine _ v | CUsing _ v | CIn _ v => nmv norm v
  | CLocation _ s | CComment _ s => PStr s
  | CRowSerde _ _ _ s => PDict [("serde", PBool true); ("java_class", PStr s)]
  | CRowWord _ _ w => PStr (check_spec (nms norm w))
  | CTerm _ _ _ s | CColl _ _ _ _ s | CMapKeys _ _ _ _ s | CCommentStr _ s => PStr (check_spec s)   (* 'pars_m_t' etc. stand for tab, newline ... *)
  | CGen _ w2 => nmv norm w2
  | CInto _ n _ => PStr n
  | CDist _ v | COn _ v | CTextOn _ v => nmv norm v
  end.
Definition clause_apply (norm : bool) (d : list (string * pyval)) (c : tclause) : list (string * pyval) :=
  dict_set d (clause_key norm c) (clause_value norm c).

Definition lexemes_x (tx : tablex) : list lexeme := lexemes_c (tx_tc tx) ++ flat_map clause_lexemes (tx_clauses tx).
Definition letters_x (tx : tablex) : list letter := letters_c (tx_tc tx) ++ flat_map clause_letters (tx_clauses tx).
Definition denote_x (norm : bool) (tx : tablex) : res (list (string * pyval)) :=
  do d <- denote_c norm (tx_tc tx); Ok (fold_left (clause_apply norm) (tx_clauses tx) d).
Definition wf_clause_n (norm : bool) (c : tclause) : bool :=
  wf_clause c && match c with CGen w1 _ => negb (String.eqb (nms norm w1) "IN") | _ => true end.
Definition wf_x (norm : bool) (tx : tablex) : bool :=
  wf_c norm (tx_tc tx) && forallb (wf_clause_n norm) (tx_clauses tx) && no_ts_then_in (tx_clauses tx).

(* ---------- protocol for the clauses after the column list: after the table (and ITEMS) arguments the word CLAUSES, then per clause
     (tag and five words, unused ones empty)  TS k n | ST k1 k2 v | LO k s | EN k v | CO k s | US k v | IN k v | RS k1 k2 k3 s | RW k1 k2 w |
     TE w k1 k2 s | CI k1 k2 k3 k4 s | MK k1 k2 k3 k4 s | CS k s | GE w1 w2 | IT k n w | DK w v | ON k v | TO k v *)
Fixpoint clauses_of_args (fuel : nat) (l : list string) : option (list tclause) :=
  match fuel with
  | O => None
  | Datatypes.S f =>
    match l with
    | [] => Some []
    | tag :: a :: b :: c :: d :: e :: r =>
      match clauses_of_args f r with
      | None => None
      | Some cs =>
        if String.eqb tag "TS" then Some (CTablespace a b :: cs)
        else if String.eqb tag "ST" then Some (CStored a b c :: cs)
        else if String.eqb tag "LO" then Some (CLocation a b :: cs)
        else if String.eqb tag "EN" then Some (CEngine a b :: cs)
        else if String.eqb tag "CO" then Some (CComment a b :: cs)
        else if String.eqb tag "US" then Some (CUsing a b :: cs)
        else if String.eqb tag "IN" then Some (CIn a b :: cs)
        else if String.eqb tag "RS" then Some (CRowSerde a b c d :: cs)
        else if String.eqb tag "RW" then Some (CRowWord a b c :: cs)
        else if String.eqb tag "TE" then Some (CTerm a b c d :: cs)
        else if String.eqb tag "CI" then Some (CColl a b c d e :: cs)
        else if String.eqb tag "MK" then Some (CMapKeys a b c d e :: cs)
        else if String.eqb tag "CS" then Some (CCommentStr a b :: cs)
        else if String.eqb tag "GE" then Some (CGen a b :: cs)
        else if String.eqb tag "IT" then Some (CInto a b c :: cs)
        else if String.eqb tag "DK" then Some (CDist a b :: cs)
        else if String.eqb tag "ON" then Some (COn a b :: cs)
        else if String.eqb tag "TO" then Some (CTextOn a b :: cs)
        else None
      end
    | _ => None
    end
  end.
Fixpoint split_at_word (w : string) (l : list string) : list string * list string :=
  match l with
  | [] => ([], [])
  | x :: r => if String.eqb x w then ([], r) else let '(a, b) := split_at_word w r in (x :: a, b)
  end.
Definition tablex_of_args (l : list string) : option tablex :=
  let '(targs, cargs) := split_at_word "CLAUSES" l in
  match tablec_of_args targs, clauses_of_args (Datatypes.S (List.length cargs)) cargs with
  | Some tc, Some cs => Some (mkTableX tc cs)
  | _, _ => None
  end.
