(* FROZEN by hand (generated once from the pinned tree, then committed; never regenerated):
   for every output mode, the dialect-specific table fields and the modes documented for each
   (the `output_modes` metadata of output/dialects.py).  Property C10 is read against this catalogue:
   editing a field's metadata in /repo makes Gen/Fields.v differ from it and breaks a Qed. *)
From Coq Require Import String List.
Import ListNotations.
Open Scope string_scope.

Definition documented : list (string * list (string * list string)) :=
[
  ("athena",
   [("temp", ["hql"; "redshift"; "oracle"; "athena"]);
    ("tblproperties", ["spark_sql"; "hql"; "redshift"; "athena"]);
    ("stored_as", ["spark_sql"; "hql"; "databricks"; "redshift"; "athena"]);
    ("row_format", ["spark_sql"; "hql"; "databricks"; "redshift"; "athena"]);
    ("location", ["hql"; "spark_sql"; "snowflake"; "databricks"]);
    ("fields_terminated_by", ["hql"; "databricks"; "athena"]);
    ("lines_terminated_by", ["hql"; "databricks"; "athena"]);
    ("map_keys_terminated_by", ["hql"; "databricks"; "athena"]);
    ("collection_items_terminated_by", ["hql"; "databricks"; "athena"]);
    ("clustered_by", ["hql"; "spark_sql"]);
    ("options", ["bigquery"; "spark_sql"]);
    ("transient", ["hql"]);
    ("external", ["hql"; "snowflake"; "athena"]);
    ("cluster_by", ["bigquery"; "snowflake"]);
    ("skewed_by", ["hql"]);
    ("into_buckets", ["hql"]);
    ("clustered_on", ["hql"]);
    ("escaped_by", ["athena"])]);
  ("bigquery",
   [("temp", ["hql"; "redshift"; "oracle"; "athena"]);
    ("tblproperties", ["spark_sql"; "hql"; "redshift"; "athena"]);
    ("stored_as", ["spark_sql"; "hql"; "databricks"; "redshift"; "athena"]);
    ("row_format", ["spark_sql"; "hql"; "databricks"; "redshift"; "athena"]);
    ("location", ["hql"; "spark_sql"; "snowflake"; "databricks"]);
    ("fields_terminated_by", ["hql"; "databricks"; "athena"]);
    ("lines_terminated_by", ["hql"; "databricks"; "athena"]);
    ("map_keys_terminated_by", ["hql"; "databricks"; "athena"]);
    ("collection_items_terminated_by", ["hql"; "databricks"; "athena"]);
    ("clustered_by", ["hql"; "spark_sql"]);
    ("options", ["bigquery"; "spark_sql"]);
    ("transient", ["hql"; "databricks"; "athena"]);
    ("external", ["hql"; "snowflake"; "athena"]);
    ("cluster_by", ["bigquery"; "snowflake"]);
    ("dataset", ["bigquery"]);
    ("project", ["bigquery"])]);
  ("databricks",
   [("temp", ["hql"; "redshift"; "oracle"; "athena"]);
    ("tblproperties", ["spark_sql"; "hql"; "redshift"; "athena"]);
    ("stored_as", ["spark_sql"; "hql"; "databricks"; "redshift"; "athena"]);
    ("row_format", ["spark_sql"; "hql"; "databricks"; "redshift"; "athena"]);
    ("location", ["hql"; "spark_sql"; "snowflake"; "databricks"]);
    ("fields_terminated_by", ["hql"; "databricks"; "athena"]);
    ("lines_terminated_by", ["hql"; "databricks"; "athena"]);
    ("map_keys_terminated_by", ["hql"; "databricks"; "athena"]);
    ("collection_items_terminated_by", ["hql"; "databricks"; "athena"]);
    ("clustered_by", ["hql"; "spark_sql"]);
    ("options", ["bigquery"; "spark_sql"]);
    ("transient", ["hql"; "databricks"; "athena"]);
    ("external", ["hql"; "snowflake"; "athena"]);
    ("cluster_by", ["bigquery"; "snowflake"]);
    ("property_key", ["databricks"])]);
  ("hql",
   [("temp", ["hql"; "redshift"; "oracle"; "athena"]);
    ("tblproperties", ["spark_sql"; "hql"; "redshift"; "athena"]);
    ("stored_as", ["spark_sql"; "hql"; "databricks"; "redshift"; "athena"]);
    ("row_format", ["spark_sql"; "hql"; "databricks"; "redshift"; "athena"]);
    ("location", ["hql"; "spark_sql"; "snowflake"; "databricks"]);
    ("fields_terminated_by", ["hql"; "databricks"; "athena"]);
    ("lines_terminated_by", ["hql"; "databricks"; "athena"]);
    ("map_keys_terminated_by", ["hql"; "databricks"; "athena"]);
    ("collection_items_terminated_by", ["hql"; "databricks"; "athena"]);
    ("clustered_by", ["hql"; "spark_sql"]);
    ("options", ["bigquery"; "spark_sql"]);
    ("transient", ["hql"]);
    ("external", ["hql"; "snowflake"; "athena"]);
    ("cluster_by", ["bigquery"; "snowflake"]);
    ("skewed_by", ["hql"]);
    ("into_buckets", ["hql"]);
    ("clustered_on", ["hql"])]);
  ("ibm_db2",
   [("temp", ["hql"; "redshift"; "oracle"; "athena"]);
    ("tblproperties", ["spark_sql"; "hql"; "redshift"; "athena"]);
    ("stored_as", ["spark_sql"; "hql"; "databricks"; "redshift"; "athena"]);
    ("row_format", ["spark_sql"; "hql"; "databricks"; "redshift"; "athena"]);
    ("location", ["hql"; "spark_sql"; "snowflake"; "databricks"]);
    ("fields_terminated_by", ["hql"; "databricks"; "athena"]);
    ("lines_terminated_by", ["hql"; "databricks"; "athena"]);
    ("map_keys_terminated_by", ["hql"; "databricks"; "athena"]);
    ("collection_items_terminated_by", ["hql"; "databricks"; "athena"]);
    ("clustered_by", ["hql"; "spark_sql"]);
    ("options", ["bigquery"; "spark_sql"]);
    ("transient", ["hql"; "databricks"; "athena"]);
    ("external", ["hql"; "snowflake"; "athena"]);
    ("cluster_by", ["bigquery"; "snowflake"]);
    ("organize_by", ["ibm_db2"]);
    ("index_in", ["ibm_db2"])]);
  ("mssql",
   [("temp", ["hql"; "redshift"; "oracle"; "athena"]);
    ("tblproperties", ["spark_sql"; "hql"; "redshift"; "athena"]);
    ("stored_as", ["spark_sql"; "hql"; "databricks"; "redshift"; "athena"]);
    ("row_format", ["spark_sql"; "hql"; "databricks"; "redshift"; "athena"]);
    ("location", ["hql"; "spark_sql"; "snowflake"; "databricks"]);
    ("fields_terminated_by", ["hql"; "databricks"; "athena"]);
    ("lines_terminated_by", ["hql"; "databricks"; "athena"]);
    ("map_keys_terminated_by", ["hql"; "databricks"; "athena"]);
    ("collection_items_terminated_by", ["hql"; "databricks"; "athena"]);
    ("clustered_by", ["hql"; "spark_sql"]);
    ("options", ["bigquery"; "spark_sql"]);
    ("transient", ["hql"; "databricks"; "athena"]);
    ("external", ["hql"; "snowflake"; "athena"]);
    ("cluster_by", ["bigquery"; "snowflake"]);
    ("_with", ["mssql"]);
    ("clustered_primary_key", ["mssql"]);
    ("on", ["mssql"]);
    ("textimage_on", ["mssql"]);
    ("period_for_system_time", ["mssql"])]);
  ("mysql",
   [("temp", ["hql"; "redshift"; "oracle"; "athena"]);
    ("tblproperties", ["spark_sql"; "hql"; "redshift"; "athena"]);
    ("stored_as", ["spark_sql"; "hql"; "databricks"; "redshift"; "athena"]);
    ("row_format", ["spark_sql"; "hql"; "databricks"; "redshift"; "athena"]);
    ("location", ["hql"; "spark_sql"; "snowflake"; "databricks"]);
    ("fields_terminated_by", ["hql"; "databricks"; "athena"]);
    ("lines_terminated_by", ["hql"; "databricks"; "athena"]);
    ("map_keys_terminated_by", ["hql"; "databricks"; "athena"]);
    ("collection_items_terminated_by", ["hql"; "databricks"; "athena"]);
    ("clustered_by", ["hql"; "spark_sql"]);
    ("options", ["bigquery"; "spark_sql"]);
    ("transient", ["hql"; "databricks"; "athena"]);
    ("external", ["hql"; "snowflake"; "athena"]);
    ("cluster_by", ["bigquery"; "snowflake"]);
    ("engine", ["mysql"]);
    ("default_charset", ["mysql"]);
    ("auto_increment", ["mysql"])]);
  ("oracle",
   [("temp", ["hql"; "redshift"; "oracle"; "athena"]);
    ("tblproperties", ["spark_sql"; "hql"; "redshift"; "athena"]);
    ("stored_as", ["spark_sql"; "hql"; "databricks"; "redshift"; "athena"]);
    ("row_format", ["spark_sql"; "hql"; "databricks"; "redshift"; "athena"]);
    ("location", ["hql"; "spark_sql"; "snowflake"; "databricks"]);
    ("fields_terminated_by", ["hql"; "databricks"; "athena"]);
    ("lines_terminated_by", ["hql"; "databricks"; "athena"]);
    ("map_keys_terminated_by", ["hql"; "databricks"; "athena"]);
    ("collection_items_terminated_by", ["hql"; "databricks"; "athena"]);
    ("clustered_by", ["hql"; "spark_sql"]);
    ("options", ["bigquery"; "spark_sql"]);
    ("transient", ["hql"; "databricks"; "athena"]);
    ("external", ["hql"; "snowflake"; "athena"]);
    ("cluster_by", ["bigquery"; "snowflake"]);
    ("is_global", ["oracle"]);
    ("organization_index", ["oracle"]);
    ("storage", ["oracle"])]);
  ("postgres",
   [("partition_by", ["postgres"]);
    ("temp", ["hql"; "redshift"; "oracle"; "athena"]);
    ("tblproperties", ["spark_sql"; "hql"; "redshift"; "athena"]);
    ("stored_as", ["spark_sql"; "hql"; "databricks"; "redshift"; "athena"]);
    ("row_format", ["spark_sql"; "hql"; "databricks"; "redshift"; "athena"]);
    ("location", ["hql"; "spark_sql"; "snowflake"; "databricks"]);
    ("fields_terminated_by", ["hql"; "databricks"; "athena"]);
    ("lines_terminated_by", ["hql"; "databricks"; "athena"]);
    ("map_keys_terminated_by", ["hql"; "databricks"; "athena"]);
    ("collection_items_terminated_by", ["hql"; "databricks"; "athena"]);
    ("clustered_by", ["hql"; "spark_sql"]);
    ("options", ["bigquery"; "spark_sql"]);
    ("transient", ["hql"; "databricks"; "athena"]);
    ("external", ["hql"; "snowflake"; "athena"]);
    ("cluster_by", ["bigquery"; "snowflake"]);
    ("inherits", ["postgres"])]);
  ("redshift",
   [("temp", ["hql"; "redshift"; "oracle"; "athena"]);
    ("tblproperties", ["spark_sql"; "hql"; "redshift"; "athena"]);
    ("stored_as", ["spark_sql"; "hql"; "databricks"; "redshift"; "athena"]);
    ("row_format", ["spark_sql"; "hql"; "databricks"; "redshift"; "athena"]);
    ("location", ["hql"; "spark_sql"; "snowflake"; "databricks"]);
    ("fields_terminated_by", ["hql"; "databricks"; "athena"]);
    ("lines_terminated_by", ["hql"; "databricks"; "athena"]);
    ("map_keys_terminated_by", ["hql"; "databricks"; "athena"]);
    ("collection_items_terminated_by", ["hql"; "databricks"; "athena"]);
    ("clustered_by", ["hql"; "spark_sql"]);
    ("options", ["bigquery"; "spark_sql"]);
    ("transient", ["hql"; "databricks"; "athena"]);
    ("external", ["hql"; "snowflake"; "athena"]);
    ("cluster_by", ["bigquery"; "snowflake"]);
    ("sortkey", ["redshift"]);
    ("diststyle", ["redshift"]);
    ("distkey", ["redshift"]);
    ("encode", ["redshift"])]);
  ("snowflake",
   [("temp", ["hql"; "redshift"; "oracle"; "athena"]);
    ("tblproperties", ["spark_sql"; "hql"; "redshift"; "athena"]);
    ("stored_as", ["spark_sql"; "hql"; "databricks"; "redshift"; "athena"]);
    ("row_format", ["spark_sql"; "hql"; "databricks"; "redshift"; "athena"]);
    ("location", ["hql"; "spark_sql"; "snowflake"; "databricks"]);
    ("fields_terminated_by", ["hql"; "databricks"; "athena"]);
    ("lines_terminated_by", ["hql"; "databricks"; "athena"]);
    ("map_keys_terminated_by", ["hql"; "databricks"; "athena"]);
    ("collection_items_terminated_by", ["hql"; "databricks"; "athena"]);
    ("clustered_by", ["hql"; "spark_sql"]);
    ("options", ["bigquery"; "spark_sql"]);
    ("transient", ["hql"; "databricks"; "athena"]);
    ("external", ["hql"; "snowflake"; "athena"]);
    ("cluster_by", ["bigquery"; "snowflake"]);
    ("primary_key_enforced", ["snowflake"]);
    ("clone", ["snowflake"]);
    ("with_tag", ["snowflake"])]);
  ("spark_sql",
   [("temp", ["hql"; "redshift"; "oracle"; "athena"]);
    ("tblproperties", ["spark_sql"; "hql"; "redshift"; "athena"]);
    ("stored_as", ["spark_sql"; "hql"; "databricks"; "redshift"; "athena"]);
    ("row_format", ["spark_sql"; "hql"; "databricks"; "redshift"; "athena"]);
    ("location", ["hql"; "spark_sql"; "snowflake"; "databricks"]);
    ("fields_terminated_by", ["hql"; "databricks"; "athena"]);
    ("lines_terminated_by", ["hql"; "databricks"; "athena"]);
    ("map_keys_terminated_by", ["hql"; "databricks"; "athena"]);
    ("collection_items_terminated_by", ["hql"; "databricks"; "athena"]);
    ("clustered_by", ["hql"; "spark_sql"]);
    ("options", ["bigquery"; "spark_sql"]);
    ("transient", ["hql"; "databricks"; "athena"]);
    ("external", ["hql"; "snowflake"; "athena"]);
    ("cluster_by", ["bigquery"; "snowflake"])]);
  ("sql",
   []);
  ("sqlite",
   [("temp", ["hql"; "redshift"; "oracle"; "athena"]);
    ("tblproperties", ["spark_sql"; "hql"; "redshift"; "athena"]);
    ("stored_as", ["spark_sql"; "hql"; "databricks"; "redshift"; "athena"]);
    ("row_format", ["spark_sql"; "hql"; "databricks"; "redshift"; "athena"]);
    ("location", ["hql"; "spark_sql"; "snowflake"; "databricks"]);
    ("fields_terminated_by", ["hql"; "databricks"; "athena"]);
    ("lines_terminated_by", ["hql"; "databricks"; "athena"]);
    ("map_keys_terminated_by", ["hql"; "databricks"; "athena"]);
    ("collection_items_terminated_by", ["hql"; "databricks"; "athena"]);
    ("clustered_by", ["hql"; "spark_sql"]);
    ("options", ["bigquery"; "spark_sql"]);
    ("transient", ["hql"; "databricks"; "athena"]);
    ("external", ["hql"; "snowflake"; "athena"]);
    ("cluster_by", ["bigquery"; "snowflake"])]);
  ("vertics",
   [("temp", ["hql"; "redshift"; "oracle"; "athena"]);
    ("tblproperties", ["spark_sql"; "hql"; "redshift"; "athena"]);
    ("stored_as", ["spark_sql"; "hql"; "databricks"; "redshift"; "athena"]);
    ("row_format", ["spark_sql"; "hql"; "databricks"; "redshift"; "athena"]);
    ("location", ["hql"; "spark_sql"; "snowflake"; "databricks"]);
    ("fields_terminated_by", ["hql"; "databricks"; "athena"]);
    ("lines_terminated_by", ["hql"; "databricks"; "athena"]);
    ("map_keys_terminated_by", ["hql"; "databricks"; "athena"]);
    ("collection_items_terminated_by", ["hql"; "databricks"; "athena"]);
    ("clustered_by", ["hql"; "spark_sql"]);
    ("options", ["bigquery"; "spark_sql"]);
    ("transient", ["hql"; "databricks"; "athena"]);
    ("external", ["hql"; "snowflake"; "athena"]);
    ("cluster_by", ["bigquery"; "snowflake"])])
].
