(* FROZEN catalogue for property C11: (owning mode, documented key, shown at top level in the owning mode?, at top level in the
   default mode?)  — false = reported under table_properties.  Reading of "documented key" (README / tests of the repository). *)
From Coq Require Import String List Bool.
Import ListNotations.
Open Scope string_scope.

Definition clause_catalogue : list (string * string * bool * bool) :=
[
  ("hql", "stored_as", true, false);
  ("hql", "location", true, false);
  ("hql", "row_format", true, false);
  ("hql", "fields_terminated_by", true, false);
  ("hql", "tblproperties", true, false);
  ("hql", "partitioned_by", true, true);
  ("hql", "clustered_by", true, false);
  ("mysql", "engine", true, false);
  ("mysql", "default_charset", true, false);
  ("mysql", "auto_increment", true, false);
  ("oracle", "tablespace", true, true);
  ("oracle", "storage", true, false);
  ("oracle", "organization_index", true, false);
  ("redshift", "diststyle", true, false);
  ("redshift", "distkey", true, false);
  ("snowflake", "cluster_by", true, false);
  ("snowflake", "comment", true, true);
  ("snowflake", "data_retention_time_in_days", false, false);
  ("snowflake", "change_tracking", false, false);
  ("snowflake", "with_tag", true, false);
  ("mssql", "on", true, false);
  ("mssql", "textimage_on", true, false);
  ("mssql", "with", true, false);
  ("bigquery", "options", true, false);
  ("bigquery", "partition_by", true, true);
  ("postgres", "inherits", true, false);
  ("postgres", "partition_by", true, true);
  ("spark_sql", "using", false, false);
  ("ibm_db2", "tablespace", true, true);
  ("ibm_db2", "index_in", true, false);
  ("ibm_db2", "organize_by", true, false)
].
