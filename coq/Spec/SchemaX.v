(* Fragment "schemas with authorization / comment": CREATE SCHEMA [IF NOT EXISTS] n [AUTHORIZATION u] [COMMENT [=] 'text'].
   AST, rendering to lexemes, what property C18 says must come out (denote), the reference machine F. *)
From Coq Require Import String Ascii List ZArith NArith Bool.
From SDP Require Import Base PyStr Regex LR Lexer Actions Parse Engine Seq Entity Table.
Import ListNotations.
Open Scope string_scope.

Record schx := mkSchX {
  x_create : string; x_schema : string;
  x_ine : option (string * string * string);       (* IF NOT EXISTS as spelled *)
  x_name : string;
  x_auth : option string;                          (* the user after the word AUTHORIZATION *)
  x_comment : option (string * bool * string) }.   (* COMMENT as spelled, with '=' or not, the literal *)

(* words the action compares its arguments with *)
Definition xspecial (w : string) : bool := mem w ["AUTHORIZATION"; "EXISTS"; "="; "COMMENT"; "."; ""].
Definition wf (norm : bool) (x : schx) : bool :=
  is_kw (x_create x) "CREATE" && is_kw (x_schema x) "SCHEMA"
  && match x_ine x with Some (a, b, c) => is_kw a "IF" && is_kw b "NOT" && is_kw c "EXISTS" | None => true end
  && is_plain (x_name x) && negb (xspecial (x_name x)) && negb (xspecial (nms norm (x_name x)))
  && negb (String.eqb (replace (nms norm (x_name x)) "`" "") "")
  && match x_auth x with
     | Some u => is_plain u && negb (xspecial (nms norm u)) && (match x_ine x with Some _ => false | None => true end)
     | None => true end
  && match x_comment x with Some (k, e, s) => is_kw k "COMMENT" && negb (e && String.eqb s ".") | None => true end.

Definition ine_lexemes (x : schx) : list lexeme := match x_ine x with Some (a, b, c) => [W a; W b; W c] | None => [] end.
Definition auth_lexemes (x : schx) : list lexeme := match x_auth x with Some u => [W "AUTHORIZATION"; W u] | None => [] end.
Definition comment_lexemes (x : schx) : list lexeme :=
  match x_comment x with Some (k, true, s) => [W k; EQL; SB s] | Some (k, false, s) => [W k; SB s] | None => [] end.
Definition lexemes (x : schx) : list lexeme :=
  W (x_create x) :: W (x_schema x) :: ine_lexemes x ++ [W (x_name x)] ++ auth_lexemes x ++ comment_lexemes x.

Definition letters (x : schx) : list letter :=
  K "CREATE" :: K "SCHEMA" :: (match x_ine x with Some _ => [K "IF"; K "NOT"; K "EXISTS"] | None => [] end) ++ [G]
    ++ (match x_auth x with Some _ => [G; G] | None => [] end)
    ++ (match x_comment x with Some (_, true, _) => [K "COMMENT"; LEq; LStr] | Some (_, false, _) => [K "COMMENT"; LStr] | None => [] end).
Definition alphabet : list letter := [K "CREATE"; K "SCHEMA"; K "IF"; K "NOT"; K "EXISTS"; K "COMMENT"; G; LEq; LStr].

(* what C18 prescribes: the schema name as written (the plain form drops backticks, as for the forms of Spec/Entity.v), the
   IF NOT EXISTS flag, the authorization as written, the comment literal verbatim *)
Definition denote (norm : bool) (x : schx) : pyval :=
  let base :=
      match x_auth x with
      | Some u => [("schema_name", nmv norm (x_name x)); ("authorization", nmv norm u)]
      | None => ((match x_ine x with Some _ => [("if_not_exists", PBool true)] | None => [] end)
                  ++ [("schema_name", PStr (replace (nms norm (x_name x)) "`" ""))])%list
      end in
  PDict (match x_comment x with Some (_, _, s) => (base ++ [("comment", PStr s)])%list | None => base end).

(* ---------- reference machine ---------------------------------------------------------------------------------------------------------- *)
Inductive pendk := PName | PIne | PAuth.
Inductive q := Q0 | Q1 | S1 | SIf | SNot | SEx | N1 | DI | A1 | A2 | C1 (p : pendk) | C2 (p : pendk) | CS (eqf : bool).
Definition pendk_eqb (a b : pendk) : bool := match a, b with PName, PName | PIne, PIne | PAuth, PAuth => true | _, _ => false end.
Definition q_eqb (a b : q) : bool :=
  match a, b with
  | Q0, Q0 | Q1, Q1 | S1, S1 | SIf, SIf | SNot, SNot | SEx, SEx | N1, N1 | DI, DI | A1, A1 | A2, A2 => true
  | C1 x, C1 y | C2 x, C2 y => pendk_eqb x y
  | CS x, CS y => Bool.eqb x y
  | _, _ => false
  end.
Lemma q_eqb_eq a b : q_eqb a b = true -> a = b.
Proof.
  destruct a, b; simpl; try congruence; intro H;
    try (destruct p, p0; simpl in H; congruence); apply Bool.eqb_prop in H; subst; reflexivity.
Qed.
Definition pend (p : pendk) : list string :=
  match p with
  | PName => ["id -> ID"; "create_schema -> c_schema id"]
  | PIne => ["id -> ID"; "create_schema -> c_schema IF NOT EXISTS id"]
  | PAuth => ["id -> ID"; "create_schema -> c_schema id id id"]
  end.
Definition isl (l m : letter) : bool := letter_eqb l m.
Definition fstep (s : q) (l : letter) : option (fout * q) :=
  match s with
  | Q0 => if is l "CREATE" then Some (([], "CREATE", Upper), Q1) else None
  | Q1 => if is l "SCHEMA" then Some (([], "SCHEMA", Upper), S1) else None
  | S1 => if is l "IF" then Some ((["c_schema -> CREATE SCHEMA"], "IF", Upper), SIf)
          else if isG l then Some ((["c_schema -> CREATE SCHEMA"], "ID", Keep), N1) else None
  | SIf => if is l "NOT" then Some (([], "NOT", Upper), SNot) else None
  | SNot => if is l "EXISTS" then Some (([], "EXISTS", Upper), SEx) else None
  | SEx => if isG l then Some (([], "ID", Keep), DI) else None
  | N1 => if isG l then Some ((["id -> ID"], "ID", Keep), A1)
          else if is l "COMMENT" then Some ((pend PName, "COMMENT", Upper), C1 PName) else None
  | DI => if is l "COMMENT" then Some ((pend PIne, "COMMENT", Upper), C1 PIne) else None
  | A1 => if isG l then Some ((["id -> ID"], "ID", Keep), A2) else None
  | A2 => if is l "COMMENT" then Some ((pend PAuth, "COMMENT", Upper), C1 PAuth) else None
  | C1 p => if isl l LEq then Some (([], "EQ", Keep), C2 p)
            else if isl l LStr then Some (([], "STRING_BASE", Keep), CS false) else None
  | C2 p => if isl l LStr then Some (([], "STRING_BASE", Keep), CS true) else None
  | CS _ => None
  end.
Definition ffinish (s : q) : option (list string) :=
  match s with
  | N1 => Some (pend PName ++ ["expr -> create_schema"])%list
  | DI => Some (pend PIne ++ ["expr -> create_schema"])%list
  | A2 => Some (pend PAuth ++ ["expr -> create_schema"])%list
  | CS false => Some ["STRING -> STRING_BASE"; "create_schema -> create_schema COMMENT STRING"; "expr -> create_schema"]
  | CS true => Some ["STRING -> STRING_BASE"; "create_schema -> create_schema COMMENT EQ STRING"; "expr -> create_schema"]
  | _ => None
  end.

(* protocol: create, schema, if, not, exists (or three ""), name, user or "", comment keyword or "", "=" or "", literal or "" *)
Definition schx_of_args (l : list string) : option schx :=
  match l with
  | [c; s; a; b; e; n; u; k; eqs; lit] =>
    Some (mkSchX c s (if String.eqb a "" then None else Some (a, b, e)) n (if String.eqb u "" then None else Some u)
                 (if String.eqb k "" then None else Some (k, String.eqb eqs "=", lit)))
  | _ => None
  end.
