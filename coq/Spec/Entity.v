(* Fragment "entities": CREATE [kind] [TEMPORARY] TABLESPACE n | CREATE DATABASE n | CREATE SCHEMA [IF NOT EXISTS] n.
   AST, rendering to lexemes, what property C18 says must come out (denote), the reference machine F. *)
From Coq Require Import String Ascii List ZArith NArith Bool.
From SDP Require Import Base PyStr Regex LR RealTables Lexer Actions Parse Engine Seq KeywordProofs.
Import ListNotations.
Open Scope string_scope.

Inductive ent :=
| ETablespace (create : string) (pre : list string) (ts : string) (name : string)     (* pre: 0, 1 or 2 plain words *)
| EDatabase (create db name : string)
| ESchema (create sch : string) (ine : option (string * string * string)) (name : string).

(* which keywords are accepted as the name of such an entity: derived by running the model on the real tables *)
Definition acc_at (text : string) (pos : nat) (k : string) : bool :=
  match lex text with
  | Ok (toks, _) =>
    match nth_error toks pos with
    | Some (ty, v) =>
      String.eqb ty "ID" && String.eqb v k &&
      match toks_to_ids term_id toks with
      | Ok ids => match lr_trace false real_tables ids with Ok _ => true | _ => false end
      | _ => false
      end
    | None => false
    end
  | _ => false
  end.
Definition accepted_entity_name (k : string) : bool :=
  acc_at ("CREATE TABLESPACE " ++ k) 2 k && acc_at ("CREATE DATABASE " ++ k) 2 k && acc_at ("CREATE SCHEMA " ++ k) 2 k
  && acc_at ("CREATE SCHEMA IF NOT EXISTS " ++ k) 5 k && acc_at ("CREATE BIGFILE TABLESPACE " ++ k) 3 k.
(* frozen literal; Proofs/EntityProofs.name_keywords_are_the_accepted shows it IS the set derived on the real tables *)
Definition name_keywords : list string :=
  ["ADD"; "ALTER"; "ARRAY"; "AS"; "AUTO_REFRESH"; "BY"; "CACHE"; "CATALOG"; "CHANGE_TRACKING"; "CHECK"; "CLONE"; "CLUSTER"; "CLUSTERED"; "COLLECTION"; "COLUMN"; "COMMENT"; "CONSTRAINT"; "CREATE"; "DATABASE"; "DATA_RETENTION_TIME_IN_DAYS"; "DEFAULT"; "DEFERRABLE"; "DELETE"; "DOMAIN"; "DROP"; "ENCODE"; "ENCRYPT"; "ENFORCED"; "ENGINE"; "ENUM"; "ESCAPED"; "EXISTS"; "FILE_FORMAT"; "FOR"; "FOREIGN"; "FORMAT"; "GENERATED"; "IN"; "INCREMENT"; "INDEX"; "INHERITS"; "INITIALLY"; "INTO"; "INVISIBLE"; "ITEMS"; "KEY"; "KEYS"; "LIKE"; "LOCATION"; "MAP"; "MASKING"; "MAXVALUE"; "MAX_DATA_EXTENSION_TIME_IN_DAYS"; "MINVALUE"; "MODIFY"; "NO"; "NOORDER"; "NOT"; "NULL"; "ON"; "OPTIONS"; "OR"; "ORDER"; "PARTITION"; "PARTITIONED"; "PATTERN"; "POLICY"; "PRIMARY"; "REFERENCES"; "RENAME"; "REPLACE"; "ROW"; "SALT"; "SCHEMA"; "SEQUENCE"; "SERDE"; "SERDEPROPERTIES"; "SET"; "SKEWED"; "STAGE_FILE_FORMAT"; "START"; "STORAGE"; "STORED"; "TABLE"; "TABLESPACE"; "TABLE_FORMAT"; "TAG"; "TBLPROPERTIES"; "TERMINATED"; "TEXTIMAGE_ON"; "TYPE"; "UNIQUE"; "UPDATE"; "USING"; "VISIBLE"; "WITH"; "WITHOUT"].
Definition name_letters : list letter := G :: map K name_keywords.
Definition is_name_letter (l : letter) : bool := existsb (letter_eqb l) name_letters.

Definition is_name (w : string) : bool :=
  is_name_letter (LWord (info_of w)) && String.eqb (strip_trailing_comma w) w.
Definition schema_special (w : string) : bool :=
  mem w ["AUTHORIZATION"; "EXISTS"; "="; "COMMENT"; "."].

Definition wf (e : ent) : bool :=
  match e with
  | ETablespace c pre ts n =>
      is_kw c "CREATE" && is_kw ts "TABLESPACE" && forallb is_plain pre && (List.length pre <=? 2)%nat && is_name n
  | EDatabase c db n => is_kw c "CREATE" && is_kw db "DATABASE" && is_name n
  | ESchema c sch ine n =>
      is_kw c "CREATE" && is_kw sch "SCHEMA" && is_name n && negb (schema_special n) && negb (schema_special (normalize_id n))
      && match ine with Some (a, b, x) => is_kw a "IF" && is_kw b "NOT" && is_kw x "EXISTS" | None => true end
  end.

Definition lexemes (e : ent) : list lexeme :=
  match e with
  | ETablespace c pre ts n => W c :: map W pre ++ [W ts; W n]
  | EDatabase c db n => [W c; W db; W n]
  | ESchema c sch None n => [W c; W sch; W n]
  | ESchema c sch (Some (a, b, x)) n => [W c; W sch; W a; W b; W x; W n]
  end.

Definition letters (e : ent) : list letter :=
  match e with
  | ETablespace _ pre _ n => K "CREATE" :: map (fun _ => G) pre ++ [K "TABLESPACE"; LWord (info_of n)]
  | EDatabase _ _ n => [K "CREATE"; K "DATABASE"; LWord (info_of n)]
  | ESchema _ _ None n => [K "CREATE"; K "SCHEMA"; LWord (info_of n)]
  | ESchema _ _ (Some _) n => [K "CREATE"; K "SCHEMA"; K "IF"; K "NOT"; K "EXISTS"; LWord (info_of n)]
  end.

Definition alphabet : list letter :=
  [K "CREATE"; K "TABLESPACE"; K "DATABASE"; K "SCHEMA"; K "IF"; K "NOT"; K "EXISTS"; G] ++ name_letters.

(* what C18 prescribes; a name is reported as written, or without its one pair of delimiters under normalize_names *)
Definition nms (norm : bool) (s : string) : string := if norm then normalize_id s else s.
Definition denote (norm : bool) (e : ent) : pyval :=
  match e with
  | ETablespace _ pre _ n =>
      let '(ty, temp) :=
          match pre with
          | [] => (PNone, false)
          | w1 :: rest =>
            if String.eqb (nms norm w1) "TABLESPACE" then (PNone, false)      (* the code's first test; only a delimited [TABLESPACE] under normalize_names gets here *)
            else if String.eqb (upper (nms norm w1)) "TEMPORARY" then (PNone, true)
            else (PStr (nms norm w1),
                  match rest with w2 :: _ => String.eqb (upper (nms norm w2)) "TEMPORARY" | [] => false end)
          end in
      PDict [("tablespace_name", PStr (nms norm n)); ("properties", PNone); ("type", ty); ("temporary", PBool temp)]
  | EDatabase _ _ n => PDict [("database_name", PStr (nms norm n))]
  | ESchema _ _ None n => PDict [("schema_name", PStr (replace (nms norm n) "`" ""))]
  | ESchema _ _ (Some _) n => PDict [("if_not_exists", PBool true); ("schema_name", PStr (replace (nms norm n) "`" ""))]
  end.

(* ---------- reference machine ------------------------------------------------------------------------- *)
Inductive q := E0 | E1 | K1 | K2 | T0 | T1 | T2 | D1 | S1 | SIf | SNot | SEx | DoneT0 | DoneT1 | DoneT2 | DoneD | DoneS | DoneS2.
Definition q_eqb (a b : q) : bool :=
  match a, b with
  | E0, E0 | E1, E1 | K1, K1 | K2, K2 | T0, T0 | T1, T1 | T2, T2 | D1, D1 | S1, S1 | SIf, SIf | SNot, SNot | SEx, SEx
  | DoneT0, DoneT0 | DoneT1, DoneT1 | DoneT2, DoneT2 | DoneD, DoneD | DoneS, DoneS | DoneS2, DoneS2 => true
  | _, _ => false
  end.
Lemma q_eqb_eq a b : q_eqb a b = true -> a = b.
Proof. destruct a, b; simpl; congruence. Qed.

Definition idr : list string := ["id -> ID"].
Definition fstep (s : q) (l : letter) : option (fout * q) :=
  match s with
  | E0 => if is l "CREATE" then Some (([], "CREATE", Upper), E1) else None
  | E1 => if is l "TABLESPACE" then Some (([], "TABLESPACE", Upper), T0)
          else if is l "DATABASE" then Some (([], "DATABASE", Upper), D1)
          else if is l "SCHEMA" then Some (([], "SCHEMA", Upper), S1)
          else if isG l then Some (([], "ID", Keep), K1) else None
  | K1 => if is l "TABLESPACE" then Some ((idr, "TABLESPACE", Upper), T1)
          else if isG l then Some ((idr, "ID", Keep), K2) else None
  | K2 => if is l "TABLESPACE" then Some ((idr, "TABLESPACE", Upper), T2) else None
  | T0 => if is_name_letter l then Some (([], "ID", Keep), DoneT0) else None
  | T1 => if is_name_letter l then Some (([], "ID", Keep), DoneT1) else None
  | T2 => if is_name_letter l then Some (([], "ID", Keep), DoneT2) else None
  | D1 => if is_name_letter l then Some (([], "ID", Keep), DoneD) else None
  | S1 => if is l "IF" then Some ((["c_schema -> CREATE SCHEMA"], "IF", Upper), SIf)
          else if is_name_letter l then Some ((["c_schema -> CREATE SCHEMA"], "ID", Keep), DoneS) else None
  | SIf => if is l "NOT" then Some (([], "NOT", Upper), SNot) else None
  | SNot => if is l "EXISTS" then Some (([], "EXISTS", Upper), SEx) else None
  | SEx => if is_name_letter l then Some (([], "ID", Keep), DoneS2) else None
  | _ => None
  end.

Definition ffinish (s : q) : option (list string) :=
  match s with
  | DoneT0 => Some ["id -> ID"; "expr -> CREATE TABLESPACE id"]
  | DoneT1 => Some ["id -> ID"; "expr -> CREATE id TABLESPACE id"]
  | DoneT2 => Some ["id -> ID"; "expr -> CREATE id id TABLESPACE id"]
  | DoneD => Some ["id -> ID"; "database_base -> CREATE DATABASE id"; "create_database -> database_base"; "expr -> create_database"]
  | DoneS => Some ["id -> ID"; "create_schema -> c_schema id"; "expr -> create_schema"]
  | DoneS2 => Some ["id -> ID"; "create_schema -> c_schema IF NOT EXISTS id"; "expr -> create_schema"]
  | _ => None
  end.

(* protocol: AST from flat args (harness) *)
Definition ent_of_args (l : list string) : option ent :=
  match l with
  | "T" :: c :: ts :: n :: pre => Some (ETablespace c pre ts n)
  | ["D"; c; db; n] => Some (EDatabase c db n)
  | ["S"; c; sch; n] => Some (ESchema c sch None n)
  | ["S"; c; sch; n; a; b; x] => Some (ESchema c sch (Some (a, b, x)) n)
  | _ => None
  end.
