(* Fragment "value-list types": CREATE TYPE [s.]n AS base (v, v, ...) and CREATE DOMAIN [s.]n AS base (v, v, ...), a value being a
   plain word or one quoted literal, any number of values.  AST, rendering to lexemes, what property C18 says must come out
   (denote), the reference machine F.  No counterpart in the code: this file is the reading of the property. *)
From Coq Require Import String Ascii List ZArith NArith Bool.
From SDP Require Import Base PyStr Regex LR Lexer Actions Parse Engine Seq Entity Table.
Import ListNotations.
Open Scope string_scope.

Inductive val := VWord (w : string) | VLit (s : string).
Record decl := mkDecl {
  d_type : bool;                         (* CREATE TYPE (true) or CREATE DOMAIN (false) *)
  d_create : string; d_kind : string;    (* the two keywords as spelled *)
  d_schema : option string; d_name : string;
  d_as : string; d_base : string;
  d_first : val; d_rest : list val }.
Definition d_vals (d : decl) : list val := d_first d :: d_rest d.

Definition wf_val (v : val) : bool := match v with VWord w => is_plain w | VLit _ => true end.
(* the base type is a plain word or, in any letter case, ENUM.  Side conditions: a name that IS a dot, and for CREATE TYPE the
   base types TABLE and OBJECT (they belong to the AS TABLE (columns) / AS OBJECT (attributes) forms) or a delimited parenthesis,
   are outside the fragment *)
Definition wf (norm : bool) (d : decl) : bool :=
  is_kw (d_create d) "CREATE" && is_kw (d_kind d) (if d_type d then "TYPE" else "DOMAIN")
  && match d_schema d with Some s => is_plain s | None => true end
  && is_plain (d_name d) && negb (String.eqb (nms norm (d_name d)) ".")
  && is_kw (d_as d) "AS"
  && (is_plain (d_base d) || is_kw (d_base d) "ENUM")
  && (negb (d_type d) || (negb (String.eqb (nms norm (d_base d)) "TABLE") && negb (String.eqb (upper (nms norm (d_base d))) "OBJECT")
                          && negb (String.eqb (nms norm (d_base d)) "(") && negb (String.eqb (nms norm (d_base d)) ")")))
  && forallb wf_val (d_vals d).

Definition val_lexeme (v : val) : lexeme := match v with VWord w => W w | VLit s => SB s end.
Fixpoint comma_vals (l : list val) : list lexeme :=
  match l with [] => [] | v :: r => CMx :: val_lexeme v :: comma_vals r end.
Definition name_lexemes (d : decl) : list lexeme :=
  match d_schema d with Some s => [W s; DOTL; W (d_name d)] | None => [W (d_name d)] end.
Definition lexemes (d : decl) : list lexeme :=
  W (d_create d) :: W (d_kind d) :: name_lexemes d ++ [W (d_as d); W (d_base d); LPx; val_lexeme (d_first d)] ++ comma_vals (d_rest d) ++ [RPx].

Definition val_letter (v : val) : letter := match v with VWord _ => G | VLit _ => LStr end.
Fixpoint comma_letters (l : list val) : list letter :=
  match l with [] => [] | v :: r => CMl :: val_letter v :: comma_letters r end.
Definition name_letters (d : decl) : list letter :=
  match d_schema d with Some _ => [G; LDot; G] | None => [G] end.
Definition letters (d : decl) : list letter :=
  K "CREATE" :: K (if d_type d then "TYPE" else "DOMAIN") :: name_letters d
    ++ [K "AS"; LWord (info_of (d_base d)); LPl; val_letter (d_first d)] ++ comma_letters (d_rest d) ++ [RPl].

Definition alphabet : list letter := [K "CREATE"; K "TYPE"; K "DOMAIN"; K "AS"; K "ENUM"; G; LDot; LStr; LPl; RPl; CMl].

(* what C18 prescribes: schema and name as written (or without their delimiters under normalize_names), the declared base type as
   written, the values in order — words as written / normalised, literals verbatim with their quotes — when the base type is ENUM *)
Definition val_value (norm : bool) (v : val) : pyval := match v with VWord w => nmv norm w | VLit s => PStr s end.
Definition props (norm : bool) (d : decl) : pyval :=
  PDict (if String.eqb (upper (nms norm (d_base d))) "ENUM" then [("values", PList (map (val_value norm) (d_vals d)))] else []).
Definition denote (norm : bool) (d : decl) : pyval :=
  if d_type d then
    PDict [("schema", onm norm (d_schema d)); ("type_name", nmv norm (d_name d)); ("properties", props norm d); ("base_type", nmv norm (d_base d))]
  else
    PDict [("schema", onm norm (d_schema d)); ("domain_name", nmv norm (d_name d)); ("base_type", nmv norm (d_base d)); ("properties", props norm d)].

(* ---------- reference machine ---------------------------------------------------------------------------------------------------------- *)
Inductive q :=
| Q0 | Q1
| N0 (t : bool) | N1 (t : bool) | ND (t : bool) | N2 (t : bool)
| QAs (t s : bool) | QB (t : bool) | L0 (t : bool)
| V (t first word : bool) | CM (t : bool) | Done (t : bool).
Definition q_eqb (a b : q) : bool :=
  match a, b with
  | Q0, Q0 | Q1, Q1 => true
  | N0 x, N0 y | N1 x, N1 y | ND x, ND y | N2 x, N2 y | QB x, QB y | L0 x, L0 y | CM x, CM y | Done x, Done y => Bool.eqb x y
  | QAs x s, QAs y s' => Bool.eqb x y && Bool.eqb s s'
  | V x f w, V y f' w' => Bool.eqb x y && Bool.eqb f f' && Bool.eqb w w'
  | _, _ => false
  end.
Lemma q_eqb_eq a b : q_eqb a b = true -> a = b.
Proof.
  destruct a, b; simpl; try congruence; intro H;
    repeat match goal with X : (_ && _) = true |- _ => apply andb_true_iff in X; destruct X end;
    repeat match goal with X : Bool.eqb _ _ = true |- _ => apply Bool.eqb_prop in X end; subst; reflexivity.
Qed.

Definition name_red (t s : bool) : string :=
  match t, s with
  | true, false => "type_name -> type_create id AS"
  | true, true => "type_name -> type_create id DOT id AS"
  | false, false => "domain_name -> CREATE DOMAIN id AS"
  | false, true => "domain_name -> CREATE DOMAIN id DOT id AS"
  end.
Definition val_red (first word : bool) : list string :=
  match first, word with
  | true, true => ["id -> ID"; "pid -> id"]
  | false, true => ["id -> ID"; "pid -> pid COMMA id"]
  | true, false => ["STRING -> STRING_BASE"; "pid -> STRING"]
  | false, false => ["STRING -> STRING_BASE"; "pid -> pid COMMA STRING"]
  end.
Definition isl (l m : letter) : bool := letter_eqb l m.

Definition fstep (s : q) (l : letter) : option (fout * q) :=
  match s with
  | Q0 => if is l "CREATE" then Some (([], "CREATE", Upper), Q1) else None
  | Q1 => if is l "TYPE" then Some (([], "TYPE", Upper), N0 true)
          else if is l "DOMAIN" then Some (([], "DOMAIN", Upper), N0 false) else None
  | N0 t => if isG l then Some (((if t then ["type_create -> CREATE TYPE"] else []), "ID", Keep), N1 t) else None
  | N1 t => if isl l LDot then Some ((["id -> ID"], "DOT", Keep), ND t)
            else if is l "AS" then Some ((["id -> ID"], "AS", Upper), QAs t false) else None
  | ND t => if isG l then Some (([], "ID", Keep), N2 t) else None
  | N2 t => if is l "AS" then Some ((["id -> ID"], "AS", Upper), QAs t true) else None
  | QAs t s => if isG l || is l "ENUM" then Some (([name_red t s], "ID", Keep), QB t) else None
  | QB t => if isl l LPl then Some ((["id -> ID"], "LP", Keep), L0 t) else None
  | L0 t => if isG l then Some (([], "ID", Keep), V t true true)
            else if isl l LStr then Some (([], "STRING_BASE", Keep), V t true false) else None
  | V t f w => if isl l CMl then Some ((val_red f w, "COMMA", Upper), CM t)
               else if isl l RPl then Some ((val_red f w, "RP", Upper), Done t) else None
  | CM t => if isG l then Some (([], "ID", Keep), V t false true)
            else if isl l LStr then Some (([], "STRING_BASE", Keep), V t false false) else None
  | Done _ => None
  end.

Definition ffinish (s : q) : option (list string) :=
  match s with
  | Done true => Some ["type_definition -> type_name id LP pid RP"; "expr -> type_definition"]
  | Done false => Some ["expr -> domain_name id LP pid RP"]
  | _ => None
  end.

(* protocol: AST from flat args (harness): kind ("T"|"D"), create, kind word, schema or "", name, as, base, then values "w:word" / "s:'lit'" *)
Definition val_of_arg (a : string) : option val :=
  match a with
  | String "w" (String ":" r) => Some (VWord r)
  | String "s" (String ":" r) => Some (VLit r)
  | _ => None
  end.
Fixpoint vals_of_args (l : list string) : option (list val) :=
  match l with
  | [] => Some []
  | a :: r => match val_of_arg a, vals_of_args r with Some v, Some vs => Some (v :: vs) | _, _ => None end
  end.
Definition decl_of_args (l : list string) : option decl :=
  match l with
  | k :: c :: kw :: sch :: n :: a :: b :: v1 :: rest =>
    match val_of_arg v1, vals_of_args rest with
    | Some v, Some vs =>
      Some (mkDecl (String.eqb k "T") c kw (if String.eqb sch "" then None else Some sch) n a b v vs)
    | _, _ => None
    end
  | _ => None
  end.
