(* Fragment "object types": CREATE TYPE [s.]n AS base (attr, attr, ...) with attr = name type [(n) | (p, s)], any number of attributes.
   AST, rendering to lexemes, what property C18 says must come out (denote), the reference machine F. *)
From Coq Require Import String Ascii List ZArith NArith Bool.
From SDP Require Import Base PyStr Regex LR Lexer Actions Parse Engine Seq Entity Table.
Import ListNotations.
Open Scope string_scope.

Record attr := mkAttr { at_name : string; at_type : string; at_size : option (string * option string) }.
Record tobj := mkTObj {
  o_create : string; o_type : string; o_schema : option string; o_name : string; o_as : string; o_base : string;
  o_first : attr; o_rest : list attr }.
Definition o_attrs (o : tobj) : list attr := o_first o :: o_rest o.

Definition wf_attr (norm : bool) (a : attr) : bool :=
  is_plain (at_name a) && negb (colname_bad (nms norm (at_name a))) && is_type_word norm (at_type a)
  && match at_size a with
     | None => true
     | Some (p, None) => is_digits p
     | Some (p, Some s) => is_digits p && is_digits s
     end.
(* the base type is a plain word (OBJECT in any letter case selects the attribute reading, ENUM the value reading) *)
Definition wf (norm : bool) (o : tobj) : bool :=
  is_kw (o_create o) "CREATE" && is_kw (o_type o) "TYPE"
  && match o_schema o with Some s => is_plain s | None => true end
  && is_plain (o_name o) && negb (String.eqb (nms norm (o_name o)) ".")
  && is_kw (o_as o) "AS" && is_plain (o_base o)
  && negb (String.eqb (nms norm (o_base o)) "TABLE") && negb (String.eqb (nms norm (o_base o)) "(") && negb (String.eqb (nms norm (o_base o)) ")")
  && forallb (wf_attr norm) (o_attrs o).

Definition size_lexemes (sz : option (string * option string)) : list lexeme :=
  match sz with
  | None => []
  | Some (p, None) => [LPx; W p; RPx]
  | Some (p, Some s) => [LPx; W p; CMx; W s; RPx]
  end.
Definition attr_lexemes (a : attr) : list lexeme := W (at_name a) :: W (at_type a) :: size_lexemes (at_size a).
Fixpoint comma_attrs (l : list attr) : list lexeme :=
  match l with [] => [] | a :: r => CMx :: attr_lexemes a ++ comma_attrs r end.
Definition name_lexemes (o : tobj) : list lexeme :=
  match o_schema o with Some s => [W s; DOTL; W (o_name o)] | None => [W (o_name o)] end.
Definition lexemes (o : tobj) : list lexeme :=
  W (o_create o) :: W (o_type o) :: name_lexemes o ++ [W (o_as o); W (o_base o); LPx] ++ attr_lexemes (o_first o) ++ comma_attrs (o_rest o) ++ [RPx].

Definition size_letters (sz : option (string * option string)) : list letter :=
  match sz with
  | None => []
  | Some (_, None) => [LPl; G; RPl]
  | Some (_, Some _) => [LPl; G; CMl; G; RPl]
  end.
Definition attr_letters (a : attr) : list letter := G :: G :: size_letters (at_size a).
Fixpoint comma_letters (l : list attr) : list letter :=
  match l with [] => [] | a :: r => CMl :: attr_letters a ++ comma_letters r end.
Definition name_letters (o : tobj) : list letter := match o_schema o with Some _ => [G; LDot; G] | None => [G] end.
Definition letters (o : tobj) : list letter :=
  K "CREATE" :: K "TYPE" :: name_letters o ++ [K "AS"; G; LPl] ++ attr_letters (o_first o) ++ comma_letters (o_rest o) ++ [RPl].

Definition alphabet : list letter := [K "CREATE"; K "TYPE"; K "AS"; G; LDot; LPl; RPl; CMl].

(* what C18 prescribes: one type entity; for OBJECT the attributes in order, each with its name, type and size as written *)
Definition attr_size (a : attr) : pyval :=
  match at_size a with
  | None => PNone
  | Some (p, None) => size_val p
  | Some (p, Some s) => PTuple [size_val p; size_val s]
  end.
Definition attr_value (norm : bool) (a : attr) : pyval :=
  PDict [("name", nmv norm (at_name a)); ("type", nmv norm (at_type a)); ("size", attr_size a)].
Definition props (norm : bool) (o : tobj) : pyval :=
  let vals := PList (map (attr_value norm) (o_attrs o)) in
  PDict (if String.eqb (upper (nms norm (o_base o))) "ENUM" then [("values", vals)]
         else if String.eqb (upper (nms norm (o_base o))) "OBJECT" then [("attributes", vals)] else []).
Definition denote (norm : bool) (o : tobj) : pyval :=
  PDict [("schema", onm norm (o_schema o)); ("type_name", nmv norm (o_name o)); ("properties", props norm o); ("base_type", nmv norm (o_base o))].

(* ---------- reference machine ---------------------------------------------------------------------------------------------------------- *)
(* first: reading the first attribute (its multiple_column_names reduction differs) *)
Inductive q :=
| Q0 | Q1 | N0 | N1 | ND | N2 | QAs (s : bool) | QB | AN (first : bool) | AT (first : bool)
| AE (first : bool)                      (* after the type word *)
| S0 (first : bool) | S1 (first : bool) | S2 (first : bool) | S3 (first : bool) | S4 (first : bool) | S5 (first : bool)
| AC | Done.
Definition q_eqb (a b : q) : bool :=
  match a, b with
  | Q0, Q0 | Q1, Q1 | N0, N0 | N1, N1 | ND, ND | N2, N2 | QB, QB | AC, AC | Done, Done => true
  | QAs x, QAs y | AN x, AN y | AT x, AT y | AE x, AE y | S0 x, S0 y | S1 x, S1 y | S2 x, S2 y | S3 x, S3 y | S4 x, S4 y | S5 x, S5 y => Bool.eqb x y
  | _, _ => false
  end.
Lemma q_eqb_eq a b : q_eqb a b = true -> a = b.
Proof. destruct a, b; simpl; try congruence; intro H; apply Bool.eqb_prop in H; subst; reflexivity. Qed.

Definition name_red (s : bool) : string := if s then "type_name -> type_create id DOT id AS" else "type_name -> type_create id AS".
Definition mcn_red (first : bool) : string :=
  if first then "multiple_column_names -> column" else "multiple_column_names -> multiple_column_names column".
Definition col_reds : list string := ["id -> ID"; "c_type -> id"; "column -> id c_type"].
Definition isl (l m : letter) : bool := letter_eqb l m.

Definition fstep (s : q) (l : letter) : option (fout * q) :=
  match s with
  | Q0 => if is l "CREATE" then Some (([], "CREATE", Upper), Q1) else None
  | Q1 => if is l "TYPE" then Some (([], "TYPE", Upper), N0) else None
  | N0 => if isG l then Some ((["type_create -> CREATE TYPE"], "ID", Keep), N1) else None
  | N1 => if isl l LDot then Some ((["id -> ID"], "DOT", Keep), ND)
          else if is l "AS" then Some ((["id -> ID"], "AS", Upper), QAs false) else None
  | ND => if isG l then Some (([], "ID", Keep), N2) else None
  | N2 => if is l "AS" then Some ((["id -> ID"], "AS", Upper), QAs true) else None
  | QAs s => if isG l then Some (([name_red s], "ID", Keep), QB) else None
  | QB => if isl l LPl then Some ((["id -> ID"], "LP", Keep), AN true) else None
  | AN f => if isG l then Some (([], "ID", Keep), AT f) else None
  | AT f => if isG l then Some ((["id -> ID"], "ID", Keep), AE f) else None
  | AE f => if isl l CMl then Some (((col_reds ++ [mcn_red f])%list, "COMMA", Upper), AC)
            else if isl l RPl then Some (((col_reds ++ [mcn_red f])%list, "RP", Upper), Done)
            else if isl l LPl then Some ((col_reds, "LP", Keep), S0 f) else None
  | S0 f => if isG l then Some (([], "ID", Keep), S1 f) else None
  | S1 f => if isl l RPl then Some ((["id -> ID"], "RP", Upper), S2 f)
            else if isl l CMl then Some ((["id -> ID"], "COMMA", Upper), S3 f) else None
  | S2 f => if isl l CMl then Some ((["column -> column LP id RP"; mcn_red f], "COMMA", Upper), AC)
            else if isl l RPl then Some ((["column -> column LP id RP"; mcn_red f], "RP", Upper), Done) else None
  | S3 f => if isG l then Some (([], "ID", Keep), S4 f) else None
  | S4 f => if isl l RPl then Some ((["id -> ID"], "RP", Upper), S5 f) else None
  | S5 f => if isl l CMl then Some ((["column -> column LP id COMMA id RP"; mcn_red f], "COMMA", Upper), AC)
            else if isl l RPl then Some ((["column -> column LP id COMMA id RP"; mcn_red f], "RP", Upper), Done) else None
  | AC => if isG l then Some ((["multiple_column_names -> multiple_column_names COMMA"], "ID", Keep), AT false) else None
  | Done => None
  end.

Definition ffinish (s : q) : option (list string) :=
  match s with
  | Done => Some ["type_definition -> type_name id LP multiple_column_names RP"; "expr -> type_definition"]
  | _ => None
  end.

(* protocol: create, type, schema or "", name, as, base, then per attribute: name, type, p or "", s or "" *)
Fixpoint attrs_of_args (fuel : nat) (l : list string) : option (list attr) :=
  match fuel with
  | O => None
  | Datatypes.S f =>
    match l with
    | [] => Some []
    | n :: t :: p :: s :: r =>
      match attrs_of_args f r with
      | Some rest =>
        Some (mkAttr n t (if String.eqb p "" then None else Some (p, if String.eqb s "" then None else Some s)) :: rest)
      | None => None
      end
    | _ => None
    end
  end.
Definition tobj_of_args (l : list string) : option tobj :=
  match l with
  | c :: ty :: sch :: n :: a :: b :: rest =>
    match attrs_of_args (Datatypes.S (List.length rest)) rest with
    | Some (a1 :: more) => Some (mkTObj c ty (if String.eqb sch "" then None else Some sch) n a b a1 more)
    | _ => None
    end
  | _ => None
  end.
