(* Fragment "Alter": ALTER TABLE [schema.]name  followed by one of
     DROP COLUMN c | RENAME COLUMN a TO b | ADD c type | MODIFY [COLUMN] c type [(n)] | ALTER COLUMN c type [(n)]
     | ADD [CONSTRAINT n] UNIQUE ( c {, c} ) | ADD [CONSTRAINT n] PRIMARY KEY ( c {, c} )
     | ADD [CONSTRAINT n] FOREIGN KEY ( c {, c} ) REFERENCES [schema.]table ( c {, c} ) [ON DELETE a] [ON UPDATE a]
   AST, rendering to lexemes, the statement entity property C04 prescribes for the parser stage (denote), reference machine F. *)
From Coq Require Import String Ascii List ZArith NArith Bool.
From SDP Require Import Base PyStr Lexer Actions Engine Seq Entity Table.
Import ListNotations.
Open Scope string_scope.

(* ---------- AST ---------------------------------------------------------------------------------------------------------- *)
Definition names := (string * list string)%type.          (* a non-empty list of column names *)
Definition names_list (n : names) : list string := fst n :: snd n.

Inductive keykind := KUnique (kw : string) | KPrimary (kw1 kw2 : string).
Inductive modkind := MModifyColumn (kw1 kw2 : string) | MAlterColumn (kw1 kw2 : string) | MModify (kw : string).

Record fkref := mkFk {
  f_kw : string; f_schema : option string; f_table : string; f_cols : names;
  f_ondel : option (string * string * string); f_onupd : option (string * string * string)
}.

Inductive body :=
| BDrop (kw_drop kw_column c : string)
| BRename (kw_rename kw_column a to_ b : string)
| BAddCol (kw_add name ty : string)
| BModify (m : modkind) (name ty : string) (size : option string)
| BKey (kw_add : string) (cns : option (string * string)) (k : keykind) (cols : names)
| BFk (kw_add : string) (cns : option (string * string)) (kw_foreign kw_key : string) (cols : names) (r : fkref).

Record alter := mkAlter { a_alter : string; a_table : string; a_schema : option string; a_name : string; a_body : body }.

(* ---------- well-formedness ------------------------------------------------------------------------------------------------ *)
Definition wf_cons (c : option (string * string)) : bool :=
  match c with Some (kw, n) => is_kw kw "CONSTRAINT" && is_plain n | None => true end.
Definition wf_names (n : names) : bool := forallb is_plain (names_list n).
Definition wf_on (norm : bool) (o : option (string * string * string)) (what : string) : bool :=
  match o with Some (a, b, act) => is_kw a "ON" && is_kw b what && is_action_word norm act | None => true end.
Definition wf_body (norm : bool) (b : body) : bool :=
  match b with
  | BDrop d c x => is_kw d "DROP" && is_kw c "COLUMN" && is_plain x
  | BRename r c a t b => is_kw r "RENAME" && is_kw c "COLUMN" && is_plain a && is_plain t && is_plain b
  | BAddCol a n t => is_kw a "ADD" && is_plain n && negb (colname_bad (nms norm n)) && is_type_word norm t
  | BModify m n t sz =>
      match m with
      | MModifyColumn a b => is_kw a "MODIFY" && is_kw b "COLUMN"
      | MAlterColumn a b => is_kw a "ALTER" && is_kw b "COLUMN"
      | MModify a => is_kw a "MODIFY"
      end && is_plain n && negb (colname_bad (nms norm n)) && is_type_word norm t
      && match sz with Some z => is_digits z | None => true end
  | BKey a cns k cols =>
      is_kw a "ADD" && wf_cons cns
      && match k with KUnique u => is_kw u "UNIQUE" | KPrimary p k => is_kw p "PRIMARY" && is_kw k "KEY" end
      && wf_names cols
  | BFk a cns f k cols r =>
      is_kw a "ADD" && wf_cons cns && is_kw f "FOREIGN" && is_kw k "KEY" && wf_names cols
      && is_kw (f_kw r) "REFERENCES" && match f_schema r with Some s => is_plain s | None => true end && is_plain (f_table r)
      && wf_names (f_cols r) && wf_on norm (f_ondel r) "DELETE" && wf_on norm (f_onupd r) "UPDATE"
  end.
Definition wf (norm : bool) (a : alter) : bool :=
  is_kw (a_alter a) "ALTER" && is_kw (a_table a) "TABLE"
  && match a_schema a with Some s => is_plain s | None => true end && is_plain (a_name a) && wf_body norm (a_body a).

(* ---------- rendering ---------------------------------------------------------------------------------------------------------- *)
Fixpoint commas (l : list string) : list lexeme := match l with [] => [] | x :: r => CMx :: W x :: commas r end.
Definition names_lexemes (n : names) : list lexeme := LPx :: W (fst n) :: commas (snd n) ++ [RPx].
Definition cons_lexemes (c : option (string * string)) : list lexeme := match c with Some (kw, n) => [W kw; W n] | None => [] end.
Definition on_lexemes (o : option (string * string * string)) : list lexeme :=
  match o with Some (a, b, act) => [W a; W b; W act] | None => [] end.
Definition body_lexemes (b : body) : list lexeme :=
  match b with
  | BDrop d c x => [W d; W c; W x]
  | BRename r c a t b => [W r; W c; W a; W t; W b]
  | BAddCol a n t => [W a; W n; W t]
  | BModify m n t sz =>
      (match m with MModifyColumn a b | MAlterColumn a b => [W a; W b] | MModify a => [W a] end)
      ++ [W n; W t] ++ (match sz with Some z => [LPx; W z; RPx] | None => [] end)
  | BKey a cns k cols =>
      W a :: cons_lexemes cns ++ (match k with KUnique u => [W u] | KPrimary p k => [W p; W k] end) ++ names_lexemes cols
  | BFk a cns f k cols r =>
      W a :: cons_lexemes cns ++ [W f; W k] ++ names_lexemes cols
      ++ W (f_kw r) :: (match f_schema r with Some s => [W s; DOTL] | None => [] end) ++ [W (f_table r)]
      ++ names_lexemes (f_cols r) ++ on_lexemes (f_ondel r) ++ on_lexemes (f_onupd r)
  end.
Definition lexemes (a : alter) : list lexeme :=
  W (a_alter a) :: W (a_table a) :: (match a_schema a with Some s => [W s; DOTL] | None => [] end) ++ [W (a_name a)]
  ++ body_lexemes (a_body a).

(* ---------- denotation: the statement entity handed to the output stage -------------------------------------------------------- *)
Definition nlist (norm : bool) (n : names) : pyval := PList (map (nmv norm) (names_list n)).
Definition cons_name (norm : bool) (c : option (string * string)) : pyval := match c with Some (_, n) => nmv norm n | None => PNone end.
Definition plain_col (norm : bool) (n t : string) (sz : pyval) : pyval := PDict (cdict (nms norm n) (nms norm t) sz cs0).

Definition denote (norm : bool) (a : alter) : pyval :=
  let alt := [("alter_table_name", nmv norm (a_name a)); ("schema", onm norm (a_schema a))] in
  PDict
  match a_body a with
  | BDrop _ _ x => alt ++ [("columns_to_drop", PList [nmv norm x])]
  | BRename _ _ x _ y => alt ++ [("columns_to_rename", PList [PDict [("from", nmv norm x); ("to", nmv norm y)]])]
  | BAddCol _ n t => alt ++ [("columns", PList [plain_col norm n t PNone])]
  | BModify _ n t sz => alt ++ [("columns_to_modify", PList [plain_col norm n t (match sz with Some z => size_val z | None => PNone end)])]
  | BKey _ cns k cols =>
      alt ++ [(match k with KUnique _ => "unique" | KPrimary _ _ => "primary_key" end,
               PDict [("constraint_name", cons_name norm cns); ("columns", nlist norm cols)])]
  | BFk _ cns _ _ cols r =>
      alt ++ [("columns", PList (map (fun c => PDict (("name", nmv norm c) ::
                                                       match cns with Some (_, n) => [("constraint_name", nmv norm n)] | None => [] end))
                                     (names_list cols)));
              ("references", PDict [("table", nmv norm (f_table r)); ("columns", nlist norm (f_cols r)); ("schema", onm norm (f_schema r));
                                    ("on_delete", on_val norm (f_ondel r)); ("on_update", on_val norm (f_onupd r));
                                    ("deferrable_initially", PNone)])]
  end%list.

(* ---------- letters --------------------------------------------------------------------------------------------------------------- *)
Fixpoint comma_letters (l : list string) : list letter := match l with [] => [] | _ :: r => CMl :: G :: comma_letters r end.
Definition names_letters (n : names) : list letter := LPl :: G :: comma_letters (snd n) ++ [RPl].
Definition cons_letters (c : option (string * string)) : list letter := match c with Some _ => [K "CONSTRAINT"; G] | None => [] end.
Definition on_letters (o : option (string * string * string)) (what : string) : list letter :=
  match o with Some _ => [K "ON"; K what; G] | None => [] end.
Definition body_letters (b : body) : list letter :=
  match b with
  | BDrop _ _ _ => [K "DROP"; K "COLUMN"; G]
  | BRename _ _ _ _ _ => [K "RENAME"; K "COLUMN"; G; G; G]
  | BAddCol _ _ _ => [K "ADD"; G; G]
  | BModify m _ _ sz =>
      (match m with MModifyColumn _ _ => [K "MODIFY"; K "COLUMN"] | MAlterColumn _ _ => [K "ALTER"; K "COLUMN"] | MModify _ => [K "MODIFY"] end)
      ++ [G; G] ++ (match sz with Some _ => [LPl; G; RPl] | None => [] end)
  | BKey _ cns k cols =>
      K "ADD" :: cons_letters cns ++ (match k with KUnique _ => [K "UNIQUE"] | KPrimary _ _ => [K "PRIMARY"; K "KEY"] end) ++ names_letters cols
  | BFk _ cns _ _ cols r =>
      K "ADD" :: cons_letters cns ++ [K "FOREIGN"; K "KEY"] ++ names_letters cols
      ++ K "REFERENCES" :: (match f_schema r with Some _ => [G; LDot] | None => [] end) ++ [G]
      ++ names_letters (f_cols r) ++ on_letters (f_ondel r) "DELETE" ++ on_letters (f_onupd r) "UPDATE"
  end.
Definition letters (a : alter) : list letter :=
  K "ALTER" :: K "TABLE" :: (match a_schema a with Some _ => [G; LDot] | None => [] end) ++ [G] ++ body_letters (a_body a).

Definition alphabet : list letter :=
  [K "ALTER"; K "TABLE"; G; LDot; LPl; RPl; CMl; K "ADD"; K "DROP"; K "RENAME"; K "MODIFY"; K "COLUMN"; K "UNIQUE"; K "PRIMARY"; K "KEY";
   K "CONSTRAINT"; K "FOREIGN"; K "REFERENCES"; K "ON"; K "DELETE"; K "UPDATE"].

(* ---------- reference machine -------------------------------------------------------------------------------------------------------- *)
Inductive lk := LUq (named : bool) | LPk (named : bool) | LFk (named : bool) | LRef.      (* which column list is being read *)
Inductive mk := MkModC | MkAltC | MkMod | MkAdd.                                                   (* which single-column form *)

Inductive q :=
| A0 | A1 | A2 | AN1 | AND_ | AN2
| AD | DR | DRC | DRDone | RN | RNC | RN1 | RN2 | RNDone
| MD | AL | ALC | MC0 (m : mk) | MC1 (m : mk) | MC2 (m : mk) | MS0 (m : mk) | MS1 (m : mk) | MS2 (m : mk)
| CN0 | CN1 | KU0 (n : bool) | KP0 (n : bool) | KP1 (n : bool) | KF0 (n : bool) | KF1 (n : bool)
| PID0 (k : lk) | PID1 (k : lk) | PIDn (k : lk) | PIDm (k : lk) | PEnd (k : lk)
| FR0 | FR1 | FRD | FR2 | RON (upd_only : bool) | ROD | ROU | RDel | RUpd.

Definition lk_eqb (a b : lk) : bool :=
  match a, b with LUq x, LUq y | LPk x, LPk y | LFk x, LFk y => Bool.eqb x y | LRef, LRef => true | _, _ => false end.
Definition mk_eqb (a b : mk) : bool :=
  match a, b with MkModC, MkModC | MkAltC, MkAltC | MkMod, MkMod | MkAdd, MkAdd => true | _, _ => false end.
Definition q_eqb (a b : q) : bool :=
  match a, b with
  | A0, A0 | A1, A1 | A2, A2 | AN1, AN1 | AND_, AND_ | AN2, AN2 | AD, AD | DR, DR | DRC, DRC | DRDone, DRDone | RN, RN | RNC, RNC
  | RN1, RN1 | RN2, RN2 | RNDone, RNDone | MD, MD | AL, AL | ALC, ALC | CN0, CN0 | CN1, CN1 | FR0, FR0 | FR1, FR1 | FRD, FRD | FR2, FR2
  | ROD, ROD | ROU, ROU | RDel, RDel | RUpd, RUpd => true
  | MC0 x, MC0 y | MC1 x, MC1 y | MC2 x, MC2 y | MS0 x, MS0 y | MS1 x, MS1 y | MS2 x, MS2 y => mk_eqb x y
  | KU0 x, KU0 y | KP0 x, KP0 y | KP1 x, KP1 y | KF0 x, KF0 y | KF1 x, KF1 y | RON x, RON y => Bool.eqb x y
  | PID0 x, PID0 y | PID1 x, PID1 y | PIDn x, PIDn y | PIDm x, PIDm y | PEnd x, PEnd y => lk_eqb x y
  | _, _ => false
  end.
Lemma lk_eqb_eq a b : lk_eqb a b = true -> a = b.
Proof. destruct a, b; simpl; try congruence; intro H; apply Bool.eqb_prop in H; congruence. Qed.
Lemma mk_eqb_eq a b : mk_eqb a b = true -> a = b.
Proof. destruct a, b; simpl; congruence. Qed.
Lemma q_eqb_eq a b : q_eqb a b = true -> a = b.
Proof.
  destruct a, b; simpl; try congruence; intro H;
    first [ apply mk_eqb_eq in H; congruence | apply lk_eqb_eq in H; congruence | apply Bool.eqb_prop in H; congruence ].
Qed.

Definition alt_reds (dotted : bool) : list string :=
  ["id -> ID"; if dotted then "t_name -> id DOT id" else "t_name -> id"; "alt_table -> ALTER TABLE t_name"].
Definition after_name (dotted : bool) (l : letter) : option (fout * q) :=
  if is l "ADD" then Some ((alt_reds dotted, "ADD", Upper), AD)
  else if is l "DROP" then Some ((alt_reds dotted, "DROP", Upper), DR)
  else if is l "RENAME" then Some ((alt_reds dotted, "RENAME", Upper), RN)
  else if is l "MODIFY" then Some ((alt_reds dotted, "MODIFY", Upper), MD)
  else if is l "ALTER" then Some ((alt_reds dotted, "ALTER", Upper), AL)
  else None.
Definition cons_reds : list string := ["id -> ID"; "constraint -> CONSTRAINT id"].
Definition pid_first : list string := ["id -> ID"; "pid -> id"].
Definition pid_next : list string := ["id -> ID"; "pid -> pid COMMA id"].
Definition idk : fout := ([], "ID", Keep).

Definition fstep (s : q) (l : letter) : option (fout * q) :=
  match s with
  | A0 => if is l "ALTER" then Some (([], "ALTER", Upper), A1) else None
  | A1 => if is l "TABLE" then Some (([], "TABLE", Upper), A2) else None
  | A2 => if isG l then Some (idk, AN1) else None
  | AN1 => if isl l LDot then Some ((["id -> ID"], "DOT", Keep), AND_) else after_name false l
  | AND_ => if isG l then Some (idk, AN2) else None
  | AN2 => after_name true l
  | DR => if is l "COLUMN" then Some (([], "COLUMN", Upper), DRC) else None
  | DRC => if isG l then Some (idk, DRDone) else None
  | RN => if is l "COLUMN" then Some (([], "COLUMN", Upper), RNC) else None
  | RNC => if isG l then Some (idk, RN1) else None
  | RN1 => if isG l then Some ((["id -> ID"], "ID", Keep), RN2) else None
  | RN2 => if isG l then Some ((["id -> ID"], "ID", Keep), RNDone) else None
  | MD => if is l "COLUMN" then Some (([], "COLUMN", Upper), MC0 MkModC)
          else if isG l then Some (idk, MC1 MkMod) else None
  | AL => if is l "COLUMN" then Some (([], "COLUMN", Upper), MC0 MkAltC) else None
  | ALC => None
  | MC0 m => if isG l then Some (idk, MC1 m) else None
  | MC1 m => if isG l then Some ((["id -> ID"], "ID", Keep), MC2 m) else None
  | MC2 m => if isl l LPl && negb (mk_eqb m MkAdd) then Some ((["id -> ID"; "c_type -> id"; "column -> id c_type"], "LP", Keep), MS0 m) else None
  | MS0 m => if isG l then Some (idk, MS1 m) else None
  | MS1 m => if isl l RPl then Some ((["id -> ID"], "RP", Upper), MS2 m) else None
  | AD => if is l "UNIQUE" then Some (([], "UNIQUE", Upper), KU0 false)
          else if is l "PRIMARY" then Some (([], "PRIMARY", Upper), KP0 false)
          else if is l "FOREIGN" then Some (([], "FOREIGN", Upper), KF0 false)
          else if is l "CONSTRAINT" then Some (([], "CONSTRAINT", Upper), CN0)
          else if isG l then Some (idk, MC1 MkAdd) else None
  | CN0 => if isG l then Some (idk, CN1) else None
  | CN1 => if is l "UNIQUE" then Some ((cons_reds, "UNIQUE", Upper), KU0 true)
           else if is l "PRIMARY" then Some ((cons_reds, "PRIMARY", Upper), KP0 true)
           else if is l "FOREIGN" then Some ((cons_reds, "FOREIGN", Upper), KF0 true) else None
  | KU0 n => if isl l LPl then Some (([], "LP", Keep), PID0 (LUq n)) else None
  | KP0 n => if is l "KEY" then Some (([], "KEY", Upper), KP1 n) else None
  | KP1 n => if isl l LPl then Some (([], "LP", Keep), PID0 (LPk n)) else None
  | KF0 n => if is l "KEY" then Some (([], "KEY", Upper), KF1 n) else None
  | KF1 n => if isl l LPl then Some (([], "LP", Keep), PID0 (LFk n)) else None
  | PID0 k => if isG l then Some (idk, PID1 k) else None
  | PID1 k => if isl l CMl then Some ((pid_first, "COMMA", Upper), PIDn k)
              else if isl l RPl then Some ((pid_first, "RP", Upper), PEnd k) else None
  | PIDn k => if isG l then Some (idk, PIDm k) else None
  | PIDm k => if isl l CMl then Some ((pid_next, "COMMA", Upper), PIDn k)
              else if isl l RPl then Some ((pid_next, "RP", Upper), PEnd k) else None
  | PEnd (LFk n) =>
      if is l "REFERENCES" then
        Some ((["foreign -> FOREIGN KEY LP pid RP";
                if n then "alter_foreign -> alt_table ADD constraint foreign" else "alter_foreign -> alt_table ADD foreign"],
               "REFERENCES", Upper), FR0)
      else None
  | PEnd LRef => if is l "ON" then Some ((["ref -> ref LP pid RP"], "ON", Upper), RON false) else None
  | PEnd _ => None
  | FR0 => if isG l then Some (idk, FR1) else None
  | FR1 => if isl l LDot then Some ((["id -> ID"], "DOT", Keep), FRD)
           else if isl l LPl then Some ((["id -> ID"; "t_name -> id"; "ref -> REFERENCES t_name"], "LP", Keep), PID0 LRef) else None
  | FRD => if isG l then Some (idk, FR2) else None
  | FR2 => if isl l LPl then Some ((["id -> ID"; "t_name -> id DOT id"; "ref -> REFERENCES t_name"], "LP", Keep), PID0 LRef) else None
  | RON u => if negb u && is l "DELETE" then Some (([], "DELETE", Upper), ROD)
             else if is l "UPDATE" then Some (([], "UPDATE", Upper), ROU) else None
  | ROD => if isG l then Some (idk, RDel) else None
  | ROU => if isG l then Some (idk, RUpd) else None
  | RDel => if is l "ON" then Some ((["id -> ID"; "ref -> ref ON DELETE id"], "ON", Upper), RON true) else None
  | DRDone | RNDone | MS2 _ | RUpd => None
  end.

Definition mk_close (m : mk) : list string :=
  match m with
  | MkModC => ["alter_column_modify -> alt_table MODIFY COLUMN defcolumn"; "expr -> alter_column_modify"]
  | MkAltC => ["alter_column_sql_server -> alt_table ALTER COLUMN defcolumn"; "expr -> alter_column_sql_server"]
  | MkMod => ["alter_column_modify_oracle -> alt_table MODIFY defcolumn"; "expr -> alter_column_modify_oracle"]
  | MkAdd => ["alter_column_add -> alt_table ADD defcolumn"; "expr -> alter_column_add"]
  end.
Definition ffinish (s : q) : option (list string) :=
  match s with
  | DRDone => Some ["id -> ID"; "alter_drop_column -> alt_table DROP COLUMN id"; "expr -> alter_drop_column"]
  | RNDone => Some ["id -> ID"; "alter_rename_column -> alt_table RENAME COLUMN id id id"; "expr -> alter_rename_column"]
  | MC2 m => Some (["id -> ID"; "c_type -> id"; "column -> id c_type"; "defcolumn -> column"] ++ mk_close m)%list
  | MS2 m => Some (["column -> column LP id RP"; "defcolumn -> column"] ++ mk_close m)%list
  | PEnd (LUq n) => Some [if n then "alter_unique -> alt_table ADD constraint UNIQUE LP pid RP" else "alter_unique -> alt_table ADD UNIQUE LP pid RP";
                          "expr -> alter_unique"]
  | PEnd (LPk n) => Some [if n then "alter_primary_key -> alt_table ADD constraint PRIMARY KEY LP pid RP"
                          else "alter_primary_key -> alt_table ADD PRIMARY KEY LP pid RP"; "expr -> alter_primary_key"]
  | PEnd LRef => Some ["ref -> ref LP pid RP"; "expr -> alter_foreign ref"]
  | RDel => Some ["id -> ID"; "ref -> ref ON DELETE id"; "expr -> alter_foreign ref"]
  | RUpd => Some ["id -> ID"; "ref -> ref ON UPDATE id"; "expr -> alter_foreign ref"]
  | _ => None
  end.

(* ---------- protocol: an AST given as flat arguments (harness) ------------------------------------------------------------------- *)
Definition take_names (l : list string) : option (names * list string) :=
  match l with
  | cnt :: r =>
      match int_of_string cnt with
      | Some z =>
          let n := Z.to_nat z in
          match firstn n r with
          | x :: xs => if Nat.eqb (List.length (x :: xs)) n then Some ((x, xs), skipn n r) else None
          | [] => None
          end
      | None => None
      end
  | [] => None
  end.
Definition cons_of (ck cn : string) : option (string * string) := if String.eqb ck "" then None else Some (ck, cn).
Definition body_of_args (l : list string) : option body :=
  match l with
  | ["DROP"; d; c; x] => Some (BDrop d c x)
  | ["REN"; r; c; a; t; b] => Some (BRename r c a t b)
  | ["ADDC"; a; n; t] => Some (BAddCol a n t)
  | ["MOD"; kind; k1; k2; n; t; sz] =>
      let m := if String.eqb kind "MC" then MModifyColumn k1 k2 else if String.eqb kind "AC" then MAlterColumn k1 k2 else MModify k1 in
      Some (BModify m n t (onone sz))
  | "KEY" :: a :: ck :: cn :: kind :: k1 :: k2 :: rest =>
      match take_names rest with
      | Some (cols, []) => Some (BKey a (cons_of ck cn) (if String.eqb kind "U" then KUnique k1 else KPrimary k1 k2) cols)
      | _ => None
      end
  | "FK" :: a :: ck :: cn :: f :: k :: rest =>
      match take_names rest with
      | Some (cols, rk :: rs :: rt :: rest2) =>
          match take_names rest2 with
          | Some (rcols, [da; db; dc; ua; ub; uc]) =>
              Some (BFk a (cons_of ck cn) f k cols (mkFk rk (onone rs) rt rcols (on_of da db dc) (on_of ua ub uc)))
          | _ => None
          end
      | _ => None
      end
  | _ => None
  end.
Definition alter_of_args (l : list string) : option alter :=
  match l with
  | al :: tb :: sch :: nm :: rest => match body_of_args rest with Some b => Some (mkAlter al tb (onone sch) nm b) | None => None end
  | _ => None
  end.
