(* Property C10 — output_mode only filters presentation. *)
From Coq Require Import String Ascii List ZArith NArith Bool.
From SDP Require Import Base PyStr Lexer Actions Parse Engine Seq Entity Output OutputProofs Documented FieldsFacts Table TableProofs TableOutProofs TableModesProofs.
From SDP.Gen Require Fields Tokens.
Import ListNotations.
Open Scope string_scope.

(* what to_dict emits, for every mode and object: exactly the entries that pass the metadata filter *)
Theorem C10_to_dict_is_a_filter : forall mode hooks fs obj out,
  mode_info mode = Some (hooks, fs) -> to_dict mode obj = Ok out ->
  forall k' v, In (k', v) out <->
    exists k, In (k, v) obj /\ filter_out fs obj k = true /\ k' = out_key fs k /\
              ~ (hook hooks "to_dict" = "BigQuery.to_dict" /\ k = "schema").
Proof. exact to_dict_spec. Qed.
Print Assumptions C10_to_dict_is_a_filter.

(* a dialect-specific field is filtered out in every mode that is not documented for it *)
Theorem C10_dialect_field_only_in_its_modes : forall fs obj k f mode,
  find_field fs k = Some f -> f_has_modes f = true -> mem mode (f_output_modes f) = false ->
  get_or_none obj "output_mode" = PStr mode -> filter_out fs obj k = false.
Proof. exact dialect_field_filtered. Qed.
Print Assumptions C10_dialect_field_only_in_its_modes.

(* the metadata of the current tree IS the documented catalogue, mode by mode (closed computation) *)
Theorem C10_metadata_is_documented :
  map (fun m => (fst m, dialect_fields_of m)) Fields.mode_fields = documented.
Proof. exact metadata_is_documented. Qed.
Print Assumptions C10_metadata_is_documented.

(* every supported mode has field metadata, known hooks, always-shown common keys, no alias collisions *)
Theorem C10_every_mode_well_formed : forallb mode_ok Fields.mode_fields = true /\ all_modes = Tokens.modes.
Proof. split; [exact all_modes_ok | exact modes_are_dialect_by_name]. Qed.
Print Assumptions C10_every_mode_well_formed.

(* ALTER ... ADD FOREIGN KEY with several columns: the BigQuery hook is idempotent (defect D3, fixed) *)
Theorem C10_bigquery_ref_hook_idempotent : forall hooks r r1,
  prepare_ref_statement hooks r = Ok r1 -> prepare_ref_statement hooks r1 = Ok r1 \/ hook hooks "prepare_ref_statement" = "BigQuery.prepare_ref_statement".
Proof.
  intros hooks r r1 H. unfold prepare_ref_statement in *.
  destruct (String.eqb (hook hooks "prepare_ref_statement") "BaseData.prepare_ref_statement"); [left; inversion H; reflexivity|].
  destruct (String.eqb (hook hooks "prepare_ref_statement") "BigQuery.prepare_ref_statement") eqn:E; [|discriminate].
  right. apply String.eqb_eq. exact E.
Qed.
Print Assumptions C10_bigquery_ref_hook_idempotent.

(* ---------- the common view, proved: from the lexemes of the statement to what EVERY output mode reports -----------------------
   For every CREATE TABLE of the core fragment (any number of columns and inline options, Props/C01.v) and every supported mode:
   no error, one table entity, and its common view — table_name, primary_key, the columns restricted to the eight column keys,
   alter, checks, index, partitioned_by, tablespace, and the schema under the mode's key (dataset for bigquery) — is exactly
   the one of mode sql ([final_table]).  oracle and redshift add one key (encrypt / encode) to every column and nothing else.
   [modes_covered] is checked against the regenerated list of modes: a new mode breaks this proof until it is classified. *)
Theorem C10_common_view_table_fragment : forall t norm silent m, Table.wf norm t = true -> In m Tokens.modes ->
  nms norm (t_name t) <> "" -> match t_schema t with Some s => nms norm s <> "" | None => True end ->
  parse_lexemes norm silent (Table.lexemes t) = Ok (Some (Table.denote norm t)) /\
  exists tm, Output.format m false [Table.denote norm t] = Ok (PList [PDict tm]) /\
             common_view tm = common_view (final_table (onm norm (t_schema t)) (PStr (nms norm (t_name t))) (cds norm t)) /\
             get_or_none tm (schema_key m) = onm norm (t_schema t).
Proof. exact table_every_mode. Qed.
Print Assumptions C10_common_view_table_fragment.

Theorem C10_common_view_any_columns : forall m sch n (l : list cd), In m Tokens.modes ->
  (sch = PNone \/ exists c s, sch = PStr (String c s)) -> n <> "" ->
  exists t, Output.format m false [PDict (tdict sch (PStr n) (map cd_dict l))] = Ok (PList [PDict t]) /\
            common_view t = common_view (final_table sch (PStr n) l) /\ get_or_none t (schema_key m) = sch.
Proof. exact common_view_every_mode. Qed.
Print Assumptions C10_common_view_any_columns.
