(* Property C04 — ALTER TABLE / CREATE INDEX change exactly the table they name, as declared. *)
From Coq Require Import String Ascii List ZArith NArith Bool.
From SDP Require Import Base PyStr Lexer Actions Parse Engine Seq Entity Output OutputProofs Table Alter AlterProofs AlterKeyProofs AlterEffectProofs.
Import ListNotations.
Open Scope string_scope.

(* Routing, for EVERY registry state, mode and statement: an ALTER TABLE / CREATE INDEX step never changes the result
   order, the registry or the number of tables, and changes AT MOST the one table registered under the id of the
   (schema, name) it names — every other table object (same name in another schema included) is untouched. *)
Theorem C04_only_the_named_table : forall mode st stmt_v st' stmt,
  stmt_v = PDict stmt -> is_alter_or_index stmt = true -> step mode st stmt_v = Ok st' ->
  o_result st' = o_result st /\ o_registry st' = o_registry st /\
  List.length (o_tables st') = List.length (o_tables st) /\
  (st' = st \/
   exists i t sch tn id,
     get_table_id sch tn = Ok id /\ lookup_table (o_registry st) id = Some i /\ nth_error (o_tables st) i = Some t /\
     forall j, j <> i -> nth_error (o_tables st') j = nth_error (o_tables st) j).
Proof. exact alter_index_only_target. Qed.
Print Assumptions C04_only_the_named_table.

(* a statement naming a table that is not registered raises ValueError (nothing is attached anywhere) *)
Theorem C04_missing_table_raises : forall st sch tn id,
  get_table_id sch tn = Ok id -> lookup_table (o_registry st) id = None ->
  get_table_from_tables_data st sch tn = Raise ValueError.
Proof. exact missing_table_raises. Qed.
Print Assumptions C04_missing_table_raises.

(* CREATE TABLE never touches tables emitted earlier *)
Theorem C04_create_leaves_others : forall mode st stmt_v st' stmt,
  stmt_v = PDict stmt -> is_alter_or_index stmt = false -> step mode st stmt_v = Ok st' ->
  forall j, j < List.length (o_tables st) -> nth_error (o_tables st') j = nth_error (o_tables st) j.
Proof. exact create_leaves_others. Qed.
Print Assumptions C04_create_leaves_others.

(* matching ignores identifier quoting (any delimiters around the name) and letter case, for ALL names *)
Theorem C04_match_ignores_quoting : forall q1 s q2, all_delims q1 = true -> all_delims q2 = true ->
  normalize_name (q1 ++ s ++ q2) = normalize_name s.
Proof. exact normalize_name_quoted. Qed.
Print Assumptions C04_match_ignores_quoting.
Theorem C04_match_ignores_case : forall s, normalize_name (upper s) = normalize_name s /\ normalize_name (lower s) = normalize_name s.
Proof. intro s. split; [apply normalize_name_upper | apply normalize_name_lower]. Qed.
Print Assumptions C04_match_ignores_case.

(* ADD DEFAULT v FOR c1, ..., ck sets the default of EVERY listed column (any k) and of no other column *)
Theorem C04_default_for_every_listed_column : forall t stmt dflt dcols v cols,
  getitem stmt "default" = Ok (PDict dflt) -> getitem dflt "columns" = Ok (PList dcols) -> dcols <> [] ->
  getitem dflt "value" = Ok v ->
  tget t "columns" = PList cols -> cols <> [] -> Forall col_ok cols ->
  set_default_columns_from_alter t stmt =
  Ok (dict_set t "columns"
               (PList (map (fun c => if py_in_list (col_name c) dcols then col_upd "default" v c else c) cols))).
Proof. exact alter_default_every_listed_column. Qed.
Print Assumptions C04_default_for_every_listed_column.

(* ADD UNIQUE: a single column is flagged, a multi-column one (any k <> 1) flags nothing *)
Theorem C04_add_unique_single_flags : forall t stmt u x cols,
  getitem stmt "unique" = Ok (PDict u) -> getitem u "columns" = Ok (PList [x]) ->
  tget t "columns" = PList cols -> cols <> [] -> Forall col_ok cols ->
  set_unique_columns_from_alter t stmt =
  Ok (dict_set t "columns" (PList (map (fun c => if py_in_list (col_name c) [x] then col_upd "unique" (PBool true) c else c) cols))).
Proof. exact alter_unique_single_flags. Qed.
Print Assumptions C04_add_unique_single_flags.
Theorem C04_add_unique_multi_flags_nothing : forall t stmt u ucols cols,
  getitem stmt "unique" = Ok (PDict u) -> getitem u "columns" = Ok (PList ucols) ->
  List.length ucols <> 1 -> tget t "columns" = PList cols ->
  set_unique_columns_from_alter t stmt = Ok t.
Proof. exact alter_unique_multi_never_flags. Qed.
Print Assumptions C04_add_unique_multi_flags_nothing.

(* non-vacuity: two tables named t in schemas a and b; an index on a.t lands on the first only *)
Definition ex_po : list pyval :=
  [PDict [("table_name", PStr "t"); ("schema", PStr "a"); ("columns", PList [PDict [("name", PStr "x"); ("type", PStr "int"); ("primary_key", PBool false)]])];
   PDict [("table_name", PStr "t"); ("schema", PStr "b"); ("columns", PList [PDict [("name", PStr "x"); ("type", PStr "int"); ("primary_key", PBool false)]])];
   PDict [("schema", PStr """A"""); ("index_name", PStr "i"); ("unique", PBool false); ("clustered", PBool false); ("table_name", PStr "[T]");
          ("columns", PList [PStr "x"]); ("detailed_columns", PList [])]].
Example C04_example :
  match format "sql" false ex_po with
  | Ok (PList [PDict t1; PDict t2]) =>
      match get_or_none t1 "index", get_or_none t2 "index" with
      | PList [_], PList [] => true
      | _, _ => false
      end
  | _ => false
  end = true.
Proof. vm_compute. reflexivity. Qed.

(* ---------- the declared effect on the column list, for ANY column list (entries with string names) --------------------------------
   DROP COLUMN removes the first column whose name matches modulo quoting and letter case, every other entry keeps its position;
   RENAME COLUMN gives that column the new name and keeps everything else; MODIFY / ALTER COLUMN replaces it in place and records
   the previous definition; ADD appends the new column unless one of that name exists; ADD PRIMARY KEY / UNIQUE are recorded in
   the alter section. *)
Theorem C04_drop_column_effect : forall t stmt alter c cols,
  tget t "alter" = PDict alter -> getitem stmt "columns_to_drop" = Ok (PList [PStr c]) ->
  tget t "columns" = PList cols -> Forall col_named cols ->
  exists alter' cols',
    alter_drop_columns t stmt = Ok (dict_set (dict_set t "alter" (PDict alter')) "columns" (PList cols')) /\
    match first_idx (normalize_name c) cols 0 with
    | Some k => cols' = remove_nth cols k /\ (exists x, nth_error cols k = Some x /\ get_or_none alter' "dropped_columns" = x)
    | None => cols' = cols
    end.
Proof. exact drop_column_effect. Qed.
Print Assumptions C04_drop_column_effect.
Theorem C04_rename_column_effect : forall t stmt alter a to old cols,
  tget t "alter" = PDict alter -> getitem stmt "columns_to_rename" = Ok (PList [PDict [("from", PStr a); ("to", to)]]) ->
  tget t "columns" = PList cols -> Forall col_named cols ->
  as_list (get_or_none (ensure_list_key alter "renamed_columns") "renamed_columns") = Ok old ->
  exists cols',
    alter_rename_columns t stmt =
    Ok (dict_set (dict_set t "alter" (PDict (dict_set (ensure_list_key alter "renamed_columns") "renamed_columns"
                                                       (PList (old ++ [PDict [("from", PStr a); ("to", to)]])))))
                 "columns" (PList cols')) /\
    match first_idx (normalize_name a) cols 0 with
    | Some k => exists x, nth_error cols k = Some x /\ cols' = replace_nth cols k (col_upd "name" to x)
    | None => cols' = cols
    end.
Proof. exact rename_column_effect. Qed.
Print Assumptions C04_rename_column_effect.
Theorem C04_modify_column_effect : forall t stmt alter m cols,
  tget t "alter" = PDict alter -> getitem stmt "columns_to_modify" = Ok (PList [m]) -> col_named m ->
  tget t "columns" = PList cols -> Forall col_named cols ->
  exists alter' cols',
    alter_modify_columns t stmt = Ok (dict_set (dict_set t "alter" (PDict alter')) "columns" (PList cols')) /\
    match first_idx (normalize_name (cname m)) cols 0 with
    | Some k => cols' = replace_nth cols k m /\ (exists x, nth_error cols k = Some x /\ get_or_none alter' "modified_columns" = x)
    | None => cols' = cols
    end.
Proof. exact modify_column_effect. Qed.
Print Assumptions C04_modify_column_effect.
Theorem C04_add_column_effect : forall hooks t stmt alter newc cols,
  tget t "alter" = PDict alter -> truthy (get_or_none alter "columns") = false ->
  getitem stmt "columns" = Ok (PList [newc]) -> truthy (get_or_none stmt "references") = false -> col_named newc ->
  tget t "columns" = PList cols -> Forall col_named cols ->
  prepare_alter_columns hooks t stmt =
  Ok (dict_set (dict_set t "alter" (PDict (dict_set alter "columns" (PList [newc])))) "columns"
               (PList (if mem (normalize_name (cname newc)) (map (fun c => normalize_name (cname c)) cols) then cols else cols ++ [newc]))).
Proof. exact add_column_effect. Qed.
Print Assumptions C04_add_column_effect.
Theorem C04_key_recorded : forall t stmt alter key item old,
  tget t "alter" = PDict alter -> getitem stmt key = Ok item -> dict_has stmt "using" = false ->
  as_list (get_or_none (ensure_list_key alter (key ++ "s")) (key ++ "s")) = Ok old ->
  set_alter_to_table_data t key stmt =
  Ok (dict_set t "alter" (PDict (dict_set (ensure_list_key alter (key ++ "s")) (key ++ "s") (PList (old ++ [item]))))).
Proof. exact key_recorded_effect. Qed.
Print Assumptions C04_key_recorded.

(* ---------- the grammar side: the statement entity of every ALTER TABLE of the fragment (Spec/Alter.v) ------------------------
   ALTER TABLE [schema.]name  DROP COLUMN c | RENAME COLUMN a TO b | ADD c type | MODIFY [COLUMN] c type [(n)] | ALTER COLUMN c type [(n)]
     | ADD [CONSTRAINT n] UNIQUE (c {, c}) | ADD [CONSTRAINT n] PRIMARY KEY (c {, c})
     | ADD [CONSTRAINT n] FOREIGN KEY (c {, c}) REFERENCES [schema.]table (c {, c}) [ON DELETE a] [ON UPDATE a]
   — column lists of ANY length, keywords in any letter case, both normalize_names settings, silent or not — is parsed by the
   model (real keyword tables + flag logic, real LALR tables, modelled actions) into exactly [Alter.denote]: the named table and
   schema, and the declared effect with its exact column list(s), constraint name and referenced table / columns / actions.
   Together with the theorems above (which are about what Output.format does with such an entity) this covers both halves. *)
Theorem C04_alter_statement_exact : forall a norm silent, Alter.wf norm a = true ->
  parse_lexemes norm silent (Alter.lexemes a) = Ok (Some (Alter.denote norm a)).
Proof. exact alter_parse. Qed.
Print Assumptions C04_alter_statement_exact.

(* non-vacuity: a script CREATE TABLE; ALTER ... ADD CONSTRAINT FOREIGN KEY; ALTER ... DROP COLUMN through the whole model *)
Definition ex_fk : alter :=
  mkAlter "alter" "TABLE" (Some "shop") "orders"
    (BFk "add" (Some ("CONSTRAINT", "fk_cust")) "foreign" "KEY" ("customer", ["region"])
         (mkFk "references" (Some "crm") "customers" ("id", ["region_id"]) (Some ("ON", "delete", "cascade")) (Some ("on", "UPDATE", "restrict")))).
Definition ex_fk_text : string :=
  "alter TABLE shop.orders add CONSTRAINT fk_cust foreign KEY ( customer , region ) references crm.customers ( id , region_id ) ON delete cascade on UPDATE restrict ".
Example C04_alter_example :
  Alter.wf false ex_fk = true /\ Alter.wf true ex_fk = true /\
  scan ex_fk_text = Ok (Alter.lexemes ex_fk) /\
  parse_statement false false ex_fk_text = Ok (Some (Alter.denote false ex_fk)) /\
  Alter.wf false (mkAlter "ALTER" "table" None "t" (BKey "ADD" None (KPrimary "primary" "key") ("a", ["b"; "c"]))) = true.
Proof. vm_compute. repeat split. Qed.
