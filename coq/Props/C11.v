(* Property C11 — dialect clauses are captured under their key, orthogonal to the table body (placement part). *)
From Coq Require Import String Ascii List ZArith NArith Bool.
From SDP Require Import Base PyStr Actions Output OutputProofs FieldsFacts Clauses ClauseProofs.
From SDP.Gen Require Fields.
Import ListNotations.
Open Scope string_scope.

(* For every clause key of the catalogue (33 clauses of 10 dialects): in its owning mode the key is a field that comes out at top
   level when provided (or, for the catalogue's 'table_properties' entries, is not a field there), and in the default mode it is a
   base field or goes to table_properties — exactly as documented; computed from the live field metadata of every mode. *)
Theorem C11_catalogue_placement_matches_metadata : forallb clause_ok clause_catalogue = true.
Proof. exact catalogue_matches_metadata. Qed.
Print Assumptions C11_catalogue_placement_matches_metadata.

(* what to_dict emits is decided per key by the metadata filter alone: adding a clause key never removes or changes another key *)
Theorem C11_keys_are_filtered_independently : forall mode hooks fs obj out,
  mode_info mode = Some (hooks, fs) -> to_dict mode obj = Ok out ->
  forall k' v, In (k', v) out <->
    exists k, In (k, v) obj /\ filter_out fs obj k = true /\ k' = out_key fs k /\
              ~ (hook hooks "to_dict" = "BigQuery.to_dict" /\ k = "schema").
Proof. exact to_dict_spec. Qed.
Print Assumptions C11_keys_are_filtered_independently.

(* non-vacuity through the whole output model: STORED AS lands at top level in hql and under table_properties in sql *)
Definition ex_stmt : pyval :=
  PDict [("table_name", PStr "t"); ("schema", PNone);
         ("columns", PList [PDict [("name", PStr "a"); ("type", PStr "int"); ("primary_key", PBool false)]]);
         ("stored_as", PStr "TEXTFILE"); ("location", PStr "'s3://b/p'")].
Example C11_example :
  match format "hql" false [ex_stmt], format "sql" false [ex_stmt] with
  | Ok (PList [PDict h]), Ok (PList [PDict s]) =>
      pyval_eqb (get_or_none h "stored_as") (PStr "TEXTFILE") && pyval_eqb (get_or_none h "location") (PStr "'s3://b/p'")
      && negb (dict_has s "stored_as")
      && pyval_eqb (get_or_none s "table_properties") (PDict [("stored_as", PStr "TEXTFILE"); ("location", PStr "'s3://b/p'")])
      && pyval_eqb (get_or_none h "columns") (get_or_none s "columns")
  | _, _ => false
  end = true.
Proof. vm_compute. reflexivity. Qed.
