(* Property C11 — dialect clauses are captured under their key, orthogonal to the table body (placement part). *)
From Coq Require Import String Ascii List ZArith NArith Bool.
From SDP Require Import Base PyStr Lexer Actions Parse Output OutputProofs FieldsFacts Clauses ClauseProofs.
From SDP Require Table TableClauseProofs.
From SDP.Gen Require Fields.
Import ListNotations.
Open Scope string_scope.

(* For every clause key of the catalogue (33 clauses of 10 dialects): in its owning mode the key is a field that comes out at top
   level when provided (or, for the catalogue's 'table_properties' entries, is not a field there), and in the default mode it is a
   base field or goes to table_properties — exactly as documented; computed from the live field metadata of every mode. *)
Theorem C11_catalogue_placement_matches_metadata : forallb clause_ok clause_catalogue = true.
Proof. exact catalogue_matches_metadata. Qed.
Print Assumptions C11_catalogue_placement_matches_metadata.

(* what to_dict emits is decided per key by the metadata filter alone: adding a clause key never removes or changes another key *)
Theorem C11_keys_are_filtered_independently : forall mode hooks fs obj out,
  mode_info mode = Some (hooks, fs) -> to_dict mode obj = Ok out ->
  forall k' v, In (k', v) out <->
    exists k, In (k, v) obj /\ filter_out fs obj k = true /\ k' = out_key fs k /\
              ~ (hook hooks "to_dict" = "BigQuery.to_dict" /\ k = "schema").
Proof. exact to_dict_spec. Qed.
Print Assumptions C11_keys_are_filtered_independently.

(* non-vacuity through the whole output model: STORED AS lands at top level in hql and under table_properties in sql *)
Definition ex_stmt : pyval :=
  PDict [("table_name", PStr "t"); ("schema", PNone);
         ("columns", PList [PDict [("name", PStr "a"); ("type", PStr "int"); ("primary_key", PBool false)]]);
         ("stored_as", PStr "TEXTFILE"); ("location", PStr "'s3://b/p'")].
Example C11_example :
  match format "hql" false [ex_stmt], format "sql" false [ex_stmt] with
  | Ok (PList [PDict h]), Ok (PList [PDict s]) =>
      pyval_eqb (get_or_none h "stored_as") (PStr "TEXTFILE") && pyval_eqb (get_or_none h "location") (PStr "'s3://b/p'")
      && negb (dict_has s "stored_as")
      && pyval_eqb (get_or_none s "table_properties") (PDict [("stored_as", PStr "TEXTFILE"); ("location", PStr "'s3://b/p'")])
      && pyval_eqb (get_or_none h "columns") (get_or_none s "columns")
  | _, _ => false
  end = true.
Proof. vm_compute. reflexivity. Qed.

(* ---------- the grammar side for eighteen clauses, any number, subset and order ------------------------------------------------------------
   For EVERY statement  CREATE TABLE ... ( columns [, table-level clauses] )  clause*  with
     clause = TABLESPACE n | STORED AS f | LOCATION 'p' | ENGINE = e | COMMENT = 'c' | USING f | IN n | ROW FORMAT SERDE 'class' |
              ROW FORMAT word | word TERMINATED BY 'c' (FIELDS, LINES ...) | COLLECTION ITEMS TERMINATED BY 'c' |
              MAP KEYS TERMINATED BY 'c' | COMMENT 'text' | word word (DISTSTYLE EVEN ...) | INTO n BUCKETS |
              word (name) (DISTKEY (a)) | ON filegroup | TEXTIMAGE_ON filegroup
   (any number, any subset, any order, repetitions included; TABLESPACE x directly followed by IN or by a plain word is excluded:
   the grammar reads that as one tablespace clause with properties) the model — real keyword tables and flag logic, real LALR
   tables (338-configuration invariant),
   modelled actions — returns the entity of the clause-free statement with, for every clause in order, the clause's key set to
   the clause's value ([Table.denote_x]). *)
Theorem C11_clauses_after_the_table_exact : forall tx norm silent, Table.wf_x norm tx = true ->
  exists d, Table.denote_x norm tx = Ok d /\ parse_lexemes norm silent (Table.lexemes_x tx) = Ok (Some (PDict d)).
Proof. exact TableClauseProofs.table_x_parse. Qed.
Print Assumptions C11_clauses_after_the_table_exact.

(* orthogonality at the parser stage: a clause sets its own key to its declared value ... *)
Theorem C11_clause_sets_its_key : forall norm d c,
  dict_get (Table.clause_apply norm d c) (Table.clause_key norm c) = Some (Table.clause_value norm c).
Proof. exact TableClauseProofs.clause_sets_its_key. Qed.
Print Assumptions C11_clause_sets_its_key.
(* ... the table body and every other clause's key are untouched by any list of clauses that do not own the key ... *)
Theorem C11_clauses_keep_the_body : forall norm k cl d, Forall (fun c => Table.clause_key norm c <> k) cl ->
  dict_get (fold_left (Table.clause_apply norm) cl d) k = dict_get d k.
Proof. exact TableClauseProofs.clauses_keep_the_body. Qed.
Print Assumptions C11_clauses_keep_the_body.
(* ... and a clause's value is reported whatever comes before it and whatever clauses with OTHER keys come after it *)
Theorem C11_clause_value_reported : forall norm before c after d,
  Forall (fun c' => Table.clause_key norm c' <> Table.clause_key norm c) after ->
  dict_get (fold_left (Table.clause_apply norm) (before ++ c :: after) d) (Table.clause_key norm c) = Some (Table.clause_value norm c).
Proof. exact TableClauseProofs.clause_value_reported. Qed.
Print Assumptions C11_clause_value_reported.

(* non-vacuity: five clauses in an arbitrary order after a two-column table with a table-level key, through the whole statement pipeline *)
Definition ex_tx : Table.tablex :=
  Table.mkTableX
    (Table.mkTableC (Table.mkTable "CREATE" "TABLE" None "t" (Table.mkCol "a" "int" None None []) [Table.mkCol "b" "text" None None []])
                    [Table.TIPk None "PRIMARY" "KEY" ("a", [])])
    [Table.CEngine "engine" "InnoDB"; Table.CLocation "LOCATION" "'s3://b/p'"; Table.CTablespace "tablespace" "ts1";
     Table.CComment "Comment" "'tbl'"; Table.CStored "stored" "AS" "TEXTFILE"].
Definition ex_tx_text : string :=
  "CREATE TABLE t ( a int , b text , PRIMARY KEY ( a ) ) engine = InnoDB LOCATION 's3://b/p' tablespace ts1 Comment = 'tbl' stored AS TEXTFILE ".
Example C11_clauses_example :
  Table.wf_x false ex_tx = true /\ scan ex_tx_text = Ok (Table.lexemes_x ex_tx) /\
  match Table.denote_x false ex_tx with
  | Ok d => match parse_statement false false ex_tx_text with Ok (Some v) => Output.pyval_eqb v (PDict d) | _ => false end
            && Output.pyval_eqb (get_or_none d "engine") (PStr "InnoDB") && Output.pyval_eqb (get_or_none d "location") (PStr "'s3://b/p'")
            && Output.pyval_eqb (get_or_none d "primary_key") (PList [PStr "a"])
  | _ => false
  end = true.
Proof. vm_compute. repeat split. Qed.

(* non-vacuity for the Hive / Redshift clauses: a delimited text table *)
Definition ex_tx2 : Table.tablex :=
  Table.mkTableX
    (Table.mkTableC (Table.mkTable "CREATE" "TABLE" None "t" (Table.mkCol "a" "int" None None []) []) [])
    [Table.CRowWord "ROW" "format" "DELIMITED"; Table.CTerm "FIELDS" "TERMINATED" "by" "','"; Table.CTerm "lines" "terminated" "BY" "'\n'";
     Table.CColl "COLLECTION" "ITEMS" "TERMINATED" "BY" "'|'"; Table.CMapKeys "MAP" "KEYS" "TERMINATED" "BY" "':'";
     Table.CCommentStr "COMMENT" "'tbl'"; Table.CGen "DISTSTYLE" "EVEN"; Table.CInto "INTO" "4" "BUCKETS";
     Table.CRowSerde "row" "FORMAT" "SERDE" "'my.Serde'"].
Example C11_clauses_example2 :
  Table.wf_x false ex_tx2 = true /\
  match Table.denote_x false ex_tx2 with
  | Ok d => Output.pyval_eqb (get_or_none d "fields_terminated_by") (PStr "','") && Output.pyval_eqb (get_or_none d "lines_terminated_by") (PStr "'\n'")
            && Output.pyval_eqb (get_or_none d "collection_items_terminated_by") (PStr "'|'") && Output.pyval_eqb (get_or_none d "map_keys_terminated_by") (PStr "':'")
            && Output.pyval_eqb (get_or_none d "comment") (PStr "'tbl'") && Output.pyval_eqb (get_or_none d "DISTSTYLE") (PStr "EVEN")
            && Output.pyval_eqb (get_or_none d "into_buckets") (PStr "4")
            && Output.pyval_eqb (get_or_none d "row_format") (PDict [("serde", PBool true); ("java_class", PStr "'my.Serde'")])
  | _ => false
  end = true.
Proof. vm_compute. repeat split. Qed.
