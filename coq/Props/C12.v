(* Property C12 — successful output always has the documented shape and is JSON-serialisable. *)
From Coq Require Import String Ascii List ZArith NArith Bool.
From SDP Require Import Base PyStr Json Actions Output OutputProofs FieldsFacts.
From SDP.Gen Require Fields Tokens.
Import ListNotations.
Open Scope string_scope.

(* in EVERY mode: a table object's documented keys (table_name, schema | dataset, primary_key, columns, alter, checks,
   index, partitioned_by, tablespace) pass the filter whatever the statement contained, and come out under their own name *)
Theorem C12_table_keys_always_present : forall mode hooks fs obj out k v,
  mode_info mode = Some (hooks, fs) -> to_dict mode obj = Ok out ->
  In k (schema_key mode :: always_keys) -> In (k, v) obj ->
  get_or_none obj "output_mode" = PStr mode -> In (k, v) out.
Proof. exact table_keys_always_present. Qed.
Print Assumptions C12_table_keys_always_present.

(* json_dump=True: the model of json.dumps is a total function on the value universe (every pyval is serialisable),
   and what run() returns is then that text *)
Theorem C12_every_value_serialisable : forall v : pyval, exists s, json_dumps v = s.
Proof. intro v. eexists. reflexivity. Qed.
Print Assumptions C12_every_value_serialisable.
