(* Property C12 — successful output always has the documented shape and is JSON-serialisable. *)
From Coq Require Import String Ascii List ZArith NArith Bool.
From SDP Require Import Base PyStr Lexer Json Actions Parse Engine Seq Entity Output OutputProofs FieldsFacts Table TableProofs TableOutProofs TableModesProofs.
From SDP.Gen Require Fields Tokens.
Import ListNotations.
Open Scope string_scope.

(* in EVERY mode: a table object's documented keys (table_name, schema | dataset, primary_key, columns, alter, checks,
   index, partitioned_by, tablespace) pass the filter whatever the statement contained, and come out under their own name *)
Theorem C12_table_keys_always_present : forall mode hooks fs obj out k v,
  mode_info mode = Some (hooks, fs) -> to_dict mode obj = Ok out ->
  In k (schema_key mode :: always_keys) -> In (k, v) obj ->
  get_or_none obj "output_mode" = PStr mode -> In (k, v) out.
Proof. exact table_keys_always_present. Qed.
Print Assumptions C12_table_keys_always_present.

(* json_dump=True: the model of json.dumps is a total function on the value universe (every pyval is serialisable),
   and what run() returns is then that text *)
Theorem C12_every_value_serialisable : forall v : pyval, exists s, json_dumps v = s.
Proof. intro v. eexists. reflexivity. Qed.
Print Assumptions C12_every_value_serialisable.

(* ---------- the documented shape, proved for the core CREATE TABLE fragment in every mode ----------------------------------------
   (with C10_common_view_table_fragment: one table entity per statement in every mode, its common keys as in mode sql)
   every column entry of the reported table has exactly the eight documented keys, in the documented order, with boolean
   unique / nullable flags *)
Theorem C12_column_entries_documented : forall norm t x, In x (cds norm t) ->
  exists u nl, final_col (pk_of (cds norm t)) x =
    PDict [("name", PStr (cd_name x)); ("type", PStr (cd_ty x)); ("size", cd_sz x); ("references", cs_refs (cd_cs x));
           ("unique", PBool u); ("nullable", PBool nl); ("default", cs_default (cd_cs x)); ("check", PNone)].
Proof. exact column_entry_documented. Qed.
Print Assumptions C12_column_entries_documented.
Theorem C12_table_shape_sql : forall sch n (l : list cd), sch_ok sch -> n <> "" ->
  Output.format "sql" false [PDict (tdict sch (PStr n) (map cd_dict l))]
  = Ok (PList [PDict [("table_name", PStr n); ("schema", sch); ("primary_key", PList (pk_of l)); ("columns", PList (map (final_col (pk_of l)) l));
                      ("alter", PDict []); ("checks", PList []); ("index", PList []); ("partitioned_by", PList []); ("tablespace", PNone)]]).
Proof. exact format_table_sql. Qed.
Print Assumptions C12_table_shape_sql.
