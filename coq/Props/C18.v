(* Property C18 — types, domains, schemas, databases, tablespaces yield one exact entity each (the forms under a theorem). *)
From Coq Require Import String Ascii List ZArith NArith Bool.
From SDP Require Import Base PyStr Lexer Actions Parse Engine Seq KeywordProofs Entity EntityProofs Output OtherOutProofs.
From SDP.Gen Require Tokens.
Import ListNotations.
Open Scope string_scope.

(* For EVERY statement  CREATE [kind] [TEMPORARY] TABLESPACE n | CREATE DATABASE n | CREATE SCHEMA [IF NOT EXISTS] n  — keywords in
   any letter case, n any plain word or any of 97 grammar keywords (see below), both normalize_names settings, silent or not —
   the model (real keyword tables + flag logic, real LALR tables, modelled actions) returns exactly one entity, the specified one. *)
Theorem C18_entity_exact : forall e norm silent, Entity.wf e = true ->
  parse_lexemes norm silent (Entity.lexemes e) = Ok (Some (Entity.denote norm e)).
Proof. exact entity_parse. Qed.
Print Assumptions C18_entity_exact.

(* ... and in every supported output mode the entity is reported exactly as parsed *)
Theorem C18_entity_reported_unchanged : forall e norm m, In m Tokens.modes ->
  exists d, Entity.denote norm e = PDict d /\ Output.format m false [PDict d] = Ok (PList [PDict d]).
Proof. exact entity_every_mode. Qed.
Print Assumptions C18_entity_reported_unchanged.

(* which grammar keywords can NOT name such an entity: derived on the real tables *)
Theorem C18_keywords_not_accepted_as_entity_name :
  filter (fun k => negb (accepted_entity_name k)) keywords = ["AUTOINCREMENT"; "COLLATE"; "IF"].
Proof. exact rejected_entity_names. Qed.
Print Assumptions C18_keywords_not_accepted_as_entity_name.

(* non-vacuity *)
Example C18_example :
  Entity.wf (ETablespace "Create" ["SMALLFILE"; "temporary"] "tablespace" "order") = true /\
  Entity.denote false (ETablespace "Create" ["SMALLFILE"; "temporary"] "tablespace" "order") =
  PDict [("tablespace_name", PStr "order"); ("properties", PNone); ("type", PStr "SMALLFILE"); ("temporary", PBool true)] /\
  Entity.wf (ESchema "CREATE" "schema" (Some ("if", "Not", "EXISTS")) "`mysch`") = true /\
  Entity.denote true (ESchema "CREATE" "schema" None "[Dev]") = PDict [("schema_name", PStr "Dev")].
Proof. vm_compute. repeat split. Qed.
