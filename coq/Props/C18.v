(* Property C18 — types, domains, schemas, databases, tablespaces yield one exact entity each (the forms under a theorem). *)
From Coq Require Import String Ascii List ZArith NArith Bool.
From SDP Require Import Base PyStr Lexer Actions Parse Engine Seq KeywordProofs Entity EntityProofs Output OtherOutProofs.
From SDP.Gen Require Tokens.
Import ListNotations.
Open Scope string_scope.

(* For EVERY statement  CREATE [kind] [TEMPORARY] TABLESPACE n | CREATE DATABASE n | CREATE SCHEMA [IF NOT EXISTS] n  — keywords in
   any letter case, n any plain word or any of 97 grammar keywords (see below), both normalize_names settings, silent or not —
   the model (real keyword tables + flag logic, real LALR tables, modelled actions) returns exactly one entity, the specified one. *)
Theorem C18_entity_exact : forall e norm silent, Entity.wf e = true ->
  parse_lexemes norm silent (Entity.lexemes e) = Ok (Some (Entity.denote norm e)).
Proof. exact entity_parse. Qed.
Print Assumptions C18_entity_exact.

(* ... and in every supported output mode the entity is reported exactly as parsed *)
Theorem C18_entity_reported_unchanged : forall e norm m, In m Tokens.modes ->
  exists d, Entity.denote norm e = PDict d /\ Output.format m false [PDict d] = Ok (PList [PDict d]).
Proof. exact entity_every_mode. Qed.
Print Assumptions C18_entity_reported_unchanged.

(* which grammar keywords can NOT name such an entity: derived on the real tables *)
Theorem C18_keywords_not_accepted_as_entity_name :
  filter (fun k => negb (accepted_entity_name k)) keywords = ["AUTOINCREMENT"; "COLLATE"; "IF"].
Proof. exact rejected_entity_names. Qed.
Print Assumptions C18_keywords_not_accepted_as_entity_name.

(* non-vacuity *)
Example C18_example :
  Entity.wf (ETablespace "Create" ["SMALLFILE"; "temporary"] "tablespace" "order") = true /\
  Entity.denote false (ETablespace "Create" ["SMALLFILE"; "temporary"] "tablespace" "order") =
  PDict [("tablespace_name", PStr "order"); ("properties", PNone); ("type", PStr "SMALLFILE"); ("temporary", PBool true)] /\
  Entity.wf (ESchema "CREATE" "schema" (Some ("if", "Not", "EXISTS")) "`mysch`") = true /\
  Entity.denote true (ESchema "CREATE" "schema" None "[Dev]") = PDict [("schema_name", PStr "Dev")].
Proof. vm_compute. repeat split. Qed.

(* ---------- CREATE TYPE / CREATE DOMAIN with a value list ------------------------------------------------------------------------------------
   For EVERY statement  CREATE TYPE|DOMAIN [s.]n AS base (v, v, ...)  — keywords in any letter case, base a plain word or ENUM in
   any letter case, each value a plain word or one quoted literal, ANY number of values, both normalize_names settings, silent or
   not — the model returns exactly one entity of the right kind: schema and name as written, the declared base type as written,
   and for ENUM the values in the order written (words as written, literals verbatim with their quotes); otherwise no properties.
   (30-configuration closed invariant on the real tables + induction over the value list, Proofs/TypeDomProofs.v.) *)
From SDP Require TypeDom TypeDomProofs TypeDomOutProofs.
Theorem C18_type_domain_exact : forall d norm silent, TypeDom.wf norm d = true ->
  parse_lexemes norm silent (TypeDom.lexemes d) = Ok (Some (TypeDom.denote norm d)).
Proof. exact TypeDomProofs.typedom_parse. Qed.
Print Assumptions C18_type_domain_exact.

(* the entity is reported unchanged in every output mode; bigquery moves a written schema under the key dataset *)
Theorem C18_type_domain_reported : forall d norm m, In m Tokens.modes ->
  (m <> "bigquery" \/ TypeDom.d_schema d = None \/ (exists s, TypeDom.d_schema d = Some s /\ nms norm s = "")) ->
  exists e, TypeDom.denote norm d = PDict e /\ Output.format m false [PDict e] = Ok (PList [PDict e]).
Proof. exact TypeDomOutProofs.typedom_every_mode. Qed.
Print Assumptions C18_type_domain_reported.
Theorem C18_type_domain_bigquery : forall d norm s, TypeDom.d_schema d = Some s -> nms norm s <> "" ->
  exists e, TypeDom.denote norm d = PDict e /\
            Output.format "bigquery" false [PDict e] = Ok (PList [PDict (dict_del (dict_set e "dataset" (PStr (nms norm s))) "schema")]).
Proof. exact TypeDomOutProofs.typedom_bigquery. Qed.
Print Assumptions C18_type_domain_bigquery.
Theorem C18_enum_values_in_order : forall norm d, String.eqb (upper (nms norm (TypeDom.d_base d))) "ENUM" = true ->
  TypeDom.props norm d = PDict [("values", PList (map (TypeDom.val_value norm) (TypeDom.d_vals d)))] /\
  List.length (map (TypeDom.val_value norm) (TypeDom.d_vals d)) = S (List.length (TypeDom.d_rest d)).
Proof. exact TypeDomOutProofs.values_in_order. Qed.
Print Assumptions C18_enum_values_in_order.

(* non-vacuity: a lower-case enum domain (the form repaired by fix 33eb1be) and a schema-qualified type *)
Example C18_type_domain_example :
  TypeDom.wf false (TypeDom.mkDecl false "create" "Domain" None "d" "as" "enum" (TypeDom.VLit "'a'") [TypeDom.VWord "b"; TypeDom.VLit "'x;y'"]) = true /\
  TypeDom.denote false (TypeDom.mkDecl false "create" "Domain" None "d" "as" "enum" (TypeDom.VLit "'a'") [TypeDom.VWord "b"; TypeDom.VLit "'x;y'"]) =
  PDict [("schema", PNone); ("domain_name", PStr "d"); ("base_type", PStr "enum");
         ("properties", PDict [("values", PList [PStr "'a'"; PStr "b"; PStr "'x;y'"])])] /\
  TypeDom.wf true (TypeDom.mkDecl true "CREATE" "TYPE" (Some "[Dev]") "Status" "AS" "ENUM" (TypeDom.VLit "'on'") [TypeDom.VLit "'off'"]) = true /\
  TypeDom.denote true (TypeDom.mkDecl true "CREATE" "TYPE" (Some "[Dev]") "Status" "AS" "ENUM" (TypeDom.VLit "'on'") [TypeDom.VLit "'off'"]) =
  PDict [("schema", PStr "Dev"); ("type_name", PStr "Status"); ("properties", PDict [("values", PList [PStr "'on'"; PStr "'off'"])]); ("base_type", PStr "ENUM")].
Proof. vm_compute. repeat split. Qed.

(* ---------- CREATE TYPE ... AS OBJECT (attribute list) ------------------------------------------------------------------------------------------
   For EVERY statement  CREATE TYPE [s.]n AS base (attr, attr, ...)  with attr = name type [(n) | (p, s)] — keywords in any letter
   case, ANY number of attributes, both normalize_names settings, silent or not — the model returns exactly one type entity: schema,
   name and base type as written and, for OBJECT (any letter case), the attributes in declaration order, each with its name, type
   and size (35-configuration closed invariant on the real tables + induction over the attribute list, Proofs/TypeObjProofs.v). *)
From SDP Require TypeObj TypeObjProofs TypeObjOutProofs.
Theorem C18_object_type_exact : forall o norm silent, TypeObj.wf norm o = true ->
  parse_lexemes norm silent (TypeObj.lexemes o) = Ok (Some (TypeObj.denote norm o)).
Proof. exact TypeObjProofs.typeobj_parse. Qed.
Print Assumptions C18_object_type_exact.
Theorem C18_object_type_reported : forall o norm m, In m Tokens.modes ->
  (m <> "bigquery" \/ TypeObj.o_schema o = None \/ (exists s, TypeObj.o_schema o = Some s /\ nms norm s = "")) ->
  exists e, TypeObj.denote norm o = PDict e /\ Output.format m false [PDict e] = Ok (PList [PDict e]).
Proof. exact TypeObjOutProofs.typeobj_every_mode. Qed.
Print Assumptions C18_object_type_reported.
Theorem C18_object_type_bigquery : forall o norm s, TypeObj.o_schema o = Some s -> nms norm s <> "" ->
  exists e, TypeObj.denote norm o = PDict e /\
            Output.format "bigquery" false [PDict e] = Ok (PList [PDict (dict_del (dict_set e "dataset" (PStr (nms norm s))) "schema")]).
Proof. exact TypeObjOutProofs.typeobj_bigquery. Qed.
Print Assumptions C18_object_type_bigquery.
Theorem C18_attributes_in_order : forall norm o,
  String.eqb (upper (nms norm (TypeObj.o_base o))) "ENUM" = false -> String.eqb (upper (nms norm (TypeObj.o_base o))) "OBJECT" = true ->
  TypeObj.props norm o = PDict [("attributes", PList (map (TypeObj.attr_value norm) (TypeObj.o_attrs o)))] /\
  List.length (map (TypeObj.attr_value norm) (TypeObj.o_attrs o)) = S (List.length (TypeObj.o_rest o)).
Proof. exact TypeObjOutProofs.attributes_in_order. Qed.
Print Assumptions C18_attributes_in_order.
Example C18_object_type_example :
  TypeObj.wf false (TypeObj.mkTObj "create" "TYPE" (Some "s") "addr" "as" "object"
                      (TypeObj.mkAttr "street" "varchar" (Some ("50", None))) [TypeObj.mkAttr "zip" "int" None; TypeObj.mkAttr "amount" "numeric" (Some ("10", Some "2"))]) = true /\
  TypeObj.denote false (TypeObj.mkTObj "create" "TYPE" (Some "s") "addr" "as" "object"
                      (TypeObj.mkAttr "street" "varchar" (Some ("50", None))) [TypeObj.mkAttr "zip" "int" None; TypeObj.mkAttr "amount" "numeric" (Some ("10", Some "2"))]) =
  PDict [("schema", PStr "s"); ("type_name", PStr "addr");
         ("properties", PDict [("attributes", PList [PDict [("name", PStr "street"); ("type", PStr "varchar"); ("size", PInt 50)];
                                                     PDict [("name", PStr "zip"); ("type", PStr "int"); ("size", PNone)];
                                                     PDict [("name", PStr "amount"); ("type", PStr "numeric"); ("size", PTuple [PInt 10; PInt 2])]])]);
         ("base_type", PStr "object")].
Proof. vm_compute. repeat split. Qed.

(* ---------- CREATE SCHEMA with AUTHORIZATION / COMMENT -----------------------------------------------------------------------------------------
   For EVERY statement  CREATE SCHEMA [IF NOT EXISTS] n [AUTHORIZATION u] [COMMENT [=] 'text']  (IF NOT EXISTS and AUTHORIZATION do
   not combine in the grammar) — keywords in any letter case, n and u plain words, both normalize_names settings, silent or not —
   the model returns exactly one schema entity: the name, the if_not_exists flag, the authorization as written, the comment literal
   verbatim (18-configuration closed invariant on the real tables, all nine forms by case analysis, Proofs/SchemaXProofs.v);
   every output mode reports it unchanged. *)
From SDP Require SchemaX SchemaXProofs.
Theorem C18_schema_authorization_comment_exact : forall x norm silent, SchemaX.wf norm x = true ->
  parse_lexemes norm silent (SchemaX.lexemes x) = Ok (Some (SchemaX.denote norm x)).
Proof. exact SchemaXProofs.schx_parse. Qed.
Print Assumptions C18_schema_authorization_comment_exact.
Theorem C18_schema_reported_unchanged : forall x norm m, In m Tokens.modes ->
  exists e, SchemaX.denote norm x = PDict e /\ Output.format m false [PDict e] = Ok (PList [PDict e]).
Proof. exact SchemaXProofs.schx_every_mode. Qed.
Print Assumptions C18_schema_reported_unchanged.
Example C18_schema_example :
  SchemaX.wf false (SchemaX.mkSchX "create" "Schema" None "sales" (Some "Joe") (Some ("COMMENT", true, "'the sales schema'"))) = true /\
  SchemaX.denote false (SchemaX.mkSchX "create" "Schema" None "sales" (Some "Joe") (Some ("COMMENT", true, "'the sales schema'"))) =
  PDict [("schema_name", PStr "sales"); ("authorization", PStr "Joe"); ("comment", PStr "'the sales schema'")] /\
  SchemaX.wf true (SchemaX.mkSchX "CREATE" "SCHEMA" (Some ("if", "Not", "EXISTS")) "[Dev]" None (Some ("comment", false, "'x'"))) = true /\
  SchemaX.denote true (SchemaX.mkSchX "CREATE" "SCHEMA" (Some ("if", "Not", "EXISTS")) "[Dev]" None (Some ("comment", false, "'x'"))) =
  PDict [("if_not_exists", PBool true); ("schema_name", PStr "Dev"); ("comment", PStr "'x'")].
Proof. vm_compute. repeat split. Qed.
