(* Property C07 — string and numeric literals are reported exactly as written (the parts under a theorem). *)
From Coq Require Import String Ascii List ZArith NArith Bool.
From SDP Require Import Base PyStr Actions IntProofs.
From SDP Require Import Actions.
From SDP Require Parse Entity Table TableProofs TableClauseProofs.
Import ListNotations.
Open Scope string_scope.

(* "purely numeric defaults are reported as integers of the same value": Python's int() applied to the decimal rendering of ANY
   integer (any number of digits, either sign) returns exactly that integer — no bound on the magnitude *)
Theorem C07_numeric_literal_exact : forall z, int_of_string (string_of_Z z) = Some z.
Proof. exact int_of_string_of_Z. Qed.
Print Assumptions C07_numeric_literal_exact.

Theorem C07_py_int_exact : forall z, py_int (PStr (string_of_Z z)) = Ok (PInt z).
Proof. intro z. unfold py_int. rewrite int_of_string_of_Z. reflexivity. Qed.
Print Assumptions C07_py_int_exact.

(* leading zeros and an explicit '+' are accepted by int() and do not change the value: kernel-evaluated instances *)
Example C07_numeric_examples :
  int_of_string "007" = Some 7%Z /\ int_of_string "+5" = Some 5%Z /\ int_of_string "-0" = Some 0%Z /\
  int_of_string "123456789012345678901234567890" = Some 123456789012345678901234567890%Z /\
  int_of_string "12a" = None /\ int_of_string "" = None.
Proof. vm_compute. repeat split. Qed.

(* ---------- literals at the lexeme level, under the statement fragments -----------------------------------------------------------------
   Once the scanner has cut a quoted literal out of the statement as ONE lexeme (the known findings D7 are about the text before that
   point: the pre-processor re-spaces commas / parentheses / equals signs and mangles non-ASCII characters inside quotes), the
   fragments report it character for character: as the column default (DEFAULT 'lit'), as the table COMMENT = 'lit' and as the
   LOCATION 'lit'; a DEFAULT word that is a digit string is reported as that integer. *)
Theorem C07_default_literal_verbatim : forall norm cs kw s, isnumeric s = false ->
  Table.cs_default (Table.apply_opt norm cs (Table.ODefStr kw s)) = PStr s.
Proof. intros norm cs kw s H. cbn [Table.apply_opt Table.cs_default]. unfold default_value. rewrite H. reflexivity. Qed.
Print Assumptions C07_default_literal_verbatim.
Theorem C07_clause_literal_verbatim : forall norm kw s,
  Table.clause_value norm (Table.CLocation kw s) = PStr s /\ Table.clause_value norm (Table.CComment kw s) = PStr s.
Proof. intros. split; reflexivity. Qed.
Print Assumptions C07_clause_literal_verbatim.
Theorem C07_default_number_exact : forall norm cs kw w z, isnumeric (Entity.nms norm w) = true -> int_of_string (Entity.nms norm w) = Some z ->
  Table.cs_default (Table.apply_opt norm cs (Table.ODefWord kw w)) = PInt z.
Proof. intros norm cs kw w z H1 H2. cbn [Table.apply_opt Table.cs_default]. unfold default_value. rewrite H1, H2. reflexivity. Qed.
Print Assumptions C07_default_number_exact.
(* the statements these values sit in *)
Theorem C07_fragment_statement : forall tx norm silent, Table.wf_x norm tx = true ->
  exists d, Table.denote_x norm tx = Ok d /\ Parse.parse_lexemes norm silent (Table.lexemes_x tx) = Ok (Some (PDict d)).
Proof. exact TableClauseProofs.table_x_parse. Qed.
Print Assumptions C07_fragment_statement.

(* ---------- ENUM values of CREATE TYPE / CREATE DOMAIN ----------------------------------------------------------------------------------------
   For every statement of the value-list fragment (C18_type_domain_exact) whose base type is ENUM in any letter case: the entity's
   values are, in order, the written values, a quoted literal being reported verbatim with its quotes in either normalize_names
   setting — whatever characters the scanner delivered inside the quotes (keywords, commas, semicolons, comment markers ...). *)
From SDP Require TypeDom TypeDomProofs TypeDomOutProofs.
Theorem C07_enum_literals_verbatim : forall d norm silent, TypeDom.wf norm d = true ->
  String.eqb (upper (Entity.nms norm (TypeDom.d_base d))) "ENUM" = true ->
  Parse.parse_lexemes norm silent (TypeDom.lexemes d) = Ok (Some (TypeDom.denote norm d)) /\
  TypeDom.props norm d = PDict [("values", PList (map (TypeDom.val_value norm) (TypeDom.d_vals d)))] /\
  (forall s, TypeDom.val_value norm (TypeDom.VLit s) = PStr s).
Proof.
  intros d norm silent Hwf He. split; [exact (TypeDomProofs.typedom_parse d norm silent Hwf)|].
  split; [exact (proj1 (TypeDomOutProofs.values_in_order norm d He))|intro s; reflexivity].
Qed.
Print Assumptions C07_enum_literals_verbatim.
