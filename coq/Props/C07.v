(* Property C07 — string and numeric literals are reported exactly as written (the parts under a theorem). *)
From Coq Require Import String Ascii List ZArith NArith Bool.
From SDP Require Import Base PyStr Actions IntProofs.
Import ListNotations.
Open Scope string_scope.

(* "purely numeric defaults are reported as integers of the same value": Python's int() applied to the decimal rendering of ANY
   integer (any number of digits, either sign) returns exactly that integer — no bound on the magnitude *)
Theorem C07_numeric_literal_exact : forall z, int_of_string (string_of_Z z) = Some z.
Proof. exact int_of_string_of_Z. Qed.
Print Assumptions C07_numeric_literal_exact.

Theorem C07_py_int_exact : forall z, py_int (PStr (string_of_Z z)) = Ok (PInt z).
Proof. intro z. unfold py_int. rewrite int_of_string_of_Z. reflexivity. Qed.
Print Assumptions C07_py_int_exact.

(* leading zeros and an explicit '+' are accepted by int() and do not change the value: kernel-evaluated instances *)
Example C07_numeric_examples :
  int_of_string "007" = Some 7%Z /\ int_of_string "+5" = Some 5%Z /\ int_of_string "-0" = Some 0%Z /\
  int_of_string "123456789012345678901234567890" = Some 123456789012345678901234567890%Z /\
  int_of_string "12a" = None /\ int_of_string "" = None.
Proof. vm_compute. repeat split. Qed.
