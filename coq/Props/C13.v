(* Property C13 — group_by_type is a lossless, order-preserving regrouping of the flat result. *)
From Coq Require Import String Ascii List ZArith NArith Bool.
From SDP Require Import Base PyStr Actions Output GroupProofs.
Import ListNotations.
Open Scope string_scope.

(* For EVERY flat list of entities (dicts; a comments item carrying a list) — any length, any mix of kinds,
   entities with several marker keys included — the model of Output.group_by_type_result returns a dict g with:
   * every bucket other than comments = the order-preserving filter of the flat list by kind (so each entity
     with a kind appears exactly once, unchanged, in the bucket of its kind — kinds are exclusive — and entities
     without any marker key are the only ones left out);
   * comments = the concatenation of the comment texts, in order;
   * tables, types, sequences, domains, schemas, ddl_properties always present. *)
Theorem C13_lossless_regrouping : forall flat, forallb entity_ok flat = true ->
  exists g, group_by_type_result flat = Ok (PDict g) /\
    (forall b, b <> "comments" -> bucket_list g b = filter (is_kind b) flat) /\
    bucket_list g "comments" = flat_map comment_texts flat /\
    (forall b, In b always_buckets -> exists l, assoc b g = Some (PList l)).
Proof. exact group_by_type_lossless. Qed.
Print Assumptions C13_lossless_regrouping.

Theorem C13_kinds_exclusive : forall b b' item, is_kind b item = true -> is_kind b' item = true -> b = b'.
Proof. exact is_kind_unique. Qed.
Print Assumptions C13_kinds_exclusive.

(* non-vacuity: a flat list with every kind, an entity with two marker keys, an unmarked entity, two comment items *)
Definition ex_flat : list pyval :=
  [PDict [("table_name", PStr "t1"); ("schema", PNone)];
   PDict [("sequence_name", PStr "s1")];
   PDict [("comments", PList [PStr " c1"; PStr " c2"])];
   PDict [("schema_name", PStr "x"); ("table_name", PStr "both")];
   PDict [("tablespace_name", PStr "ts")];
   PDict [("nothing", PInt 1)];
   PDict [("name", PStr "a"); ("value", PStr "b")];
   PDict [("table_name", PStr "t2")];
   PDict [("comments", PList [PStr " c3"])]].
Example C13_example : forallb entity_ok ex_flat = true /\
  group_by_type_result ex_flat =
  Ok (PDict [("tables", PList [PDict [("table_name", PStr "t1"); ("schema", PNone)];
                               PDict [("schema_name", PStr "x"); ("table_name", PStr "both")];
                               PDict [("table_name", PStr "t2")]]);
             ("types", PList []); ("sequences", PList [PDict [("sequence_name", PStr "s1")]]);
             ("domains", PList []); ("schemas", PList []);
             ("ddl_properties", PList [PDict [("name", PStr "a"); ("value", PStr "b")]]);
             ("comments", PList [PStr " c1"; PStr " c2"; PStr " c3"]);
             ("tablespaces", PList [PDict [("tablespace_name", PStr "ts")]])]).
Proof. split; vm_compute; reflexivity. Qed.
