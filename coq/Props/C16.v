(* Property C16 — silent skip vs DDLParserError.  Statements only; proofs are in Proofs/. *)
From Coq Require Import String List ZArith NArith PArith Bool.
From SDP Require Import Base PyStr LR LRProofs.
Import ListNotations.

(* For EVERY table set, token list (any length): if the loud parser (silent=False) does not raise,
   the silent parser produces the identical shift/reduce trace — hence the identical entity — and
   that trace contains no error-recovery step. *)
Theorem C16_no_raise_identical_results : forall T toks evs,
  lr_trace false T toks = Ok evs -> lr_trace true T toks = Ok evs /\ has_error evs = false.
Proof.
  intros T toks evs H. split.
  - apply loud_ok_silent_same; exact H.
  - apply loud_ok_no_error in H. exact H.
Qed.
Print Assumptions C16_no_raise_identical_results.

(* the silent parser never raises, whatever the input *)
Theorem C16_silent_never_raises : forall T toks e, lr_trace true T toks <> Raise e.
Proof. intros T toks e. apply silent_never_raises. Qed.
Print Assumptions C16_silent_never_raises.

(* a statement the grammar rejects (the silent trace contains a recovery step) raises DDLParserError
   under silent=False, and only such statements do *)
Theorem C16_rejected_iff_raises : forall T toks evs,
  lr_trace true T toks = Ok evs ->
  (has_error evs = true -> lr_trace false T toks = Raise DDLParserError) /\
  (has_error evs = false -> lr_trace false T toks = Ok evs).
Proof.
  intros T toks evs H. split; intro HE.
  - eapply silent_error_loud_raises; [exact H | reflexivity | exact HE].
  - apply silent_clean_loud_same; [exact H | exact HE].
Qed.
Print Assumptions C16_rejected_iff_raises.

Theorem C16_loud_raises_only_ddlparsererror : forall T toks e,
  lr_trace false T toks = Raise e ->
  e = DDLParserError /\ forall evs, lr_trace true T toks = Ok evs -> has_error evs = true.
Proof.
  intros T toks e H. split.
  - eapply loud_raise_is_ddl; exact H.
  - intros evs HS. eapply loud_raise_silent_error; eauto.
Qed.
Print Assumptions C16_loud_raises_only_ddlparsererror.
