(* Property C16 — silent skip vs DDLParserError.  Statements only; proofs are in Proofs/. *)
From Coq Require Import String List ZArith NArith PArith Bool.
From SDP Require Import Base PyStr LR LRProofs Lexer Actions Parse.
From SDP Require Seq SeqProofs Entity EntityProofs Table TableProofs TableItemProofs Alter AlterProofs AlterKeyProofs TypeDom TypeDomProofs TypeObj TypeObjProofs SchemaX SchemaXProofs.
Import ListNotations.

(* For EVERY table set, token list (any length): if the loud parser (silent=False) does not raise,
   the silent parser produces the identical shift/reduce trace — hence the identical entity — and
   that trace contains no error-recovery step. *)
Theorem C16_no_raise_identical_results : forall T toks evs,
  lr_trace false T toks = Ok evs -> lr_trace true T toks = Ok evs /\ has_error evs = false.
Proof.
  intros T toks evs H. split.
  - apply loud_ok_silent_same; exact H.
  - apply loud_ok_no_error in H. exact H.
Qed.
Print Assumptions C16_no_raise_identical_results.

(* the silent parser never raises, whatever the input *)
Theorem C16_silent_never_raises : forall T toks e, lr_trace true T toks <> Raise e.
Proof. intros T toks e. apply silent_never_raises. Qed.
Print Assumptions C16_silent_never_raises.

(* a statement the grammar rejects (the silent trace contains a recovery step) raises DDLParserError
   under silent=False, and only such statements do *)
Theorem C16_rejected_iff_raises : forall T toks evs,
  lr_trace true T toks = Ok evs ->
  (has_error evs = true -> lr_trace false T toks = Raise DDLParserError) /\
  (has_error evs = false -> lr_trace false T toks = Ok evs).
Proof.
  intros T toks evs H. split; intro HE.
  - eapply silent_error_loud_raises; [exact H | reflexivity | exact HE].
  - apply silent_clean_loud_same; [exact H | exact HE].
Qed.
Print Assumptions C16_rejected_iff_raises.

Theorem C16_loud_raises_only_ddlparsererror : forall T toks e,
  lr_trace false T toks = Raise e ->
  e = DDLParserError /\ forall evs, lr_trace true T toks = Ok evs -> has_error evs = true.
Proof.
  intros T toks e H. split.
  - eapply loud_raise_is_ddl; exact H.
  - intros evs HS. eapply loud_raise_silent_error; eauto.
Qed.
Print Assumptions C16_loud_raises_only_ddlparsererror.

(* ---------- "supported DDL never raises under silent=False" for the statement fragments under a theorem -----------------------------
   For every statement of the CREATE SEQUENCE, TABLESPACE / DATABASE / SCHEMA, CREATE TABLE (with table-level clauses),
   ALTER TABLE and CREATE TYPE / DOMAIN (value list) fragments the loud run (silent=False) does not raise and returns exactly what the silent run returns. *)
Theorem C16_sequence_loud_is_silent : forall a norm, Seq.wf a = true ->
  parse_lexemes norm false (Seq.lexemes a) = parse_lexemes norm true (Seq.lexemes a) /\
  parse_lexemes norm false (Seq.lexemes a) = Ok (Some (Seq.denote norm a)).
Proof. intros a norm H. rewrite !(SeqProofs.seq_parse a norm _ H). split; reflexivity. Qed.
Print Assumptions C16_sequence_loud_is_silent.
Theorem C16_entity_loud_is_silent : forall e norm, Entity.wf e = true ->
  parse_lexemes norm false (Entity.lexemes e) = parse_lexemes norm true (Entity.lexemes e) /\
  parse_lexemes norm false (Entity.lexemes e) = Ok (Some (Entity.denote norm e)).
Proof. intros e norm H. rewrite !(EntityProofs.entity_parse e norm _ H). split; reflexivity. Qed.
Print Assumptions C16_entity_loud_is_silent.
Theorem C16_table_loud_is_silent : forall t norm, Table.wf norm t = true ->
  parse_lexemes norm false (Table.lexemes t) = parse_lexemes norm true (Table.lexemes t) /\
  parse_lexemes norm false (Table.lexemes t) = Ok (Some (Table.denote norm t)).
Proof. intros t norm H. rewrite !(TableProofs.table_parse t norm _ H). split; reflexivity. Qed.
Print Assumptions C16_table_loud_is_silent.
Theorem C16_table_clauses_loud_is_silent : forall tc norm i r, Table.tc_items tc = i :: r -> Table.wf_c norm tc = true ->
  parse_lexemes norm false (Table.lexemes_c tc) = parse_lexemes norm true (Table.lexemes_c tc) /\
  exists d, parse_lexemes norm false (Table.lexemes_c tc) = Ok (Some (PDict d)).
Proof.
  intros tc norm i r Hi H.
  destruct (TableItemProofs.table_c_parse tc norm false i r Hi H) as [d [Hd H1]].
  destruct (TableItemProofs.table_c_parse tc norm true i r Hi H) as [d' [Hd' H2]].
  rewrite H1, H2. rewrite Hd in Hd'. inversion Hd'. subst d'. split; [reflexivity|]. exists d. reflexivity.
Qed.
Print Assumptions C16_table_clauses_loud_is_silent.
Theorem C16_alter_loud_is_silent : forall a norm, Alter.wf norm a = true ->
  parse_lexemes norm false (Alter.lexemes a) = parse_lexemes norm true (Alter.lexemes a) /\
  parse_lexemes norm false (Alter.lexemes a) = Ok (Some (Alter.denote norm a)).
Proof. intros a norm H. rewrite !(AlterKeyProofs.alter_parse a norm _ H). split; reflexivity. Qed.
Print Assumptions C16_alter_loud_is_silent.
Theorem C16_type_domain_loud_is_silent : forall d norm, TypeDom.wf norm d = true ->
  parse_lexemes norm false (TypeDom.lexemes d) = parse_lexemes norm true (TypeDom.lexemes d) /\
  parse_lexemes norm false (TypeDom.lexemes d) = Ok (Some (TypeDom.denote norm d)).
Proof. intros d norm H. rewrite !(TypeDomProofs.typedom_parse d norm _ H). split; reflexivity. Qed.
Print Assumptions C16_type_domain_loud_is_silent.
Theorem C16_object_type_loud_is_silent : forall o norm, TypeObj.wf norm o = true ->
  parse_lexemes norm false (TypeObj.lexemes o) = parse_lexemes norm true (TypeObj.lexemes o) /\
  parse_lexemes norm false (TypeObj.lexemes o) = Ok (Some (TypeObj.denote norm o)).
Proof. intros o norm H. rewrite !(TypeObjProofs.typeobj_parse o norm _ H). split; reflexivity. Qed.
Print Assumptions C16_object_type_loud_is_silent.
Theorem C16_schema_loud_is_silent : forall x norm, SchemaX.wf norm x = true ->
  parse_lexemes norm false (SchemaX.lexemes x) = parse_lexemes norm true (SchemaX.lexemes x) /\
  parse_lexemes norm false (SchemaX.lexemes x) = Ok (Some (SchemaX.denote norm x)).
Proof. intros x norm H. rewrite !(SchemaXProofs.schx_parse x norm _ H). split; reflexivity. Qed.
Print Assumptions C16_schema_loud_is_silent.

(* ---------- the statement parser as run() calls it ------------------------------------------------------------------------------------------
   Parser.parse_statement (model: Api.parse_stmt_of, tied by correspondence F): with silent=True a statement on which PLY reported a
   syntax error never raises — neither the syntax error nor anything a grammar action does with what is left of the statement after
   the recovery (fix b0266a0) — and DDLParserError / SimpleDDLParserException never escape a silent run at all. *)
From SDP Require Api ApiProofs.
Theorem C16_silent_statement_with_syntax_error_never_raises : forall norm s e,
  Api.statement_had_error true s = true -> Api.parse_stmt_of norm true s <> Raise e.
Proof. exact ApiProofs.silent_statement_with_syntax_error_never_raises. Qed.
Print Assumptions C16_silent_statement_with_syntax_error_never_raises.
Theorem C16_silent_statement_never_raises_parser_errors : forall norm s,
  Api.parse_stmt_of norm true s <> Raise DDLParserError /\ Api.parse_stmt_of norm true s <> Raise SimpleDDLParserException.
Proof. exact ApiProofs.silent_statement_never_raises_parser_errors. Qed.
Print Assumptions C16_silent_statement_never_raises_parser_errors.
