(* Property C01 — column definitions are reproduced exactly and in order; none lost or invented (parser stage, core fragment). *)
From Coq Require Import String Ascii List ZArith NArith Bool.
From SDP Require Import Base PyStr LR RealTables Lexer Actions Parse Engine Seq KeywordProofs Entity Output Table TableProofs TableOutProofs.
Import ListNotations.
Open Scope string_scope.

(* For EVERY statement  CREATE TABLE [schema.]name ( column {, column} )  of the core column syntax (Spec/Table.v):
     column = name type-word [type-word] [ (n) | (p , s) ] option*
     option = NULL | NOT NULL | DEFAULT word | DEFAULT NULL | DEFAULT 'literal' | PRIMARY KEY | UNIQUE
            | REFERENCES [schema.]table [(column)] [ON DELETE word] [ON UPDATE word] [NULL | NOT NULL]
   — ANY number of columns, ANY number and order of options per column, keywords in any letter case, both normalize_names
   settings, silent or not — the model (real keyword tables + lexer flag logic, real LALR tables with PLY's conflict
   resolution as recorded in the tables, modelled semantic actions) returns exactly the entity [Table.denote]: the declared
   columns, in declaration order, each with its declared name, type text, size, nullability, default, key flags and reference;
   nothing dropped, invented, merged or reordered.
   [Table.wf] asks that: the table / schema name is a plain word or one of the 97 grammar keywords accepted there; a column
   name and a referenced column name is a plain word or one of the 88 grammar keywords accepted there (any letter case; the 12
   rejected ones are derived below), and is not a word p_column treats specially (KEY); type words, default words, referenced
   tables and referential actions are plain words (typed ID by the lexer wherever they stand) that the actions do not treat
   specially; sizes are digit strings; a reference directly followed by NULL / NOT NULL is written as that reference's own
   trailing clause (which is how the grammar reads it). *)
Theorem C01_columns_exact : forall t norm silent, Table.wf norm t = true ->
  parse_lexemes norm silent (Table.lexemes t) = Ok (Some (Table.denote norm t)).
Proof. exact table_parse. Qed.
Print Assumptions C01_columns_exact.

(* ... and through the output stage (mode sql, flat result): the reported table has one column entry per declared column, in
   declaration order, each with the declared name, type text, size, default, uniqueness and reference; the per-column
   primary_key flag has moved to the table's primary_key list and a key column is reported non-nullable *)
Theorem C01_columns_exact_in_the_reported_table : forall t norm silent, Table.wf norm t = true -> nms norm (t_name t) <> "" ->
  parse_lexemes norm silent (Table.lexemes t) = Ok (Some (Table.denote norm t)) /\
  Output.format "sql" false [Table.denote norm t]
  = Ok (PList [PDict (final_table (onm norm (t_schema t)) (PStr (nms norm (t_name t))) (cds norm t))]).
Proof. exact table_parse_and_format. Qed.
Print Assumptions C01_columns_exact_in_the_reported_table.
Theorem C01_one_entry_per_declared_column : forall norm t,
  List.length (map (final_col (pk_of (cds norm t))) (cds norm t)) = Datatypes.S (List.length (t_rest t)).
Proof. exact one_entry_per_column. Qed.
Print Assumptions C01_one_entry_per_declared_column.

(* which grammar keywords can NOT name a column or a referenced column: derived on the real tables *)
Theorem C01_keywords_not_accepted_as_column_name :
  filter (fun k => negb (accepted_column_name k)) keywords =
  ["AUTOINCREMENT"; "BY"; "CHECK"; "CLUSTER"; "COLLATE"; "CONSTRAINT"; "FOREIGN"; "INDEX"; "LIKE"; "PRIMARY"; "UNIQUE"; "WITH"].
Proof. exact rejected_column_names. Qed.
Print Assumptions C01_keywords_not_accepted_as_column_name.
Theorem C01_accepted_column_keywords : colname_keywords = filter accepted_column_name keywords.
Proof. exact colname_keywords_are_the_accepted. Qed.
Print Assumptions C01_accepted_column_keywords.

(* the closed invariant behind it: 136 (reference state, lexer flags, LR stack) configurations on the real tables *)
Theorem C01_invariant_closed :
  closed real_tables term_id real_pname Table.q Table.q_eqb Table.fstep Table.ffinish Table.alphabet TableProofs.R = true.
Proof. exact R_closed. Qed.
Print Assumptions C01_invariant_closed.

(* non-vacuity: a three-column table with every option kind is well-formed under both settings, and the WHOLE statement
   pipeline (scanner included) on its text gives the specified entity *)
Definition ex_table : table :=
  mkTable "create" "Table" (Some "shop") "orders"     (* a keyword-named column, a keyword-named referenced column *)
    (mkCol "Comment" "bigint" None None [OPk "primary" "KEY"; ODefWord "DEFAULT" "7"])
    [mkCol "price" "double" (Some "precision") (Some ("10", Some "2"))
       [ONull (NNot "not" "NULL"); OUnique "unique"; ODefStr "default" "'0.0'"];
     mkCol "customer" "varchar" None (Some ("30", None))
       [ODefNull "DEFAULT" "null";
        ORef (mkRef "references" (Some "crm") "customers" (Some "key") (Some ("ON", "delete", "cascade")) (Some ("on", "UPDATE", "restrict")) (Some (NNull "NULL")));
        ORef (mkRef "REFERENCES" None "people" None None None None)]].
Definition ex_text : string :=
  "create Table shop.orders ( Comment bigint primary KEY DEFAULT 7 , price double precision ( 10 , 2 ) not NULL unique default '0.0' , customer varchar ( 30 ) DEFAULT null references crm.customers ( key ) ON delete cascade on UPDATE restrict NULL REFERENCES people ) ".
Example C01_example :
  Table.wf false ex_table = true /\ Table.wf true ex_table = true /\
  scan ex_text = Ok (Table.lexemes ex_table) /\
  parse_statement false false ex_text = Ok (Some (Table.denote false ex_table)) /\
  (match Table.denote false ex_table with
   | PDict d => match dict_get d "columns" with Some (PList cs) => List.length cs | _ => 0%nat end
   | _ => 0%nat end) = 3%nat.
Proof. vm_compute. repeat split. Qed.
