(* Property C05 — parsing is invariant under keyword case, whitespace and line layout. *)
From Coq Require Import String Ascii List ZArith NArith Bool.
From SDP Require Import Base PyStr Regex Lexer Actions Parse Pre Engine Seq SeqProofs LexProofs PreProofs.
From SDP Require Entity Table TableProofs Alter AlterProofs AlterKeyProofs KeywordCaseProofs TypeDom TypeObj SchemaX.
From SDP.Gen Require RegexAst.
Import ListNotations.
Open Scope string_scope.

(* keyword case: for every word of letters/digits/_ (whose upper-cased form does not start with ARRAY) everything the lexer
   looks up — all seven keyword tables, the symbol tests — is a function of the upper-cased spelling.  Hence every spelling of
   a keyword is lexed exactly like the keyword, in every lexical context (flags). *)
Theorem C05_lexing_depends_on_upper_only : forall w,
  sforall is_word_c w = true -> startswith (upper w) "ARRAY" = false -> info_of w = info_of (upper w).
Proof. exact info_of_case_insensitive. Qed.
Print Assumptions C05_lexing_depends_on_upper_only.

Theorem C05_any_case_is_the_keyword : forall kw k,
  upper kw = k -> sforall is_word_c kw = true -> startswith k "ARRAY" = false -> is_kw kw k = true.
Proof. exact any_case_is_kw. Qed.
Print Assumptions C05_any_case_is_the_keyword.

(* identifiers, type names and values keep their letter case: a word typed ID is passed on verbatim *)
Theorem C05_id_value_verbatim : forall f lx l,
  matches lx l -> snd (fst (lclass l f)) = Keep ->
  exists ty f', classify f lx = Ok ((ty, snd lx), f').
Proof.
  intros f lx l Hm Hk. rewrite (classify_matches f lx l Hm). rewrite Hk. simpl. eauto.
Qed.
Print Assumptions C05_id_value_verbatim.

(* line layout: a blank line (white space only) anywhere between the lines of a script changes nothing *)
Theorem C05_blank_line_neutral : forall parse_stmt m l l',
  multi_line_comment m = false -> set_line m = None ->
  re_sub RegexAst.re_equal_without_space " = " l = Ok l' ->
  strip l' = "" -> contains l' IN_COM = false -> contains l' OP_COM = false -> contains l' CL_COM = false ->
  startswith l' OP_COM = false -> startswith l' CL_COM = false ->
  process_line parse_stmt m l true = Ok (m, ([], [])).
Proof. exact blank_line_neutral. Qed.
Print Assumptions C05_blank_line_neutral.

(* end to end for the sequence fragment: the result does not depend on the letter case of any keyword (all 2^n spellings) *)
Theorem C05_sequence_keyword_case : forall a norm silent, wf a = true ->
  parse_lexemes norm silent (lexemes a) = Ok (Some (denote norm a)).
Proof. exact seq_parse. Qed.
Print Assumptions C05_sequence_keyword_case.

(* ---------- keyword case, end to end for the CREATE TABLE and ALTER TABLE fragments ---------------------------------------------------
   Two statements that are the same up to the spelling of their keywords (any letter case; [c_table] / [c_alter] put every
   keyword in one canonical spelling and leave names, type words, values and literals untouched) are parsed to the same entity,
   silent or not.  For ALTER the MODIFY COLUMN / ALTER COLUMN / MODIFY forms of a column change are identified as well. *)
Theorem C05_table_keyword_case : forall t t' norm silent silent',
  Table.wf norm t = true -> Table.wf norm t' = true -> KeywordCaseProofs.c_table t = KeywordCaseProofs.c_table t' ->
  parse_lexemes norm silent (Table.lexemes t) = parse_lexemes norm silent' (Table.lexemes t').
Proof. exact KeywordCaseProofs.table_keyword_case. Qed.
Print Assumptions C05_table_keyword_case.
Theorem C05_alter_keyword_case : forall a a' norm silent silent',
  Alter.wf norm a = true -> Alter.wf norm a' = true -> KeywordCaseProofs.c_alter a = KeywordCaseProofs.c_alter a' ->
  parse_lexemes norm silent (Alter.lexemes a) = parse_lexemes norm silent' (Alter.lexemes a').
Proof. exact KeywordCaseProofs.alter_keyword_case. Qed.
Print Assumptions C05_alter_keyword_case.
Theorem C05_type_domain_keyword_case : forall d d' norm silent silent',
  TypeDom.wf norm d = true -> TypeDom.wf norm d' = true -> KeywordCaseProofs.c_decl d = KeywordCaseProofs.c_decl d' ->
  parse_lexemes norm silent (TypeDom.lexemes d) = parse_lexemes norm silent' (TypeDom.lexemes d').
Proof. exact KeywordCaseProofs.typedom_keyword_case. Qed.
Print Assumptions C05_type_domain_keyword_case.
Theorem C05_object_type_keyword_case : forall o o' norm silent silent',
  TypeObj.wf norm o = true -> TypeObj.wf norm o' = true -> KeywordCaseProofs.c_tobj o = KeywordCaseProofs.c_tobj o' ->
  parse_lexemes norm silent (TypeObj.lexemes o) = parse_lexemes norm silent' (TypeObj.lexemes o').
Proof. exact KeywordCaseProofs.typeobj_keyword_case. Qed.
Print Assumptions C05_object_type_keyword_case.
Theorem C05_schema_keyword_case : forall x x' norm silent silent',
  SchemaX.wf norm x = true -> SchemaX.wf norm x' = true -> KeywordCaseProofs.c_schx x = KeywordCaseProofs.c_schx x' ->
  parse_lexemes norm silent (SchemaX.lexemes x) = parse_lexemes norm silent' (SchemaX.lexemes x').
Proof. exact KeywordCaseProofs.schema_keyword_case. Qed.
Print Assumptions C05_schema_keyword_case.

(* ---------- line breaks and indentation between the tokens of a statement ----------------------------------------------------------------
   Two layouts of a statement over lines (conditions on each line alone, see C03) whose line codes, joined by single blanks, are
   the same text give the same result: where the line breaks fall does not matter to the line machine (blank lines:
   C05_blank_line_neutral above; blanks inside the joined text are skipped by the lexer's t_ignore). *)
Theorem C05_layout_over_lines : forall parse_stmt body1 l1 l1' body2 l2 l2' more1 more2,
  Forall (fun p => code_line (fst p) (snd p) /\ endswith (code_of (snd p)) ";" = false /\ starts_statement (snd p) = false) body1 ->
  Forall (fun p => code_line (fst p) (snd p) /\ endswith (code_of (snd p)) ";" = false /\ starts_statement (snd p) = false) body2 ->
  code_line l1 l1' -> endswith (code_of l1') ";" = true -> starts_statement l1' = false ->
  code_line l2 l2' -> endswith (code_of l2') ";" = true -> starts_statement l2' = false ->
  joined (join_codes None body1) (code_of l1') = joined (join_codes None body2) (code_of l2') ->
  String.eqb (drop_last (joined (join_codes None body1) (code_of l1'))) "" = false ->
  run_lines parse_stmt lm0 (map fst body1 ++ [l1]) more1 = run_lines parse_stmt lm0 (map fst body2 ++ [l2]) more2.
Proof. exact layout_invariance. Qed.
Print Assumptions C05_layout_over_lines.
