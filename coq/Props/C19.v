(* Property C19 — file, dump and command-line entry points agree with the in-memory API (abstract file system). *)
From Coq Require Import String Ascii List ZArith NArith Bool.
From SDP Require Import Base PyStr Regex Json Actions Parse Pre Output Api ApiProofs.
Import ListNotations.
Open Scope string_scope.

Theorem C19_file_equals_api : forall decode run_text json_indent1 files path enc mode dump dump_path bytes text,
  assoc path files = Some bytes -> decode enc bytes = Ok text ->
  (do '(_, v) <- parse_from_file decode run_text json_indent1 files path enc mode dump dump_path; Ok v) = run_text text mode.
Proof. exact file_equals_api. Qed.
Print Assumptions C19_file_equals_api.

Theorem C19_no_dump_writes_nothing : forall decode run_text json_indent1 files path enc mode dump_path f v,
  parse_from_file decode run_text json_indent1 files path enc mode false dump_path = Ok (f, v) -> f = files.
Proof. exact no_dump_writes_nothing. Qed.
Print Assumptions C19_no_dump_writes_nothing.

Theorem C19_dump_writes_one_named_file : forall decode run_text json_indent1 files path enc mode dump_path f v,
  parse_from_file decode run_text json_indent1 files path enc mode true dump_path = Ok (f, v) ->
  f = (dump_target dump_path path, json_indent1 v) :: files.
Proof. exact dump_writes_exactly_one_file. Qed.
Print Assumptions C19_dump_writes_one_named_file.

(* the name: '<part of the base name before its first dot>_schema.json' under the target directory *)
Example C19_dump_target_examples :
  dump_target "schemas" "/data/in/orders.v2.sql" = "schemas/orders_schema.json" /\
  dump_target "out" "noext" = "out/noext_schema.json" /\
  map correct_extension ["a.sql"; "a.ddl"; "a.hql"; "a.bql"; "a.txt"; "a"; "a."; "a.b.sql"] =
  [true; true; true; true; false; false; true; false].
Proof. vm_compute. repeat split. Qed.
