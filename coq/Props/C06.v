(* Property C06 — identifiers are verbatim; normalize_names only strips outer delimiters. *)
From Coq Require Import String Ascii List ZArith NArith Bool.
From SDP Require Import Base PyStr Actions KeywordProofs IdProofs.
Import ListNotations.
Open Scope string_scope.

(* Of the 100 grammar keywords, those NOT accepted where a column name is expected (first or later column, upper or lower
   case) are exactly the clause-opening words the property lists.  Derived by running the lexer model (generated rule
   regexes, flag logic, keyword tables) and the LR driver on the real tables for every keyword (kernel-evaluated). *)
Theorem C06_rejected_keywords_are_exactly_the_listed_ones : rejected_keywords = property_list.
Proof. exact rejected_is_property_list. Qed.
Print Assumptions C06_rejected_keywords_are_exactly_the_listed_ones.

(* p_id: verbatim without normalize_names ... *)
Theorem C06_id_verbatim : forall s,
  action false "id -> ID" [PStr s] = Ok (PStr s) /\ action false "id -> DQ_STRING" [PStr s] = Ok (PStr s).
Proof. exact p_id_verbatim. Qed.
Print Assumptions C06_id_verbatim.

(* ... and with normalize_names: a name without delimiters is unchanged, a delimited name loses exactly its one pair of outer
   delimiters (characters and case of the rest untouched), for all names *)
Theorem C06_normalize_plain_unchanged : forall s, first_is_delim s = false -> normalize_id s = s.
Proof. exact normalize_plain. Qed.
Print Assumptions C06_normalize_plain_unchanged.

Theorem C06_normalize_strips_one_pair : forall q q' x,
  (q = "`"%char /\ q' = "`"%char) \/ (q = """"%char /\ q' = """"%char) \/ (q = "["%char /\ q' = "]"%char) ->
  x <> "" -> normalize_id (String q (x ++ String q' "")) = x.
Proof. exact normalize_strips_one_pair. Qed.
Print Assumptions C06_normalize_strips_one_pair.

(* in particular a doubly delimited name keeps its inner pair (defect D9, fixed) *)
Example C06_nested_delimiters_keep_inner_pair : normalize_id """[a]""" = "[a]".
Proof. vm_compute. reflexivity. Qed.
