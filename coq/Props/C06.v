(* Property C06 — identifiers are verbatim; normalize_names only strips outer delimiters. *)
From Coq Require Import String Ascii List ZArith NArith Bool.
From SDP Require Import Base PyStr Lexer Actions Parse Engine Seq KeywordProofs IdProofs Entity Table TableProofs Alter AlterProofs AlterKeyProofs.
Import ListNotations.
Open Scope string_scope.

(* Of the 100 grammar keywords, those NOT accepted where a column name is expected (first or later column, upper or lower
   case) are exactly the clause-opening words the property lists.  Derived by running the lexer model (generated rule
   regexes, flag logic, keyword tables) and the LR driver on the real tables for every keyword (kernel-evaluated). *)
Theorem C06_rejected_keywords_are_exactly_the_listed_ones : rejected_keywords = property_list.
Proof. exact rejected_is_property_list. Qed.
Print Assumptions C06_rejected_keywords_are_exactly_the_listed_ones.

(* p_id: verbatim without normalize_names ... *)
Theorem C06_id_verbatim : forall s,
  action false "id -> ID" [PStr s] = Ok (PStr s) /\ action false "id -> DQ_STRING" [PStr s] = Ok (PStr s).
Proof. exact p_id_verbatim. Qed.
Print Assumptions C06_id_verbatim.

(* ... and with normalize_names: a name without delimiters is unchanged, a delimited name loses exactly its one pair of outer
   delimiters (characters and case of the rest untouched), for all names *)
Theorem C06_normalize_plain_unchanged : forall s, first_is_delim s = false -> normalize_id s = s.
Proof. exact normalize_plain. Qed.
Print Assumptions C06_normalize_plain_unchanged.

Theorem C06_normalize_strips_one_pair : forall q q' x,
  (q = "`"%char /\ q' = "`"%char) \/ (q = """"%char /\ q' = """"%char) \/ (q = "["%char /\ q' = "]"%char) ->
  x <> "" -> normalize_id (String q (x ++ String q' "")) = x.
Proof. exact normalize_strips_one_pair. Qed.
Print Assumptions C06_normalize_strips_one_pair.

(* in particular a doubly delimited name keeps its inner pair (defect D9, fixed) *)
Example C06_nested_delimiters_keep_inner_pair : normalize_id """[a]""" = "[a]".
Proof. vm_compute. reflexivity. Qed.

(* ---------- every name position of the statement fragments under a theorem ----------------------------------------------------
   Without normalize_names ([nms false s] is [s] itself, by computation) the parsed entity carries every table, schema, column,
   referenced table / column, constraint and action word exactly as written — for every CREATE TABLE of the core fragment
   (names over plain words and the accepted keywords, any letter case, any delimiters that keep the word a plain word) and
   every ALTER TABLE of the fragment; with normalize_names=True the same positions carry [normalize_id s], which strips exactly
   one outer pair of delimiters (theorems above). *)
Theorem C06_name_as_written : forall s, nms false s = s /\ nms true s = normalize_id s.
Proof. intro s. split; reflexivity. Qed.
Print Assumptions C06_name_as_written.
Theorem C06_table_names_verbatim : forall t silent, Table.wf false t = true ->
  parse_lexemes false silent (Table.lexemes t) = Ok (Some (Table.denote false t)).
Proof. intros t silent H. exact (table_parse t false silent H). Qed.
Print Assumptions C06_table_names_verbatim.
Theorem C06_table_names_normalized : forall t silent, Table.wf true t = true ->
  parse_lexemes true silent (Table.lexemes t) = Ok (Some (Table.denote true t)).
Proof. intros t silent H. exact (table_parse t true silent H). Qed.
Print Assumptions C06_table_names_normalized.
Theorem C06_alter_names : forall a norm silent, Alter.wf norm a = true ->
  parse_lexemes norm silent (Alter.lexemes a) = Ok (Some (Alter.denote norm a)).
Proof. exact alter_parse. Qed.
Print Assumptions C06_alter_names.
(* a mixed-case, delimited and keyword-named example, both settings *)
Example C06_names_example :
  let t := mkTable "CREATE" "TABLE" (Some "[Dev]") "`Order`" (mkCol "Comment" "INT" None None []) [mkCol "UserName" "text" None None []] in
  Table.wf false t = true /\ Table.wf true t = true /\
  Table.denote false t = PDict [("schema", PStr "[Dev]"); ("table_name", PStr "`Order`");
                                ("columns", PList [PDict (cdict "Comment" "INT" PNone cs0); PDict (cdict "UserName" "text" PNone cs0)]); ("checks", PList [])] /\
  Table.denote true t = PDict [("schema", PStr "Dev"); ("table_name", PStr "Order");
                               ("columns", PList [PDict (cdict "Comment" "INT" PNone cs0); PDict (cdict "UserName" "text" PNone cs0)]); ("checks", PList [])].
Proof. vm_compute. repeat split. Qed.

(* ---------- type, domain and attribute names ----------------------------------------------------------------------------------------------------
   The schema and name of every CREATE TYPE / CREATE DOMAIN of the value-list and object-type fragments, and the name of every attribute
   of an object type, are reported as written ([nms false s = s]) and, with normalize_names=True, as [normalize_id s]. *)
From SDP Require TypeDom TypeDomProofs TypeObj TypeObjProofs.
Theorem C06_type_domain_names : forall d norm silent, TypeDom.wf norm d = true ->
  exists e, parse_lexemes norm silent (TypeDom.lexemes d) = Ok (Some (PDict e)) /\
            dict_get e "schema" = Some (match TypeDom.d_schema d with Some s => PStr (nms norm s) | None => PNone end) /\
            dict_get e (if TypeDom.d_type d then "type_name" else "domain_name") = Some (PStr (nms norm (TypeDom.d_name d))).
Proof.
  intros d norm silent H. rewrite (TypeDomProofs.typedom_parse d norm silent H). unfold TypeDom.denote.
  destruct (TypeDom.d_type d); (eexists; split; [reflexivity|]; split; [destruct (TypeDom.d_schema d); reflexivity|reflexivity]).
Qed.
Print Assumptions C06_type_domain_names.
Theorem C06_object_type_names : forall o norm silent, TypeObj.wf norm o = true ->
  exists e, parse_lexemes norm silent (TypeObj.lexemes o) = Ok (Some (PDict e)) /\
            dict_get e "schema" = Some (match TypeObj.o_schema o with Some s => PStr (nms norm s) | None => PNone end) /\
            dict_get e "type_name" = Some (PStr (nms norm (TypeObj.o_name o))) /\
            forall a, In a (TypeObj.o_attrs o) -> exists rest, TypeObj.attr_value norm a = PDict (("name", PStr (nms norm (TypeObj.at_name a))) :: rest).
Proof.
  intros o norm silent H. rewrite (TypeObjProofs.typeobj_parse o norm silent H). unfold TypeObj.denote.
  eexists; split; [reflexivity|]; split; [destruct (TypeObj.o_schema o); reflexivity|]. split; [reflexivity|].
  intros a _. unfold TypeObj.attr_value. eexists. reflexivity.
Qed.
Print Assumptions C06_object_type_names.
