(* Property C20 — the parse tables in use are those of the declared grammar, whatever the cache state. *)
From Coq Require Import String List ZArith NArith PArith Bool.
From SDP Require Import Base PyStr LR RealTables Cache CacheProofs.
From SDP.Gen Require Import Grammar Tables Parsetab.
Import ListNotations.

(* The file shipped in the current tree (Gen.Parsetab = literal content of parsetab.py), IF PLY accepts it
   (signature equal to the grammar's signature, table version accepted), yields exactly the actions, gotos and
   productions of a fresh generation (Gen.Tables / Gen.Grammar, produced by PLY from the source in a clean
   process).  ~30 000 entries compared by the kernel (vm_compute) in Proofs/CacheProofs.cache_ok_true. *)
Theorem C20_cached_equals_fresh :
  (forall s t, lookup (in_use cache_used pt_action action_map) s t = lookup action_map s t) /\
  (forall s n, lookup (in_use cache_used pt_goto goto_map) s n = lookup goto_map s n) /\
  in_use cache_used (Some Parsetab.pt_productions) Parsetab.fresh_productions = Parsetab.fresh_productions.
Proof. exact cached_tables_are_fresh. Qed.
Print Assumptions C20_cached_equals_fresh.

(* missing file, stale signature, other table version: yacc.yacc() regenerates — the tables in use are the fresh ones *)
Theorem C20_regenerated_when_not_used : forall c, c <> CacheAsOnDisk ->
  forall A (cached : option A) (fresh : A), in_use (used_in c) cached fresh = fresh.
Proof. intros c Hc A cached fresh. destruct c; [congruence| | |]; reflexivity. Qed.
Print Assumptions C20_regenerated_when_not_used.
