(* Property C15 — parser objects do not interfere, sequentially or across threads (sequential/atomic-step model). *)
From Coq Require Import String Ascii List ZArith NArith Bool.
From SDP Require Import Base PyStr Regex Json Actions Parse Pre Output Api ApiProofs.
From SDP.Gen Require Tokens.
Import ListNotations.

(* a run goes through the object's own parser and lexer (read off parse_statement's call: Gen.own_parser / own_lexer) *)
Theorem C15_uses_own_parser_and_lexer : forall w i, settings_used w i = Some i.
Proof. exact settings_are_own. Qed.
Print Assumptions C15_uses_own_parser_and_lexer.

(* in ANY world (whatever was constructed or run before, in whatever order) Run i returns what object i returns alone *)
Theorem C15_run_is_solo : forall w i me mode group json,
  wget (w_objs w) i = Some me ->
  snd (exec1 w (Run i mode group json)) =
  Some (match run_obj (o_norm me) (o_silent me) carried0 mode group json (o_ddl me) with
        | Ok (_, v) => Ok v | Raise e => Raise e | Unsupported s => Unsupported s | OutOfFuel => OutOfFuel end).
Proof. exact run_in_world_is_solo. Qed.
Print Assumptions C15_run_is_solo.

(* operations on other objects (constructions, runs) never change an object's text or settings *)
Theorem C15_others_leave_object_alone : forall w o i,
  (match o with Construct j _ _ _ => j <> i | Run j _ _ _ => j <> i end) ->
  option_map (fun x => (o_ddl x, o_norm x, o_silent x)) (wget (w_objs (fst (exec1 w o))) i) =
  option_map (fun x => (o_ddl x, o_norm x, o_silent x)) (wget (w_objs w) i).
Proof. exact other_ops_leave_object. Qed.
Print Assumptions C15_others_leave_object_alone.
