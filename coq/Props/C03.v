(* Property C03 — statements of a script are parsed independently and reported in order. *)
From Coq Require Import String Ascii List ZArith NArith Bool.
From SDP Require Import Base PyStr Regex Actions Pre Lexer PreProofs.
From SDP.Gen Require Tokens.
Import ListNotations.

(* For ANY per-statement parser (a function of the statement text alone — see C03_lexer_reset_total for why the real one is),
   any number of chunks of lines each of which brings the line machine back to its initial state (statements ending with
   ';' at the end of a line do), and any final part: the outputs are the in-order concatenation of what each part yields
   when parsed alone.  No statement's outcome depends on what precedes or follows it. *)
Theorem C03_statements_independent : forall parse_stmt chunks last more es,
  last <> [] ->
  Forall2 (fun c e => run_lines parse_stmt lm0 c true = Ok (lm0, e)) chunks es ->
  run_lines parse_stmt lm0 (concat chunks ++ last) more =
  (do '(m2, e2) <- run_lines parse_stmt lm0 last more; Ok (m2, fold_right join_out e2 es)).
Proof. exact all_chunks_independent. Qed.
Print Assumptions C03_statements_independent.

(* the attributes really reset by set_default_flags_in_lexer before EVERY statement (recorded by executing it) cover the whole
   flag state of the lexer model, each with its initial value: no lexical context survives a statement boundary *)
Theorem C03_lexer_reset_total : reset_covers = true.
Proof. exact reset_covers_true. Qed.
Print Assumptions C03_lexer_reset_total.

(* a statement the grammar does not support (parse result None) emits nothing: its neighbours' outputs are unchanged *)
Theorem C03_unsupported_statement_emits_nothing : forall (v : option pyval),
  v = None -> (match v with Some x => [x] | None => [] end) = @nil pyval.
Proof. intros v ->. reflexivity. Qed.

(* ---------- statements written on one line: independence PROVED, not assumed -----------------------------------------------------------
   [one_line_statement l l'] speaks about the line alone: after the '=' re-spacing it is l', it holds no comment marker, its first
   word is not one the line machine skips (GO, USE, INSERT ...) or SET, and its code ends with ';'.  For ANY statement parser:
   such a line, read in the initial state, is handed to the parser without its ';', yields exactly that statement's entities
   (nothing for an unsupported statement: the parser returns None) and leaves the machine in its initial state; hence a script of
   any number of such lines yields the in-order concatenation of the per-statement results, whatever the neighbours are. *)
Theorem C03_one_line_statement_alone : forall parse_stmt l l' not_last, one_line_statement l l' ->
  process_line parse_stmt lm0 l not_last =
  (do r <- parse_stmt (drop_last (code_of l')); Ok (lm0, (entities_of r, []))).
Proof. exact one_line_statement_alone. Qed.
Print Assumptions C03_one_line_statement_alone.
Theorem C03_one_line_statements_independent : forall parse_stmt (ls : list (string * string)) more,
  Forall (fun p => one_line_statement (fst p) (snd p)) ls ->
  run_lines parse_stmt lm0 (map fst ls) more = (do t <- results_in_order parse_stmt ls; Ok (lm0, (t, []))).
Proof. exact one_line_statements_independent. Qed.
Print Assumptions C03_one_line_statements_independent.
(* non-vacuity: a table, a query (unsupported) and an ALTER, one per line *)
Example C03_one_line_examples :
  one_line_statement "CREATE TABLE t (a int, b varchar(10) NOT NULL);" "CREATE TABLE t (a int, b varchar(10) NOT NULL);" /\
  one_line_statement "SELECT x FROM t WHERE a=1;" "SELECT x FROM t WHERE a = 1;" /\
  one_line_statement "  alter table t add constraint pk primary key (a) ;" "  alter table t add constraint pk primary key (a) ;".
Proof. repeat split; vm_compute; reflexivity. Qed.

(* ---------- a statement laid out over SEVERAL lines -------------------------------------------------------------------------------------
   [code_line l l'] speaks about one line alone (no comment marker, not a skipped or SET line, not empty).  Any number of such
   lines that do not end with ';' and do not begin with CREATE / ALTER / DROP / SET (the first line of a statement read in the
   initial state may: see C03_statement_from_its_first_line), followed by one that ends with ';': the parser receives the codes of
   the lines joined by single blanks, without the ';', and the machine is back in its initial state, so the next statement of the
   script starts from scratch (C03_statements_independent applies with this chunk). *)
Theorem C03_statement_over_lines : forall parse_stmt (body : list (string * string)) st l l' more,
  Forall (fun p => code_line (fst p) (snd p) /\ endswith (code_of (snd p)) ";" = false /\ starts_statement (snd p) = false) body ->
  code_line l l' -> endswith (code_of l') ";" = true -> starts_statement l' = false ->
  String.eqb (drop_last (joined (join_codes st body) (code_of l'))) "" = false ->
  run_lines parse_stmt (collecting st) (map fst body ++ [l]) more =
  (do r <- parse_stmt (drop_last (joined (join_codes st body) (code_of l'))); Ok (lm0, (entities_of r, []))).
Proof. exact statement_over_lines. Qed.
Print Assumptions C03_statement_over_lines.
(* the first line of a statement (it does begin with CREATE ...), read in the initial state *)
Theorem C03_statement_from_its_first_line : forall parse_stmt l l', code_line l l' -> endswith (code_of l') ";" = false ->
  process_line parse_stmt lm0 l true = Ok (collecting (Some (code_of l')), ([], [])).
Proof. intros p l l' H E. exact (continuation_line p l l' None H E (or_introl eq_refl)). Qed.
Print Assumptions C03_statement_from_its_first_line.
Example C03_code_lines :
  code_line "CREATE TABLE t (" "CREATE TABLE t (" /\ starts_statement "CREATE TABLE t (" = true /\
  code_line "   a int," "   a int," /\ starts_statement "   a int," = false /\
  code_line "   b varchar(10) DEFAULT='x'" "   b varchar(10) DEFAULT = 'x'" /\
  code_line ");" ");" /\ endswith (code_of ");") ";" = true.
Proof. repeat split; vm_compute; reflexivity. Qed.

(* the same with a trailing -- comment (any text) on any of the lines: the chunk still returns the machine to its initial state,
   so C03_statements_independent applies to commented multi-line statements as well (statement: C08_statement_over_commented_lines) *)
Theorem C03_commented_statement_returns_to_initial_state : forall parse_stmt (body : list cline) st (last : cline) more,
  Forall (fun c => commented_line (cl_l c) (cl_l' c) (cl_code c) (cl_cms c) /\ endswith (code_of (cl_code c)) ";" = false
                   /\ starts_stmt (cl_code c) = false) body ->
  commented_line (cl_l last) (cl_l' last) (cl_code last) (cl_cms last) -> endswith (code_of (cl_code last)) ";" = true ->
  starts_stmt (cl_code last) = false ->
  String.eqb (drop_last (joined (join_ccodes st body) (code_of (cl_code last)))) "" = false ->
  run_lines parse_stmt (collecting st) (map cl_l body ++ [cl_l last]) more =
  (do r <- parse_stmt (drop_last (joined (join_ccodes st body) (code_of (cl_code last))));
   Ok (lm0, (entities_of r, (flat_map cl_cms body ++ cl_cms last)%list))).
Proof. exact statement_over_commented_lines. Qed.
Print Assumptions C03_commented_statement_returns_to_initial_state.
