(* Property C03 — statements of a script are parsed independently and reported in order. *)
From Coq Require Import String Ascii List ZArith NArith Bool.
From SDP Require Import Base PyStr Regex Actions Pre Lexer PreProofs.
From SDP.Gen Require Tokens.
Import ListNotations.

(* For ANY per-statement parser (a function of the statement text alone — see C03_lexer_reset_total for why the real one is),
   any number of chunks of lines each of which brings the line machine back to its initial state (statements ending with
   ';' at the end of a line do), and any final part: the outputs are the in-order concatenation of what each part yields
   when parsed alone.  No statement's outcome depends on what precedes or follows it. *)
Theorem C03_statements_independent : forall parse_stmt chunks last more es,
  last <> [] ->
  Forall2 (fun c e => run_lines parse_stmt lm0 c true = Ok (lm0, e)) chunks es ->
  run_lines parse_stmt lm0 (concat chunks ++ last) more =
  (do '(m2, e2) <- run_lines parse_stmt lm0 last more; Ok (m2, fold_right join_out e2 es)).
Proof. exact all_chunks_independent. Qed.
Print Assumptions C03_statements_independent.

(* the attributes really reset by set_default_flags_in_lexer before EVERY statement (recorded by executing it) cover the whole
   flag state of the lexer model, each with its initial value: no lexical context survives a statement boundary *)
Theorem C03_lexer_reset_total : reset_covers = true.
Proof. exact reset_covers_true. Qed.
Print Assumptions C03_lexer_reset_total.

(* a statement the grammar does not support (parse result None) emits nothing: its neighbours' outputs are unchanged *)
Theorem C03_unsupported_statement_emits_nothing : forall (v : option pyval),
  v = None -> (match v with Some x => [x] | None => [] end) = @nil pyval.
Proof. intros v ->. reflexivity. Qed.
