(* Property C08 — comments never change what is parsed and are reported separately. *)
From Coq Require Import String Ascii List ZArith NArith Bool.
From SDP Require Import Base PyStr Regex Actions Pre PreProofs.
From SDP.Gen Require RegexAst.
Import ListNotations.

(* For ANY machine state reached inside or between statements (no SET pending), any per-statement parser:
   a whole-line '--' / '#' comment changes nothing — not the statement being collected, not the comment bookkeeping —
   and emits no entity. *)
Theorem C08_whole_line_comment_neutral : forall parse_stmt m l l',
  multi_line_comment m = false -> set_line m = None ->
  re_sub RegexAst.re_equal_without_space " = " l = Ok l' ->
  (startswith (strip l') MYSQL_COM || startswith (strip l') IN_COM) = true ->
  startswith l' OP_COM = false -> startswith l' CL_COM = false ->
  process_line parse_stmt m l true = Ok (m, ([], [])).
Proof. exact comment_line_neutral. Qed.
Print Assumptions C08_whole_line_comment_neutral.

(* a line inside a multi-line /* ... */ block that does not close it: the state is unchanged, no entity is emitted, and the
   line's text goes to the comments output only *)
Theorem C08_inside_block_comment_neutral : forall parse_stmt m l l',
  multi_line_comment m = true -> set_line m = None ->
  re_sub RegexAst.re_equal_without_space " = " l = Ok l' ->
  contains l' CL_COM = false ->
  process_line parse_stmt m l true = Ok (m, ([], [l'])).
Proof. exact inside_block_comment_neutral. Qed.
Print Assumptions C08_inside_block_comment_neutral.

(* ---------- a trailing '-- comment' after the code of a one-line statement ---------------------------------------------------------------
   Under conditions about the line alone (the '--' is the first one outside quoted literals, the code before it is a one-line statement ending with ';')
   and for ANY statement parser: the statement is parsed exactly as without the comment, the comment text is reported in the
   comments output and nowhere else, and the machine is back in its initial state. *)
Theorem C08_trailing_comment_neutral : forall parse_stmt l l' code text not_last,
  one_line_with_trailing_comment l l' code text ->
  process_line parse_stmt lm0 l not_last =
  (do r <- parse_stmt (drop_last (code_of code)); Ok (lm0, (entities_of r, [text]))).
Proof. exact trailing_comment_neutral. Qed.
Print Assumptions C08_trailing_comment_neutral.
Example C08_trailing_comment_example :
  one_line_with_trailing_comment "CREATE TABLE t (a int, b text); -- drop table t; create table z (q int)"
                                 "CREATE TABLE t (a int, b text); -- drop table t; create table z (q int)"
                                 "CREATE TABLE t (a int, b text); " " drop table t; create table z (q int)".
Proof. constructor; try (vm_compute; reflexivity). exists 32%nat. vm_compute. repeat split. Qed.

(* where the comment starts is decided by the code before it alone (fix 0398ce9): if the code holds no "--" outside quoted literals,
   closes every literal it opens and does not end with '-', then for EVERY comment text — apostrophes, quotes, further "--",
   statements, anything — the line  code -- text  is cut exactly between code and text *)
Theorem C08_comment_text_is_irrelevant : forall code text,
  comment_start None code = None -> end_quote None code = None -> ends_with_dash code = false ->
  process_in_comment (code ++ IN_COM ++ text) = Ok (code, [text]).
Proof. exact comment_cut_for_any_text. Qed.
Print Assumptions C08_comment_text_is_irrelevant.
(* the witness of the repaired defect: a literal in the code, an apostrophe in the comment *)
Example C08_apostrophe_in_comment :
  process_in_comment "CREATE TABLE t (a int DEFAULT 'x -- y'); -- it's done" = Ok ("CREATE TABLE t (a int DEFAULT 'x -- y'); ", [" it's done"]).
Proof. vm_compute. reflexivity. Qed.

(* ---------- trailing comments on the lines of a multi-line statement -------------------------------------------------------------------------
   [commented_line l l' code cms] speaks about one line alone: after the '=' re-spacing it is l'; it holds no block-comment marker;
   [code] is what stands before the first "--" outside quoted literals ([cms] the rest of the line) or the whole line; the code is
   not empty, skipped or a SET line.  For ANY statement parser, any number of such lines and ANY comment texts: the statement is
   handed to the parser as the line codes joined by blanks — exactly as without the comments — the comment texts are reported in
   source order in the comments output and nowhere else, and the machine returns to its initial state. *)
Theorem C08_statement_over_commented_lines : forall parse_stmt (body : list cline) st (last : cline) more,
  Forall (fun c => commented_line (cl_l c) (cl_l' c) (cl_code c) (cl_cms c) /\ endswith (code_of (cl_code c)) ";" = false
                   /\ starts_stmt (cl_code c) = false) body ->
  commented_line (cl_l last) (cl_l' last) (cl_code last) (cl_cms last) -> endswith (code_of (cl_code last)) ";" = true ->
  starts_stmt (cl_code last) = false ->
  String.eqb (drop_last (joined (join_ccodes st body) (code_of (cl_code last)))) "" = false ->
  run_lines parse_stmt (collecting st) (map cl_l body ++ [cl_l last]) more =
  (do r <- parse_stmt (drop_last (joined (join_ccodes st body) (code_of (cl_code last))));
   Ok (lm0, (entities_of r, (flat_map cl_cms body ++ cl_cms last)%list))).
Proof. exact statement_over_commented_lines. Qed.
Print Assumptions C08_statement_over_commented_lines.
(* the first line of the statement (it begins with CREATE ...), read in the initial state *)
Theorem C08_first_line_with_comment : forall parse_stmt l l' code cms, commented_line l l' code cms -> endswith (code_of code) ";" = false ->
  process_line parse_stmt lm0 l true = Ok (collecting (Some (code_of code)), ([], cms)).
Proof. intros p l l' code cms H E. exact (commented_continuation p l l' code cms None H E (or_introl eq_refl)). Qed.
Print Assumptions C08_first_line_with_comment.
(* two layouts with the same line codes (comments added, removed or changed at will) hand the same text to the statement parser *)
Theorem C08_trailing_comments_over_lines_neutral : forall parse_stmt (b1 b2 : list cline) (l1 l2 : cline) st more1 more2,
  Forall (fun c => commented_line (cl_l c) (cl_l' c) (cl_code c) (cl_cms c) /\ endswith (code_of (cl_code c)) ";" = false /\ starts_stmt (cl_code c) = false) b1 ->
  Forall (fun c => commented_line (cl_l c) (cl_l' c) (cl_code c) (cl_cms c) /\ endswith (code_of (cl_code c)) ";" = false /\ starts_stmt (cl_code c) = false) b2 ->
  commented_line (cl_l l1) (cl_l' l1) (cl_code l1) (cl_cms l1) -> commented_line (cl_l l2) (cl_l' l2) (cl_code l2) (cl_cms l2) ->
  endswith (code_of (cl_code l1)) ";" = true -> starts_stmt (cl_code l1) = false ->
  map (fun c => code_of (cl_code c)) b1 = map (fun c => code_of (cl_code c)) b2 -> code_of (cl_code l1) = code_of (cl_code l2) ->
  String.eqb (drop_last (joined (join_ccodes st b1) (code_of (cl_code l1)))) "" = false ->
  exists stmt,
    run_lines parse_stmt (collecting st) (map cl_l b1 ++ [cl_l l1]) more1 = (do r <- parse_stmt stmt; Ok (lm0, (entities_of r, (flat_map cl_cms b1 ++ cl_cms l1)%list))) /\
    run_lines parse_stmt (collecting st) (map cl_l b2 ++ [cl_l l2]) more2 = (do r <- parse_stmt stmt; Ok (lm0, (entities_of r, (flat_map cl_cms b2 ++ cl_cms l2)%list))).
Proof. exact trailing_comments_over_lines_neutral. Qed.
Print Assumptions C08_trailing_comments_over_lines_neutral.
(* non-vacuity: lines of a table with a literal holding "--" and comments holding apostrophes *)
Example C08_commented_lines_example :
  commented_line "CREATE TABLE t ( -- it's the table" "CREATE TABLE t ( -- it's the table" "CREATE TABLE t ( " [" it's the table"] /\
  commented_line "  a int DEFAULT 'x -- y', -- first, don't drop" "  a int DEFAULT 'x -- y', -- first, don't drop" "  a int DEFAULT 'x -- y', " [" first, don't drop"] /\
  starts_stmt "  a int DEFAULT 'x -- y', " = false /\
  commented_line "  b text" "  b text" "  b text" [] /\
  commented_line "); -- done -- really" "); -- done -- really" "); " [" done -- really"] /\ endswith (code_of "); ") ";" = true.
Proof. repeat split; try (vm_compute; reflexivity); try (right; split; vm_compute; reflexivity); try (left; repeat split; vm_compute; reflexivity). Qed.
