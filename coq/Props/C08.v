(* Property C08 — comments never change what is parsed and are reported separately. *)
From Coq Require Import String Ascii List ZArith NArith Bool.
From SDP Require Import Base PyStr Regex Actions Pre PreProofs.
From SDP.Gen Require RegexAst.
Import ListNotations.

(* For ANY machine state reached inside or between statements (no SET pending), any per-statement parser:
   a whole-line '--' / '#' comment changes nothing — not the statement being collected, not the comment bookkeeping —
   and emits no entity. *)
Theorem C08_whole_line_comment_neutral : forall parse_stmt m l l',
  multi_line_comment m = false -> set_line m = None ->
  re_sub RegexAst.re_equal_without_space " = " l = Ok l' ->
  (startswith (strip l') MYSQL_COM || startswith (strip l') IN_COM) = true ->
  startswith l' OP_COM = false -> startswith l' CL_COM = false ->
  process_line parse_stmt m l true = Ok (m, ([], [])).
Proof. exact comment_line_neutral. Qed.
Print Assumptions C08_whole_line_comment_neutral.

(* a line inside a multi-line /* ... */ block that does not close it: the state is unchanged, no entity is emitted, and the
   line's text goes to the comments output only *)
Theorem C08_inside_block_comment_neutral : forall parse_stmt m l l',
  multi_line_comment m = true -> set_line m = None ->
  re_sub RegexAst.re_equal_without_space " = " l = Ok l' ->
  contains l' CL_COM = false ->
  process_line parse_stmt m l true = Ok (m, ([], [l'])).
Proof. exact inside_block_comment_neutral. Qed.
Print Assumptions C08_inside_block_comment_neutral.

(* ---------- a trailing '-- comment' after the code of a one-line statement ---------------------------------------------------------------
   Under conditions about the line alone (the '--' is the first one outside quoted literals, the code before it is a one-line statement ending with ';')
   and for ANY statement parser: the statement is parsed exactly as without the comment, the comment text is reported in the
   comments output and nowhere else, and the machine is back in its initial state. *)
Theorem C08_trailing_comment_neutral : forall parse_stmt l l' code text not_last,
  one_line_with_trailing_comment l l' code text ->
  process_line parse_stmt lm0 l not_last =
  (do r <- parse_stmt (drop_last (code_of code)); Ok (lm0, (entities_of r, [text]))).
Proof. exact trailing_comment_neutral. Qed.
Print Assumptions C08_trailing_comment_neutral.
Example C08_trailing_comment_example :
  one_line_with_trailing_comment "CREATE TABLE t (a int, b text); -- drop table t; create table z (q int)"
                                 "CREATE TABLE t (a int, b text); -- drop table t; create table z (q int)"
                                 "CREATE TABLE t (a int, b text); " " drop table t; create table z (q int)".
Proof. constructor; try (vm_compute; reflexivity). exists 32%nat. vm_compute. repeat split. Qed.

(* where the comment starts is decided by the code before it alone (fix 0398ce9): if the code holds no "--" outside quoted literals,
   closes every literal it opens and does not end with '-', then for EVERY comment text — apostrophes, quotes, further "--",
   statements, anything — the line  code -- text  is cut exactly between code and text *)
Theorem C08_comment_text_is_irrelevant : forall code text,
  comment_start None code = None -> end_quote None code = None -> ends_with_dash code = false ->
  process_in_comment (code ++ IN_COM ++ text) = Ok (code, [text]).
Proof. exact comment_cut_for_any_text. Qed.
Print Assumptions C08_comment_text_is_irrelevant.
(* the witness of the repaired defect: a literal in the code, an apostrophe in the comment *)
Example C08_apostrophe_in_comment :
  process_in_comment "CREATE TABLE t (a int DEFAULT 'x -- y'); -- it's done" = Ok ("CREATE TABLE t (a int DEFAULT 'x -- y'); ", [" it's done"]).
Proof. vm_compute. reflexivity. Qed.
