(* Property C02 — keys, uniqueness, checks and foreign keys land on the right columns (output-layer part). *)
From Coq Require Import String Ascii List ZArith NArith Bool.
From SDP Require Import Base PyStr Actions Output OutputProofs.
Import ListNotations.
Open Scope string_scope.

(* columns that only take part in a multi-column UNIQUE (k >= 2, any k) are never flagged individually: the table-level
   unique statement leaves every column unchanged *)
Theorem C02_multi_column_unique_never_flags : forall obj cl cols,
  get_or_none obj "unique_statement" = PList cl -> List.length cl <> 1 ->
  get_or_none obj "columns" = PList cols -> Forall col_ok cols ->
  set_column_unique_param obj "unique_statement" = Ok (dict_set obj "columns" (PList cols)).
Proof. exact unique_statement_multi_never_flags. Qed.
Print Assumptions C02_multi_column_unique_never_flags.

(* ALTER ... ADD UNIQUE: exactly one column => that column (and only columns of that name) is flagged *)
Theorem C02_alter_unique_single_flags : forall t stmt u x cols,
  getitem stmt "unique" = Ok (PDict u) -> getitem u "columns" = Ok (PList [x]) ->
  tget t "columns" = PList cols -> cols <> [] -> Forall col_ok cols ->
  set_unique_columns_from_alter t stmt =
  Ok (dict_set t "columns" (PList (map (fun c => if py_in_list (col_name c) [x] then col_upd "unique" (PBool true) c else c) cols))).
Proof. exact alter_unique_single_flags. Qed.
Print Assumptions C02_alter_unique_single_flags.

Theorem C02_alter_unique_multi_flags_nothing : forall t stmt u ucols cols,
  getitem stmt "unique" = Ok (PDict u) -> getitem u "columns" = Ok (PList ucols) ->
  List.length ucols <> 1 -> tget t "columns" = PList cols ->
  set_unique_columns_from_alter t stmt = Ok t.
Proof. exact alter_unique_multi_never_flags. Qed.
Print Assumptions C02_alter_unique_multi_flags_nothing.

(* non-vacuity / the whole pipeline of the output layer on a table with every kind of key declaration:
   inline PK + named multi-column unique + unnamed single unique: pk exact, pk columns non-nullable,
   only the single-unique column flagged *)
Definition ex_stmt : pyval :=
  PDict [("table_name", PStr "t"); ("schema", PNone);
         ("columns", PList [PDict [("name", PStr "a"); ("type", PStr "int"); ("primary_key", PBool true); ("nullable", PBool true); ("unique", PBool false)];
                            PDict [("name", PStr "b"); ("type", PStr "int"); ("primary_key", PBool false); ("nullable", PBool true); ("unique", PBool false)];
                            PDict [("name", PStr "c"); ("type", PStr "int"); ("primary_key", PBool true); ("nullable", PBool true); ("unique", PBool false)]]);
         ("unique_statement", PList [PStr "b"]);
         ("constraints", PDict [("uniques", PList [PDict [("columns", PList [PStr "a"; PStr "c"]); ("constraint_name", PStr "u")]])])].
Example C02_example :
  match format "sql" false [ex_stmt] with
  | Ok (PList [PDict t]) =>
      pyval_eqb (get_or_none t "primary_key") (PList [PStr "a"; PStr "c"])
      && match get_or_none t "columns" with
         | PList [PDict a; PDict b; PDict c] =>
             pyval_eqb (get_or_none a "nullable") (PBool false) && pyval_eqb (get_or_none c "nullable") (PBool false)
             && pyval_eqb (get_or_none b "nullable") (PBool true) && pyval_eqb (get_or_none b "unique") (PBool true)
             && pyval_eqb (get_or_none a "unique") (PBool false) && pyval_eqb (get_or_none c "unique") (PBool false)
         | _ => false end
  | _ => false
  end = true.
Proof. vm_compute. reflexivity. Qed.
