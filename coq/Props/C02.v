(* Property C02 — keys, uniqueness, checks and foreign keys land on the right columns (output-layer part). *)
From Coq Require Import String Ascii List ZArith NArith Bool.
From SDP Require Import Base PyStr Lexer Actions Parse Engine Seq Entity Output OutputProofs Table TableProofs TableOutProofs TableItemProofs.
Import ListNotations.
Open Scope string_scope.
Definition pyval_eqb_opt (r : res (option pyval)) (v : pyval) : bool :=
  match r with Ok (Some x) => pyval_eqb x v | _ => false end.

(* columns that only take part in a multi-column UNIQUE (k >= 2, any k) are never flagged individually: the table-level
   unique statement leaves every column unchanged *)
Theorem C02_multi_column_unique_never_flags : forall obj cl cols,
  get_or_none obj "unique_statement" = PList cl -> List.length cl <> 1 ->
  get_or_none obj "columns" = PList cols -> Forall col_ok cols ->
  set_column_unique_param obj "unique_statement" = Ok (dict_set obj "columns" (PList cols)).
Proof. exact unique_statement_multi_never_flags. Qed.
Print Assumptions C02_multi_column_unique_never_flags.

(* ALTER ... ADD UNIQUE: exactly one column => that column (and only columns of that name) is flagged *)
Theorem C02_alter_unique_single_flags : forall t stmt u x cols,
  getitem stmt "unique" = Ok (PDict u) -> getitem u "columns" = Ok (PList [x]) ->
  tget t "columns" = PList cols -> cols <> [] -> Forall col_ok cols ->
  set_unique_columns_from_alter t stmt =
  Ok (dict_set t "columns" (PList (map (fun c => if py_in_list (col_name c) [x] then col_upd "unique" (PBool true) c else c) cols))).
Proof. exact alter_unique_single_flags. Qed.
Print Assumptions C02_alter_unique_single_flags.

Theorem C02_alter_unique_multi_flags_nothing : forall t stmt u ucols cols,
  getitem stmt "unique" = Ok (PDict u) -> getitem u "columns" = Ok (PList ucols) ->
  List.length ucols <> 1 -> tget t "columns" = PList cols ->
  set_unique_columns_from_alter t stmt = Ok t.
Proof. exact alter_unique_multi_never_flags. Qed.
Print Assumptions C02_alter_unique_multi_flags_nothing.

(* ---------- inline declarations, lexemes to reported table (parser stage + output stage, mode sql) ----------------------
   For EVERY statement of the core CREATE TABLE fragment (Spec/Table.v: any number of columns, any number / order / repetition of
   inline NULL, NOT NULL, DEFAULT, PRIMARY KEY, UNIQUE, REFERENCES options; see Props/C01.v) the reported table is [final_table]:
   - primary_key is exactly the ordered list of the columns declared PRIMARY KEY inline ([pk_of_spec]);
   - every such column is reported non-nullable whatever its other options said;
   - a column is flagged unique iff an inline UNIQUE was among its options; its reference (if any) is the one declared on it,
     with the schema, table, column and ON DELETE / ON UPDATE actions as written (the [cstate] computed by [apply_opt]);
   - one column entry per declared column, in order. *)
Theorem C02_inline_keys_end_to_end : forall t norm silent, Table.wf norm t = true -> nms norm (t_name t) <> "" ->
  parse_lexemes norm silent (Table.lexemes t) = Ok (Some (Table.denote norm t)) /\
  Output.format "sql" false [Table.denote norm t]
  = Ok (PList [PDict (final_table (onm norm (t_schema t)) (PStr (nms norm (t_name t))) (cds norm t))]).
Proof. exact table_parse_and_format. Qed.
Print Assumptions C02_inline_keys_end_to_end.

Theorem C02_reported_key_is_the_declared_one : forall l : list cd,
  pk_of l = map (fun x => PStr (cd_name x)) (filter (fun x => cs_pk (cd_cs x)) l).
Proof. exact pk_of_spec. Qed.
Print Assumptions C02_reported_key_is_the_declared_one.

Theorem C02_key_columns_not_nullable : forall (l : list cd) x, In x l -> cs_pk (cd_cs x) = true ->
  exists d, final_col (pk_of l) x = PDict d /\ dict_get d "nullable" = Some (PBool false).
Proof. exact pk_col_not_nullable. Qed.
Print Assumptions C02_key_columns_not_nullable.

Theorem C02_column_entry_fields : forall pk x, exists d, final_col pk x = PDict d /\
  dict_get d "name" = Some (PStr (cd_name x)) /\ dict_get d "type" = Some (PStr (cd_ty x)) /\ dict_get d "size" = Some (cd_sz x) /\
  dict_get d "unique" = Some (PBool (cs_unique (cd_cs x))) /\ dict_get d "default" = Some (cs_default (cd_cs x)) /\
  dict_get d "references" = Some (cs_refs (cd_cs x)) /\ dict_has d "primary_key" = false.
Proof. exact final_col_fields. Qed.
Print Assumptions C02_column_entry_fields.

(* ---------- table-level clauses: the grammar side, any number of clauses, column lists of any length --------------------------
   For EVERY statement  CREATE TABLE [s.]t ( columns , clause {, clause} )  where the columns are those of the core fragment and
     clause = [CONSTRAINT n] PRIMARY KEY (c {, c}) | [CONSTRAINT n] UNIQUE (c {, c})
            | [CONSTRAINT n] FOREIGN KEY (c {, c}) REFERENCES [s.]t (c {, c}) [ON DELETE a] [ON UPDATE a]
   the model (real keyword tables + flag logic, real LALR tables — 244-configuration closed invariant —, modelled actions) returns
   the entity [denote_c]: the column entity of C01 to which p_expression_table's clause function (Model/Actions.act_expr_table_item,
   tied to the code by correspondence) has been applied once per clause, in declaration order, with exactly the declared
   values [titem_values]: the constraint name if any, the exact column list and, for a foreign key, the referenced schema /
   table / column list and the ON DELETE / ON UPDATE actions as written.  [wf_c] asks for plain words as names, for [denote_c]
   to be defined (e.g. a foreign key does not reference fewer columns than it has) and for the finished entity to pass the test
   the closing production makes. *)
Theorem C02_table_clauses_exact : forall tc norm silent i r, tc_items tc = i :: r -> wf_c norm tc = true ->
  exists d, denote_c norm tc = Ok d /\ parse_lexemes norm silent (lexemes_c tc) = Ok (Some (PDict d)).
Proof. exact table_c_parse. Qed.
Print Assumptions C02_table_clauses_exact.

Definition ex_tc : tablec :=
  mkTableC (mkTable "CREATE" "table" None "orders"
              (mkCol "id" "int" None None [ONull (NNot "NOT" "NULL")])
              [mkCol "customer" "int" None None []; mkCol "region" "int" None None []; mkCol "code" "varchar" None (Some ("10", None)) []])
           [TIPk None "PRIMARY" "key" ("id", []);
            TIUq (Some ("CONSTRAINT", "uq_cr")) "unique" ("customer", ["region"]);
            TIUq None "UNIQUE" ("code", []);
            TIFk (Some ("constraint", "fk_c")) "FOREIGN" "KEY" ("customer", ["region"])
                 (mkTFk "REFERENCES" (Some "crm") "customers" ("id", ["region_id"]) (Some ("ON", "DELETE", "cascade")) None)].
Definition ex_tc_text : string :=
  "CREATE table orders ( id int NOT NULL , customer int , region int , code varchar ( 10 ) , PRIMARY key ( id ) , CONSTRAINT uq_cr unique ( customer , region ) , UNIQUE ( code ) , constraint fk_c FOREIGN KEY ( customer , region ) REFERENCES crm.customers ( id , region_id ) ON DELETE cascade ) ".
(* the example through parser stage AND output stage: key exact, key column non-nullable, only the single-column UNIQUE flags its
   column, the named constraints are reported under their names with their exact column lists *)
Example C02_clauses_example :
  wf_c false ex_tc = true /\ scan ex_tc_text = Ok (lexemes_c ex_tc) /\
  match denote_c false ex_tc with
  | Ok d =>
      pyval_eqb_opt (parse_statement false false ex_tc_text) (PDict d) &&
      match Output.format "sql" false [PDict d] with
      | Ok (PList [PDict t]) =>
          pyval_eqb (get_or_none t "primary_key") (PList [PStr "id"]) &&
          match get_or_none t "columns" with
          | PList [PDict a; PDict b; PDict c; PDict e] =>
              pyval_eqb (get_or_none a "nullable") (PBool false) && pyval_eqb (get_or_none e "unique") (PBool true)
              && pyval_eqb (get_or_none b "unique") (PBool false) && pyval_eqb (get_or_none c "unique") (PBool false)
          | _ => false end &&
          match get_or_none t "constraints" with
          | PDict cs => pyval_eqb (get_or_none cs "uniques")
                                  (PList [PDict [("columns", PList [PStr "customer"; PStr "region"]); ("constraint_name", PStr "uq_cr")]])
          | _ => false end
      | _ => false end
  | _ => false
  end = true.
Proof. vm_compute. repeat split. Qed.

(* non-vacuity / the whole pipeline of the output layer on a table with every kind of key declaration:
   inline PK + named multi-column unique + unnamed single unique: pk exact, pk columns non-nullable,
   only the single-unique column flagged *)
Definition ex_stmt : pyval :=
  PDict [("table_name", PStr "t"); ("schema", PNone);
         ("columns", PList [PDict [("name", PStr "a"); ("type", PStr "int"); ("primary_key", PBool true); ("nullable", PBool true); ("unique", PBool false)];
                            PDict [("name", PStr "b"); ("type", PStr "int"); ("primary_key", PBool false); ("nullable", PBool true); ("unique", PBool false)];
                            PDict [("name", PStr "c"); ("type", PStr "int"); ("primary_key", PBool true); ("nullable", PBool true); ("unique", PBool false)]]);
         ("unique_statement", PList [PStr "b"]);
         ("constraints", PDict [("uniques", PList [PDict [("columns", PList [PStr "a"; PStr "c"]); ("constraint_name", PStr "u")]])])].
Example C02_example :
  match format "sql" false [ex_stmt] with
  | Ok (PList [PDict t]) =>
      pyval_eqb (get_or_none t "primary_key") (PList [PStr "a"; PStr "c"])
      && match get_or_none t "columns" with
         | PList [PDict a; PDict b; PDict c] =>
             pyval_eqb (get_or_none a "nullable") (PBool false) && pyval_eqb (get_or_none c "nullable") (PBool false)
             && pyval_eqb (get_or_none b "nullable") (PBool true) && pyval_eqb (get_or_none b "unique") (PBool true)
             && pyval_eqb (get_or_none a "unique") (PBool false) && pyval_eqb (get_or_none c "unique") (PBool false)
         | _ => false end
  | _ => false
  end = true.
Proof. vm_compute. reflexivity. Qed.
