(* Property C14 — run() is deterministic, repeatable and free of side effects. *)
From Coq Require Import String Ascii List ZArith NArith Bool.
From SDP Require Import Base PyStr Regex Json Actions Parse Pre Output Api ApiProofs.
From SDP.Gen Require Tokens.
Import ListNotations.

(* parse_data re-initialises every piece of state a run can read (derived from the assignments read off the source): *)
Theorem C14_every_run_starts_fresh : forall c, start_of_run c = carried0.
Proof. exact start_of_run_is_initial. Qed.
Print Assumptions C14_every_run_starts_fresh.

(* hence the outcome of run() on an object with ANY history equals the outcome on a fresh object ... *)
Theorem C14_rerun_equals_fresh : forall norm silent c mode group json data,
  run_obj norm silent c mode group json data = run_obj norm silent carried0 mode group json data.
Proof. exact run_independent_of_history. Qed.
Print Assumptions C14_rerun_equals_fresh.

(* ... which is a function of the text, the constructor flags and the run() arguments only *)
Theorem C14_function_of_arguments : forall norm silent mode group json data,
  (do '(_, v) <- run_obj norm silent carried0 mode group json data; Ok v) = Api.run norm silent mode group json data.
Proof. exact run_obj_fresh_is_run. Qed.
Print Assumptions C14_function_of_arguments.
