(* Property C09 — parameterised and nested column types stay whole (lexer invariants the property rests on). *)
From Coq Require Import String Ascii List ZArith NArith Bool Lia.
From SDP Require Import Base PyStr Lexer.
Import ListNotations.
Open Scope string_scope.

(* the bracket counter: outside CHECK, a word holding '<' / '>' (read by tokens_not_columns_names) moves lt_open by exactly
   (#'<' - #'>') of the word — for ANY counts, so a balanced type of any depth brings the counter back — and touches no other flag *)
Theorem C09_bracket_counter_exact : forall f i ty,
  check f = false -> i_tag i = true ->
  let '(ty', f') := tokens_not_columns_names f i ty in
  lt_open f' = (lt_open f + (if (0 <? i_lt i)%Z then i_lt i else 0) - (if (0 <? i_gt i)%Z then i_gt i else 0))%Z /\
  is_table f' = is_table f /\ columns_def f' = columns_def f /\ after_columns f' = after_columns f /\
  lp_open f' = lp_open f /\ last_par f' = last_par f /\ check f' = check f /\
  ty' = (if (0 <? i_lt i)%Z then "LT" else if (0 <? i_gt i)%Z then "RT" else ty).
Proof.
  intros f i ty Hc Ht. unfold tokens_not_columns_names. rewrite Hc, Ht. simpl.
  destruct (0 <? i_lt i)%Z; destruct (0 <? i_gt i)%Z; simpl; repeat split; lia.
Qed.
Print Assumptions C09_bracket_counter_exact.

(* a word that opens AND closes brackets (ARRAY<STRING>) opens a type: it is typed LT, never RT (defect D6, fixed) *)
Theorem C09_open_and_close_is_LT : forall f i ty,
  check f = false -> i_tag i = true -> (0 < i_lt i)%Z -> fst (tokens_not_columns_names f i ty) = "LT".
Proof.
  intros f i ty Hc Ht Hl. unfold tokens_not_columns_names. rewrite Hc, Ht. simpl.
  apply Z.ltb_lt in Hl. rewrite Hl. destruct (0 <? i_gt i)%Z; reflexivity.
Qed.
Print Assumptions C09_open_and_close_is_LT.
