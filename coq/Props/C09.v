(* Property C09 — parameterised and nested column types stay whole (lexer invariants the property rests on). *)
From Coq Require Import String Ascii List ZArith NArith Bool Lia.
From SDP Require Import Base PyStr Lexer.
From SDP Require Import Actions.
From SDP Require Parse Entity Table TableProofs.
Import ListNotations.
Open Scope string_scope.

(* the bracket counter: outside CHECK, a word holding '<' / '>' (read by tokens_not_columns_names) moves lt_open by exactly
   (#'<' - #'>') of the word — for ANY counts, so a balanced type of any depth brings the counter back — and touches no other flag *)
Theorem C09_bracket_counter_exact : forall f i ty,
  check f = false -> i_tag i = true ->
  let '(ty', f') := tokens_not_columns_names f i ty in
  lt_open f' = (lt_open f + (if (0 <? i_lt i)%Z then i_lt i else 0) - (if (0 <? i_gt i)%Z then i_gt i else 0))%Z /\
  is_table f' = is_table f /\ columns_def f' = columns_def f /\ after_columns f' = after_columns f /\
  lp_open f' = lp_open f /\ last_par f' = last_par f /\ check f' = check f /\
  ty' = (if (0 <? i_lt i)%Z then "LT" else if (0 <? i_gt i)%Z then "RT" else ty).
Proof.
  intros f i ty Hc Ht. unfold tokens_not_columns_names. rewrite Hc, Ht. simpl.
  destruct (0 <? i_lt i)%Z; destruct (0 <? i_gt i)%Z; simpl; repeat split; lia.
Qed.
Print Assumptions C09_bracket_counter_exact.

(* a word that opens AND closes brackets (ARRAY<STRING>) opens a type: it is typed LT, never RT (defect D6, fixed) *)
Theorem C09_open_and_close_is_LT : forall f i ty,
  check f = false -> i_tag i = true -> (0 < i_lt i)%Z -> fst (tokens_not_columns_names f i ty) = "LT".
Proof.
  intros f i ty Hc Ht Hl. unfold tokens_not_columns_names. rewrite Hc, Ht. simpl.
  apply Z.ltb_lt in Hl. rewrite Hl. destruct (0 <? i_gt i)%Z; reflexivity.
Qed.
Print Assumptions C09_open_and_close_is_LT.

(* ---------- sized and two-word types under the CREATE TABLE fragment theorem ---------------------------------------------------------
   For every column of every statement of the core fragment (Props/C01.v: any position, any neighbours, any options after it) the
   reported type is the declared type word, or the two declared words joined by one blank, and the size is the declared (n) as an
   integer or (p, s) as a pair of integers — nothing of the type leaks into the name, the options or a neighbouring column. *)
Theorem C09_fragment_types_whole : forall norm c,
  exists d, Table.col_dict norm c = PDict d /\
    dict_get d "type" = Some (PStr (match Table.c_ty2 c with
                                    | Some w => (Entity.nms norm (Table.c_ty1 c) ++ " " ++ Entity.nms norm w)%string
                                    | None => Entity.nms norm (Table.c_ty1 c) end)) /\
    dict_get d "size" = Some (match Table.c_size c with
                              | None => PNone
                              | Some (a, None) => Table.size_val a
                              | Some (a, Some b) => PTuple [Table.size_val a; Table.size_val b] end) /\
    dict_get d "name" = Some (PStr (Entity.nms norm (Table.c_name c))).
Proof. intros norm c. eexists. split; [reflexivity|]. repeat split. Qed.
Print Assumptions C09_fragment_types_whole.
Theorem C09_fragment_statement : forall t norm silent, Table.wf norm t = true ->
  Parse.parse_lexemes norm silent (Table.lexemes t) = Ok (Some (Table.denote norm t)).
Proof. exact TableProofs.table_parse. Qed.
Print Assumptions C09_fragment_statement.
