(* Property C17 — CREATE SEQUENCE options are reported with exact values, in any order. *)
From Coq Require Import String Ascii List ZArith NArith Bool.
From SDP Require Import Base PyStr Lexer Actions Parse Engine Seq SeqProofs LexProofs IntProofs NumWordProofs.
From SDP Require Entity Output OtherOutProofs.
From SDP.Gen Require Tokens.
Import ListNotations.
Open Scope string_scope.

(* For EVERY sequence statement of the fragment — any subset, number and order of options (repetitions
   included), keywords in any letter case, optional schema, any integer literal however long — the model of
   the library (real keyword tables and flag logic, real LALR tables incl. conflict resolution, modelled
   semantic actions) returns exactly [denote]: schema and name as written (minus one pair of delimiters when
   normalize_names), one key per option with the exact integer / False / True, and nothing else; and it does so
   under silent=True and silent=False alike (supported DDL never raises). *)
Theorem C17_sequence_exact : forall (a : seq) (norm silent : bool),
  wf a = true -> parse_lexemes norm silent (lexemes a) = Ok (Some (denote norm a)).
Proof. exact seq_parse. Qed.
Print Assumptions C17_sequence_exact.

(* the side conditions of wf hold for EVERY integer (any magnitude, either sign) written in decimal, with exactly that value, ... *)
Theorem C17_every_integer_is_exact : forall z, is_num (string_of_Z z) = true /\ num_val (string_of_Z z) = PInt z.
Proof. intro z. split; [apply is_num_string_of_Z|]. unfold num_val. rewrite int_of_string_of_Z. reflexivity. Qed.
Print Assumptions C17_every_integer_is_exact.

(* ... and for EVERY letter-case spelling of an option keyword *)
Theorem C17_every_keyword_spelling : forall kw k,
  upper kw = k -> sforall is_word_c kw = true -> startswith k "ARRAY" = false -> is_kw kw k = true.
Proof. exact any_case_is_kw. Qed.
Print Assumptions C17_every_keyword_spelling.

(* non-vacuity: a concrete statement with every kind of option, mixed case, a negative and a 64-bit value,
   meets the hypothesis, and the theorem's right-hand side is the expected entity *)
Definition ex_seq : seq :=
  mkSeq "Create" "SEQUENCE" (Some "dev") "Incremental_IDs"
        [OIncr "increment" (Some "By") "-10"; OStart "START" None "1"; ONoMin "no" "MinValue";
         OMax "maxvalue" "9223372036854775807"; OCache "CACHE"; ONoOrder "noorder"; OCacheN "cache" "18446744073709551616"].
Example C17_example_wf : wf ex_seq = true.
Proof. vm_compute. reflexivity. Qed.
Example C17_example_value :
  denote false ex_seq =
  PDict [("schema", PStr "dev"); ("sequence_name", PStr "Incremental_IDs"); ("increment_by", PInt (-10));
         ("start", PInt 1); ("minvalue", PBool false); ("maxvalue", PInt 9223372036854775807);
         ("cache", PInt 18446744073709551616); ("noorder", PBool true)].
Proof. vm_compute. reflexivity. Qed.

(* ... and through the output stage: in every supported mode the sequence entity is reported unchanged; bigquery reports a
   (non-empty) schema under the key dataset and changes nothing else *)
Theorem C17_sequence_reported_unchanged : forall a norm m, In m Tokens.modes ->
  (m <> "bigquery" \/ s_schema a = None \/ (exists s, s_schema a = Some s /\ Entity.nms norm s = "")) ->
  exists d, Seq.denote norm a = PDict d /\ Output.format m false [PDict d] = Ok (PList [PDict d]).
Proof. exact OtherOutProofs.seq_every_mode. Qed.
Print Assumptions C17_sequence_reported_unchanged.
Theorem C17_sequence_bigquery_dataset : forall a norm s, s_schema a = Some s -> Entity.nms norm s <> "" ->
  exists d, Seq.denote norm a = PDict d /\
            Output.format "bigquery" false [PDict d]
            = Ok (PList [PDict (Output.dict_del (dict_set d "dataset" (PStr (Entity.nms norm s))) "schema")]).
Proof. exact OtherOutProofs.seq_bigquery. Qed.
Print Assumptions C17_sequence_bigquery_dataset.
