(* C04: the declared effect of ALTER TABLE ... DROP COLUMN / RENAME COLUMN on the column list, for ANY column list. *)
From Coq Require Import String Ascii List ZArith NArith Bool Lia.
From SDP Require Import Base PyStr Actions Output OutputProofs.
Import ListNotations.
Open Scope string_scope.

(* a column entry whose name is a string *)
Definition col_named (c : pyval) : Prop := exists d s, c = PDict d /\ dict_get d "name" = Some (PStr s).
Definition cname (c : pyval) : string :=
  match c with PDict d => match dict_get d "name" with Some (PStr s) => s | _ => "" end | _ => "" end.
Lemma col_norm_name c : col_named c -> (do x <- col_get c "name"; normalize_name_v x) = Ok (normalize_name (cname c)).
Proof. intros [d [s [-> H]]]. unfold col_get, cname. cbn [as_dict' bind]. unfold getitem. rewrite H. reflexivity. Qed.

(* position of the first column whose normalised name is nn *)
Fixpoint first_idx (nn : string) (l : list pyval) (i : nat) : option nat :=
  match l with [] => None | c :: r => if String.eqb nn (normalize_name (cname c)) then Some i else first_idx nn r (S i) end.
Lemma find_index_spec nn : forall l i, Forall col_named l ->
  find_index (fun c => do n <- (do x <- col_get c "name"; normalize_name_v x); Ok (String.eqb nn n)) l i = Ok (first_idx nn l i).
Proof.
  induction l as [|c r IH]; intros i H; cbn [find_index first_idx]; [reflexivity|].
  inversion H as [|? ? Hc Hr]; subst. rewrite (col_norm_name c Hc). cbn [bind].
  destruct (String.eqb nn (normalize_name (cname c))); [reflexivity|apply IH; exact Hr].
Qed.
Lemma first_idx_bound nn : forall l i k, first_idx nn l i = Some k -> (i <= k < i + List.length l)%nat.
Proof.
  induction l as [|c r IH]; intros i k H; cbn [first_idx] in H; [discriminate|].
  destruct (String.eqb nn (normalize_name (cname c))).
  - inversion H; subst. cbn [List.length]. lia.
  - apply IH in H. cbn [List.length]. lia.
Qed.
Lemma nth_py_ok : forall (l : list pyval) k, (k < List.length l)%nat -> exists x, nth_py l k = Ok x /\ nth_error l k = Some x.
Proof.
  induction l as [|c r IH]; intros k H; cbn [List.length] in H; [lia|].
  destruct k; cbn [nth_py nth_error]; [eexists; split; reflexivity|]. apply IH. lia.
Qed.

(* ---------- DROP COLUMN ------------------------------------------------------------------------------------------------------------- *)
(* the column list after the statement: the first column whose name matches (modulo quoting and letter case) is removed, every
   other entry is untouched and keeps its position; nothing is removed when no column matches *)
Theorem drop_column_effect : forall t stmt alter c cols,
  tget t "alter" = PDict alter -> getitem stmt "columns_to_drop" = Ok (PList [PStr c]) ->
  tget t "columns" = PList cols -> Forall col_named cols ->
  exists alter' cols',
    alter_drop_columns t stmt = Ok (dict_set (dict_set t "alter" (PDict alter')) "columns" (PList cols')) /\
    match first_idx (normalize_name c) cols 0 with
    | Some k => cols' = remove_nth cols k /\ (exists x, nth_error cols k = Some x /\ get_or_none alter' "dropped_columns" = x)
    | None => cols' = cols
    end.
Proof.
  intros t stmt alter c cols Ha Hd Hc Hn. unfold alter_drop_columns. rewrite Ha, Hd, Hc. cbn [as_dict' as_list bind fold_left normalize_name_v].
  rewrite (find_index_spec (normalize_name c) cols 0 Hn). cbn [bind].
  destruct (first_idx (normalize_name c) cols 0) as [k|] eqn:E.
  - pose proof (first_idx_bound _ _ _ _ E) as Hb. destruct (nth_py_ok cols k) as [x [Hx Hx']]; [lia|].
    rewrite Hx. cbn [bind]. eexists. eexists. split; [reflexivity|]. split; [reflexivity|].
    exists x. split; [exact Hx'|].
    unfold get_or_none, dict_get. generalize (ensure_list_key alter "dropped_columns"). intro d.
    clear. induction d as [|[a b] r IH]; cbn [dict_set assoc].
    + rewrite String.eqb_refl. reflexivity.
    + destruct (String.eqb "dropped_columns" a) eqn:E; cbn [assoc]; rewrite ?E; [rewrite String.eqb_refl; reflexivity|exact IH].
  - cbn [bind]. eexists. eexists. split; reflexivity.
Qed.

(* ---------- RENAME COLUMN a TO b ------------------------------------------------------------------------------------------------------ *)
(* the first column whose name matches a (modulo quoting and letter case) gets the new name, keeps its position and all its
   other attributes; every other entry is untouched; the rename is recorded in alter.renamed_columns *)
Theorem rename_column_effect : forall t stmt alter a to old cols,
  tget t "alter" = PDict alter -> getitem stmt "columns_to_rename" = Ok (PList [PDict [("from", PStr a); ("to", to)]]) ->
  tget t "columns" = PList cols -> Forall col_named cols ->
  as_list (get_or_none (ensure_list_key alter "renamed_columns") "renamed_columns") = Ok old ->
  exists cols',
    alter_rename_columns t stmt =
    Ok (dict_set (dict_set t "alter" (PDict (dict_set (ensure_list_key alter "renamed_columns") "renamed_columns"
                                                       (PList (old ++ [PDict [("from", PStr a); ("to", to)]])))))
                 "columns" (PList cols')) /\
    match first_idx (normalize_name a) cols 0 with
    | Some k => exists x, nth_error cols k = Some x /\ cols' = replace_nth cols k (col_upd "name" to x)
    | None => cols' = cols
    end.
Proof.
  intros t stmt alter a to old cols Ha Hr Hc Hn Ho. unfold alter_rename_columns. rewrite Hr, Hc, Ha.
  cbn [as_list as_dict' bind fold_left]. unfold getitem at 1. cbn [dict_get assoc String.eqb Ascii.eqb Bool.eqb bind normalize_name_v].
  rewrite (find_index_spec (normalize_name a) cols 0 Hn). cbn [bind].
  destruct (first_idx (normalize_name a) cols 0) as [k|] eqn:E.
  - pose proof (first_idx_bound _ _ _ _ E) as Hb. destruct (nth_py_ok cols k) as [x [Hx Hx']]; [lia|].
    rewrite Hx. cbn [bind]. unfold getitem at 1. cbn [dict_get assoc String.eqb Ascii.eqb Bool.eqb bind].
    assert (Hxn : col_named x).
    { rewrite Forall_forall in Hn. apply Hn. eapply nth_error_In. exact Hx'. }
    destruct Hxn as [d [s [-> Hd]]]. unfold col_set. cbn [as_dict' bind]. rewrite Ho. cbn [bind].
    eexists. split; [reflexivity|]. eexists. split; [exact Hx'|reflexivity].
  - cbn [bind]. rewrite Ho. cbn [bind]. eexists. split; reflexivity.
Qed.

(* ---------- MODIFY / ALTER COLUMN c <definition> ------------------------------------------------------------------------------------ *)
(* the first column whose name matches is replaced, in place, by the new definition; the previous definition is recorded *)
Theorem modify_column_effect : forall t stmt alter m cols,
  tget t "alter" = PDict alter -> getitem stmt "columns_to_modify" = Ok (PList [m]) -> col_named m ->
  tget t "columns" = PList cols -> Forall col_named cols ->
  exists alter' cols',
    alter_modify_columns t stmt = Ok (dict_set (dict_set t "alter" (PDict alter')) "columns" (PList cols')) /\
    match first_idx (normalize_name (cname m)) cols 0 with
    | Some k => cols' = replace_nth cols k m /\ (exists x, nth_error cols k = Some x /\ get_or_none alter' "modified_columns" = x)
    | None => cols' = cols
    end.
Proof.
  intros t stmt alter m cols Ha Hm Hmn Hc Hn. unfold alter_modify_columns. rewrite Ha, Hm, Hc. cbn [as_dict' as_list bind fold_left].
  rewrite (col_norm_name m Hmn). cbn [bind].
  rewrite (find_index_spec (normalize_name (cname m)) cols 0 Hn). cbn [bind].
  destruct (first_idx (normalize_name (cname m)) cols 0) as [k|] eqn:E.
  - pose proof (first_idx_bound _ _ _ _ E) as Hb. destruct (nth_py_ok cols k) as [x [Hx Hx']]; [lia|].
    rewrite Hx. cbn [bind]. eexists. eexists. split; [reflexivity|]. split; [reflexivity|].
    exists x. split; [exact Hx'|].
    unfold get_or_none, dict_get. generalize (ensure_list_key alter "modified_columns"). intro d.
    clear. induction d as [|[a b] r IH]; cbn [dict_set assoc].
    + rewrite String.eqb_refl. reflexivity.
    + destruct (String.eqb "modified_columns" a) eqn:E; cbn [assoc]; rewrite ?E; [rewrite String.eqb_refl; reflexivity|exact IH].
  - cbn [bind]. eexists. eexists. split; reflexivity.
Qed.

(* ---------- ADD <column> -------------------------------------------------------------------------------------------------------------- *)
(* the new column is appended to the column list unless a column of that (normalised) name already exists; the existing entries
   are untouched; the added definition is recorded in alter.columns *)
Theorem add_column_effect : forall hooks t stmt alter newc cols,
  tget t "alter" = PDict alter -> truthy (get_or_none alter "columns") = false ->
  getitem stmt "columns" = Ok (PList [newc]) -> truthy (get_or_none stmt "references") = false -> col_named newc ->
  tget t "columns" = PList cols -> Forall col_named cols ->
  prepare_alter_columns hooks t stmt =
  Ok (dict_set (dict_set t "alter" (PDict (dict_set alter "columns" (PList [newc])))) "columns"
               (PList (if mem (normalize_name (cname newc)) (map (fun c => normalize_name (cname c)) cols) then cols else cols ++ [newc]))).
Proof.
  intros hooks t stmt alter newc cols Ha Hac Hs Hr Hnn Hc Hn. unfold prepare_alter_columns. rewrite Hs. cbn [as_list bind].
  cbv zeta. rewrite Hr. cbn [bind]. rewrite Ha. cbn [as_dict' bind]. rewrite Hac, Hc. cbn [negb as_list bind].
  assert (Hnames : col_names_normalized cols = Ok (map (fun c => normalize_name (cname c)) cols)).
  { unfold col_names_normalized. apply mapM_map. intros x Hx. rewrite Forall_forall in Hn. apply col_norm_name. apply Hn. exact Hx. }
  rewrite Hnames. cbn [bind fold_left]. rewrite (col_norm_name newc Hnn). cbn [bind].
  destruct (mem (normalize_name (cname newc)) (map (fun c => normalize_name (cname c)) cols)); reflexivity.
Qed.

(* ---------- ADD [CONSTRAINT n] PRIMARY KEY / UNIQUE (...) are recorded in the alter section, columns untouched ----------------- *)
Theorem key_recorded_effect : forall t stmt alter key item old,
  tget t "alter" = PDict alter -> getitem stmt key = Ok item -> dict_has stmt "using" = false ->
  as_list (get_or_none (ensure_list_key alter (key ++ "s")) (key ++ "s")) = Ok old ->
  set_alter_to_table_data t key stmt =
  Ok (dict_set t "alter" (PDict (dict_set (ensure_list_key alter (key ++ "s")) (key ++ "s") (PList (old ++ [item]))))).
Proof.
  intros t stmt alter key item old Ha Hi Hu Ho. unfold set_alter_to_table_data. rewrite Ha. cbn [as_dict' bind]. cbv zeta.
  rewrite Hi. cbn [bind]. rewrite Hu. cbn [bind]. rewrite Ho. reflexivity.
Qed.
