(* C18: the entity fragment against the real keyword tables, flag logic and LALR tables. *)
From Coq Require Import String Ascii List ZArith NArith PArith Bool Lia.
From SDP Require Import Base PyStr LR Lexer Actions Parse RealTables Engine Seq SeqProofs KeywordProofs Entity.
Import ListNotations.
Open Scope list_scope.

Definition R : list (Entity.q * conf) :=
  explore real_tables term_id Entity.q Entity.q_eqb Entity.fstep Entity.alphabet 4000 [(E0, (flags0, [0%N]))] [].

Lemma R_closed : closed real_tables term_id real_pname Entity.q Entity.q_eqb Entity.fstep Entity.ffinish Entity.alphabet R = true.
Proof. vm_compute. reflexivity. Qed.
Lemma R_init : In (E0, (flags0, [0%N])) R.
Proof. apply (in_R_In Entity.q Entity.q_eqb Entity.q_eqb_eq). vm_compute. reflexivity. Qed.

Lemma name_keywords_are_the_accepted : name_keywords = filter accepted_entity_name keywords.
Proof. vm_compute. reflexivity. Qed.

(* the keywords NOT accepted as the name of a tablespace / database / schema (own lexer rules, IF) *)
Lemma rejected_entity_names :
  filter (fun k => negb (accepted_entity_name k)) keywords = ["AUTOINCREMENT"; "COLLATE"; "IF"]%string.
Proof. vm_compute. reflexivity. Qed.

(* ---------- matching, alphabet ---------------------------------------------------------------------------- *)
Lemma is_name_spec n : is_name n = true -> is_name_letter (LWord (info_of n)) = true /\ strip_trailing_comma n = n.
Proof. unfold is_name. intro H. apply andb_true_iff in H. destruct H as [H1 H2]. apply String.eqb_eq in H2. auto. Qed.
Lemma match_name n : is_name n = true -> matches (W n) (LWord (info_of n)).
Proof. intro H. apply is_name_spec in H. simpl. tauto. Qed.

Lemma name_letter_in_alphabet l : is_name_letter l = true -> In l Entity.alphabet.
Proof.
  unfold is_name_letter. intro H. apply existsb_exists in H. destruct H as [x [Hin Hx]]. apply letter_eqb_eq in Hx. subst x.
  unfold Entity.alphabet. apply in_or_app. right. exact Hin.
Qed.
Lemma name_letter_In l : is_name_letter l = true -> In l name_letters.
Proof.
  unfold is_name_letter. intro H. apply existsb_exists in H. destruct H as [x [Hin Hx]]. apply letter_eqb_eq in Hx. subst x. exact Hin.
Qed.
Ltac ina := unfold Entity.alphabet; apply in_or_app; left; repeat (first [left; reflexivity | right]).

(* a name letter is none of the fixed keywords of these statements *)
Lemma fixed_not_names :
  forallb (fun k => negb (is_name_letter (K k))) ["IF"]%string = true.
Proof. vm_compute. reflexivity. Qed.
Lemma name_is_not l k : is_name_letter l = true -> is_name_letter (K k) = false -> is l k = false.
Proof.
  intros H1 H2. unfold is. destruct (letter_eqb l (K k)) eqn:E; [|reflexivity]. apply letter_eqb_eq in E. subst. congruence.
Qed.

Local Arguments int_of_string : simpl never.
Local Arguments normalize_id : simpl never.

(* the reference machine, step by step (closed facts by computation, name positions by rewriting) *)
Lemma f_E0 : Entity.fstep E0 (K "CREATE") = Some (([], "CREATE", Upper)%string, E1). Proof. vm_compute. reflexivity. Qed.
Lemma f_E1_T : Entity.fstep E1 (K "TABLESPACE") = Some (([], "TABLESPACE", Upper)%string, T0). Proof. vm_compute. reflexivity. Qed.
Lemma f_E1_D : Entity.fstep E1 (K "DATABASE") = Some (([], "DATABASE", Upper)%string, D1). Proof. vm_compute. reflexivity. Qed.
Lemma f_E1_S : Entity.fstep E1 (K "SCHEMA") = Some (([], "SCHEMA", Upper)%string, S1). Proof. vm_compute. reflexivity. Qed.
Lemma f_E1_G : Entity.fstep E1 G = Some (([], "ID", Keep)%string, K1). Proof. vm_compute. reflexivity. Qed.
Lemma f_K1_T : Entity.fstep K1 (K "TABLESPACE") = Some ((idr, "TABLESPACE", Upper)%string, T1). Proof. vm_compute. reflexivity. Qed.
Lemma f_K1_G : Entity.fstep K1 G = Some ((idr, "ID", Keep)%string, K2). Proof. vm_compute. reflexivity. Qed.
Lemma f_K2_T : Entity.fstep K2 (K "TABLESPACE") = Some ((idr, "TABLESPACE", Upper)%string, T2). Proof. vm_compute. reflexivity. Qed.
Lemma f_S1_IF : Entity.fstep S1 (K "IF") = Some ((["c_schema -> CREATE SCHEMA"], "IF", Upper)%string, SIf). Proof. vm_compute. reflexivity. Qed.
Lemma f_SIf : Entity.fstep SIf (K "NOT") = Some (([], "NOT", Upper)%string, SNot). Proof. vm_compute. reflexivity. Qed.
Lemma f_SNot : Entity.fstep SNot (K "EXISTS") = Some (([], "EXISTS", Upper)%string, SEx). Proof. vm_compute. reflexivity. Qed.
Lemma if_not_name : is_name_letter (K "IF") = false. Proof. vm_compute. reflexivity. Qed.

Lemma f_name (s d : Entity.q) l : is_name_letter l = true ->
  (s = T0 /\ d = DoneT0) \/ (s = T1 /\ d = DoneT1) \/ (s = T2 /\ d = DoneT2) \/ (s = D1 /\ d = DoneD) \/ (s = SEx /\ d = DoneS2) ->
  Entity.fstep s l = Some (([], "ID", Keep)%string, d).
Proof.
  intros H [[-> ->]|[[-> ->]|[[-> ->]|[[-> ->]|[-> ->]]]]]; unfold Entity.fstep; rewrite H; reflexivity.
Qed.
Lemma f_S1_name l : is_name_letter l = true ->
  Entity.fstep S1 l = Some ((["c_schema -> CREATE SCHEMA"], "ID", Keep)%string, DoneS).
Proof.
  intro H. unfold Entity.fstep. rewrite (name_is_not l "IF" H if_not_name), H. reflexivity.
Qed.

Global Opaque is_name_letter name_letters Entity.fstep.

Lemma nm_nms norm s : nm norm s = PStr (nms norm s).
Proof. reflexivity. Qed.

Ltac split_wf H :=
  repeat match type of H with
         | (_ && _) = true => let H2 := fresh "H" in apply andb_true_iff in H; destruct H as [H H2]
         end.

Ltac ev :=
  arities; cbn [firstn skipn rev app];
  repeat (rewrite ?act_id; cbn [bind firstn skipn rev app]);
  rewrite ?nm_nms; unfold action; simpl.

Lemma ent_pipeline (e : ent) (fos : list fout) (q' : Entity.q) (pfin : list string) (norm silent : bool) :
  Forall2 matches (Entity.lexemes e) (Entity.letters e) ->
  Forall (fun l => In l Entity.alphabet) (Entity.letters e) ->
  frun Entity.q Entity.fstep E0 (Entity.letters e) = Some (fos, q') -> Entity.ffinish q' = Some pfin ->
  parse_lexemes norm silent (Entity.lexemes e) = eval norm (ntrace fos (Entity.lexemes e) ++ map NReduce pfin ++ [NAccept]) [].
Proof.
  intros Hm Hal Hf Hfin. unfold parse_lexemes.
  exact (pipeline_spec real_tables term_id real_pname Entity.q Entity.q_eqb Entity.q_eqb_eq Entity.fstep Entity.ffinish
           Entity.alphabet R R_closed E0 R_init _ _ Hm Hal fos q' pfin Hf Hfin norm silent).
Qed.

Ltac fme :=
  repeat match goal with
         | |- Forall2 _ (_ :: _) (_ :: _) => constructor
         | |- Forall2 _ [] [] => constructor
         | |- matches (W _) (K _) => apply match_kw; assumption
         | |- matches (W ?n) (LWord (info_of ?n)) => apply match_name; assumption
         | |- matches (W _) G => apply match_plain; assumption
         end.
Ltac fal Hnl :=
  repeat match goal with
         | |- Forall _ (_ :: _) => constructor
         | |- Forall _ [] => constructor
         | |- In (LWord (info_of _)) Entity.alphabet => apply name_letter_in_alphabet; exact Hnl
         | |- In _ Entity.alphabet => ina
         end.

Definition fk (k : string) : fout := ([], k, Upper).
Definition fid : fout := ([], "ID"%string, Keep).
Definition fidr (k : string) (v : vtag) : fout := (idr, k, v).

Lemma frun3 a b c fa fb fc s1 s2 s3 :
  Entity.fstep E0 a = Some (fa, s1) -> Entity.fstep s1 b = Some (fb, s2) -> Entity.fstep s2 c = Some (fc, s3) ->
  frun Entity.q Entity.fstep E0 [a; b; c] = Some ([fa; fb; fc], s3).
Proof. intros H1 H2 H3. cbn [frun]. rewrite H1, H2, H3. reflexivity. Qed.

Theorem entity_parse_tablespace0 : forall c ts n norm silent, Entity.wf (ETablespace c [] ts n) = true ->
  parse_lexemes norm silent (Entity.lexemes (ETablespace c [] ts n)) = Ok (Some (Entity.denote norm (ETablespace c [] ts n))).
Proof.
  intros c ts n norm silent Hwf. cbn [Entity.wf] in Hwf. split_wf Hwf.
  match goal with X : is_name n = true |- _ => pose proof (is_name_spec n X) as [Hnl Hstrip] end.
  match goal with X : is_kw c _ = true |- _ => pose proof (is_kw_spec _ _ X) as [Huc _] end.
  match goal with X : is_kw ts _ = true |- _ => pose proof (is_kw_spec _ _ X) as [Hut _] end.
  rewrite (ent_pipeline (ETablespace c [] ts n) [fk "CREATE"; fk "TABLESPACE"; fid]%string DoneT0
                        ["id -> ID"; "expr -> CREATE TABLESPACE id"]%string norm silent).
  - unfold fk, fid. cbn [Entity.lexemes map app ntrace snd W apply_vtag]. rewrite Huc, Hut. cbn [eval map app]. ev. reflexivity.
  - cbn [Entity.lexemes Entity.letters map app]. fme.
  - cbn [Entity.letters map app]. fal Hnl.
  - cbn [Entity.letters map app]. apply (frun3 _ _ _ _ _ _ _ _ _ f_E0 f_E1_T). apply f_name; [exact Hnl|tauto].
  - reflexivity.
Qed.

Ltac prep Hwf n :=
  cbn [Entity.wf] in Hwf; split_wf Hwf;
  repeat match goal with X : (_ && _) = true |- _ => let Y := fresh "H" in apply andb_true_iff in X; destruct X as [X Y] end;
  match goal with X : is_name n = true |- _ => pose proof (is_name_spec n X) as [Hnl Hstrip] end;
  repeat match goal with X : is_kw _ _ = true |- _ => let Y := fresh "Hu" in pose proof (is_kw_spec _ _ X) as [Y _]; revert X end;
  intros.

Ltac frun_goal Hnl :=
  cbn [Entity.letters map app frun];
  rewrite ?f_E0, ?f_E1_T, ?f_E1_D, ?f_E1_S, ?f_E1_G, ?f_K1_T, ?f_K1_G, ?f_K2_T, ?f_S1_IF, ?f_SIf, ?f_SNot;
  first [ rewrite (f_name T0 DoneT0 _ Hnl) by tauto | rewrite (f_name T1 DoneT1 _ Hnl) by tauto
        | rewrite (f_name T2 DoneT2 _ Hnl) by tauto | rewrite (f_name D1 DoneD _ Hnl) by tauto
        | rewrite (f_name SEx DoneS2 _ Hnl) by tauto | rewrite (f_S1_name _ Hnl) ];
  reflexivity.

Ltac eval_goal :=
  unfold fk, fid, fidr, idr; cbn [Entity.lexemes map app ntrace snd W apply_vtag];
  repeat match goal with Hu : upper _ = _ |- _ => rewrite Hu; clear Hu end;
  cbn [eval map app]; ev.

Theorem entity_parse_tablespace1 : forall c w1 ts n norm silent, Entity.wf (ETablespace c [w1] ts n) = true ->
  parse_lexemes norm silent (Entity.lexemes (ETablespace c [w1] ts n)) = Ok (Some (Entity.denote norm (ETablespace c [w1] ts n))).
Proof.
  intros c w1 ts n norm silent Hwf. prep Hwf n.
  match goal with X : forallb is_plain [w1] = true |- _ => cbn [forallb] in X; apply andb_true_iff in X; destruct X as [Hp1 _] end.
  rewrite (ent_pipeline (ETablespace c [w1] ts n) [fk "CREATE"; fid; fidr "TABLESPACE" Upper; fid]%string DoneT1
                        ["id -> ID"; "expr -> CREATE id TABLESPACE id"]%string norm silent).
  - eval_goal. cbn [Entity.denote]. destruct (String.eqb (nms norm w1) "TABLESPACE"); [reflexivity|].
    destruct (String.eqb (upper (nms norm w1)) "TEMPORARY"); reflexivity.
  - cbn [Entity.lexemes Entity.letters map app]. fme.
  - cbn [Entity.letters map app]. fal Hnl.
  - frun_goal Hnl.
  - reflexivity.
Qed.

Theorem entity_parse_tablespace2 : forall c w1 w2 ts n norm silent, Entity.wf (ETablespace c [w1; w2] ts n) = true ->
  parse_lexemes norm silent (Entity.lexemes (ETablespace c [w1; w2] ts n)) = Ok (Some (Entity.denote norm (ETablespace c [w1; w2] ts n))).
Proof.
  intros c w1 w2 ts n norm silent Hwf. prep Hwf n.
  match goal with X : forallb is_plain [w1; w2] = true |- _ =>
    cbn [forallb] in X; apply andb_true_iff in X; destruct X as [Hp1 X]; apply andb_true_iff in X; destruct X as [Hp2 _] end.
  rewrite (ent_pipeline (ETablespace c [w1; w2] ts n) [fk "CREATE"; fid; fidr "ID" Keep; fidr "TABLESPACE" Upper; fid]%string DoneT2
                        ["id -> ID"; "expr -> CREATE id id TABLESPACE id"]%string norm silent).
  - eval_goal. cbn [Entity.denote]. destruct (String.eqb (nms norm w1) "TABLESPACE"); [reflexivity|].
    destruct (String.eqb (upper (nms norm w1)) "TEMPORARY"); reflexivity.
  - cbn [Entity.lexemes Entity.letters map app]. fme.
  - cbn [Entity.letters map app]. fal Hnl.
  - frun_goal Hnl.
  - reflexivity.
Qed.

Theorem entity_parse_database : forall c db n norm silent, Entity.wf (EDatabase c db n) = true ->
  parse_lexemes norm silent (Entity.lexemes (EDatabase c db n)) = Ok (Some (Entity.denote norm (EDatabase c db n))).
Proof.
  intros c db n norm silent Hwf. prep Hwf n.
  rewrite (ent_pipeline (EDatabase c db n) [fk "CREATE"; fk "DATABASE"; fid]%string DoneD
             ["id -> ID"; "database_base -> CREATE DATABASE id"; "create_database -> database_base"; "expr -> create_database"]%string norm silent).
  - eval_goal. reflexivity.
  - cbn [Entity.lexemes Entity.letters map app]. fme.
  - cbn [Entity.letters map app]. fal Hnl.
  - frun_goal Hnl.
  - reflexivity.
Qed.

Lemma special_false w : schema_special w = false ->
  (String.eqb w "AUTHORIZATION" || String.eqb w "EXISTS" || String.eqb w "=" || String.eqb w "COMMENT" || String.eqb w ".")%string = false.
Proof.
  unfold schema_special, mem. simpl. intro H. rewrite !orb_false_r in H.
  repeat (apply orb_false_iff in H; destruct H as [? H]).
  repeat (apply orb_false_iff; split); assumption.
Qed.
Lemma special_false2 w : schema_special w = false ->
  (String.eqb w "AUTHORIZATION" || String.eqb w "=" || String.eqb w "COMMENT" || String.eqb w ".")%string = false.
Proof.
  intro H. apply special_false in H. repeat (apply orb_false_iff in H; destruct H as [H ?]).
  repeat (apply orb_false_iff; split); assumption.
Qed.

Theorem entity_parse_schema : forall c sch n norm silent, Entity.wf (ESchema c sch None n) = true ->
  parse_lexemes norm silent (Entity.lexemes (ESchema c sch None n)) = Ok (Some (Entity.denote norm (ESchema c sch None n))).
Proof.
  intros c sch n norm silent Hwf. prep Hwf n.
  assert (Hsp : schema_special (nms norm n) = false).
  { repeat match goal with X : negb (schema_special _) = true |- _ => apply negb_true_iff in X end.
    unfold nms. destruct norm; assumption. }
  rewrite (ent_pipeline (ESchema c sch None n) [fk "CREATE"; fk "SCHEMA"; (["c_schema -> CREATE SCHEMA"], "ID", Keep)]%string DoneS
             ["id -> ID"; "create_schema -> c_schema id"; "expr -> create_schema"]%string norm silent).
  - eval_goal. unfold act_create_schema. rewrite (special_false _ Hsp). cbn [Entity.denote]. reflexivity.
  - cbn [Entity.lexemes Entity.letters map app]. fme.
  - cbn [Entity.letters map app]. fal Hnl.
  - frun_goal Hnl.
  - reflexivity.
Qed.

Theorem entity_parse_schema_ine : forall c sch a b x n norm silent, Entity.wf (ESchema c sch (Some (a, b, x)) n) = true ->
  parse_lexemes norm silent (Entity.lexemes (ESchema c sch (Some (a, b, x)) n))
  = Ok (Some (Entity.denote norm (ESchema c sch (Some (a, b, x)) n))).
Proof.
  intros c sch a b x n norm silent Hwf. prep Hwf n.
  assert (Hsp : schema_special (nms norm n) = false).
  { repeat match goal with X : negb (schema_special _) = true |- _ => apply negb_true_iff in X end.
    unfold nms. destruct norm; assumption. }
  rewrite (ent_pipeline (ESchema c sch (Some (a, b, x)) n)
             [fk "CREATE"; fk "SCHEMA"; (["c_schema -> CREATE SCHEMA"], "IF", Upper); fk "NOT"; fk "EXISTS"; fid]%string DoneS2
             ["id -> ID"; "create_schema -> c_schema IF NOT EXISTS id"; "expr -> create_schema"]%string norm silent).
  - eval_goal. unfold act_create_schema. rewrite (special_false2 _ Hsp). cbn [Entity.denote]. reflexivity.
  - cbn [Entity.lexemes Entity.letters map app]. fme.
  - cbn [Entity.letters map app]. fal Hnl.
  - frun_goal Hnl.
  - reflexivity.
Qed.

(* all forms together *)
Theorem entity_parse : forall e norm silent, Entity.wf e = true ->
  parse_lexemes norm silent (Entity.lexemes e) = Ok (Some (Entity.denote norm e)).
Proof.
  intros e norm silent Hwf. destruct e as [c pre ts n|c db n|c sch [[[a b] x]|] n].
  - destruct pre as [|w1 [|w2 [|w3 rest]]].
    + apply entity_parse_tablespace0; exact Hwf.
    + apply entity_parse_tablespace1; exact Hwf.
    + apply entity_parse_tablespace2; exact Hwf.
    + exfalso. cbn [Entity.wf] in Hwf. split_wf Hwf.
      match goal with X : (List.length _ <=? 2)%nat = true |- _ => simpl in X; discriminate end.
  - apply entity_parse_database; exact Hwf.
  - apply entity_parse_schema_ine; exact Hwf.
  - apply entity_parse_schema; exact Hwf.
Qed.
