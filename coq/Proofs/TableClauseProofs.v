(* C11: clauses after the column list (TABLESPACE, STORED AS, LOCATION, ENGINE =, COMMENT =, USING, IN, ROW FORMAT SERDE / word,
   word TERMINATED BY, COLLECTION ITEMS / MAP KEYS TERMINATED BY, COMMENT 'text', word word, INTO n BUCKETS, word (name), ON, TEXTIMAGE_ON),
   any number, subset and order. *)
From Coq Require Import String Ascii List ZArith NArith PArith Bool Lia.
From SDP Require Import Base PyStr LR Lexer Actions Parse RealTables Engine Seq SeqProofs KeywordProofs Entity EntityProofs Table TableProofs TableItemProofs.
Import ListNotations.
Open Scope list_scope.

Local Arguments int_of_string : simpl never.
Local Arguments normalize_id : simpl never.
Local Arguments nms : simpl never.
Local Arguments upper : simpl never.
Local Arguments lower : simpl never.
Local Arguments check_spec : simpl never.

Notation Frun := (frun Table.q Table.fstep).

(* the state before a clause: END (just after the closing parenthesis) or CB p *)
Definition cstate_pend (s : Table.q) : list string := match s with CB p => cpending p | _ => ["expr -> expr RP"%string] end.
Definition cpend_of (c : tclause) : cpend :=
  match c with
  | CTablespace _ _ => CPTs | CStored _ _ _ => CPStored | CLocation _ _ => CPLoc | CEngine _ _ => CPEng
  | CComment _ _ => CPCom | CUsing _ _ => CPUs | CIn _ _ => CPIn
  | CRowSerde _ _ _ _ => CPRowSerde | CRowWord _ _ _ => CPRowWord | CTerm _ _ _ _ => CPTerm | CColl _ _ _ _ _ => CPColl
  | CMapKeys _ _ _ _ _ => CPMap | CCommentStr _ _ => CPComStr | CGen _ _ => CPGen | CInto _ _ _ => CPInto
  | CDist _ _ => CPDist | COn _ _ => CPOn | CTextOn _ _ => CPTextOn
  end.
Definition clause_ok_after (s : Table.q) (c : tclause) : bool :=
  match s with CB CPTs => negb (starts_plain c) | _ => true end.
Definition is_cstate (s : Table.q) : Prop := s = END \/ exists p, s = CB p.

Definition fos_clause (s : Table.q) (c : tclause) : list fout :=
  match c with
  | CTablespace _ _ => [(cstate_pend s, "TABLESPACE", Upper); ([], "ID", Keep)]
  | CStored _ _ _ => [(cstate_pend s, "STORED", Upper); ([], "AS", Upper); ([], "ID", Keep)]
  | CLocation _ _ => [(cstate_pend s, "LOCATION", Upper); ([], "STRING_BASE", Keep)]
  | CEngine _ _ => [(cstate_pend s, "ENGINE", Upper); ([], "EQ", Keep); ([], "ID", Keep)]
  | CComment _ _ => [(cstate_pend s, "COMMENT", Upper); ([], "EQ", Keep); ([], "STRING_BASE", Keep)]
  | CUsing _ _ => [(cstate_pend s, "USING", Upper); ([], "ID", Keep)]
  | CIn _ _ => [(cstate_pend s, "IN", Upper); ([], "ID", Keep)]
  | CRowSerde _ _ _ _ => [(cstate_pend s, "ROW", Upper); ([], "FORMAT", Upper); ([], "SERDE", Upper); (["row_format -> ROW FORMAT SERDE"], "STRING_BASE", Keep)]
  | CRowWord _ _ _ => [(cstate_pend s, "ROW", Upper); ([], "FORMAT", Upper); (["row_format -> ROW FORMAT"], "ID", Keep)]
  | CTerm _ _ _ _ => [(cstate_pend s, "ID", Keep); (["id -> ID"], "TERMINATED", Upper); ([], "BY", Upper); ([], "STRING_BASE", Keep)]
  | CColl _ _ _ _ _ => [(cstate_pend s, "COLLECTION", Upper); ([], "ITEMS", Upper); ([], "TERMINATED", Upper); ([], "BY", Upper); ([], "STRING_BASE", Keep)]
  | CMapKeys _ _ _ _ _ => [(cstate_pend s, "MAP", Upper); ([], "KEYS", Upper); ([], "TERMINATED", Upper); ([], "BY", Upper); ([], "STRING_BASE", Keep)]
  | CCommentStr _ _ => [(cstate_pend s, "COMMENT", Upper); ([], "STRING_BASE", Keep)]
  | CGen _ _ => [(cstate_pend s, "ID", Keep); (["id -> ID"], "ID", Keep)]
  | CInto _ _ _ => [(cstate_pend s, "INTO", Upper); ([], "ID", Keep); ([], "ID", Keep)]
  | CDist _ _ => [(cstate_pend s, "ID", Keep); (["id -> ID"], "LP", Keep); ([], "ID", Keep); (["id -> ID"], "RP", Upper)]
  | COn _ _ => [(cstate_pend s, "ON", Upper); ([], "ID", Keep)]
  | CTextOn _ _ => [(cstate_pend s, "TEXTIMAGE_ON", Upper); ([], "ID", Keep)]
  end%string.

Lemma frun_clause s c : is_cstate s -> clause_ok_after s c = true ->
  Frun s (clause_letters c) = Some (fos_clause s c, CB (cpend_of c)).
Proof.
  intros [->|[p ->]] H; destruct c; try destruct p; cbn [clause_ok_after starts_plain negb] in H; try discriminate H; vm_compute; reflexivity.
Qed.
Lemma fos_clause_length s c : List.length (fos_clause s c) = List.length (clause_lexemes c).
Proof. destruct c; reflexivity. Qed.

Ltac solve_action :=
  first [ rewrite act_id'
        | match goal with
          | |- context [action ?n ?p ?a] =>
            let H := fresh "Hact" in
            eassert (H : action n p a = Ok _)
              by (unfold action, action_more; simpl; repeat match goal with X : String.eqb _ _ = false |- _ => rewrite X end; reflexivity);
            rewrite H; clear H
          end ].
Ltac stepC :=
  first [ rewrite exec_shift
        | rewrite exec_reduce; arities; cbn [firstn skipn rev app]; solve_action; cbn [bind] ].

(* one clause: the pending reductions leave the table entity d; afterwards they leave d with the clause's key set *)
Lemma clause_step norm s c vs d :
  is_cstate s -> clause_ok_after s c = true -> wf_clause_n norm c = true ->
  exec norm (map NReduce (cstate_pend s)) vs = Ok [PDict d] ->
  exists vs', Steps norm s vs (clause_letters c) (clause_lexemes c) (CB (cpend_of c)) vs' /\
              exec norm (map NReduce (cpending (cpend_of c))) vs' = Ok [PDict (clause_apply norm d c)].
Proof.
  intros Hs Hok Hwf Hp. unfold wf_clause_n in Hwf.
  destruct c as [k n|k1 k2 v|k sl|k v|k sl|k v|k v|k1 k2 k3 sl|k1 k2 w|w k1 k2 sl|k1 k2 k3 k4 sl|k1 k2 k3 k4 sl|k sl|w1 w2|k n w|w v|k v|k v];
    cbn [wf_clause] in Hwf; split_wf Hwf; kw_uppers;
    repeat match goal with X : negb _ = true |- _ => apply negb_true_iff in X end;
    (eexists; split;
     [ unfold Steps; eexists; split; [apply frun_clause; assumption|]; split; [apply fos_clause_length|];
       cbn [fos_clause clause_lexemes ntrace snd W SB EQL LPx RPx apply_vtag map app]; rew_uppers; rewrite ?upper_rp;
       rewrite (exec_app _ _ _ _ _ Hp); repeat stepC; rewrite exec_nil; reflexivity
     | cbn [cpend_of cpending map]; repeat stepC; rewrite exec_nil;
       repeat match goal with X : String.eqb _ _ = false |- _ => rewrite X end; reflexivity ]).
Qed.

(* all clauses *)
Fixpoint chain_clauses (s : Table.q) (l : list tclause) : bool :=
  match l with [] => true | c :: r => clause_ok_after s c && chain_clauses (CB (cpend_of c)) r end.
Definition last_cstate (s : Table.q) (l : list tclause) : Table.q := match rev l with c :: _ => CB (cpend_of c) | [] => s end.

Lemma clauses_steps norm : forall cl s vs d,
  is_cstate s -> chain_clauses s cl = true -> forallb (wf_clause_n norm) cl = true ->
  exec norm (map NReduce (cstate_pend s)) vs = Ok [PDict d] ->
  exists s' vs', is_cstate s' /\
    Steps norm s vs (flat_map clause_letters cl) (flat_map clause_lexemes cl) s' vs' /\
    exec norm (map NReduce (cstate_pend s')) vs' = Ok [PDict (fold_left (clause_apply norm) cl d)].
Proof.
  induction cl as [|c r IH]; intros s vs d Hs Hch Hwf Hp.
  - exists s, vs. split; [exact Hs|]. split; [apply Steps_nil|exact Hp].
  - cbn [chain_clauses forallb] in *. apply andb_true_iff in Hch. apply andb_true_iff in Hwf. destruct Hch as [Hc1 Hc2]. destruct Hwf as [Hw1 Hw2].
    destruct (clause_step norm s c vs d Hs Hc1 Hw1 Hp) as [vs1 [St1 Hp1]].
    destruct (IH (CB (cpend_of c)) vs1 (clause_apply norm d c) (or_intror (ex_intro _ _ eq_refl)) Hc2 Hw2 Hp1) as [s' [vs' [Hs' [St2 Hp2]]]].
    exists s', vs'. split; [exact Hs'|]. split; [|exact Hp2]. cbn [flat_map]. eapply Steps_app; eassumption.
Qed.

Lemma chain_of_wf : forall cl, no_ts_then_in cl = true -> chain_clauses END cl = true /\
  (forall p, (p <> CPTs \/ match cl with c :: _ => starts_plain c = false | [] => True end) -> chain_clauses (CB p) cl = true).
Proof.
  induction cl as [|c r IH]; intro H; [split; [reflexivity|intros; reflexivity]|].
  assert (Hr : no_ts_then_in r = true).
  { destruct c; try exact H; destruct r as [|c2 r2]; try exact H; cbn [no_ts_then_in] in H; apply andb_true_iff in H; destruct H as [_ H]; exact H. }
  destruct (IH Hr) as [_ IH2].
  assert (Hnext : chain_clauses (CB (cpend_of c)) r = true).
  { apply IH2. destruct c; try (left; discriminate). right. destruct r as [|c2 r2]; [exact I|].
    cbn [no_ts_then_in] in H. apply andb_true_iff in H. destruct H as [H _]. apply negb_true_iff in H. exact H. }
  split.
  - cbn [chain_clauses]. rewrite Hnext. reflexivity.
  - intros p Hp. cbn [chain_clauses]. rewrite Hnext. rewrite andb_true_r. destruct p; try reflexivity.
    destruct Hp as [Hp|Hp]; [congruence|]. cbn [clause_ok_after]. rewrite Hp. reflexivity.
Qed.

(* ---------- the table part: from the start to the closing parenthesis ------------------------------------------------------------------- *)
Lemma lexemes_c_nil t : lexemes_c (mkTableC t []) = Table.lexemes t.
Proof. unfold lexemes_c, Table.lexemes. cbn [tc_table tc_items flat_map app]. reflexivity. Qed.
Lemma letters_c_nil t : letters_c (mkTableC t []) = Table.letters t.
Proof. unfold letters_c, Table.letters. cbn [tc_table tc_items flat_map app]. reflexivity. Qed.

Lemma tablec_steps norm tc d : wf_c norm tc = true -> denote_c norm tc = Ok d ->
  Steps norm T0 [] (letters_c tc) (lexemes_c tc) END [PStr ")"; PDict d] /\
  Forall2 matches (lexemes_c tc) (letters_c tc) /\ Forall (fun l => In l Table.alphabet) (letters_c tc).
Proof.
  destruct tc as [t items]. intros Hwf Hd. unfold wf_c in Hwf. cbn [tc_table tc_items] in Hwf. split_wf Hwf.
  destruct items as [|i r].
  - rewrite lexemes_c_nil, letters_c_nil. unfold denote_c in Hd. cbn [tc_table tc_items fold_left] in Hd. inversion Hd; subst d.
    split; [|split].
    + pose proof (table_steps norm t Hwf) as St. unfold Table.denote in St. exact St.
    + apply (all_matches norm); exact Hwf.
    + apply (letters_in_alphabet norm); exact Hwf.
  - unfold denote_c in Hd. cbn [tc_table tc_items] in Hd. rewrite fold_items_spec in Hd. cbn [bind] in Hd.
    assert (Hcols : wf_col norm (t_first t) = true /\ forallb (wf_col norm) (t_rest t) = true).
    { unfold wf in Hwf. apply andb_true_iff in Hwf. destruct Hwf as [Hwf' H2]. apply andb_true_iff in Hwf'. tauto. }
    destruct Hcols as [Hc1 Hc2].
    assert (El : letters_c (mkTableC t (i :: r)) = top_letters t ++ (cols_letters t ++ [CMl]) ++ (titem_letters i ++ flat_map (fun j => CMl :: titem_letters j) r ++ [RPl])).
    { unfold letters_c, top_letters, cols_letters. cbn [tc_table tc_items flat_map]. repeat (rewrite <- !app_assoc; cbn [app]). reflexivity. }
    assert (Ex : lexemes_c (mkTableC t (i :: r)) = top_lexemes t ++ (cols_lexemes t ++ [CMx]) ++ (titem_lexemes i ++ flat_map (fun j => CMx :: titem_lexemes j) r ++ [RPx])).
    { unfold lexemes_c, top_lexemes, cols_lexemes. cbn [tc_table tc_items flat_map]. repeat (rewrite <- !app_assoc; cbn [app]). reflexivity. }
    rewrite El, Ex. split; [|split].
    + eapply Steps_app; [apply top_steps; exact Hwf|].
      eapply Steps_app.
      * unfold cols_letters, cols_lexemes. rewrite <- !app_assoc.
        exact (columns_steps_comma norm (t_rest t) (t_first t) First _ _ [] Hc1 Hc2).
      * apply items_steps; [exact Hw0|exact Hd].
    + unfold wf in Hwf. split_wf Hwf.
      apply Forall2_app.
      { unfold top_lexemes, top_letters. destruct (t_schema t); cbn [app]; fmt. }
      apply Forall2_app.
      { apply Forall2_app; [|fmt]. unfold cols_lexemes, cols_letters. apply Forall2_app; [apply (col_matches norm); assumption|].
        clear - Hc2. induction (t_rest t) as [|c2 rr IH]; cbn [flat_map]; [constructor|].
        cbn [forallb] in Hc2. apply andb_true_iff in Hc2. destruct Hc2 as [Hx Hy].
        constructor; [fmt|]. apply Forall2_app; [apply (col_matches norm); exact Hx|apply IH; exact Hy]. }
      cbn [forallb] in Hw0. apply andb_true_iff in Hw0. destruct Hw0 as [Hi Hr].
      apply Forall2_app; [apply (titem_match norm); exact Hi|]. apply Forall2_app; [|fmt].
      clear - Hr. induction r as [|j rr IH]; cbn [flat_map]; [constructor|].
      cbn [forallb] in Hr. apply andb_true_iff in Hr. destruct Hr as [Hx Hy].
      constructor; [fmt|]. apply Forall2_app; [apply (titem_match norm); exact Hx|apply IH; exact Hy].
    + pose proof (letters_in_alphabet norm t Hwf) as Hal. rewrite table_split_letters in Hal.
      apply Forall_app in Hal. destruct Hal as [Ha1 Ha2]. apply Forall_app in Ha2. destruct Ha2 as [Ha2 Ha3].
      unfold rest_letters in Ha3. apply Forall_app in Ha3. destruct Ha3 as [Ha3 _].
      apply Forall_app; split; [exact Ha1|]. apply Forall_app; split.
      { apply Forall_app; split; [|fall]. unfold cols_letters. apply Forall_app; split; assumption. }
      apply Forall_app; split; [apply titem_alpha|]. apply Forall_app; split; [|fall].
      clear. induction r as [|j rr IH]; cbn [flat_map]; [constructor|]. constructor; [inal|]. apply Forall_app; split; [apply titem_alpha|exact IH].
Qed.

(* ---------- matching / alphabet for clauses ----------------------------------------------------------------------------------------------- *)
Lemma match_eq : matches EQL LEq. Proof. reflexivity. Qed.
Lemma clause_match c : wf_clause c = true -> Forall2 matches (clause_lexemes c) (clause_letters c).
Proof.
  destruct c; cbn [wf_clause clause_lexemes clause_letters]; intro H; split_wf H;
    repeat match goal with
           | |- Forall2 _ (_ :: _) (_ :: _) => constructor
           | |- Forall2 _ [] [] => constructor
           | |- matches LPx LPl => apply match_sym; tauto
           | |- matches RPx RPl => apply match_sym; tauto
           | |- matches (W _) (K _) => first [apply match_kw; assumption | apply match_sym; tauto]
           | |- matches (W _) G => apply match_plain; assumption
           | |- matches (SB _) LStr => apply match_str
           | |- matches EQL LEq => exact match_eq
           end.
Qed.
Lemma clause_alpha c : Forall (fun l => In l Table.alphabet) (clause_letters c).
Proof. destruct c; cbn [clause_letters]; fall. Qed.

(* ---------- THE theorem -------------------------------------------------------------------------------------------------------------------- *)
Theorem table_x_parse : forall tx norm silent, wf_x norm tx = true ->
  exists d, denote_x norm tx = Ok d /\ parse_lexemes norm silent (lexemes_x tx) = Ok (Some (PDict d)).
Proof.
  intros [tc cl] norm silent Hwf. unfold wf_x in Hwf. cbn [tx_tc tx_clauses] in Hwf. split_wf Hwf.
  assert (Hok : exists d0, denote_c norm tc = Ok d0 /\ closes_ok d0 = true).
  { unfold wf_c in Hwf. apply andb_true_iff in Hwf. destruct Hwf as [_ H]. destruct (denote_c norm tc) as [d0| | |]; try discriminate. exists d0. auto. }
  destruct Hok as [d0 [Hd0 Hcl]].
  destruct (tablec_steps norm tc d0 Hwf Hd0) as [St [Hm Hal]].
  assert (Hp0 : exec norm (map NReduce (cstate_pend END)) [PStr ")"; PDict d0] = Ok [PDict d0]).
  { cbn [cstate_pend map]. rewrite exec_reduce. arities. cbn [firstn skipn rev app]. rewrite (act_expr_rp norm d0 Hcl). reflexivity. }
  destruct (clauses_steps norm cl END [PStr ")"; PDict d0] d0 (or_introl eq_refl) (proj1 (chain_of_wf cl Hw)) Hw0 Hp0) as [s' [vs' [Hs' [St2 Hp2]]]].
  exists (fold_left (clause_apply norm) cl d0). split.
  - unfold denote_x. cbn [tx_tc tx_clauses]. rewrite Hd0. reflexivity.
  - unfold lexemes_x. cbn [tx_tc tx_clauses].
    pose proof (Steps_app norm _ _ _ _ _ _ _ _ _ _ St St2) as [fos [Hf [Hl He]]].
    unfold parse_lexemes.
    rewrite (pipeline_spec real_tables term_id real_pname Table.q Table.q_eqb Table.q_eqb_eq Table.fstep Table.ffinish Table.alphabet
                           R R_closed T0 R_init (lexemes_c tc ++ flat_map clause_lexemes cl) (letters_c tc ++ flat_map clause_letters cl))
      with (fos := fos) (q' := s') (pfin := cstate_pend s').
    + rewrite (eval_app _ _ _ _ _ He). rewrite (eval_app _ _ _ _ _ Hp2). reflexivity.
    + apply Forall2_app; [exact Hm|]. clear - Hw0. induction cl as [|c r IH]; cbn [flat_map]; [constructor|].
      cbn [forallb] in Hw0. apply andb_true_iff in Hw0. destruct Hw0 as [Hx Hy]. unfold wf_clause_n in Hx. apply andb_true_iff in Hx.
      apply Forall2_app; [apply clause_match; exact (proj1 Hx)|apply IH; exact Hy].
    + apply Forall_app; split; [exact Hal|]. clear. induction cl as [|c r IH]; cbn [flat_map]; [constructor|]. apply Forall_app; split; [apply clause_alpha|exact IH].
    + exact Hf.
    + destruct Hs' as [->|[p ->]]; reflexivity.
Qed.

(* ---------- orthogonality: a clause sets its own key and nothing else ---------------------------------------------------------------------- *)
Lemma dict_set_other k k' v : k' <> k -> forall d, dict_get (dict_set d k v) k' = dict_get d k'.
Proof.
  intros Hk. assert (Ek : String.eqb k' k = false) by (apply String.eqb_neq; exact Hk). unfold dict_get.
  induction d as [|[a b] r IH]; cbn [dict_set assoc].
  - rewrite Ek. reflexivity.
  - destruct (String.eqb k a) eqn:E1; cbn [assoc].
    + apply String.eqb_eq in E1. subst a. rewrite Ek. reflexivity.
    + destruct (String.eqb k' a); [reflexivity|exact IH].
Qed.
Lemma dict_set_same k v : forall d, dict_get (dict_set d k v) k = Some v.
Proof.
  unfold dict_get. induction d as [|[a b] r IH]; cbn [dict_set assoc]; [rewrite String.eqb_refl; reflexivity|].
  destruct (String.eqb k a) eqn:E; cbn [assoc]; rewrite ?E; [rewrite String.eqb_refl; reflexivity|exact IH].
Qed.

Lemma clause_sets_its_key norm d c : dict_get (clause_apply norm d c) (clause_key norm c) = Some (clause_value norm c).
Proof. apply dict_set_same. Qed.
Lemma clause_keeps_other_keys norm d c k : k <> clause_key norm c -> dict_get (clause_apply norm d c) k = dict_get d k.
Proof. intro H. apply dict_set_other. exact H. Qed.

(* whatever clauses follow the table, every key none of them owns (schema, table_name, columns, checks, primary_key, constraints ...)
   has the value it has in the clause-free table *)
Theorem clauses_keep_the_body norm k : forall cl d, Forall (fun c => clause_key norm c <> k) cl ->
  dict_get (fold_left (clause_apply norm) cl d) k = dict_get d k.
Proof.
  induction cl as [|c r IH]; intros d H; cbn [fold_left]; [reflexivity|].
  inversion H as [|? ? Hc Hr]; subst. rewrite (IH _ Hr). apply clause_keeps_other_keys. intro E. apply Hc. symmetry. exact E.
Qed.
(* a clause's key carries that clause's value unless a LATER clause owns the same key, in any order and with anything in between *)
Theorem clause_value_reported norm : forall before c after d, Forall (fun c' => clause_key norm c' <> clause_key norm c) after ->
  dict_get (fold_left (clause_apply norm) (before ++ c :: after) d) (clause_key norm c) = Some (clause_value norm c).
Proof.
  intros before c after d H. rewrite fold_left_app. cbn [fold_left].
  rewrite (clauses_keep_the_body norm (clause_key norm c) after _ H). apply clause_sets_its_key.
Qed.
