(* C18: CREATE SCHEMA [IF NOT EXISTS] n [AUTHORIZATION u] [COMMENT [=] 'text'] against the real keyword tables, flag logic and LALR tables. *)
From Coq Require Import String Ascii List ZArith NArith PArith Bool Lia.
From SDP Require Import Base PyStr LR Lexer Actions Parse RealTables Engine Seq SeqProofs KeywordProofs Entity.
From SDP Require Table TableProofs TableClauseProofs.
From SDP Require Import SchemaX.
Import ListNotations.
Open Scope list_scope.

Definition RX : list (SchemaX.q * conf) :=
  explore real_tables term_id SchemaX.q SchemaX.q_eqb SchemaX.fstep SchemaX.alphabet 4000 [(SchemaX.Q0, (flags0, [0%N]))] [].
Lemma RX_closed : closed real_tables term_id real_pname SchemaX.q SchemaX.q_eqb SchemaX.fstep SchemaX.ffinish SchemaX.alphabet RX = true.
Proof. vm_compute. reflexivity. Qed.
Lemma RX_init : In (SchemaX.Q0, (flags0, [0%N])) RX.
Proof. apply (in_R_In SchemaX.q SchemaX.q_eqb SchemaX.q_eqb_eq). vm_compute. reflexivity. Qed.

Local Arguments int_of_string : simpl never.
Local Arguments normalize_id : simpl never.
Local Arguments nms : simpl never.
Local Arguments upper : simpl never.
Local Arguments replace : simpl never.

Import TableProofs.
Notation nmv := Table.nmv.

(* ---------- what the guards of the actions need ------------------------------------------------------------------------------------------ *)
Lemma xspecial_false w : xspecial w = false ->
  String.eqb w "AUTHORIZATION" = false /\ String.eqb w "EXISTS" = false /\ String.eqb w "=" = false /\ String.eqb w "COMMENT" = false
  /\ String.eqb w "." = false /\ String.eqb w "" = false.
Proof.
  unfold xspecial, mem. cbn [existsb]. intro H. rewrite orb_false_r in H.
  repeat (apply orb_false_iff in H; destruct H as [? H]). repeat split; assumption.
Qed.

Lemma act_cs norm : action norm "c_schema -> CREATE SCHEMA" [PStr "CREATE"; PStr "SCHEMA"] = Ok PNone.
Proof. reflexivity. Qed.
Lemma act_name norm n : xspecial n = false ->
  action norm "create_schema -> c_schema id" [PNone; PStr n] = Ok (PDict [("schema_name", PStr (replace n "`" ""))])%string.
Proof.
  intro H. destruct (xspecial_false n H) as [H1 [H2 [H3 [H4 [H5 _]]]]]. unfold action; simpl. unfold act_create_schema.
  rewrite H1, H2, H3, H4, H5. reflexivity.
Qed.
Lemma act_ine norm n : xspecial n = false ->
  action norm "create_schema -> c_schema IF NOT EXISTS id" [PNone; PStr "IF"; PStr "NOT"; PStr "EXISTS"; PStr n]
  = Ok (PDict [("if_not_exists", PBool true); ("schema_name", PStr (replace n "`" ""))])%string.
Proof.
  intro H. destruct (xspecial_false n H) as [H1 [H2 [H3 [H4 [H5 _]]]]]. unfold action; simpl. unfold act_create_schema. simpl.
  rewrite H1, H3, H4, H5. reflexivity.
Qed.
Lemma act_auth norm n u : xspecial n = false -> xspecial u = false ->
  action norm "create_schema -> c_schema id id id" [PNone; PStr n; PStr "AUTHORIZATION"; PStr u]
  = Ok (PDict [("schema_name", PStr n); ("authorization", PStr u)])%string.
Proof.
  intros Hn Hu. destruct (xspecial_false n Hn) as [N1 [N2 [N3 [N4 [N5 N6]]]]]. destruct (xspecial_false u Hu) as [U1 [U2 [U3 [U4 [U5 U6]]]]].
  unfold action, action_more; simpl. unfold act_create_schema_gen, list_has, str_is, index_of. simpl.
  rewrite ?N1, ?N2, ?N3, ?N4, ?N5, ?N6, ?U1, ?U2, ?U3, ?U4, ?U5, ?U6. simpl. rewrite ?N1, ?N2, ?N5, ?N6, ?U2, ?U5. simpl.
  unfold tr, dict_get. simpl. rewrite ?N6. simpl. reflexivity.
Qed.
Lemma tr_set_other (d : list (string * pyval)) k k' v : k' <> k -> tr (dict_set d k v) k' = tr d k'.
Proof. intro H. unfold tr. rewrite (TableClauseProofs.dict_set_other k k' v H d). reflexivity. Qed.
Lemma act_comment norm (d : list (string * pyval)) s : tr d "schema_name" = true ->
  action norm "create_schema -> create_schema COMMENT STRING" [PDict d; PStr "COMMENT"; PStr s] = Ok (PDict (dict_set d "comment" (PStr s))).
Proof.
  intro H. unfold action, action_more; simpl. unfold act_create_schema_gen, list_has, str_is. simpl.
  rewrite tr_set_other by discriminate. rewrite H. reflexivity.
Qed.
Lemma act_comment_eq norm (d : list (string * pyval)) s : tr d "schema_name" = true -> String.eqb s "." = false ->
  action norm "create_schema -> create_schema COMMENT EQ STRING" [PDict d; PStr "COMMENT"; PStr "="; PStr s] = Ok (PDict (dict_set d "comment" (PStr s))).
Proof.
  intros H Hs. unfold action, action_more; simpl. unfold act_create_schema_gen, list_has, str_is. simpl.
  rewrite tr_set_other by discriminate. rewrite H. simpl. rewrite Hs. reflexivity.
Qed.
Lemma act_unit norm (d : list (string * pyval)) : action norm "expr -> create_schema" [PDict d] = Ok (PDict d).
Proof. reflexivity. Qed.
Lemma act_str norm s : action norm "STRING -> STRING_BASE" [PStr s] = Ok (PStr s).
Proof. reflexivity. Qed.

(* ---------- THE theorem: all forms by case analysis (the statements have bounded length) ------------------------------------------------ *)
Ltac split_wf H :=
  repeat match type of H with
         | (_ && _) = true => let H2 := fresh "Hw" in apply andb_true_iff in H; destruct H as [H H2]
         end.
Ltac kw_uppers :=
  repeat match goal with X : is_kw _ _ = true |- _ =>
           let Hu := fresh "Hu" in pose proof (is_kw_spec _ _ X) as [Hu _]; revert X end; intros.
Ltac rew_uppers := repeat match goal with Hu : upper _ = _ |- _ => rewrite Hu end.
Ltac ina := unfold SchemaX.alphabet; repeat (first [left; reflexivity | right]).
Ltac fmx :=
  repeat match goal with
         | |- Forall2 _ (_ :: _) (_ :: _) => constructor
         | |- Forall2 _ [] [] => constructor
         | |- matches (W "AUTHORIZATION") G => apply match_plain; vm_compute; reflexivity
         | |- matches (W _) (K _) => apply match_kw; assumption
         | |- matches (W _) G => apply match_plain; assumption
         | |- matches Table.EQL LEq => reflexivity
         | |- matches (Table.SB _) LStr => apply match_str
         end.
Ltac fax := repeat match goal with |- Forall _ (_ :: _) => constructor; [ina|] | |- Forall _ [] => constructor end.

Ltac stepX Hn Hu Hs :=
  first [ rewrite exec_shift
        | rewrite exec_reduce; arities; cbn [firstn skipn rev app];
          match goal with |- context [action _ ?p _] =>
            lazymatch p with
            | "id -> ID"%string => rewrite act_id'
            | "c_schema -> CREATE SCHEMA"%string => rewrite act_cs
            | "create_schema -> c_schema id"%string => rewrite (act_name _ _ Hn)
            | "create_schema -> c_schema IF NOT EXISTS id"%string => rewrite (act_ine _ _ Hn)
            | "create_schema -> c_schema id id id"%string => rewrite (act_auth _ _ _ Hn Hu)
            | "STRING -> STRING_BASE"%string => rewrite act_str
            | "create_schema -> create_schema COMMENT STRING"%string => rewrite act_comment by reflexivity
            | "create_schema -> create_schema COMMENT EQ STRING"%string => rewrite (act_comment_eq _ _ _ eq_refl Hs)
            | "expr -> create_schema"%string => rewrite act_unit
            end end;
          cbn [bind] ].

(* run the pipeline theorem on the concrete letters of the case at hand, then evaluate the prescribed trace *)
Ltac pipeline x norm silent :=
  let ls := eval cbv beta iota delta [SchemaX.letters x_ine x_auth x_comment app] in (SchemaX.letters x) in
  let fr := eval vm_compute in (frun SchemaX.q SchemaX.fstep Q0 ls) in
  lazymatch fr with
  | Some (?fos, ?q') =>
    let pf := eval vm_compute in (SchemaX.ffinish q') in
    lazymatch pf with
    | Some ?pfin =>
      unfold parse_lexemes;
      let H := fresh "Hpipe" in
      assert (H : Forall2 matches (SchemaX.lexemes x) ls -> Forall (fun l => In l SchemaX.alphabet) ls ->
                  frun SchemaX.q SchemaX.fstep Q0 ls = Some (fos, q') -> SchemaX.ffinish q' = Some pfin ->
                  parse_lexemes_g real_tables term_id real_pname norm silent (SchemaX.lexemes x)
                  = eval norm (ntrace fos (SchemaX.lexemes x) ++ map NReduce pfin ++ [NAccept]) [])
        by (intros Hm Hal Hf Hfin;
            exact (pipeline_spec real_tables term_id real_pname SchemaX.q SchemaX.q_eqb SchemaX.q_eqb_eq SchemaX.fstep SchemaX.ffinish SchemaX.alphabet
                                 RX RX_closed Q0 RX_init (SchemaX.lexemes x) ls Hm Hal fos q' pfin Hf Hfin norm silent));
      rewrite H; clear H
    end
  end.

Lemma nms_auth norm : nms norm "AUTHORIZATION" = "AUTHORIZATION"%string.
Proof. destruct norm; vm_compute; reflexivity. Qed.
Lemma ev_shift norm v r vs : eval norm (NShift v :: r) vs = eval norm r (PStr v :: vs).
Proof. reflexivity. Qed.
Lemma ev_reduce norm p r vs :
  eval norm (NReduce p :: r) vs = (do v <- action norm p (rev (firstn (prod_arity p) vs)); eval norm r (v :: skipn (prod_arity p) vs)).
Proof. reflexivity. Qed.
(* the schema entity before a COMMENT has a non-empty schema_name *)
Ltac has_name HXe HXn :=
  unfold tr, dict_get; cbn [assoc String.eqb Ascii.eqb Bool.eqb truthy_a];
  first [ rewrite HXe; reflexivity
        | destruct (xspecial_false _ HXn) as [_ [_ [_ [_ [_ E]]]]]; rewrite E; reflexivity ].
Ltac stepV HXn HXu HXs HXe :=
  first [ rewrite ev_shift
        | rewrite ev_reduce; arities; cbn [firstn skipn rev app];
          match goal with |- context [action _ ?p _] =>
            lazymatch p with
            | "id -> ID"%string => rewrite act_id'; rewrite ?nms_auth
            | "c_schema -> CREATE SCHEMA"%string => rewrite act_cs
            | "create_schema -> c_schema id"%string => rewrite (act_name _ _ HXn)
            | "create_schema -> c_schema IF NOT EXISTS id"%string => rewrite (act_ine _ _ HXn)
            | "create_schema -> c_schema id id id"%string => rewrite (act_auth _ _ _ HXn HXu)
            | "STRING -> STRING_BASE"%string => rewrite act_str
            | "create_schema -> create_schema COMMENT STRING"%string => rewrite act_comment by (has_name HXe HXn)
            | "create_schema -> create_schema COMMENT EQ STRING"%string => rewrite act_comment_eq by (first [exact HXs | has_name HXe HXn])
            | "expr -> create_schema"%string => rewrite act_unit
            end end;
          cbn [bind] ].

Theorem schx_parse : forall x norm silent, wf norm x = true ->
  parse_lexemes norm silent (SchemaX.lexemes x) = Ok (Some (SchemaX.denote norm x)).
Proof.
  intros [c sc ine n au cm] norm silent Hwf. unfold wf in Hwf. cbn [x_create x_schema x_ine x_name x_auth x_comment] in Hwf. split_wf Hwf.
  repeat match goal with X : negb _ = true |- _ => apply negb_true_iff in X end.
  assert (HXn : xspecial (nms norm n) = false) by assumption.
  assert (HXe : String.eqb (replace (nms norm n) "`" "") "" = false) by assumption.
  destruct ine as [[[i1 i2] i3]|]; destruct au as [u|]; destruct cm as [[[k e] s]|];
    repeat match goal with X : (_ && _) = true |- _ => let Y := fresh "Hy" in apply andb_true_iff in X; destruct X as [X Y] end;
    try discriminate;
    repeat match goal with X : negb _ = true |- _ => apply negb_true_iff in X end;
    try (destruct e); cbn [andb] in *; kw_uppers;
    try (assert (HXu : xspecial (nms norm u) = false) by assumption);
    try (assert (HXs : String.eqb s "." = false) by assumption);
    match goal with
    | |- parse_lexemes _ _ (SchemaX.lexemes ?x) = _ =>
      pipeline x norm silent;
      [ cbn [SchemaX.lexemes ine_lexemes auth_lexemes comment_lexemes x_create x_schema x_ine x_name x_auth x_comment app ntrace map snd W Table.EQL Table.SB apply_vtag];
        rew_uppers; unfold SchemaX.denote; cbn [x_create x_schema x_ine x_name x_auth x_comment app];
        first [ repeat stepV HXn HXu HXs HXe | repeat stepV HXn HXn HXs HXe | repeat stepV HXn HXu HXe HXe | repeat stepV HXn HXn HXe HXe ]; reflexivity
      | unfold SchemaX.lexemes, ine_lexemes, auth_lexemes, comment_lexemes; cbn [x_create x_schema x_ine x_name x_auth x_comment app]; fmx
      | fax
      | vm_compute; reflexivity
      | reflexivity ]
    end.
Qed.

(* the schema entity holds no table, index or schema key: every output mode reports it unchanged *)
From SDP Require Import Output OutputProofs OtherOutProofs.
From SDP.Gen Require Tokens.
Theorem schx_every_mode : forall x norm m, In m Tokens.modes ->
  exists e, SchemaX.denote norm x = PDict e /\ Output.format m false [PDict e] = Ok (PList [PDict e]).
Proof.
  intros [c sc ine n au cm] norm m Hm. unfold SchemaX.denote. cbn [x_ine x_auth x_comment x_name].
  destruct ine as [[[i1 i2] i3]|]; destruct au as [u|]; destruct cm as [[[k e] s]|]; cbn [app];
    (eexists; split; [reflexivity|]; apply format_other; [exact Hm|reflexivity|reflexivity|reflexivity|right; split; reflexivity]).
Qed.
