(* C10 / C17 / C18: sequences, tablespaces, databases and schemas through the output stage in every mode. *)
From Coq Require Import String Ascii List ZArith NArith Bool Lia.
From SDP Require Import Base PyStr Lexer Actions Parse Engine Seq SeqProofs Entity EntityProofs Output OutputProofs Table TableOutProofs TableModesProofs.
From SDP.Gen Require Fields Tokens.
Import ListNotations.
Open Scope string_scope.

(* an entity that is neither a table nor an ALTER / INDEX statement passes the output stage unchanged (bigquery renames a truthy schema) *)
Lemma format_other m (d : dict) : In m Tokens.modes ->
  dict_has d "index_name" = false -> dict_has d "alter_table_name" = false -> truthy (get_or_none d "table_name") = false ->
  (m <> "bigquery" \/ (truthy (get_or_none d "schema") = false /\ truthy (get_or_none d "sequences") = false)) ->
  Output.format m false [PDict d] = Ok (PList [PDict d]).
Proof.
  intros Hm H1 H2 H3 H4. unfold Output.format. cbn [fold_left bind]. unfold step.
  assert (Em : exists h fs, mode_info m = Some (h, fs)).
  { unfold Tokens.modes in Hm. cbn [In] in Hm. repeat (destruct Hm as [<-|Hm]; [eexists; eexists; reflexivity|]). contradiction. }
  destruct Em as [h [fs Em]]. rewrite Em. cbn [bind]. rewrite H1, H2. cbn [orb]. rewrite H3.
  destruct H4 as [Hb|[Hs Hq]].
  - destruct (String.eqb m "bigquery") eqn:E; [apply String.eqb_eq in E; congruence|]. cbn [andb bind]. reflexivity.
  - rewrite Hs, Hq. cbn [orb]. rewrite andb_false_r. cbn [bind]. reflexivity.
Qed.

(* ---------- tablespaces, databases, schemas (C18) ---------------------------------------------------------------------------------- *)
Theorem entity_every_mode : forall e norm m, In m Tokens.modes ->
  exists d, Entity.denote norm e = PDict d /\ Output.format m false [PDict d] = Ok (PList [PDict d]).
Proof.
  intros e norm m Hm.
  destruct e as [c pre ts n|c db n|c sch [[[a b] x]|] n]; cbn [Entity.denote].
  - destruct pre as [|w1 rest]; [|destruct (String.eqb (nms norm w1) "TABLESPACE"); [|destruct (String.eqb (upper (nms norm w1)) "TEMPORARY")]];
      (eexists; split; [reflexivity|]; apply format_other; [exact Hm|reflexivity|reflexivity|reflexivity|right; split; reflexivity]).
  - eexists; split; [reflexivity|]. apply format_other; [exact Hm|reflexivity|reflexivity|reflexivity|right; split; reflexivity].
  - eexists; split; [reflexivity|]. apply format_other; [exact Hm|reflexivity|reflexivity|reflexivity|right; split; reflexivity].
  - eexists; split; [reflexivity|]. apply format_other; [exact Hm|reflexivity|reflexivity|reflexivity|right; split; reflexivity].
Qed.

(* ---------- sequences (C17) -------------------------------------------------------------------------------------------------------------- *)
Definition seq_keys : list string :=
  ["increment"; "increment_by"; "start"; "start_with"; "minvalue"; "maxvalue"; "cache"; "order"; "noorder"].
Lemma denote_opt_key o d : exists k v, In k seq_keys /\ denote_opt o d = dict_set d k v.
Proof.
  destruct o as [kw [b|] n|kw [w|] n|kw n|kw n|no kw|no kw|kw n|kw|kw|kw]; cbn [denote_opt]; eexists; eexists; (split; [|reflexivity]);
    unfold seq_keys; cbn [In]; tauto.
Qed.
Lemma fold_opts_get k : ~ In k seq_keys -> forall opts d,
  assoc k (fold_left (fun d o => denote_opt o d) opts d) = assoc k d.
Proof.
  intros Hk. induction opts as [|o r IH]; intro d; cbn [fold_left]; [reflexivity|].
  rewrite IH. destruct (denote_opt_key o d) as [k' [v [Hin ->]]]. apply assoc_dict_set_other. intro E. subst k'. contradiction.
Qed.

Theorem seq_every_mode : forall a norm m, In m Tokens.modes ->
  (m <> "bigquery" \/ s_schema a = None \/ (exists s, s_schema a = Some s /\ nms norm s = "")) ->
  exists d, Seq.denote norm a = PDict d /\ Output.format m false [PDict d] = Ok (PList [PDict d]).
Proof.
  intros a norm m Hm Hc. unfold Seq.denote. eexists. split; [reflexivity|].
  set (d0 := [("schema", match s_schema a with Some s => nm norm s | None => PNone end); ("sequence_name", nm norm (s_name a))]).
  assert (G : forall k, ~ In k seq_keys -> assoc k (fold_left (fun d o => denote_opt o d) (s_opts a) d0) = assoc k d0)
    by (intros k Hk; apply fold_opts_get; exact Hk).
  apply format_other; [exact Hm| | | |].
  - unfold dict_has, assoc_mem. rewrite G by (unfold seq_keys; cbn [In]; intuition discriminate). reflexivity.
  - unfold dict_has, assoc_mem. rewrite G by (unfold seq_keys; cbn [In]; intuition discriminate). reflexivity.
  - unfold get_or_none, dict_get. rewrite G by (unfold seq_keys; cbn [In]; intuition discriminate). reflexivity.
  - destruct Hc as [Hc|Hc]; [left; exact Hc|right]. split.
    + unfold get_or_none, dict_get. rewrite G by (unfold seq_keys; cbn [In]; intuition discriminate).
      unfold d0. cbn [assoc String.eqb Ascii.eqb Bool.eqb]. destruct Hc as [->|[s [-> Hs]]]; [reflexivity|].
      unfold nm. unfold nms in Hs. rewrite Hs. reflexivity.
    + unfold get_or_none, dict_get. rewrite G by (unfold seq_keys; cbn [In]; intuition discriminate). reflexivity.
Qed.

Lemma format_other_bq (d : dict) :
  dict_has d "index_name" = false -> dict_has d "alter_table_name" = false -> truthy (get_or_none d "table_name") = false ->
  truthy (get_or_none d "schema") = true -> dict_has d "schema" = true ->
  Output.format "bigquery" false [PDict d] = Ok (PList [PDict (dict_del (dict_set d "dataset" (get_or_none d "schema")) "schema")]).
Proof.
  intros H1 H2 H3 H4 H5. unfold Output.format. cbn [fold_left bind]. unfold step.
  assert (Em : exists h fs, mode_info "bigquery" = Some (h, fs)) by (eexists; eexists; reflexivity).
  destruct Em as [h [fs Em]]. rewrite Em. cbn [bind]. rewrite H1, H2. cbn [orb]. rewrite H3.
  change (String.eqb "bigquery" "bigquery") with true. rewrite H4. cbn [andb orb]. rewrite H5. cbn [bind]. reflexivity.
Qed.

(* bigquery reports the schema of a sequence under the key dataset; nothing else changes *)
Theorem seq_bigquery : forall a norm s, s_schema a = Some s -> nms norm s <> "" ->
  exists d, Seq.denote norm a = PDict d /\
            Output.format "bigquery" false [PDict d] = Ok (PList [PDict (dict_del (dict_set d "dataset" (PStr (nms norm s))) "schema")]).
Proof.
  intros a norm s Hs Hn. unfold Seq.denote. eexists. split; [reflexivity|].
  set (d0 := [("schema", match s_schema a with Some s => nm norm s | None => PNone end); ("sequence_name", nm norm (s_name a))]).
  assert (G : forall k, ~ In k seq_keys -> assoc k (fold_left (fun d o => denote_opt o d) (s_opts a) d0) = assoc k d0)
    by (intros k Hk; apply fold_opts_get; exact Hk).
  assert (Gs : get_or_none (fold_left (fun d o => denote_opt o d) (s_opts a) d0) "schema" = PStr (nms norm s)).
  { unfold get_or_none, dict_get. rewrite G by (unfold seq_keys; cbn [In]; intuition discriminate).
    unfold d0. rewrite Hs. reflexivity. }
  rewrite <- Gs. apply format_other_bq.
  - unfold dict_has, assoc_mem. rewrite G by (unfold seq_keys; cbn [In]; intuition discriminate). reflexivity.
  - unfold dict_has, assoc_mem. rewrite G by (unfold seq_keys; cbn [In]; intuition discriminate). reflexivity.
  - unfold get_or_none, dict_get. rewrite G by (unfold seq_keys; cbn [In]; intuition discriminate). reflexivity.
  - rewrite Gs. unfold truthy. destruct (nms norm s); [congruence|reflexivity].
  - unfold dict_has, assoc_mem. rewrite G by (unfold seq_keys; cbn [In]; intuition discriminate). reflexivity.
Qed.
