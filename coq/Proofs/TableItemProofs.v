(* C02: the table-level clauses (PRIMARY KEY / UNIQUE / FOREIGN KEY, named or not) after the columns of the core fragment. *)
From Coq Require Import String Ascii List ZArith NArith PArith Bool Lia.
From SDP Require Import Base PyStr LR Lexer Actions Parse RealTables Engine Seq SeqProofs KeywordProofs Entity EntityProofs Table TableProofs.
Import ListNotations.
Open Scope list_scope.

Local Arguments int_of_string : simpl never.
Local Arguments normalize_id : simpl never.
Local Arguments isnumeric : simpl never.
Local Arguments plain_type_word : simpl never.
Local Arguments colname_bad : simpl never.
Local Arguments refaction_bad : simpl never.
Local Arguments nms : simpl never.
Local Arguments upper : simpl never.

Notation Frun := (frun Table.q Table.fstep).

Lemma act_pid1 norm s : action norm "pid -> id" [PStr s] = Ok (PList [PStr s]).
Proof. reflexivity. Qed.
Lemma act_pidn norm l s : action norm "pid -> pid COMMA id" [PList l; PStr ","; PStr s] = Ok (PList (l ++ [PStr s])).
Proof. reflexivity. Qed.

(* ---------- a parenthesised list of names, any length ------------------------------------------------------------------------ *)
Definition pend_of_tp (s : Table.q) : list string := match s with TP1 _ => tpid_first | _ => tpid_next end.
Ltac dk k := destruct k as [[|]|[|]|[|]|[|]].
Lemma f_tp_comma k s : s = TP1 k \/ s = TPm k -> Table.fstep s CMl = Some ((pend_of_tp s, "COMMA"%string, Upper), TPn k).
Proof. intros [->| ->]; dk k; vm_compute; reflexivity. Qed.
Lemma f_tp_rp k s : s = TP1 k \/ s = TPm k -> Table.fstep s RPl = Some ((pend_of_tp s, "RP"%string, Upper), TPEnd k).
Proof. intros [->| ->]; dk k; vm_compute; reflexivity. Qed.
Lemma f_tpn k : Table.fstep (TPn k) G = Some (([], "ID"%string, Keep), TPm k).
Proof. dk k; vm_compute; reflexivity. Qed.
Lemma f_tp0 k : Table.fstep (TP0 k) G = Some (([], "ID"%string, Keep), TP1 k).
Proof. dk k; vm_compute; reflexivity. Qed.

Lemma tnames_rest norm k base : forall rest s stack acc,
  s = TP1 k \/ s = TPm k ->
  exec norm (map NReduce (pend_of_tp s)) stack = Ok (PList acc :: base) ->
  forallb is_plain rest = true ->
  Steps norm s stack (tcomma_letters rest ++ [RPl]) (tcommas rest ++ [RPx]) (TPEnd k)
        (PStr ")" :: PList (acc ++ map (nmv norm) rest) :: base).
Proof.
  induction rest as [|y r IH]; intros s stack acc Hs Hp Hwf.
  - cbn [tcomma_letters tcommas app map]. rewrite app_nil_r. unfold Steps.
    eexists. split; [rewrite frun_cons, (f_tp_rp k s Hs); reflexivity|]. split; [reflexivity|].
    cbn [ntrace snd RPx W apply_vtag]. rewrite upper_rp. rewrite (exec_app _ _ _ _ _ Hp). reflexivity.
  - cbn [forallb] in Hwf. apply andb_true_iff in Hwf. destruct Hwf as [Hy Hr].
    cbn [tcomma_letters tcommas map].
    change ((CMl :: G :: tcomma_letters r) ++ [RPl]) with ([CMl; G] ++ (tcomma_letters r ++ [RPl])).
    change ((CMx :: W y :: tcommas r) ++ [RPx]) with ([CMx; W y] ++ (tcommas r ++ [RPx])).
    eapply Steps_app.
    + unfold Steps. eexists. split; [rewrite frun_cons, (f_tp_comma k s Hs); cbv beta iota; rewrite frun_cons, f_tpn; reflexivity|].
      split; [reflexivity|]. cbn [ntrace snd CMx W apply_vtag map app]. rewrite upper_comma.
      rewrite (exec_app _ _ _ _ _ Hp). reflexivity.
    + replace (acc ++ nmv norm y :: map (nmv norm) r) with ((acc ++ [nmv norm y]) ++ map (nmv norm) r) by (rewrite <- app_assoc; reflexivity).
      apply IH; [right; reflexivity| |exact Hr].
      cbn [pend_of_tp tpid_next map]. rewrite exec_reduce. arities. cbn [firstn skipn rev app]. rewrite act_id'. cbn [bind].
      rewrite exec_reduce. arities. cbn [firstn skipn rev app]. unfold nmv. rewrite act_pidn. cbn [bind]. reflexivity.
Qed.

Lemma wf_tnames_plain norm n : wf_tnames norm n = true -> forallb is_plain (tnames_list n) = true.
Proof.
  unfold wf_tnames. intro H. rewrite forallb_forall in *. intros x Hx. specialize (H x Hx).
  apply andb_true_iff in H. destruct H as [H _]. apply andb_true_iff in H. destruct H as [H _]. apply andb_true_iff in H. destruct H as [H _]. exact H.
Qed.

Lemma tnames_steps norm k vs (n : tnames) : wf_tnames norm n = true ->
  Steps norm (TP0 k) vs (G :: tcomma_letters (snd n) ++ [RPl]) (W (fst n) :: tcommas (snd n) ++ [RPx]) (TPEnd k)
        (PStr ")" :: tnlist norm n :: vs).
Proof.
  intro Hw. apply wf_tnames_plain in Hw. destruct n as [x rest]. unfold tnames_list, tnlist in *. cbn [fst snd forallb map] in *.
  apply andb_true_iff in Hw. destruct Hw as [Hx Hr].
  change (G :: tcomma_letters rest ++ [RPl]) with ([G] ++ (tcomma_letters rest ++ [RPl])).
  change (W x :: tcommas rest ++ [RPx]) with ([W x] ++ (tcommas rest ++ [RPx])).
  eapply Steps_app.
  - unfold Steps. eexists. split; [rewrite frun_cons, f_tp0; reflexivity|]. split; reflexivity.
  - unfold tnlist, tnames_list. cbn [fst snd map].
    change (nmv norm x :: map (nmv norm) rest) with ([nmv norm x] ++ map (nmv norm) rest).
    apply tnames_rest; [left; reflexivity| |exact Hr].
    cbn [pend_of_tp tpid_first map]. rewrite exec_reduce. arities. cbn [firstn skipn rev app]. rewrite act_id'. cbn [bind].
    rewrite exec_reduce. arities. cbn [firstn skipn rev app]. rewrite act_pid1. cbn [bind]. reflexivity.
Qed.

(* ---------- evaluating single actions in isolation ---------------------------------------------------------------------------- *)
Ltac solve_action :=
  first [ rewrite act_id'
        | match goal with
          | |- context [action ?n ?p ?a] =>
            let H := fresh "Hact" in
            eassert (H : action n p a = Ok _)
              by (unfold action, action_more; simpl; repeat match goal with X : refaction_bad _ = false |- _ => rewrite X end; reflexivity);
            rewrite H; clear H
          end ].
Ltac stepT :=
  first [ rewrite exec_shift
        | rewrite exec_reduce; arities; cbn [firstn skipn rev app]; solve_action; cbn [bind] ].
Ltac concT := unfold Steps; eexists; split; [vm_compute; reflexivity|]; split; [reflexivity|].
Ltac split_wf H :=
  repeat match type of H with
         | (_ && _) = true => let H2 := fresh "Hw" in apply andb_true_iff in H; destruct H as [H H2]
         end.
Ltac kw_uppers :=
  repeat match goal with X : is_kw _ _ = true |- _ =>
           let Hu := fresh "Hu" in pose proof (is_kw_spec _ _ X) as [Hu _]; revert X end; intros.
Ltac rew_uppers := repeat match goal with Hu : upper _ = _ |- _ => rewrite Hu end.

(* the six table-level productions all run p_expression_table's clause branch *)
Lemma action_item norm prod args :
  In prod ["expr -> expr COMMA pkey"; "expr -> expr COMMA uniq"; "expr -> expr COMMA constraint uniq"; "expr -> expr COMMA constraint pkey";
           "expr -> expr COMMA foreign ref"; "expr -> expr COMMA constraint foreign ref"]%string ->
  action norm prod args = act_expr_table_item args.
Proof. intros [<-|[<-|[<-|[<-|[<-|[<-|[]]]]]]]; reflexivity. Qed.

Lemma titem_apply_inv norm d i d' : titem_apply norm d i = Ok d' ->
  act_expr_table_item (PDict d :: PStr "," :: titem_values norm i) = Ok (PDict d').
Proof.
  unfold titem_apply. destruct (act_expr_table_item (PDict d :: PStr "," :: titem_values norm i)) as [v| | |]; try discriminate.
  destruct v; try discriminate. intro H. inversion H. reflexivity.
Qed.

Lemma sort_filter norm n : wf_tnames norm n = true ->
  filter (fun v => negb (is_sort_word v)) (map (nmv norm) (tnames_list n)) = map (nmv norm) (tnames_list n).
Proof.
  unfold wf_tnames. generalize (tnames_list n). induction l as [|x r IH]; cbn [forallb map filter]; intro H; [reflexivity|].
  apply andb_true_iff in H. destruct H as [Hx Hr]. split_wf Hx.
  repeat match goal with X : negb _ = true |- _ => apply negb_true_iff in X end.
  unfold nmv at 1. unfold is_sort_word at 1.
  repeat match goal with X : String.eqb _ _ = false |- _ => rewrite X end. cbn [orb negb]. rewrite (IH Hr). reflexivity.
Qed.

Definition closing (l : letter) (lx : lexeme) (s' : Table.q) (sepn : string) : Prop :=
  (l = CMl /\ lx = CMx /\ s' = C0 Later /\ sepn = ","%string) \/ (l = RPl /\ lx = RPx /\ s' = END /\ sepn = ")"%string).

(* ---------- PRIMARY KEY ( .. ) and UNIQUE ( .. ), named or not ---------------------------------------------------------------------- *)
Lemma pk_pre norm c p k d : wf_tcons c = true -> is_kw p "PRIMARY" = true -> is_kw k "KEY" = true ->
  Steps norm (C0 Later) [PStr ","; PDict d] (tcons_letters c ++ [K "PRIMARY"; K "KEY"; LPl]) (tcons_lexemes c ++ [W p; W k; LPx])
        (TP0 (TkPk (match c with Some _ => true | None => false end)))
        (PStr "(" :: PDict [("primary_key", PNone)]%string :: tcons_val norm c ++ [PStr ","; PDict d]).
Proof.
  intros Hc Hp Hk. destruct c as [[ck cn]|]; cbn [wf_tcons] in Hc; [split_wf Hc|]; kw_uppers; cbn [tcons_letters tcons_lexemes tcons_val app];
    (concT; cbn [ntrace map app snd W LPx apply_vtag]; rew_uppers; repeat stepT; rewrite exec_nil; reflexivity).
Qed.
Lemma uq_pre norm c u d : wf_tcons c = true -> is_kw u "UNIQUE" = true ->
  Steps norm (C0 Later) [PStr ","; PDict d] (tcons_letters c ++ [K "UNIQUE"; LPl]) (tcons_lexemes c ++ [W u; LPx])
        (TP0 (TkUq (match c with Some _ => true | None => false end)))
        (PStr "(" :: PStr "UNIQUE" :: tcons_val norm c ++ [PStr ","; PDict d]).
Proof.
  intros Hc Hu. destruct c as [[ck cn]|]; cbn [wf_tcons] in Hc; [split_wf Hc|]; kw_uppers; cbn [tcons_letters tcons_lexemes tcons_val app];
    (concT; cbn [ntrace map app snd W LPx apply_vtag]; rew_uppers; repeat stepT; rewrite exec_nil; reflexivity).
Qed.

Lemma pk_close norm c cols d d' l lx s' sepn : closing l lx s' sepn -> wf_tnames norm cols = true ->
  act_expr_table_item (PDict d :: PStr "," :: tcons_val norm c ++ [PDict [("primary_key", tnlist norm cols)]%string]) = Ok (PDict d') ->
  Steps norm (TPEnd (TkPk (match c with Some _ => true | None => false end)))
        (PStr ")" :: tnlist norm cols :: PStr "(" :: PDict [("primary_key", PNone)]%string :: tcons_val norm c ++ [PStr ","; PDict d])
        [l] [lx] s' [PStr sepn; PDict d'].
Proof.
  intros Hl Hw Ha. pose proof (sort_filter norm cols Hw) as Hf. unfold tnlist in *.
  destruct c as [[ck cn]|]; cbn [tcons_val app] in *; destruct Hl as [[-> [-> [-> ->]]]|[-> [-> [-> ->]]]];
    (concT; cbn [ntrace map app snd W CMx RPx apply_vtag]; rewrite ?upper_comma, ?upper_rp;
     rewrite exec_reduce; arities; cbn [firstn skipn rev app];
     match goal with |- context [action ?n ?p ?a] => assert (E : action n p a = act_pkey a) by reflexivity; rewrite E; clear E end;
     cbn [act_pkey]; rewrite Hf; cbn [bind];
     rewrite exec_reduce; arities; cbn [firstn skipn rev app];
     rewrite action_item by (simpl; tauto); rewrite Ha; cbn [bind]; reflexivity).
Qed.
Lemma uq_close norm c cols d d' l lx s' sepn : closing l lx s' sepn ->
  act_expr_table_item (PDict d :: PStr "," :: tcons_val norm c ++ [PDict [("unique_statement", PDict [("columns", tnlist norm cols)])]%string]) = Ok (PDict d') ->
  Steps norm (TPEnd (TkUq (match c with Some _ => true | None => false end)))
        (PStr ")" :: tnlist norm cols :: PStr "(" :: PStr "UNIQUE" :: tcons_val norm c ++ [PStr ","; PDict d])
        [l] [lx] s' [PStr sepn; PDict d'].
Proof.
  intros Hl Ha. unfold tnlist in *.
  destruct c as [[ck cn]|]; cbn [tcons_val app] in *; destruct Hl as [[-> [-> [-> ->]]]|[-> [-> [-> ->]]]];
    (concT; cbn [ntrace map app snd W CMx RPx apply_vtag]; rewrite ?upper_comma, ?upper_rp;
     rewrite exec_reduce; arities; cbn [firstn skipn rev app];
     match goal with |- context [action ?n ?p ?a] => assert (E : action n p a = act_uniq a) by reflexivity; rewrite E; clear E end;
     cbn [act_uniq bind];
     rewrite exec_reduce; arities; cbn [firstn skipn rev app];
     rewrite action_item by (simpl; tauto); rewrite Ha; cbn [bind]; reflexivity).
Qed.

(* ---------- FOREIGN KEY ( .. ) REFERENCES [s.]t ( .. ) [ON DELETE a] [ON UPDATE a], named or not ------------------------------------ *)
Definition nmd (c : option (string * string)) : bool := match c with Some _ => true | None => false end.
Lemma fk_pre norm c f k d : wf_tcons c = true -> is_kw f "FOREIGN" = true -> is_kw k "KEY" = true ->
  Steps norm (C0 Later) [PStr ","; PDict d] (tcons_letters c ++ [K "FOREIGN"; K "KEY"; LPl]) (tcons_lexemes c ++ [W f; W k; LPx])
        (TP0 (TkFk (nmd c))) (PStr "(" :: PStr "KEY" :: PStr "FOREIGN" :: tcons_val norm c ++ [PStr ","; PDict d]).
Proof.
  intros Hc Hf Hk. destruct c as [[ck cn]|]; cbn [wf_tcons] in Hc; [split_wf Hc|]; kw_uppers; cbn [tcons_letters tcons_lexemes tcons_val app nmd];
    (concT; cbn [ntrace map app snd W LPx apply_vtag]; rew_uppers; repeat stepT; rewrite exec_nil; reflexivity).
Qed.

Definition tref0 (norm : bool) (rs : option string) (rt : string) : list (string * pyval) :=
  [("table", nmv norm rt); ("columns", PList [PNone]); ("schema", onm norm rs); ("on_delete", PNone); ("on_update", PNone);
   ("deferrable_initially", PNone)]%string.
Lemma fk_mid norm c cols rk rs rt base : is_kw rk "REFERENCES" = true ->
  Steps norm (TPEnd (TkFk (nmd c)))
        (PStr ")" :: PList cols :: PStr "(" :: PStr "KEY" :: PStr "FOREIGN" :: base)
        (K "REFERENCES" :: (match rs with Some _ => [G; LDot] | None => [] end) ++ [G; LPl])
        (W rk :: (match rs with Some s => [W s; DOTL] | None => [] end) ++ [W rt; LPx])
        (TP0 (TkRef (nmd c)))
        (PStr "(" :: PDict [("references", PDict (tref0 norm rs rt))]%string :: PList cols :: base).
Proof.
  intro H1. kw_uppers. destruct c as [[ck cn]|]; destruct rs as [s|]; unfold tref0; cbn [app nmd];
    (concT; cbn [ntrace map app snd W DOTL LPx RPx apply_vtag]; rew_uppers; repeat stepT; rewrite exec_nil; reflexivity).
Qed.

Definition tref_final (norm : bool) (rs : option string) (rt : string) (rcols : pyval) (od ou : option (string * string * string)) :=
  [("table", nmv norm rt); ("columns", rcols); ("schema", onm norm rs); ("on_delete", on_val norm od); ("on_update", on_val norm ou);
   ("deferrable_initially", PNone)]%string.

Lemma fk_close norm c cols rs rt rcols od ou d d' l lx s' sepn : closing l lx s' sepn ->
  wf_on norm od "DELETE" = true -> wf_on norm ou "UPDATE" = true ->
  act_expr_table_item (PDict d :: PStr "," :: tcons_val norm c ++ [PList cols; PDict [("references", PDict (tref_final norm rs rt (PList rcols) od ou))]%string])
  = Ok (PDict d') ->
  Steps norm (TPEnd (TkRef (nmd c)))
        (PStr ")" :: PList rcols :: PStr "(" :: PDict [("references", PDict (tref0 norm rs rt))]%string :: PList cols :: tcons_val norm c ++ [PStr ","; PDict d])
        (on_letters od "DELETE" ++ on_letters ou "UPDATE" ++ [l]) (on_lexemes od ++ on_lexemes ou ++ [lx]) s' [PStr sepn; PDict d'].
Proof.
  intros Hl Hd Hu Ha.
  destruct od as [[[da db] dc]|]; destruct ou as [[[ua ub] uc]|]; cbn [wf_on] in Hd, Hu; split_wf Hd; split_wf Hu;
    repeat match goal with X : is_action_word _ _ = true |- _ => apply action_word_spec in X end;
    kw_uppers; unfold tref0, tref_final, on_val, nmv in *; cbn [on_letters on_lexemes app];
    destruct c as [[ck cn]|]; cbn [tcons_val app nmd] in *; unfold nmv in *; destruct Hl as [[-> [-> [-> ->]]]|[-> [-> [-> ->]]]];
    (concT; cbn [ntrace map app snd W CMx RPx apply_vtag]; rewrite ?upper_comma, ?upper_rp; rew_uppers;
     repeat (first [ rewrite exec_shift
                   | rewrite exec_reduce; arities; cbn [firstn skipn rev app];
                     first [ rewrite action_item by (simpl; tauto); rewrite Ha | solve_action ]; cbn [bind] ]);
     rewrite ?exec_nil; reflexivity).
Qed.

(* ---------- one clause, then the comma / closing parenthesis ------------------------------------------------------------------------- *)
Definition tnl_letters (n : tnames) : list letter := G :: tcomma_letters (snd n) ++ [RPl].
Definition tnl_lexemes (n : tnames) : list lexeme := W (fst n) :: tcommas (snd n) ++ [RPx].

Lemma titem_letters_split i :
  titem_letters i =
  match i with
  | TIPk c _ _ cols => (tcons_letters c ++ [K "PRIMARY"%string; K "KEY"%string; LPl]) ++ tnl_letters cols
  | TIUq c _ cols => (tcons_letters c ++ [K "UNIQUE"%string; LPl]) ++ tnl_letters cols
  | TIFk c _ _ cols r =>
      (tcons_letters c ++ [K "FOREIGN"%string; K "KEY"%string; LPl]) ++ tnl_letters cols
      ++ (K "REFERENCES"%string :: (match tf_schema r with Some _ => [G; LDot] | None => [] end) ++ [G; LPl]) ++ tnl_letters (tf_cols r)
      ++ on_letters (tf_ondel r) "DELETE"%string ++ on_letters (tf_onupd r) "UPDATE"%string
  end.
Proof.
  destruct i as [c p k cols|c u cols|c f k cols r]; unfold titem_letters, tnl_letters, tnames_letters;
    destruct c as [[ck cn]|]; cbn [tcons_letters app]; try reflexivity;
    destruct r as [rk [rs|] rt rc od ou]; cbn [tf_kw tf_schema tf_table tf_cols tf_ondel tf_onupd app];
    repeat (rewrite <- !app_assoc; cbn [app]); reflexivity.
Qed.
Lemma titem_lexemes_split i :
  titem_lexemes i =
  match i with
  | TIPk c p k cols => (tcons_lexemes c ++ [W p; W k; LPx]) ++ tnl_lexemes cols
  | TIUq c u cols => (tcons_lexemes c ++ [W u; LPx]) ++ tnl_lexemes cols
  | TIFk c f k cols r =>
      (tcons_lexemes c ++ [W f; W k; LPx]) ++ tnl_lexemes cols
      ++ (W (tf_kw r) :: (match tf_schema r with Some s => [W s; DOTL] | None => [] end) ++ [W (tf_table r); LPx]) ++ tnl_lexemes (tf_cols r)
      ++ on_lexemes (tf_ondel r) ++ on_lexemes (tf_onupd r)
  end.
Proof.
  destruct i as [c p k cols|c u cols|c f k cols r]; unfold titem_lexemes, tnl_lexemes, tnames_lexemes;
    destruct c as [[ck cn]|]; cbn [tcons_lexemes app]; try reflexivity;
    destruct r as [rk [rs|] rt rc od ou]; cbn [tf_kw tf_schema tf_table tf_cols tf_ondel tf_onupd app];
    repeat (rewrite <- !app_assoc; cbn [app]); reflexivity.
Qed.

Lemma titem_steps norm d i d' l lx s' sepn :
  closing l lx s' sepn -> wf_titem norm i = true -> titem_apply norm d i = Ok d' ->
  Steps norm (C0 Later) [PStr ","; PDict d] (titem_letters i ++ [l]) (titem_lexemes i ++ [lx]) s' [PStr sepn; PDict d'].
Proof.
  intros Hl Hwf Ha. apply titem_apply_inv in Ha. rewrite titem_letters_split, titem_lexemes_split.
  destruct i as [c p k cols|c u cols|c f k cols r]; cbn [wf_titem titem_values] in *; split_wf Hwf.
  - set (pl := tcons_letters c ++ _). set (px := tcons_lexemes c ++ _). rewrite <- !app_assoc. subst pl px.
    eapply Steps_app; [apply pk_pre; assumption|].
    eapply Steps_app; [apply tnames_steps; eassumption|]. apply pk_close; assumption.
  - set (pl := tcons_letters c ++ _). set (px := tcons_lexemes c ++ _). rewrite <- !app_assoc. subst pl px.
    eapply Steps_app; [apply uq_pre; assumption|].
    eapply Steps_app; [apply tnames_steps; eassumption|]. apply uq_close; assumption.
  - destruct r as [rk rs rt rc od ou]. cbn [tf_kw tf_schema tf_table tf_cols tf_ondel tf_onupd] in *.
    set (pl := tcons_letters c ++ _). set (px := tcons_lexemes c ++ _).
    set (ml := K "REFERENCES"%string :: _). set (mx := W rk :: _). rewrite <- !app_assoc. subst pl px ml mx.
    eapply Steps_app; [apply fk_pre; assumption|].
    eapply Steps_app; [apply (tnames_steps norm (TkFk (nmd c))); eassumption|].
    eapply Steps_app; [apply (fk_mid norm c); assumption|].
    eapply Steps_app; [apply (tnames_steps norm (TkRef (nmd c))); eassumption|].
    unfold tnlist in *. apply fk_close; assumption.
Qed.

(* ---------- all clauses, any number ------------------------------------------------------------------------------------------------------ *)
Definition items_letters (items : list titem) : list letter :=
  match items with
  | [] => [RPl]
  | i :: r => titem_letters i ++ flat_map (fun j => CMl :: titem_letters j) r ++ [RPl]
  end.
Fixpoint fold_items (norm : bool) (d : list (string * pyval)) (items : list titem) : res (list (string * pyval)) :=
  match items with [] => Ok d | i :: r => do d' <- titem_apply norm d i; fold_items norm d' r end.
Lemma fold_items_spec norm : forall items acc,
  fold_left (fun acc i => do d <- acc; titem_apply norm d i) items acc = (do d <- acc; fold_items norm d items).
Proof.
  induction items as [|i r IH]; intro acc; cbn [fold_left fold_items].
  - destruct acc; reflexivity.
  - rewrite IH. destruct acc as [d| | |]; cbn [bind]; try reflexivity.
Qed.

Lemma split_cons_app {A} (a : list A) x (b c d : list A) : a ++ ((x :: b) ++ c) ++ d = (a ++ [x]) ++ (b ++ c ++ d).
Proof. rewrite <- !app_assoc. reflexivity. Qed.

Lemma items_steps norm : forall r i d dfin,
  forallb (wf_titem norm) (i :: r) = true -> fold_items norm d (i :: r) = Ok dfin ->
  Steps norm (C0 Later) [PStr ","; PDict d]
        (titem_letters i ++ flat_map (fun j => CMl :: titem_letters j) r ++ [RPl])
        (titem_lexemes i ++ flat_map (fun j => CMx :: titem_lexemes j) r ++ [RPx])
        END [PStr ")"; PDict dfin].
Proof.
  induction r as [|i2 r IH]; intros i d dfin Hwf Hf; cbn [forallb] in Hwf; apply andb_true_iff in Hwf; destruct Hwf as [Hi Hr];
    cbn [fold_items] in Hf; destruct (titem_apply norm d i) as [d1| | |] eqn:Ea; try discriminate; cbn [bind] in Hf.
  - cbn [fold_items] in Hf. inversion Hf; subst d1. cbn [flat_map app].
    apply (titem_steps norm d i dfin RPl RPx END ")"); [right; repeat split; reflexivity|exact Hi|exact Ea].
  - cbn [flat_map]. rewrite !split_cons_app.
    eapply Steps_app.
    + apply (titem_steps norm d i d1 CMl CMx (C0 Later) ","); [left; repeat split; reflexivity|exact Hi|exact Ea].
    + apply IH; [exact Hr|exact Hf].
Qed.

(* ---------- the columns, ending with the comma that introduces the first clause --------------------------------------------------------- *)
Lemma columns_steps_comma norm : forall rest col c sch tn cols,
  wf_col norm col = true -> forallb (wf_col norm) rest = true ->
  Steps norm (C0 c) [sepv c; PDict (tdict sch tn cols)]
        (Table.col_letters col ++ flat_map (fun c => CMl :: Table.col_letters c) rest ++ [CMl])
        (col_lexemes col ++ flat_map (fun c => CMx :: col_lexemes c) rest ++ [CMx])
        (C0 Later) [PStr ","; PDict (tdict sch tn (cols ++ map (col_dict norm) (col :: rest)))].
Proof.
  induction rest as [|c2 r IH]; intros col c sch tn cols Hc Hr.
  - destruct (column_steps norm c col [sepv c; PDict (tdict sch tn cols)] Hc) as [p [vs [St Hp]]].
    eapply Steps_app; [exact St|]. cbn [flat_map app map].
    apply close_steps; [left; repeat split; reflexivity | unfold col_dict; do 4 eexists; reflexivity | exact Hp].
  - cbn [forallb] in Hr. apply andb_true_iff in Hr. destruct Hr as [Hc2 Hr].
    destruct (column_steps norm c col [sepv c; PDict (tdict sch tn cols)] Hc) as [p [vs [St Hp]]].
    eapply Steps_app; [exact St|].
    cbn [flat_map]. rewrite <- !app_assoc. cbn [app].
    change (CMl :: Table.col_letters c2 ++ flat_map (fun c0 => CMl :: Table.col_letters c0) r ++ [CMl])
      with ([CMl] ++ (Table.col_letters c2 ++ flat_map (fun c0 => CMl :: Table.col_letters c0) r ++ [CMl])).
    change (CMx :: col_lexemes c2 ++ flat_map (fun c0 => CMx :: col_lexemes c0) r ++ [CMx])
      with ([CMx] ++ (col_lexemes c2 ++ flat_map (fun c0 => CMx :: col_lexemes c0) r ++ [CMx])).
    eapply Steps_app.
    + apply close_steps; [left; repeat split; reflexivity | unfold col_dict; do 4 eexists; reflexivity | exact Hp].
    + specialize (IH c2 Later sch tn (cols ++ [col_dict norm col]) Hc2 Hr). cbn [sepv] in IH.
      cbn [map] in *. rewrite <- app_assoc in IH. exact IH.
Qed.

(* ---------- matching and alphabet ---------------------------------------------------------------------------------------------------------- *)
Lemma tcommas_match : forall l, forallb is_plain l = true -> Forall2 matches (tcommas l ++ [RPx]) (tcomma_letters l ++ [RPl]).
Proof.
  induction l as [|x r IH]; cbn [forallb tcommas tcomma_letters app]; intro H; [fmt|].
  apply andb_true_iff in H. destruct H as [Hx Hr]. constructor; [fmt|]. constructor; [apply match_plain; exact Hx|]. apply IH; exact Hr.
Qed.
Lemma tnl_match norm n : wf_tnames norm n = true -> Forall2 matches (tnl_lexemes n) (tnl_letters n).
Proof.
  intro H. apply wf_tnames_plain in H. destruct n as [x r]. unfold tnames_list, tnl_lexemes, tnl_letters in *. cbn [fst snd forallb] in *.
  apply andb_true_iff in H. destruct H as [Hx Hr]. constructor; [apply match_plain; exact Hx|]. apply tcommas_match; exact Hr.
Qed.
Lemma ton_match norm o what : wf_on norm o what = true -> Forall2 matches (on_lexemes o) (on_letters o what).
Proof.
  destruct o as [[[a b] c]|]; cbn [wf_on on_lexemes on_letters]; intro H; [|constructor].
  split_wf H. apply plain_of_action in Hw. fmt.
Qed.
Lemma titem_match norm i : wf_titem norm i = true -> Forall2 matches (titem_lexemes i) (titem_letters i).
Proof.
  intro H. rewrite titem_letters_split, titem_lexemes_split.
  destruct i as [c p k cols|c u cols|c f k cols r]; cbn [wf_titem] in H; split_wf H.
  - apply Forall2_app; [|apply (tnl_match norm); assumption].
    destruct c as [[ck cn]|]; cbn [wf_tcons tcons_lexemes tcons_letters app] in *; [split_wf H|]; fmt.
  - apply Forall2_app; [|apply (tnl_match norm); assumption].
    destruct c as [[ck cn]|]; cbn [wf_tcons tcons_lexemes tcons_letters app] in *; [split_wf H|]; fmt.
  - apply Forall2_app; [destruct c as [[ck cn]|]; cbn [wf_tcons tcons_lexemes tcons_letters app] in *; [split_wf H|]; fmt|].
    apply Forall2_app; [apply (tnl_match norm); assumption|].
    apply Forall2_app; [destruct (tf_schema r) as [s|]; cbn [app]; fmt|].
    apply Forall2_app; [apply (tnl_match norm); assumption|].
    apply Forall2_app; apply (ton_match norm); assumption.
Qed.

Lemma tcomma_alpha : forall l : list string, Forall (fun x => In x Table.alphabet) (tcomma_letters l ++ [RPl]).
Proof. induction l as [|x r IH]; cbn [tcomma_letters app]; [fall|]. constructor; [inal|]. constructor; [inal|]. exact IH. Qed.
Lemma tnl_alpha (n : tnames) : Forall (fun x => In x Table.alphabet) (tnl_letters n).
Proof. unfold tnl_letters. constructor; [inal|]. apply tcomma_alpha. Qed.
Lemma ton_alpha o what : what = "DELETE"%string \/ what = "UPDATE"%string -> Forall (fun l => In l Table.alphabet) (on_letters o what).
Proof. intros [->| ->]; destruct o as [[[a b] c]|]; cbn [on_letters]; fall. Qed.
Lemma titem_alpha i : Forall (fun x => In x Table.alphabet) (titem_letters i).
Proof.
  rewrite titem_letters_split. destruct i as [c p k cols|c u cols|c f k cols r].
  - apply Forall_app; split; [destruct c as [[ck cn]|]; cbn [tcons_letters app]; fall|apply tnl_alpha].
  - apply Forall_app; split; [destruct c as [[ck cn]|]; cbn [tcons_letters app]; fall|apply tnl_alpha].
  - apply Forall_app; split; [destruct c as [[ck cn]|]; cbn [tcons_letters app]; fall|].
    apply Forall_app; split; [apply tnl_alpha|].
    apply Forall_app; split; [destruct (tf_schema r); cbn [app]; fall|].
    apply Forall_app; split; [apply tnl_alpha|].
    apply Forall_app; split; apply ton_alpha; tauto.
Qed.

(* ---------- THE theorem: columns followed by any number of table-level clauses -------------------------------------------------------------- *)
Definition cols_letters (t : table) : list letter := Table.col_letters (t_first t) ++ flat_map (fun c => CMl :: Table.col_letters c) (t_rest t).
Definition cols_lexemes (t : table) : list lexeme := col_lexemes (t_first t) ++ flat_map (fun c => CMx :: col_lexemes c) (t_rest t).

Lemma act_expr_rp norm d : closes_ok d = true -> action norm "expr -> expr RP" [PDict d; PStr ")"] = Ok (PDict d).
Proof.
  unfold closes_ok. intro H. apply negb_true_iff in H.
  assert (E : action norm "expr -> expr RP" [PDict d; PStr ")"] = act_expr_table "expr -> expr RP" [PDict d; PStr ")"]) by reflexivity.
  rewrite E. unfold act_expr_table. cbn [String.eqb Ascii.eqb Bool.eqb]. rewrite H. reflexivity.
Qed.

Theorem table_c_parse : forall tc norm silent i r, tc_items tc = i :: r -> wf_c norm tc = true ->
  exists d, denote_c norm tc = Ok d /\ parse_lexemes norm silent (lexemes_c tc) = Ok (Some (PDict d)).
Proof.
  intros [t items] norm silent i r Hit Hwf. cbn [tc_items] in Hit. subst items.
  unfold wf_c in Hwf. cbn [tc_table tc_items] in Hwf. split_wf Hwf.
  destruct (denote_c norm (mkTableC t (i :: r))) as [dfin| | |] eqn:Hd; try discriminate.
  exists dfin. split; [reflexivity|].
  unfold denote_c in Hd. cbn [tc_table tc_items] in Hd. rewrite fold_items_spec in Hd. cbn [bind] in Hd.
  assert (Hcols : wf_col norm (t_first t) = true /\ forallb (wf_col norm) (t_rest t) = true).
  { unfold wf in Hwf. apply andb_true_iff in Hwf. destruct Hwf as [Hwf H2]. apply andb_true_iff in Hwf. tauto. }
  destruct Hcols as [Hc1 Hc2].
  assert (St : Steps norm T0 [] (top_letters t ++ (cols_letters t ++ [CMl]) ++ (titem_letters i ++ flat_map (fun j => CMl :: titem_letters j) r ++ [RPl]))
                     (top_lexemes t ++ (cols_lexemes t ++ [CMx]) ++ (titem_lexemes i ++ flat_map (fun j => CMx :: titem_lexemes j) r ++ [RPx]))
                     END [PStr ")"; PDict dfin]).
  { eapply Steps_app; [apply top_steps; exact Hwf|].
    eapply Steps_app.
    - unfold cols_letters, cols_lexemes. rewrite <- !app_assoc.
      exact (columns_steps_comma norm (t_rest t) (t_first t) First _ _ [] Hc1 Hc2).
    - apply items_steps; [exact Hw0|exact Hd]. }
  assert (El : letters_c (mkTableC t (i :: r)) = top_letters t ++ (cols_letters t ++ [CMl]) ++ (titem_letters i ++ flat_map (fun j => CMl :: titem_letters j) r ++ [RPl])).
  { unfold letters_c, top_letters, cols_letters. cbn [tc_table tc_items flat_map]. repeat (rewrite <- !app_assoc; cbn [app]). reflexivity. }
  assert (Ex : lexemes_c (mkTableC t (i :: r)) = top_lexemes t ++ (cols_lexemes t ++ [CMx]) ++ (titem_lexemes i ++ flat_map (fun j => CMx :: titem_lexemes j) r ++ [RPx])).
  { unfold lexemes_c, top_lexemes, cols_lexemes. cbn [tc_table tc_items flat_map]. repeat (rewrite <- !app_assoc; cbn [app]). reflexivity. }
  destruct St as [fos [Hf [Hl He]]]. rewrite <- El in Hf. rewrite <- Ex in Hl, He.
  unfold parse_lexemes.
  rewrite (pipeline_spec real_tables term_id real_pname Table.q Table.q_eqb Table.q_eqb_eq Table.fstep Table.ffinish Table.alphabet
                         R R_closed T0 R_init (lexemes_c (mkTableC t (i :: r))) (letters_c (mkTableC t (i :: r))))
    with (fos := fos) (q' := END) (pfin := ["expr -> expr RP"%string]).
  - rewrite (eval_app _ _ _ _ _ He). cbn [map app eval]. arities. cbn [firstn skipn rev app].
    rewrite (act_expr_rp norm dfin Hw). reflexivity.
  - rewrite El, Ex. unfold wf in Hwf. split_wf Hwf.
    apply Forall2_app.
    { unfold top_lexemes, top_letters. destruct (t_schema t); cbn [app]; fmt. }
    apply Forall2_app.
    { apply Forall2_app; [|fmt]. unfold cols_lexemes, cols_letters. apply Forall2_app; [apply (col_matches norm); assumption|].
      clear - Hc2. induction (t_rest t) as [|c2 rr IH]; cbn [flat_map]; [constructor|].
      cbn [forallb] in Hc2. apply andb_true_iff in Hc2. destruct Hc2 as [Hx Hy].
      constructor; [fmt|]. apply Forall2_app; [apply (col_matches norm); exact Hx|apply IH; exact Hy]. }
    cbn [forallb] in Hw0. apply andb_true_iff in Hw0. destruct Hw0 as [Hi Hr].
    apply Forall2_app; [apply (titem_match norm); exact Hi|]. apply Forall2_app; [|fmt].
    clear - Hr. induction r as [|j rr IH]; cbn [flat_map]; [constructor|].
    cbn [forallb] in Hr. apply andb_true_iff in Hr. destruct Hr as [Hx Hy].
    constructor; [fmt|]. apply Forall2_app; [apply (titem_match norm); exact Hx|apply IH; exact Hy].
  - rewrite El. pose proof (letters_in_alphabet norm t Hwf) as Hal. rewrite table_split_letters in Hal.
    apply Forall_app in Hal. destruct Hal as [Ha1 Ha2]. apply Forall_app in Ha2. destruct Ha2 as [Ha2 Ha3].
    unfold rest_letters in Ha3. apply Forall_app in Ha3. destruct Ha3 as [Ha3 _].
    apply Forall_app; split; [exact Ha1|]. apply Forall_app; split.
    { apply Forall_app; split; [|fall]. unfold cols_letters. apply Forall_app; split; assumption. }
    apply Forall_app; split; [apply titem_alpha|]. apply Forall_app; split; [|fall].
    clear. induction r as [|j rr IH]; cbn [flat_map]; [constructor|]. constructor; [inal|]. apply Forall_app; split; [apply titem_alpha|exact IH].
  - exact Hf.
  - reflexivity.
Qed.
