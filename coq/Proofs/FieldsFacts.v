(* Closed computations over the generated field metadata (Gen/Fields.v) of every output mode. *)
From Coq Require Import String Ascii List ZArith NArith Bool.
From SDP Require Import Base PyStr Actions Output OutputProofs.
From SDP.Gen Require Fields Tokens.
Import ListNotations.
Open Scope string_scope.

Definition all_modes : list string := map fst Fields.mode_fields.

(* a field that is output whatever the statement contained, under its own name *)
Definition always_shown (mode : string) (f : field) : bool :=
  negb (f_exclude_always f) && negb (f_exclude_if_not_provided f) && negb (f_exclude_if_empty f)
  && (negb (f_has_modes f) || mem mode (f_output_modes f))
  && String.eqb (f_alias f) "".

(* the documented table keys that must always be present *)
Definition always_keys : list string :=
  ["table_name"; "primary_key"; "columns"; "alter"; "checks"; "index"; "partitioned_by"; "tablespace"].
Definition schema_key (mode : string) : string := if String.eqb mode "bigquery" then "dataset" else "schema".

Definition known_hooks (hooks : list (string * string)) : bool :=
  mem (hook hooks "to_dict") ["BaseData.to_dict"; "BigQuery.to_dict"]
  && mem (hook hooks "post_process") ["Dialect.post_process"; "BaseData.post_process"; "Oracle.post_process"; "Redshift.post_process"]
  && mem (hook hooks "post_init") ["BaseData.__post_init__"; "CommonDialectsFieldsMixin.__post_init__"]
  && mem (hook hooks "prepare_ref_statement") ["BaseData.prepare_ref_statement"; "BigQuery.prepare_ref_statement"].

Definition c_hooks (m : string * (list (string * string) * list field)) : bool := known_hooks (fst (snd m)).
Definition c_keys (m : string * (list (string * string) * list field)) : bool :=
  forallb (fun k => match find_field (snd (snd m)) k with Some f => always_shown (fst m) f | None => false end)
          (schema_key (fst m) :: always_keys).
(* BigQuery.to_dict is used by exactly the bigquery mode *)
Definition c_bq (m : string * (list (string * string) * list field)) : bool :=
  Bool.eqb (String.eqb (hook (fst (snd m)) "to_dict") "BigQuery.to_dict") (String.eqb (fst m) "bigquery").
(* no alias collides with a field name; field names are unique *)
Definition c_alias (m : string * (list (string * string) * list field)) : bool :=
  let fs := snd (snd m) in
  forallb (fun f => String.eqb (f_alias f) "" || negb (existsb (fun g => String.eqb (f_name g) (f_alias f)) fs)) fs
  && (List.length (nodup string_dec (map f_name fs)) =? List.length fs)%nat.

Definition mode_ok (m : string * (list (string * string) * list field)) : bool :=
  c_hooks m && c_keys m && c_bq m && c_alias m.

Lemma all_modes_ok : forallb mode_ok Fields.mode_fields = true.
Proof. vm_compute. reflexivity. Qed.

(* the modes the library documents (dialect_by_name) are exactly those with field metadata *)
Lemma modes_are_dialect_by_name : all_modes = Tokens.modes.
Proof. vm_compute. reflexivity. Qed.

(* dialect-specific fields: (field, the modes that show it at top level), read off Gen; frozen as documented *)
Definition dialect_fields_of (m : string * (list (string * string) * list field)) : list (string * list string) :=
  flat_map (fun f => if f_has_modes f then [(f_name f, f_output_modes f)] else []) (snd (snd m)).

Lemma mode_ok_of mode hooks fs : mode_info mode = Some (hooks, fs) -> mode_ok (mode, (hooks, fs)) = true.
Proof.
  unfold mode_info. intro H. pose proof all_modes_ok as A. rewrite forallb_forall in A. apply A.
  clear A. induction Fields.mode_fields as [|[m x] r IH]; simpl in *; [discriminate|].
  destruct (String.eqb mode m) eqn:E.
  - apply String.eqb_eq in E. inversion H; subst. left. reflexivity.
  - right. apply IH. exact H.
Qed.

From SDP Require Import Documented.
Lemma metadata_is_documented :
  map (fun m => (fst m, dialect_fields_of m)) Fields.mode_fields = documented.
Proof. vm_compute. reflexivity. Qed.

Lemma mode_ok_parts mode hooks fs : mode_info mode = Some (hooks, fs) ->
  c_hooks (mode, (hooks, fs)) = true /\ c_keys (mode, (hooks, fs)) = true /\
  c_bq (mode, (hooks, fs)) = true /\ c_alias (mode, (hooks, fs)) = true.
Proof.
  intro H. pose proof (mode_ok_of _ _ _ H) as M. unfold mode_ok in M.
  apply andb_true_iff in M. destruct M as [M M4]. apply andb_true_iff in M. destruct M as [M M3].
  apply andb_true_iff in M. destruct M as [M1 M2]. auto.
Qed.

(* in EVERY mode the documented table keys come out of to_dict whatever the statement contained *)
Theorem table_keys_always_present : forall mode hooks fs obj out k v,
  mode_info mode = Some (hooks, fs) -> to_dict mode obj = Ok out ->
  In k (schema_key mode :: always_keys) -> In (k, v) obj ->
  get_or_none obj "output_mode" = PStr mode -> In (k, v) out.
Proof.
  intros mode hooks fs obj out k v Hm Ht Hk Hin Hom.
  destruct (mode_ok_parts mode hooks fs Hm) as [_ [Hkeys [Hbq _]]].
  unfold c_keys in Hkeys. cbn [fst snd] in Hkeys. rewrite forallb_forall in Hkeys. specialize (Hkeys k Hk).
  destruct (find_field fs k) as [f|] eqn:Ef; [|discriminate].
  unfold always_shown in Hkeys.
  apply andb_true_iff in Hkeys. destruct Hkeys as [Hkeys Hal].
  apply andb_true_iff in Hkeys. destruct Hkeys as [Hkeys Hmo].
  apply andb_true_iff in Hkeys. destruct Hkeys as [Hkeys He].
  apply andb_true_iff in Hkeys. destruct Hkeys as [Ha Hn].
  apply negb_true_iff in Ha. apply negb_true_iff in Hn. apply negb_true_iff in He.
  apply (proj2 (to_dict_spec mode hooks fs obj out Hm Ht k v)). exists k. split; [exact Hin|]. split; [|split].
  - unfold filter_out. rewrite Ef, Hom, Ha, Hn, He. simpl.
    apply orb_true_iff in Hmo. destruct Hmo as [X|X].
    + apply negb_true_iff in X. rewrite X. reflexivity.
    + rewrite X. simpl. rewrite andb_false_r. reflexivity.
  - unfold out_key. rewrite Ef, Hal. reflexivity.
  - intros [Hb Hs]. subst k. unfold c_bq in Hbq. cbn [fst snd] in Hbq. rewrite Hb in Hbq. rewrite String.eqb_refl in Hbq.
    apply Bool.eqb_prop in Hbq. symmetry in Hbq. apply String.eqb_eq in Hbq. subst mode.
    (* in bigquery mode "schema" is not among the always-present keys *)
    unfold schema_key, always_keys in Hk. simpl in Hk.
    repeat (destruct Hk as [Hk|Hk]; [discriminate|]). contradiction.
Qed.
