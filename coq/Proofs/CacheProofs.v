From Coq Require Import String List ZArith NArith PArith Bool FMapPositive.
From SDP Require Import Base PyStr LR RealTables Cache.
From SDP.Gen Require Import Grammar Tables Parsetab.
Import ListNotations.

Lemma inner_equal_find (r r' : PM.t Z) k :
  PM.equal Z.eqb r r' = true -> PM.find k r = PM.find k r'.
Proof.
  intro H. apply PM.equal_2 in H. destruct H as [Hin Hcmp].
  destruct (PM.find k r) as [e|] eqn:E1; destruct (PM.find k r') as [e'|] eqn:E2; try reflexivity.
  - apply PM.find_2 in E1. apply PM.find_2 in E2.
    specialize (Hcmp k e e' E1 E2). apply Z.eqb_eq in Hcmp. congruence.
  - exfalso. assert (PM.In k r) as HI by (exists e; apply PM.find_2; exact E1).
    apply Hin in HI. destruct HI as [x Hx]. apply PM.find_1 in Hx. congruence.
  - exfalso. assert (PM.In k r') as HI by (exists e'; apply PM.find_2; exact E2).
    apply Hin in HI. destruct HI as [x Hx]. apply PM.find_1 in Hx. congruence.
Qed.

Lemma map2_equal_lookup m m' : map2_equal m m' = true -> forall s t, lookup m s t = lookup m' s t.
Proof.
  unfold map2_equal, lookup. intros H s t. apply PM.equal_2 in H. destruct H as [Hin Hcmp].
  destruct (PM.find (N.succ_pos s) m) as [r|] eqn:E1; destruct (PM.find (N.succ_pos s) m') as [r'|] eqn:E2.
  - apply inner_equal_find. apply (Hcmp (N.succ_pos s)); apply PM.find_2; assumption.
  - exfalso. assert (PM.In (N.succ_pos s) m) as HI by (exists r; apply PM.find_2; exact E1).
    apply Hin in HI. destruct HI as [x Hx]. apply PM.find_1 in Hx. congruence.
  - exfalso. assert (PM.In (N.succ_pos s) m') as HI by (exists r'; apply PM.find_2; exact E2).
    apply Hin in HI. destruct HI as [x Hx]. apply PM.find_1 in Hx. congruence.
  - reflexivity.
Qed.

Lemma list_eqb_prod4 l1 l2 : list_eqb prod4_eqb l1 l2 = true -> l1 = l2.
Proof.
  revert l2; induction l1 as [|a r IH]; intros [|b r2] H; simpl in H; try discriminate; [reflexivity|].
  apply andb_true_iff in H. destruct H as [H1 H2]. f_equal; [|apply IH; exact H2].
  destruct a as [[[s1 n1] l1] f1]. destruct b as [[[s2 n2] l2] f2]. simpl in H1.
  repeat (apply andb_true_iff in H1; destruct H1 as [H1 ?]).
  apply String.eqb_eq in H1. apply String.eqb_eq in H. apply N.eqb_eq in H0. apply String.eqb_eq in H3.
  congruence.
Qed.

Lemma in_use_generic (used : bool) (pa pg : option (PM.t (PM.t Z))) pp (fa fg : PM.t (PM.t Z)) fp :
  content_ok_of used pa pg pp fa fg fp = true ->
  (forall s t, lookup (in_use used pa fa) s t = lookup fa s t) /\
  (forall s n, lookup (in_use used pg fg) s n = lookup fg s n) /\
  in_use used (Some pp) fp = fp.
Proof.
  unfold in_use, content_ok_of. intro H. destruct used; [|repeat split; reflexivity].
  destruct pa as [a|]; [|discriminate]. destruct pg as [g|]; [|discriminate].
  apply andb_true_iff in H. destruct H as [H Hp]. apply andb_true_iff in H. destruct H as [Ha Hg].
  repeat split.
  - intros s t. apply map2_equal_lookup; exact Ha.
  - intros s n. apply map2_equal_lookup; exact Hg.
  - apply list_eqb_prod4; exact Hp.
Qed.

(* THE closed computation over ~30 000 generated entries *)
Lemma cache_ok_true :
  content_ok_of cache_used pt_action pt_goto Parsetab.pt_productions action_map goto_map Parsetab.fresh_productions = true.
Proof. Time vm_compute. Time reflexivity. Time Qed.

(* with the file of the current tree *)
Theorem cached_tables_are_fresh :
  (forall s t, lookup (in_use cache_used pt_action action_map) s t = lookup action_map s t) /\
  (forall s n, lookup (in_use cache_used pt_goto goto_map) s n = lookup goto_map s n) /\
  in_use cache_used (Some Parsetab.pt_productions) Parsetab.fresh_productions = Parsetab.fresh_productions.
Proof. Time exact (in_use_generic _ _ _ _ _ _ _ cache_ok_true). Time Qed.

(* in every other cache state the tables are the fresh ones by construction *)
Theorem regenerated_tables_are_fresh : forall A (cached : option A) (fresh : A), in_use false cached fresh = fresh.
Proof. reflexivity. Qed.
