(* The decimal rendering of ANY integer is a plain word for the lexer and a number for int(): is_num (string_of_Z z). *)
From Coq Require Import String Ascii List ZArith NArith Bool Lia.
From SDP Require Import Base PyStr Lexer Actions Engine Seq IntProofs IdProofs.
From SDP.Gen Require Tokens.
Import ListNotations.
Open Scope string_scope.

(* strings made of digits and '-' *)
Definition numc (c : ascii) : bool := is_digit_c c || Ascii.eqb c "-"%char.

Lemma upper_numc c : numc c = true -> upper_c c = c.
Proof. destruct c as [[] [] [] [] [] [] [] []]; simpl; intro H; try discriminate; reflexivity. Qed.
Lemma upper_num s : sforall numc s = true -> upper s = s.
Proof.
  unfold upper. induction s as [|c r IH]; simpl; intro H; [reflexivity|].
  apply andb_true_iff in H. destruct H as [Hc Hr]. rewrite (upper_numc c Hc), (IH Hr). reflexivity.
Qed.

(* a key holding a character that is neither a digit nor '-' differs from every such string *)
Lemma eqb_num_key s k : sforall numc s = true -> sforall numc k = false -> String.eqb s k = false.
Proof. intros Hs Hk. destruct (String.eqb s k) eqn:E; [|reflexivity]. apply String.eqb_eq in E. subst. congruence. Qed.
Lemma assoc_num_none {A} (tbl : list (string * A)) s :
  forallb (fun kv => negb (sforall numc (fst kv))) tbl = true -> sforall numc s = true -> assoc s tbl = None.
Proof.
  induction tbl as [|[k v] r IH]; simpl; intros H Hs; [reflexivity|].
  apply andb_true_iff in H. destruct H as [H1 H2]. apply negb_true_iff in H1.
  rewrite (eqb_num_key s k Hs H1). apply IH; assumption.
Qed.

Definition keys_ok {A} (tbl : list (string * A)) : bool := forallb (fun kv => negb (sforall numc (fst kv))) tbl.
Lemma all_tables_ok :
  keys_ok Tokens.symbol_tokens && keys_ok Tokens.first_liners && keys_ok Tokens.definition_statements
  && keys_ok Tokens.common_statements && keys_ok Tokens.columns_definition && keys_ok Tokens.after_columns_tokens
  && keys_ok Tokens.sequence_reserved && keys_ok Tokens.alter_tokens = true.
Proof. vm_compute. reflexivity. Qed.

Lemma contains_num_false s c r : sforall numc s = true -> numc c = false -> contains s (String c r) = false.
Proof.
  intros Hs Hc. induction s as [|d t IH]; simpl in *; [reflexivity|].
  apply andb_true_iff in Hs. destruct Hs as [Hd Ht].
  destruct (ascii_dec c d) as [e|_]; [congruence|]. apply IH; exact Ht.
Qed.
Lemma count_char_num s c : sforall numc s = true -> numc c = false -> count_char c s = 0%nat.
Proof.
  intros Hs Hc. induction s as [|d t IH]; simpl in *; [reflexivity|].
  apply andb_true_iff in Hs. destruct Hs as [Hd Ht].
  destruct (Ascii.eqb_spec c d) as [->|_]; [congruence|]. rewrite IH by exact Ht. reflexivity.
Qed.

Lemma tag_num_false s : sforall numc s = true ->
  existsb (fun kv => contains s (fst kv)) Tokens.symbol_tokens_no_check = false.
Proof.
  intro Hs.
  assert (H : forallb (fun kv => match fst kv with String c _ => negb (numc c) | EmptyString => false end) Tokens.symbol_tokens_no_check = true)
    by (vm_compute; reflexivity).
  induction Tokens.symbol_tokens_no_check as [|[k v] r IH]; simpl in *; [reflexivity|].
  apply andb_true_iff in H. destruct H as [H1 H2]. destruct k as [|c t]; [discriminate|].
  apply negb_true_iff in H1. rewrite (contains_num_false s c t Hs H1). apply IH. exact H2.
Qed.

Lemma numc_not_A c : numc c = true -> (if ascii_dec "A"%char c then true else false) = false.
Proof. destruct c as [[] [] [] [] [] [] [] []]; simpl; intro H; try discriminate; reflexivity. Qed.
Lemma num_not_array s : sforall numc s = true -> startswith s "ARRAY" = false.
Proof.
  intro Hs. unfold startswith. destruct s as [|c r]; [reflexivity|]. simpl in Hs. apply andb_true_iff in Hs. destruct Hs as [Hc _].
  cbn [String.prefix]. pose proof (numc_not_A c Hc) as H. destruct (ascii_dec "A"%char c); [discriminate|reflexivity].
Qed.

Theorem info_of_num : forall s, s <> "" -> sforall numc s = true -> info_of s = generic_info.
Proof.
  intros s Hne Hs. unfold info_of. rewrite (upper_num s Hs).
  pose proof all_tables_ok as T. repeat (apply andb_true_iff in T; destruct T as [T ?]).
  unfold keys_ok in *.
  rewrite !(assoc_num_none _ s) by assumption.
  assert (Hm : mem s ["("; ")"; ","] = false).
  { (unfold mem; simpl; rewrite !(eqb_num_key s) by (auto; reflexivity); reflexivity). }
  rewrite Hm, (tag_num_false s Hs), (count_char_num s "<"%char Hs eq_refl), (count_char_num s ">"%char Hs eq_refl).
  assert (Hif : String.eqb s "IF" = false) by (apply eqb_num_key; [exact Hs|reflexivity]).
  assert (Hts : String.eqb s "TABLESPACE" = false) by (apply eqb_num_key; [exact Hs|reflexivity]).
  rewrite Hif, Hts.
  pose proof (num_not_array s Hs) as Ha.
  rewrite Ha. reflexivity.
Qed.

Lemma digits_are_numc s : sforall is_digit_c s = true -> sforall numc s = true.
Proof.
  induction s as [|c r IH]; simpl; intro H; [reflexivity|]. apply andb_true_iff in H. destruct H as [Hc Hr].
  unfold numc at 1. rewrite Hc. simpl. apply IH. exact Hr.
Qed.

Lemma string_of_Z_numc z : string_of_Z z <> "" /\ sforall numc (string_of_Z z) = true /\ first_is_delim (string_of_Z z) = false
                           /\ strip_trailing_comma (string_of_Z z) = string_of_Z z.
Proof.
  assert (G : forall s, s <> "" -> sforall numc s = true -> first_is_delim s = false /\ strip_trailing_comma s = s).
  { intros s Hne Hs. split.
    - destruct s as [|c r]; [congruence|]. simpl in *. apply andb_true_iff in Hs. destruct Hs as [Hc _].
      destruct c as [[] [] [] [] [] [] [] []]; simpl in *; try discriminate; reflexivity.
    - unfold strip_trailing_comma. destruct ((1 <? String.length s)%nat); [|reflexivity].
      destruct (endswith s ",") eqn:E; [|reflexivity]. exfalso.
      unfold endswith in E. apply andb_true_iff in E. destruct E as [_ E]. apply String.eqb_eq in E.
      assert (Hin : forall t n, sforall numc t = true -> sforall numc (drop n t) = true).
      { induction t as [|c r IH]; intros [|n] H; simpl in *; auto. apply andb_true_iff in H. apply IH. tauto. }
      specialize (Hin s (String.length s - String.length ",")%nat Hs). rewrite E in Hin. discriminate. }
  destruct z as [|p|p].
  - repeat split; try reflexivity; discriminate.
  - destruct (string_of_N_spec (Npos p) ltac:(lia)) as [Hne [Hd _]]. simpl.
    pose proof (digits_are_numc _ Hd) as Hn. destruct (G _ Hne Hn). auto.
  - destruct (string_of_N_spec (Npos p) ltac:(lia)) as [Hne [Hd _]]. simpl.
    assert (Hn : sforall numc (String "-"%char (string_of_N (N.pos p))) = true) by (simpl; apply digits_are_numc; exact Hd).
    destruct (G (String "-"%char (string_of_N (N.pos p))) ltac:(discriminate) Hn). repeat split; auto; discriminate.
Qed.

(* EVERY integer, written in decimal, satisfies the side condition of the sequence (and default) theorems *)
Theorem is_num_string_of_Z : forall z, is_num (string_of_Z z) = true.
Proof.
  intro z. destruct (string_of_Z_numc z) as [Hne [Hn [Hf Hs]]].
  unfold is_num, is_plain. rewrite (info_of_num _ Hne Hn), Hs, String.eqb_refl.
  rewrite int_of_string_of_Z. rewrite (normalize_plain _ Hf), String.eqb_refl.
  assert (E : info_eqb generic_info generic_info = true) by (vm_compute; reflexivity).
  rewrite E. reflexivity.
Qed.
