(* C18: CREATE TYPE ... AS OBJECT (attribute list) against the real keyword tables, flag logic and LALR tables. *)
From Coq Require Import String Ascii List ZArith NArith PArith Bool Lia.
From SDP Require Import Base PyStr LR Lexer Actions Parse RealTables Engine Seq SeqProofs KeywordProofs Entity.
From SDP Require Table TableProofs.
From SDP Require Import TypeObj.
Import ListNotations.
Open Scope list_scope.

Definition RO : list (TypeObj.q * conf) :=
  explore real_tables term_id TypeObj.q TypeObj.q_eqb TypeObj.fstep TypeObj.alphabet 4000 [(TypeObj.Q0, (flags0, [0%N]))] [].
Lemma RO_closed : closed real_tables term_id real_pname TypeObj.q TypeObj.q_eqb TypeObj.fstep TypeObj.ffinish TypeObj.alphabet RO = true.
Proof. vm_compute. reflexivity. Qed.
Lemma RO_init : In (TypeObj.Q0, (flags0, [0%N])) RO.
Proof. apply (in_R_In TypeObj.q TypeObj.q_eqb TypeObj.q_eqb_eq). vm_compute. reflexivity. Qed.

Notation OFrun := (frun TypeObj.q TypeObj.fstep).
Lemma ofrun_app : forall l1 l2 s fos1 s1, OFrun s l1 = Some (fos1, s1) ->
  OFrun s (l1 ++ l2) = match OFrun s1 l2 with Some (fos2, s2) => Some (fos1 ++ fos2, s2) | None => None end.
Proof.
  induction l1 as [|l r IH]; intros l2 s fos1 s1 H; simpl in *.
  - inversion H; subst. destruct (OFrun s1 l2) as [[? ?]|]; reflexivity.
  - destruct (TypeObj.fstep s l) as [[o s']|]; [|discriminate].
    destruct (OFrun s' r) as [[os s'']|] eqn:E; [|discriminate]. inversion H; subst.
    rewrite (IH l2 s' os s1 E). destruct (OFrun s1 l2) as [[? ?]|]; reflexivity.
Qed.

Section OSteps.
  Variable norm : bool.
  Definition OSteps (s : TypeObj.q) (vs : list pyval) (ls : list letter) (lxs : list lexeme) (s' : TypeObj.q) (vs' : list pyval) : Prop :=
    exists fos, OFrun s ls = Some (fos, s') /\ List.length fos = List.length lxs /\ exec norm (ntrace fos lxs) vs = Ok vs'.
  Lemma OSteps_app s vs l1 x1 s1 vs1 l2 x2 s2 vs2 :
    OSteps s vs l1 x1 s1 vs1 -> OSteps s1 vs1 l2 x2 s2 vs2 -> OSteps s vs (l1 ++ l2) (x1 ++ x2) s2 vs2.
  Proof.
    intros [f1 [Hf1 [Hl1 He1]]] [f2 [Hf2 [Hl2 He2]]]. exists (f1 ++ f2). split; [|split].
    - rewrite (ofrun_app _ _ _ _ _ Hf1), Hf2. reflexivity.
    - rewrite !app_length. congruence.
    - rewrite ntrace_app by exact Hl1. rewrite (exec_app _ _ _ _ _ He1). exact He2.
  Qed.
End OSteps.

Local Arguments int_of_string : simpl never.
Local Arguments normalize_id : simpl never.
Local Arguments isnumeric : simpl never.
Local Arguments plain_type_word : simpl never.
Local Arguments colname_bad : simpl never.
Local Arguments nms : simpl never.
Local Arguments upper : simpl never.

Import TableProofs.
Notation CMx := Table.CMx. Notation RPx := Table.RPx. Notation LPx := Table.LPx.
Notation CMl := Table.CMl. Notation RPl := Table.RPl. Notation LPl := Table.LPl. Notation nmv := Table.nmv. Notation onm := Table.onm.

(* ---------- single actions ---------------------------------------------------------------------------------------------------------------- *)
Lemma act_tn0 norm n : String.eqb n "." = false ->
  action norm "type_name -> type_create id AS" [PNone; PStr n; PStr "AS"] = Ok (PDict [("schema", PNone); ("type_name", PStr n)])%string.
Proof. intro H. unfold action, action_more; simpl. unfold act_type_name. simpl. rewrite H. reflexivity. Qed.
Lemma act_tn1 norm s n :
  action norm "type_name -> type_create id DOT id AS" [PNone; PStr s; PStr "."; PStr n; PStr "AS"]
  = Ok (PDict [("schema", PStr s); ("type_name", PStr n)])%string.
Proof. unfold action, action_more; simpl. unfold act_type_name. simpl. rewrite !orb_true_r. reflexivity. Qed.
Lemma act_tc norm : action norm "type_create -> CREATE TYPE" [PStr "CREATE"; PStr "TYPE"] = Ok PNone.
Proof. reflexivity. Qed.
Lemma act_mcn1 norm c : action norm "multiple_column_names -> column" [PDict c] = Ok (PList [PDict c]).
Proof. reflexivity. Qed.
Lemma act_mcnc norm l : action norm "multiple_column_names -> multiple_column_names COMMA" [PList l; PStr ","] = Ok (PList l).
Proof. reflexivity. Qed.
Lemma act_mcnn norm l c : action norm "multiple_column_names -> multiple_column_names column" [PList l; PDict c] = Ok (PList (l ++ [PDict c])).
Proof. reflexivity. Qed.

Ltac stepO Hdot :=
  first [ rewrite exec_shift
        | rewrite exec_reduce; arities; cbn [firstn skipn rev app];
          match goal with |- context [action _ ?p _] =>
            lazymatch p with
            | "id -> ID"%string => rewrite act_id'
            | "type_create -> CREATE TYPE"%string => rewrite act_tc
            | "type_name -> type_create id AS"%string => rewrite (act_tn0 _ _ Hdot)
            | "type_name -> type_create id DOT id AS"%string => rewrite act_tn1
            | "c_type -> id"%string => rewrite act_ctype1 by assumption
            | "column -> id c_type"%string => rewrite act_col by assumption
            | "column -> column LP id RP"%string => erewrite act_col_sz1 by eassumption
            | "column -> column LP id COMMA id RP"%string => erewrite act_col_sz2 by eassumption
            | "multiple_column_names -> column"%string => rewrite act_mcn1
            | "multiple_column_names -> multiple_column_names COMMA"%string => rewrite act_mcnc
            | "multiple_column_names -> multiple_column_names column"%string => rewrite act_mcnn
            end end;
          cbn [bind] ].

(* ---------- one attribute ---------------------------------------------------------------------------------------------------------------- *)
Definition end_state (f : bool) (a : attr) : TypeObj.q :=
  match at_size a with None => AE f | Some (_, None) => S2 f | Some (_, Some _) => S5 f end.
Definition pend (s : TypeObj.q) : list string :=
  match s with
  | AE f => col_reds ++ [mcn_red f]
  | S2 f => ["column -> column LP id RP"; mcn_red f]%string
  | S5 f => ["column -> column LP id COMMA id RP"; mcn_red f]%string
  | _ => []
  end.
Definition is_end (s : TypeObj.q) : Prop := exists f, s = AE f \/ s = S2 f \/ s = S5 f.

Ltac split_wf H :=
  repeat match type of H with
         | (_ && _) = true => let H2 := fresh "Hw" in apply andb_true_iff in H; destruct H as [H H2]
         end.
Ltac attr_facts norm Hwf :=
  unfold wf_attr, Table.is_type_word in Hwf; split_wf Hwf;
  repeat match goal with X : negb _ = true |- _ => apply negb_true_iff in X end;
  repeat match goal with X : (_ && _) = true |- _ => let Y := fresh "Hy" in apply andb_true_iff in X; destruct X as [X Y] end;
  repeat match goal with X : Table.is_digits _ = true |- _ =>
           let E := fresh "En" in let N := fresh "Nu" in let z := fresh "z" in let Hz := fresh "Hz" in
           pose proof (is_digits_spec norm _ X) as [E [N [z Hz]]]; clear X end.

(* the first attribute, read after "(" *)
Lemma attr_first norm a base : wf_attr norm a = true ->
  exists vs, OSteps norm (AN true) base (attr_letters a) (attr_lexemes a) (end_state true a) vs /\
             exec norm (map NReduce (pend (end_state true a))) vs = Ok (PList [attr_value norm a] :: base).
Proof.
  intro Hwf. destruct a as [n t [[p [s|]]|]]; unfold wf_attr in Hwf; cbn [at_name at_type at_size] in Hwf; attr_facts norm Hwf;
    unfold attr_letters, attr_lexemes, end_state, attr_value, attr_size, Table.size_val;
    cbn [at_name at_type at_size size_letters size_lexemes app];
    (eexists; split;
     [ unfold OSteps; eexists; split; [vm_compute; reflexivity|]; split; [reflexivity|];
       cbn [ntrace map app snd W Table.LPx Table.RPx Table.CMx apply_vtag]; rewrite ?upper_comma, ?upper_rp;
       repeat (stepO I; repeat match goal with E : nms norm ?x = ?x |- _ => rewrite E end); rewrite exec_nil; reflexivity
     | cbn [pend col_reds mcn_red map app];
       repeat (stepO I; repeat match goal with E : nms norm ?x = ?x |- _ => rewrite E end); rewrite exec_nil;
       repeat match goal with E : int_of_string _ = Some _ |- _ => rewrite E end; reflexivity ]).
Qed.

(* a later attribute, read after a comma *)
Lemma attr_later norm a base acc : wf_attr norm a = true ->
  exists vs, OSteps norm AC (PStr "," :: PList acc :: base) (attr_letters a) (attr_lexemes a) (end_state false a) vs /\
             exec norm (map NReduce (pend (end_state false a))) vs = Ok (PList (acc ++ [attr_value norm a]) :: base).
Proof.
  intro Hwf. destruct a as [n t [[p [s|]]|]]; unfold wf_attr in Hwf; cbn [at_name at_type at_size] in Hwf; attr_facts norm Hwf;
    unfold attr_letters, attr_lexemes, end_state, attr_value, attr_size, Table.size_val;
    cbn [at_name at_type at_size size_letters size_lexemes app];
    (eexists; split;
     [ unfold OSteps; eexists; split; [vm_compute; reflexivity|]; split; [reflexivity|];
       cbn [ntrace map app snd W Table.LPx Table.RPx Table.CMx apply_vtag]; rewrite ?upper_comma, ?upper_rp;
       repeat (stepO I; repeat match goal with E : nms norm ?x = ?x |- _ => rewrite E end); rewrite exec_nil; reflexivity
     | cbn [pend col_reds mcn_red map app];
       repeat (stepO I; repeat match goal with E : nms norm ?x = ?x |- _ => rewrite E end); rewrite exec_nil;
       repeat match goal with E : int_of_string _ = Some _ |- _ => rewrite E end; reflexivity ]).
Qed.

(* ---------- any number of further attributes, then the closing parenthesis ------------------------------------------------------------------ *)
Lemma f_end_rp s : is_end s -> TypeObj.fstep s RPl = Some ((pend s, "RP"%string, Upper), Done).
Proof. intros [f [->|[->| ->]]]; destruct f; vm_compute; reflexivity. Qed.
Lemma f_end_cm s : is_end s -> TypeObj.fstep s CMl = Some ((pend s, "COMMA"%string, Upper), AC).
Proof. intros [f [->|[->| ->]]]; destruct f; vm_compute; reflexivity. Qed.
Lemma end_state_is_end f a : is_end (end_state f a).
Proof. exists f. unfold end_state. destruct (at_size a) as [[p [s|]]|]; tauto. Qed.
Lemma ofrun_cons (s : TypeObj.q) l r :
  OFrun s (l :: r) =
  match TypeObj.fstep s l with
  | None => None
  | Some (o, s') => match OFrun s' r with None => None | Some (os, s'') => Some (o :: os, s'') end
  end.
Proof. reflexivity. Qed.

Lemma attrs_rest norm base : forall rest s stack acc,
  is_end s -> exec norm (map NReduce (pend s)) stack = Ok (PList acc :: base) ->
  forallb (wf_attr norm) rest = true ->
  OSteps norm s stack (comma_letters rest ++ [RPl]) (comma_attrs rest ++ [RPx]) Done
         (PStr ")" :: PList (acc ++ map (attr_value norm) rest) :: base).
Proof.
  induction rest as [|y r IH]; intros s stack acc Hs Hp Hwf.
  - cbn [comma_letters comma_attrs app map]. rewrite app_nil_r. unfold OSteps.
    eexists. split; [rewrite ofrun_cons, (f_end_rp s Hs); reflexivity|]. split; [reflexivity|].
    cbn [ntrace snd Table.RPx W apply_vtag]. rewrite upper_rp. rewrite (exec_app _ _ _ _ _ Hp). reflexivity.
  - cbn [forallb] in Hwf. apply andb_true_iff in Hwf. destruct Hwf as [Hy Hr].
    cbn [comma_letters comma_attrs map].
    change ((CMl :: attr_letters y ++ comma_letters r) ++ [RPl]) with ([CMl] ++ ((attr_letters y ++ comma_letters r) ++ [RPl])).
    change ((CMx :: attr_lexemes y ++ comma_attrs r) ++ [RPx]) with ([CMx] ++ ((attr_lexemes y ++ comma_attrs r) ++ [RPx])).
    rewrite <- !app_assoc.
    destruct (attr_later norm y base acc Hy) as [vs1 [St1 Hp1]].
    eapply OSteps_app.
    + unfold OSteps. eexists. split; [rewrite ofrun_cons, (f_end_cm s Hs); reflexivity|]. split; [reflexivity|].
      cbn [ntrace snd Table.CMx W apply_vtag map app]. rewrite upper_comma. rewrite (exec_app _ _ _ _ _ Hp). reflexivity.
    + eapply OSteps_app; [exact St1|].
      replace (acc ++ attr_value norm y :: map (attr_value norm) r) with ((acc ++ [attr_value norm y]) ++ map (attr_value norm) r)
        by (rewrite <- app_assoc; reflexivity).
      apply IH; [apply end_state_is_end|exact Hp1|exact Hr].
Qed.

(* ---------- the statement up to its opening parenthesis ------------------------------------------------------------------------------------ *)
Definition hdr_letters (o : tobj) : list letter := K "CREATE" :: K "TYPE" :: name_letters o ++ [K "AS"; G; LPl].
Definition hdr_lexemes (o : tobj) : list lexeme := W (o_create o) :: W (o_type o) :: name_lexemes o ++ [W (o_as o); W (o_base o); LPx].
Definition body_letters (o : tobj) : list letter := attr_letters (o_first o) ++ comma_letters (o_rest o) ++ [RPl].
Definition body_lexemes (o : tobj) : list lexeme := attr_lexemes (o_first o) ++ comma_attrs (o_rest o) ++ [RPx].
Lemma letters_split o : TypeObj.letters o = hdr_letters o ++ body_letters o.
Proof. unfold TypeObj.letters, hdr_letters, body_letters. simpl. rewrite <- !app_assoc. reflexivity. Qed.
Lemma lexemes_split o : TypeObj.lexemes o = hdr_lexemes o ++ body_lexemes o.
Proof. unfold TypeObj.lexemes, hdr_lexemes, body_lexemes. simpl. rewrite <- !app_assoc. reflexivity. Qed.

Definition name_dict (norm : bool) (o : tobj) : pyval := PDict [("schema", onm norm (o_schema o)); ("type_name", nmv norm (o_name o))]%string.
Ltac kw_uppers :=
  repeat match goal with X : is_kw _ _ = true |- _ =>
           let Hu := fresh "Hu" in pose proof (is_kw_spec _ _ X) as [Hu _]; revert X end; intros.
Ltac rew_uppers := repeat match goal with Hu : upper _ = _ |- _ => rewrite Hu end.

Lemma header_steps norm o : wf norm o = true ->
  OSteps norm Q0 [] (hdr_letters o) (hdr_lexemes o) (AN true) [PStr "("; nmv norm (o_base o); name_dict norm o].
Proof.
  intro Hwf. unfold wf in Hwf. split_wf Hwf.
  match goal with X : negb (String.eqb (nms norm (o_name o)) ".") = true |- _ => apply negb_true_iff in X; rename X into Hdot end. kw_uppers.
  destruct o as [c k sch n a b a1 rest]. cbn [o_create o_type o_schema o_name o_as o_base o_first o_rest] in *.
  unfold hdr_letters, hdr_lexemes, name_letters, name_lexemes, name_dict. cbn [o_create o_type o_schema o_name o_as o_base].
  destruct sch as [s|]; cbn [app];
    (unfold OSteps; eexists; split; [vm_compute; reflexivity|]; split; [reflexivity|];
     cbn [ntrace map app snd W Table.LPx DOTL apply_vtag]; rew_uppers; repeat stepO Hdot; rewrite exec_nil; reflexivity).
Qed.

(* ---------- the closing reductions ------------------------------------------------------------------------------------------------------- *)
Lemma finish_exec norm o : wf norm o = true ->
  exec norm (map NReduce ["type_definition -> type_name id LP multiple_column_names RP"; "expr -> type_definition"]%string)
       [PStr ")"; PList (map (attr_value norm) (o_attrs o)); PStr "("; nmv norm (o_base o); name_dict norm o] = Ok [TypeObj.denote norm o].
Proof.
  intro Hwf. unfold wf in Hwf. split_wf Hwf.
  repeat match goal with X : negb _ = true |- _ => apply negb_true_iff in X end.
  destruct o as [c k sch n a b a1 rest]. cbn [o_create o_type o_schema o_name o_as o_base o_first o_rest o_attrs] in *.
  unfold TypeObj.denote, props, name_dict, o_attrs. cbn [o_schema o_name o_base o_first o_rest map].
  rewrite exec_reduce. arities. cbn [firstn skipn rev app].
  assert (E : action norm "type_definition -> type_name id LP multiple_column_names RP"
                     [PDict [("schema", onm norm sch); ("type_name", nmv norm n)]; nmv norm b; PStr "(";
                      PList (attr_value norm a1 :: map (attr_value norm) rest); PStr ")"]%string
              = Ok (PDict [("schema", onm norm sch); ("type_name", nmv norm n);
                           ("properties", PDict (if String.eqb (upper (nms norm b)) "ENUM"
                                                 then [("values", PList (attr_value norm a1 :: map (attr_value norm) rest))]
                                                 else if String.eqb (upper (nms norm b)) "OBJECT"
                                                      then [("attributes", PList (attr_value norm a1 :: map (attr_value norm) rest))] else []));
                           ("base_type", nmv norm b)])%string).
  { unfold action, action_more; simpl. unfold act_type_definition_pid. unfold Table.nmv. cbn [filter].
    repeat match goal with X : String.eqb _ _ = false |- _ => rewrite X end. cbn [orb negb dict_get assoc]. simpl.
    repeat match goal with X : String.eqb _ _ = false |- _ => rewrite X end.
    destruct (String.eqb (upper (nms norm b)) "ENUM"); [reflexivity|]. destruct (String.eqb (upper (nms norm b)) "OBJECT"); reflexivity. }
  rewrite E. cbn [bind]. rewrite exec_reduce. arities. cbn [firstn skipn rev app].
  assert (E2 : forall x, action norm "expr -> type_definition" [PDict x] = Ok (PDict x)) by reflexivity.
  rewrite E2. cbn [bind]. reflexivity.
Qed.

(* ---------- matching and alphabet ----------------------------------------------------------------------------------------------------------- *)
Ltac ina := unfold TypeObj.alphabet; repeat (first [left; reflexivity | right]).
Ltac fm :=
  repeat match goal with
         | |- Forall2 _ (_ :: _) (_ :: _) => constructor
         | |- Forall2 _ [] [] => constructor
         | |- matches (W _) (K _) => apply match_kw; assumption
         | |- matches (W _) G => first [apply match_plain; assumption | apply match_plain; apply (plain_of_digits _); assumption]
         | |- matches DOTL LDot => apply match_dot
         | |- matches _ _ => apply match_sym; tauto
         end.
Lemma attr_matches norm a : wf_attr norm a = true -> Forall2 matches (attr_lexemes a) (attr_letters a).
Proof.
  intro H. unfold wf_attr, Table.is_type_word in H. split_wf H.
  repeat match goal with X : (_ && _) = true |- _ => let Y := fresh "Hy" in apply andb_true_iff in X; destruct X as [X Y] end.
  destruct a as [n t [[p [s|]]|]]; unfold attr_lexemes, attr_letters; cbn [at_name at_type at_size size_lexemes size_letters app] in *;
    repeat match goal with X : (_ && _) = true |- _ => let Y := fresh "Hy" in apply andb_true_iff in X; destruct X as [X Y] end; fm.
Qed.
Lemma attr_alpha a : Forall (fun l => In l TypeObj.alphabet) (attr_letters a).
Proof.
  destruct a as [n t [[p [s|]]|]]; unfold attr_letters; cbn [size_letters at_size app];
    repeat match goal with |- Forall _ (_ :: _) => constructor; [ina|] | |- Forall _ [] => constructor end.
Qed.
Lemma commas_match norm rest : forallb (wf_attr norm) rest = true -> Forall2 matches (comma_attrs rest ++ [RPx]) (comma_letters rest ++ [RPl]).
Proof.
  induction rest as [|y r IH]; cbn [forallb comma_attrs comma_letters app]; intro H.
  - constructor; [apply match_sym; tauto|constructor].
  - apply andb_true_iff in H. destruct H as [Hy Hr]. constructor; [apply match_sym; tauto|].
    rewrite <- !app_assoc. apply Forall2_app; [apply (attr_matches norm); exact Hy|exact (IH Hr)].
Qed.
Lemma commas_alpha rest : Forall (fun l => In l TypeObj.alphabet) (comma_letters rest ++ [RPl]).
Proof.
  induction rest as [|y r IH]; cbn [comma_letters app].
  - constructor; [ina|constructor].
  - constructor; [ina|]. rewrite <- app_assoc. apply Forall_app. split; [apply attr_alpha|exact IH].
Qed.

Lemma all_matches norm o : wf norm o = true -> Forall2 matches (TypeObj.lexemes o) (TypeObj.letters o).
Proof.
  intro Hwf. unfold wf in Hwf. split_wf Hwf.
  match goal with X : forallb (wf_attr norm) (o_attrs o) = true |- _ => unfold o_attrs in X; cbn [forallb] in X; apply andb_true_iff in X; destruct X as [Hv Hr] end.
  rewrite letters_split, lexemes_split. apply Forall2_app.
  - unfold hdr_lexemes, hdr_letters, name_lexemes, name_letters. destruct (o_schema o) as [s|]; cbn [app]; fm.
  - unfold body_lexemes, body_letters. apply Forall2_app; [apply (attr_matches norm); exact Hv|apply (commas_match norm); exact Hr].
Qed.
Lemma letters_in_alphabet o : Forall (fun l => In l TypeObj.alphabet) (TypeObj.letters o).
Proof.
  rewrite letters_split. apply Forall_app. split.
  - unfold hdr_letters, name_letters. destruct (o_schema o); cbn [app];
      repeat match goal with |- Forall _ (_ :: _) => constructor; [ina|] | |- Forall _ [] => constructor end.
  - unfold body_letters. apply Forall_app. split; [apply attr_alpha|apply commas_alpha].
Qed.

(* ---------- THE theorem for the fragment -------------------------------------------------------------------------------------------------- *)
Theorem typeobj_parse : forall o norm silent, wf norm o = true ->
  parse_lexemes norm silent (TypeObj.lexemes o) = Ok (Some (TypeObj.denote norm o)).
Proof.
  intros o norm silent Hwf.
  assert (Hs : OSteps norm Q0 [] (TypeObj.letters o) (TypeObj.lexemes o) Done
                      [PStr ")"; PList (map (attr_value norm) (o_attrs o)); PStr "("; nmv norm (o_base o); name_dict norm o]).
  { rewrite letters_split, lexemes_split. eapply OSteps_app; [apply header_steps; exact Hwf|].
    pose proof Hwf as Hwf'. unfold wf in Hwf'. split_wf Hwf'.
    match goal with X : forallb (wf_attr norm) (o_attrs o) = true |- _ => unfold o_attrs in X; cbn [forallb] in X; apply andb_true_iff in X; destruct X as [Hv Hr] end.
    destruct (attr_first norm (o_first o) [PStr "("; nmv norm (o_base o); name_dict norm o] Hv) as [vs1 [St1 Hp1]].
    unfold body_letters, body_lexemes. eapply OSteps_app; [exact St1|].
    unfold o_attrs. cbn [map]. change (attr_value norm (o_first o) :: map (attr_value norm) (o_rest o))
      with ([attr_value norm (o_first o)] ++ map (attr_value norm) (o_rest o)).
    apply attrs_rest; [apply end_state_is_end|exact Hp1|exact Hr]. }
  destruct Hs as [fos [Hf [Hl He]]].
  unfold parse_lexemes.
  rewrite (pipeline_spec real_tables term_id real_pname TypeObj.q TypeObj.q_eqb TypeObj.q_eqb_eq TypeObj.fstep TypeObj.ffinish TypeObj.alphabet
                         RO RO_closed Q0 RO_init (TypeObj.lexemes o) (TypeObj.letters o) (all_matches norm o Hwf) (letters_in_alphabet o)
                         fos Done _ Hf eq_refl norm silent).
  rewrite (eval_app _ _ _ _ _ He). rewrite (eval_app _ _ _ _ _ (finish_exec norm o Hwf)). reflexivity.
Qed.
