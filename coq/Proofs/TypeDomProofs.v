(* C18: CREATE TYPE / CREATE DOMAIN with a parenthesised value list, against the real keyword tables, flag logic and LALR tables. *)
From Coq Require Import String Ascii List ZArith NArith PArith Bool Lia.
From SDP Require Import Base PyStr LR Lexer Actions Parse RealTables Engine Seq SeqProofs KeywordProofs Entity.
From SDP Require Table TableProofs.
From SDP Require Import TypeDom.
Import ListNotations.
Open Scope list_scope.

Definition RD : list (TypeDom.q * conf) :=
  explore real_tables term_id TypeDom.q TypeDom.q_eqb TypeDom.fstep TypeDom.alphabet 4000 [(TypeDom.Q0, (flags0, [0%N]))] [].
Lemma RD_closed : closed real_tables term_id real_pname TypeDom.q TypeDom.q_eqb TypeDom.fstep TypeDom.ffinish TypeDom.alphabet RD = true.
Proof. vm_compute. reflexivity. Qed.
Lemma RD_init : In (TypeDom.Q0, (flags0, [0%N])) RD.
Proof. apply (in_R_In TypeDom.q TypeDom.q_eqb TypeDom.q_eqb_eq). vm_compute. reflexivity. Qed.

Notation DFrun := (frun TypeDom.q TypeDom.fstep).
Lemma dfrun_app : forall l1 l2 s fos1 s1, DFrun s l1 = Some (fos1, s1) ->
  DFrun s (l1 ++ l2) = match DFrun s1 l2 with Some (fos2, s2) => Some (fos1 ++ fos2, s2) | None => None end.
Proof.
  induction l1 as [|l r IH]; intros l2 s fos1 s1 H; simpl in *.
  - inversion H; subst. destruct (DFrun s1 l2) as [[? ?]|]; reflexivity.
  - destruct (TypeDom.fstep s l) as [[o s']|]; [|discriminate].
    destruct (DFrun s' r) as [[os s'']|] eqn:E; [|discriminate]. inversion H; subst.
    rewrite (IH l2 s' os s1 E). destruct (DFrun s1 l2) as [[? ?]|]; reflexivity.
Qed.
Lemma dfrun_cons (s : TypeDom.q) l r :
  DFrun s (l :: r) =
  match TypeDom.fstep s l with
  | None => None
  | Some (o, s') => match DFrun s' r with None => None | Some (os, s'') => Some (o :: os, s'') end
  end.
Proof. reflexivity. Qed.

Section DSteps.
  Variable norm : bool.
  Definition DSteps (s : TypeDom.q) (vs : list pyval) (ls : list letter) (lxs : list lexeme) (s' : TypeDom.q) (vs' : list pyval) : Prop :=
    exists fos, DFrun s ls = Some (fos, s') /\ List.length fos = List.length lxs /\ exec norm (ntrace fos lxs) vs = Ok vs'.
  Lemma DSteps_app s vs l1 x1 s1 vs1 l2 x2 s2 vs2 :
    DSteps s vs l1 x1 s1 vs1 -> DSteps s1 vs1 l2 x2 s2 vs2 -> DSteps s vs (l1 ++ l2) (x1 ++ x2) s2 vs2.
  Proof.
    intros [f1 [Hf1 [Hl1 He1]]] [f2 [Hf2 [Hl2 He2]]]. exists (f1 ++ f2). split; [|split].
    - rewrite (dfrun_app _ _ _ _ _ Hf1), Hf2. reflexivity.
    - rewrite !app_length. congruence.
    - rewrite ntrace_app by exact Hl1. rewrite (exec_app _ _ _ _ _ He1). exact He2.
  Qed.
End DSteps.

Local Arguments int_of_string : simpl never.
Local Arguments normalize_id : simpl never.
Local Arguments nms : simpl never.
Local Arguments upper : simpl never.
Local Arguments contains : simpl never.

Import TableProofs.
Notation CMx := Table.CMx. Notation RPx := Table.RPx. Notation LPx := Table.LPx. Notation SB := Table.SB.
Notation CMl := Table.CMl. Notation RPl := Table.RPl. Notation LPl := Table.LPl. Notation nmv := Table.nmv. Notation onm := Table.onm.

(* ---------- single actions ---------------------------------------------------------------------------------------------------------------- *)
Lemma act_pid_w norm s : action norm "pid -> id" [PStr s] = Ok (PList [PStr s]). Proof. reflexivity. Qed.
Lemma act_pid_s norm s : action norm "pid -> STRING" [PStr s] = Ok (PList [PStr s]). Proof. reflexivity. Qed.
Lemma act_pidn_w norm l s : action norm "pid -> pid COMMA id" [PList l; PStr ","; PStr s] = Ok (PList (l ++ [PStr s])). Proof. reflexivity. Qed.
Lemma act_pidn_s norm l s : action norm "pid -> pid COMMA STRING" [PList l; PStr ","; PStr s] = Ok (PList (l ++ [PStr s])). Proof. reflexivity. Qed.
Lemma act_str norm s : action norm "STRING -> STRING_BASE" [PStr s] = Ok (PStr s). Proof. reflexivity. Qed.

Lemma act_dn0 norm n : String.eqb n "." = false ->
  action norm "domain_name -> CREATE DOMAIN id AS" [PStr "CREATE"; PStr "DOMAIN"; PStr n; PStr "AS"] = Ok (PDict [("schema", PNone); ("domain_name", PStr n)])%string.
Proof. intro H. unfold action, action_more; simpl. unfold act_domain_name. simpl. rewrite H. reflexivity. Qed.
Lemma act_dn1 norm s n :
  action norm "domain_name -> CREATE DOMAIN id DOT id AS" [PStr "CREATE"; PStr "DOMAIN"; PStr s; PStr "."; PStr n; PStr "AS"]
  = Ok (PDict [("schema", PStr s); ("domain_name", PStr n)])%string.
Proof. unfold action, action_more; simpl. unfold act_domain_name. simpl. rewrite !orb_true_r. reflexivity. Qed.
Lemma act_tn0 norm n : String.eqb n "." = false ->
  action norm "type_name -> type_create id AS" [PNone; PStr n; PStr "AS"] = Ok (PDict [("schema", PNone); ("type_name", PStr n)])%string.
Proof. intro H. unfold action, action_more; simpl. unfold act_type_name. simpl. rewrite H. reflexivity. Qed.
Lemma act_tn1 norm s n :
  action norm "type_name -> type_create id DOT id AS" [PNone; PStr s; PStr "."; PStr n; PStr "AS"]
  = Ok (PDict [("schema", PStr s); ("type_name", PStr n)])%string.
Proof. unfold action, action_more; simpl. unfold act_type_name. simpl. rewrite !orb_true_r. reflexivity. Qed.
Lemma act_tc norm : action norm "type_create -> CREATE TYPE" [PStr "CREATE"; PStr "TYPE"] = Ok PNone.
Proof. reflexivity. Qed.

(* ---------- the reference machine on the value list ----------------------------------------------------------------------------------- *)
Definition is_word (v : val) : bool := match v with VWord _ => true | VLit _ => false end.
Definition raw (v : val) : string := match v with VWord w => w | VLit s => s end.
Lemma f_v_rp t f w : TypeDom.fstep (V t f w) RPl = Some ((val_red f w, "RP"%string, Upper), Done t).
Proof. destruct t, f, w; vm_compute; reflexivity. Qed.
Lemma f_v_cm t f w : TypeDom.fstep (V t f w) CMl = Some ((val_red f w, "COMMA"%string, Upper), CM t).
Proof. destruct t, f, w; vm_compute; reflexivity. Qed.
Lemma f_cm t v : TypeDom.fstep (CM t) (val_letter v) = Some (([], (if is_word v then "ID" else "STRING_BASE")%string, Keep), V t false (is_word v)).
Proof. destruct t, v; vm_compute; reflexivity. Qed.
Lemma snd_val_lexeme v : snd (val_lexeme v) = raw v.
Proof. destruct v; reflexivity. Qed.

Lemma val_red_next norm v acc base : wf_val v = true ->
  exec norm (map NReduce (val_red false (is_word v))) (PStr (raw v) :: PStr "," :: PList acc :: base) = Ok (PList (acc ++ [val_value norm v]) :: base).
Proof.
  intro Hw. destruct v as [w|s]; cbn [is_word val_red map raw val_value].
  - rewrite exec_reduce. arities. cbn [firstn skipn rev app]. rewrite act_id'. cbn [bind].
    rewrite exec_reduce. arities. cbn [firstn skipn rev app]. rewrite act_pidn_w. cbn [bind]. reflexivity.
  - rewrite exec_reduce. arities. cbn [firstn skipn rev app]. rewrite act_str. cbn [bind].
    rewrite exec_reduce. arities. cbn [firstn skipn rev app]. rewrite act_pidn_s. cbn [bind]. reflexivity.
Qed.
Lemma val_red_first norm v base : wf_val v = true ->
  exec norm (map NReduce (val_red true (is_word v))) (PStr (raw v) :: base) = Ok (PList [val_value norm v] :: base).
Proof.
  intro Hw. destruct v as [w|s]; cbn [is_word val_red map raw val_value].
  - rewrite exec_reduce. arities. cbn [firstn skipn rev app]. rewrite act_id'. cbn [bind].
    rewrite exec_reduce. arities. cbn [firstn skipn rev app]. rewrite act_pid_w. cbn [bind]. reflexivity.
  - rewrite exec_reduce. arities. cbn [firstn skipn rev app]. rewrite act_str. cbn [bind].
    rewrite exec_reduce. arities. cbn [firstn skipn rev app]. rewrite act_pid_s. cbn [bind]. reflexivity.
Qed.

(* any number of further values, then the closing parenthesis *)
Lemma vals_rest norm t base : forall rest f w stack acc,
  exec norm (map NReduce (val_red f w)) stack = Ok (PList acc :: base) ->
  forallb wf_val rest = true ->
  DSteps norm (V t f w) stack (comma_letters rest ++ [RPl]) (comma_vals rest ++ [RPx]) (Done t)
         (PStr ")" :: PList (acc ++ map (val_value norm) rest) :: base).
Proof.
  induction rest as [|y r IH]; intros f w stack acc Hp Hwf.
  - cbn [comma_letters comma_vals app map]. rewrite app_nil_r. unfold DSteps.
    eexists. split; [rewrite dfrun_cons, f_v_rp; reflexivity|]. split; [reflexivity|].
    cbn [ntrace snd Table.RPx W apply_vtag]. rewrite upper_rp. rewrite (exec_app _ _ _ _ _ Hp). reflexivity.
  - cbn [forallb] in Hwf. apply andb_true_iff in Hwf. destruct Hwf as [Hy Hr].
    cbn [comma_letters comma_vals map].
    change ((CMl :: val_letter y :: comma_letters r) ++ [RPl]) with ([CMl; val_letter y] ++ (comma_letters r ++ [RPl])).
    change ((CMx :: val_lexeme y :: comma_vals r) ++ [RPx]) with ([CMx; val_lexeme y] ++ (comma_vals r ++ [RPx])).
    eapply DSteps_app.
    + unfold DSteps. eexists. split; [rewrite dfrun_cons, f_v_cm; cbv beta iota; rewrite dfrun_cons, f_cm; reflexivity|].
      split; [reflexivity|]. cbn [ntrace snd Table.CMx W apply_vtag map app]. rewrite upper_comma, snd_val_lexeme.
      rewrite (exec_app _ _ _ _ _ Hp). reflexivity.
    + replace (acc ++ val_value norm y :: map (val_value norm) r) with ((acc ++ [val_value norm y]) ++ map (val_value norm) r)
        by (rewrite <- app_assoc; reflexivity).
      apply IH; [|exact Hr]. apply val_red_next; exact Hy.
Qed.

(* ---------- the statement up to its first value ------------------------------------------------------------------------------------------ *)
Definition hdr_letters (d : decl) : list letter :=
  K "CREATE" :: K (if d_type d then "TYPE" else "DOMAIN") :: name_letters d ++ [K "AS"; LWord (info_of (d_base d)); LPl; val_letter (d_first d)].
Definition hdr_lexemes (d : decl) : list lexeme :=
  W (d_create d) :: W (d_kind d) :: name_lexemes d ++ [W (d_as d); W (d_base d); LPx; val_lexeme (d_first d)].
Lemma letters_split d : TypeDom.letters d = hdr_letters d ++ (comma_letters (d_rest d) ++ [RPl]).
Proof. unfold TypeDom.letters, hdr_letters. simpl. rewrite <- app_assoc. reflexivity. Qed.
Lemma lexemes_split d : TypeDom.lexemes d = hdr_lexemes d ++ (comma_vals (d_rest d) ++ [RPx]).
Proof. unfold TypeDom.lexemes, hdr_lexemes. simpl. rewrite <- app_assoc. reflexivity. Qed.

Definition name_dict (norm : bool) (d : decl) : pyval :=
  PDict [("schema", onm norm (d_schema d)); ((if d_type d then "type_name" else "domain_name"), nmv norm (d_name d))]%string.

Ltac split_wf H :=
  repeat match type of H with
         | (_ && _) = true => let H2 := fresh "Hw" in apply andb_true_iff in H; destruct H as [H H2]
         end.
Ltac kw_uppers :=
  repeat match goal with X : is_kw _ _ = true |- _ =>
           let Hu := fresh "Hu" in pose proof (is_kw_spec _ _ X) as [Hu _]; revert X end; intros.
Ltac rew_uppers := repeat match goal with Hu : upper _ = _ |- _ => rewrite Hu end.
Ltac stepD Hdot :=
  first [ rewrite exec_shift
        | rewrite exec_reduce; arities; cbn [firstn skipn rev app];
          match goal with |- context [action _ ?p _] =>
            lazymatch p with
            | "id -> ID"%string => rewrite act_id'
            | "type_create -> CREATE TYPE"%string => rewrite act_tc
            | "domain_name -> CREATE DOMAIN id AS"%string => rewrite (act_dn0 _ _ Hdot)
            | "domain_name -> CREATE DOMAIN id DOT id AS"%string => rewrite act_dn1
            | "type_name -> type_create id AS"%string => rewrite (act_tn0 _ _ Hdot)
            | "type_name -> type_create id DOT id AS"%string => rewrite act_tn1
            end end;
          cbn [bind] ].

Lemma base_letter norm d : wf norm d = true -> LWord (info_of (d_base d)) = G \/ LWord (info_of (d_base d)) = K "ENUM".
Proof.
  unfold wf. intro H. split_wf H.
  match goal with X : (is_plain _ || is_kw _ _) = true |- _ => apply orb_true_iff in X; destruct X as [Hb|Hb] end.
  - left. apply is_plain_spec in Hb. destruct Hb as [-> _]. reflexivity.
  - right. apply is_kw_spec in Hb. destruct Hb as [_ [-> _]]. reflexivity.
Qed.

Lemma header_steps norm d : wf norm d = true ->
  DSteps norm Q0 [] (hdr_letters d) (hdr_lexemes d) (V (d_type d) true (is_word (d_first d)))
         [PStr (raw (d_first d)); PStr "("; nmv norm (d_base d); name_dict norm d].
Proof.
  intro Hwf. pose proof (base_letter norm d Hwf) as Hb. unfold wf in Hwf. split_wf Hwf.
  match goal with X : negb (String.eqb (nms norm _) ".") = true |- _ => apply negb_true_iff in X; rename X into Hdot end. kw_uppers.
  destruct d as [t c k sch n a b v rest]. cbn [d_type d_create d_kind d_schema d_name d_as d_base d_first d_rest] in *.
  unfold hdr_letters, hdr_lexemes, name_letters, name_lexemes, name_dict.
  cbn [d_type d_create d_kind d_schema d_name d_as d_base d_first d_rest].
  destruct Hb as [-> | ->]; destruct t; destruct sch as [s|]; destruct v as [w|l]; cbn [app val_letter val_lexeme is_word raw];
    (unfold DSteps; eexists; split; [vm_compute; reflexivity|]; split; [reflexivity|];
     cbn [ntrace map app snd W Table.LPx Table.SB DOTL apply_vtag]; rew_uppers; repeat stepD Hdot; rewrite exec_nil; reflexivity).
Qed.

(* ---------- the closing reductions ------------------------------------------------------------------------------------------------------- *)
Lemma finish_exec norm d pfin : wf norm d = true -> TypeDom.ffinish (Done (d_type d)) = Some pfin ->
  exec norm (map NReduce pfin)
       [PStr ")"; PList (map (val_value norm) (d_vals d)); PStr "("; nmv norm (d_base d); name_dict norm d] = Ok [TypeDom.denote norm d].
Proof.
  intros Hwf Hfin. unfold wf in Hwf. split_wf Hwf.
  destruct d as [t c k sch n a b v rest]. cbn [d_type d_create d_kind d_schema d_name d_as d_base d_first d_rest d_vals] in *.
  unfold TypeDom.denote, props, name_dict, d_vals. cbn [d_type d_create d_kind d_schema d_name d_as d_base d_first d_rest].
  destruct t; cbn [TypeDom.ffinish] in Hfin; inversion Hfin; subst pfin; clear Hfin; cbn [map].
  - match goal with X : (negb true || _) = true |- _ => cbn [negb orb] in X; split_wf X end.
    repeat match goal with X : negb _ = true |- _ => apply negb_true_iff in X end.
    rewrite exec_reduce. arities. cbn [firstn skipn rev app].
    assert (E : action norm "type_definition -> type_name id LP pid RP"
                       [PDict [("schema", onm norm sch); ("type_name", nmv norm n)]; nmv norm b; PStr "("; PList (val_value norm v :: map (val_value norm) rest); PStr ")"]%string
                = Ok (PDict [("schema", onm norm sch); ("type_name", nmv norm n);
                             ("properties", PDict (if String.eqb (upper (nms norm b)) "ENUM"
                                                   then [("values", PList (val_value norm v :: map (val_value norm) rest))] else []));
                             ("base_type", nmv norm b)])%string).
    { unfold action, action_more; simpl. unfold act_type_definition_pid. unfold Table.nmv. cbn [filter].
      repeat match goal with X : String.eqb _ _ = false |- _ => rewrite X end. cbn [orb negb dict_get assoc]. simpl.
      repeat match goal with X : String.eqb _ _ = false |- _ => rewrite X end.
      destruct (String.eqb (upper (nms norm b)) "ENUM"); destruct v; reflexivity. }
    rewrite E. cbn [bind]. rewrite exec_reduce. arities. cbn [firstn skipn rev app].
    assert (E2 : forall x, action norm "expr -> type_definition" [PDict x] = Ok (PDict x)) by reflexivity.
    rewrite E2. cbn [bind]. reflexivity.
  - rewrite exec_reduce. arities. cbn [firstn skipn rev app].
    assert (E : action norm "expr -> domain_name id LP pid RP"
                       [PDict [("schema", onm norm sch); ("domain_name", nmv norm n)]; nmv norm b; PStr "("; PList (val_value norm v :: map (val_value norm) rest); PStr ")"]%string
                = Ok (PDict [("schema", onm norm sch); ("domain_name", nmv norm n); ("base_type", nmv norm b);
                             ("properties", PDict (if String.eqb (upper (nms norm b)) "ENUM"
                                                   then [("values", PList (val_value norm v :: map (val_value norm) rest))] else []))])%string).
    { unfold action, action_more; simpl. unfold Table.nmv. destruct (String.eqb (upper (nms norm b)) "ENUM"); reflexivity. }
    rewrite E. cbn [bind]. reflexivity.
Qed.

(* ---------- matching and alphabet ----------------------------------------------------------------------------------------------------------- *)
Ltac ina := unfold TypeDom.alphabet; repeat (first [left; reflexivity | right]).
Lemma val_matches v : wf_val v = true -> matches (val_lexeme v) (val_letter v).
Proof. destruct v as [w|s]; cbn [wf_val val_lexeme val_letter]; intro H; [apply match_plain; exact H|apply match_str]. Qed.
Lemma val_in_alphabet v : In (val_letter v) TypeDom.alphabet.
Proof. destruct v; cbn [val_letter]; ina. Qed.
Lemma commas_match rest : forallb wf_val rest = true -> Forall2 matches (comma_vals rest ++ [RPx]) (comma_letters rest ++ [RPl]).
Proof.
  induction rest as [|y r IH]; cbn [forallb comma_vals comma_letters app]; intro H.
  - constructor; [apply match_sym; tauto|constructor].
  - apply andb_true_iff in H. destruct H as [Hy Hr]. constructor; [apply match_sym; tauto|]. constructor; [apply val_matches; exact Hy|]. exact (IH Hr).
Qed.
Lemma commas_in_alphabet rest : Forall (fun l => In l TypeDom.alphabet) (comma_letters rest ++ [RPl]).
Proof.
  induction rest as [|y r IH]; cbn [comma_letters app].
  - constructor; [ina|constructor].
  - constructor; [ina|]. constructor; [apply val_in_alphabet|]. exact IH.
Qed.

Lemma all_matches norm d : wf norm d = true -> Forall2 matches (TypeDom.lexemes d) (TypeDom.letters d).
Proof.
  intro Hwf. pose proof Hwf as Hwf'. unfold wf in Hwf. split_wf Hwf.
  rewrite letters_split, lexemes_split. apply Forall2_app.
  - unfold hdr_lexemes, hdr_letters, name_lexemes, name_letters.
    match goal with X : forallb wf_val (d_vals d) = true |- _ => unfold d_vals in X; cbn [forallb] in X; apply andb_true_iff in X; destruct X as [Hv Hr] end.
    assert (Hbm : matches (W (d_base d)) (LWord (info_of (d_base d)))).
    { match goal with X : (is_plain _ || is_kw _ _) = true |- _ => apply orb_true_iff in X; destruct X as [Hb|Hb] end.
      - apply is_plain_spec in Hb. simpl. tauto.
      - apply is_kw_spec in Hb. simpl. tauto. }
    destruct (d_schema d) as [s|]; cbn [app];
      repeat match goal with
             | |- Forall2 _ (_ :: _) (_ :: _) => constructor
             | |- Forall2 _ [] [] => constructor
             | |- matches (W (d_base d)) _ => exact Hbm
             | |- matches (W _) (K _) => apply match_kw; assumption
             | |- matches (W _) G => apply match_plain; assumption
             | |- matches DOTL LDot => apply match_dot
             | |- matches LPx LPl => apply match_sym; tauto
             | |- matches (val_lexeme _) _ => apply val_matches; exact Hv
             end.
  - apply commas_match.
    match goal with X : forallb wf_val (d_vals d) = true |- _ => unfold d_vals in X; cbn [forallb] in X; apply andb_true_iff in X; destruct X as [_ Hr]; exact Hr end.
Qed.

Lemma letters_in_alphabet norm d : wf norm d = true -> Forall (fun l => In l TypeDom.alphabet) (TypeDom.letters d).
Proof.
  intro Hwf. pose proof (base_letter norm d Hwf) as Hb. rewrite letters_split. apply Forall_app. split; [|apply commas_in_alphabet].
  unfold hdr_letters, name_letters. destruct (d_type d); destruct (d_schema d); cbn [app];
    repeat match goal with
           | |- Forall _ (_ :: _) => constructor
           | |- Forall _ [] => constructor
           | |- In (val_letter _) _ => apply val_in_alphabet
           | |- In (LWord (info_of (d_base d))) _ => destruct Hb as [-> | ->]; ina
           | |- In _ _ => ina
           end.
Qed.

(* ---------- THE theorem for the fragment -------------------------------------------------------------------------------------------------- *)
Theorem typedom_parse : forall d norm silent, wf norm d = true ->
  parse_lexemes norm silent (TypeDom.lexemes d) = Ok (Some (TypeDom.denote norm d)).
Proof.
  intros d norm silent Hwf.
  assert (Hs : DSteps norm Q0 [] (TypeDom.letters d) (TypeDom.lexemes d) (Done (d_type d))
                      [PStr ")"; PList (map (val_value norm) (d_vals d)); PStr "("; nmv norm (d_base d); name_dict norm d]).
  { rewrite letters_split, lexemes_split. eapply DSteps_app; [apply header_steps; exact Hwf|].
    unfold d_vals. cbn [map]. change (val_value norm (d_first d) :: map (val_value norm) (d_rest d))
      with ([val_value norm (d_first d)] ++ map (val_value norm) (d_rest d)).
    pose proof Hwf as Hwf'. unfold wf in Hwf'. split_wf Hwf'.
    match goal with X : forallb wf_val (d_vals d) = true |- _ => unfold d_vals in X; cbn [forallb] in X; apply andb_true_iff in X; destruct X as [Hv Hr] end.
    apply vals_rest; [apply val_red_first; exact Hv|exact Hr]. }
  destruct Hs as [fos [Hf [Hl He]]].
  destruct (TypeDom.ffinish (Done (d_type d))) as [pfin|] eqn:Efin; [|destruct (d_type d); discriminate].
  unfold parse_lexemes.
  rewrite (pipeline_spec real_tables term_id real_pname TypeDom.q TypeDom.q_eqb TypeDom.q_eqb_eq TypeDom.fstep TypeDom.ffinish TypeDom.alphabet
                         RD RD_closed Q0 RD_init (TypeDom.lexemes d) (TypeDom.letters d) (all_matches norm d Hwf) (letters_in_alphabet norm d Hwf)
                         fos (Done (d_type d)) pfin Hf Efin norm silent).
  rewrite (eval_app _ _ _ _ _ He). rewrite (eval_app _ _ _ _ _ (finish_exec norm d pfin Hwf Efin)). reflexivity.
Qed.
