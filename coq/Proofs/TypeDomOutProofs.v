(* C18 / C10: CREATE TYPE / CREATE DOMAIN entities through the output stage in every mode. *)
From Coq Require Import String Ascii List ZArith NArith Bool Lia.
From SDP Require Import Base PyStr Lexer Actions Parse Engine Seq SeqProofs Entity Output OutputProofs OtherOutProofs.
From SDP Require Table.
From SDP Require Import TypeDom TypeDomProofs.
From SDP.Gen Require Fields Tokens.
Import ListNotations.
Open Scope string_scope.

Local Arguments nms : simpl never.
Local Arguments upper : simpl never.

(* every mode but bigquery — and bigquery when no schema was written — reports the entity unchanged *)
Theorem typedom_every_mode : forall d norm m, In m Tokens.modes ->
  (m <> "bigquery" \/ d_schema d = None \/ (exists s, d_schema d = Some s /\ nms norm s = "")) ->
  exists e, TypeDom.denote norm d = PDict e /\ Output.format m false [PDict e] = Ok (PList [PDict e]).
Proof.
  intros d norm m Hm Hc. unfold TypeDom.denote.
  destruct (d_type d); (eexists; split; [reflexivity|]; apply format_other; [exact Hm|reflexivity|reflexivity|reflexivity|]);
    (destruct Hc as [Hc|Hc]; [left; exact Hc|right; split; [|reflexivity]]);
    (unfold get_or_none, dict_get; cbn [assoc String.eqb Ascii.eqb Bool.eqb]; destruct Hc as [->|[s [-> Hs]]]; [reflexivity|];
     unfold Table.onm, Table.nmv; rewrite Hs; reflexivity).
Qed.

(* bigquery reports a written schema under the key dataset; nothing else changes *)
Theorem typedom_bigquery : forall d norm s, d_schema d = Some s -> nms norm s <> "" ->
  exists e, TypeDom.denote norm d = PDict e /\
            Output.format "bigquery" false [PDict e] = Ok (PList [PDict (dict_del (dict_set e "dataset" (PStr (nms norm s))) "schema")]).
Proof.
  intros d norm s Hs Hn. unfold TypeDom.denote.
  destruct (d_type d); (eexists; split; [reflexivity|]);
    (match goal with |- Output.format _ _ [PDict ?e] = _ =>
       replace (PStr (nms norm s)) with (get_or_none e "schema") by (unfold get_or_none, dict_get; cbn [assoc String.eqb Ascii.eqb Bool.eqb]; rewrite Hs; reflexivity) end;
     apply format_other_bq; try reflexivity;
     unfold get_or_none, dict_get; cbn [assoc String.eqb Ascii.eqb Bool.eqb]; rewrite Hs; unfold Table.onm, Table.nmv, truthy;
     destruct (nms norm s); [congruence|reflexivity]).
Qed.

(* the values are reported in the order written, one per value, whatever their number *)
Lemma values_in_order norm d : String.eqb (upper (nms norm (d_base d))) "ENUM" = true ->
  props norm d = PDict [("values", PList (map (val_value norm) (d_vals d)))] /\
  List.length (map (val_value norm) (d_vals d)) = S (List.length (d_rest d)).
Proof. intro H. unfold props. rewrite H. split; [reflexivity|]. unfold d_vals. cbn [map List.length]. rewrite map_length. reflexivity. Qed.
(* a quoted literal is reported verbatim (with its quotes), in either normalize setting *)
Lemma literal_value_verbatim norm s : val_value norm (VLit s) = PStr s.
Proof. reflexivity. Qed.
