(* C17: the CREATE SEQUENCE fragment against the real keyword tables, flag logic and LALR tables. *)
From Coq Require Import String Ascii List ZArith NArith PArith Bool Lia.
From SDP Require Import Base PyStr LR Lexer Actions Parse RealTables Engine Seq.
Import ListNotations.
Open Scope list_scope.

(* ---------- evaluation lemmas (generic) ------------------------------------------------------ *)
Fixpoint exec (norm : bool) (evs : list nevent) (vs : list pyval) : res (list pyval) :=
  match evs with
  | [] => Ok vs
  | NShift v :: r => exec norm r (PStr v :: vs)
  | NReduce p :: r =>
      let n := prod_arity p in
      do v <- action norm p (rev (firstn n vs));
      exec norm r (v :: skipn n vs)
  | NError :: r => exec norm r []
  | NErrorEnd :: _ => Unsupported "exec"
  | NAccept :: _ => Unsupported "exec"
  end.

Lemma eval_app norm a b : forall vs vs', exec norm a vs = Ok vs' -> eval norm (a ++ b) vs = eval norm b vs'.
Proof.
  induction a as [|e a IH]; intros vs vs' H; simpl in *.
  - inversion H; reflexivity.
  - destruct e; try discriminate.
    + apply IH; exact H.
    + destruct (action norm prod (rev (firstn (prod_arity prod) vs))); try discriminate. simpl in *. apply IH; exact H.
    + apply IH; exact H.
Qed.
Lemma exec_app norm a b : forall vs vs', exec norm a vs = Ok vs' -> exec norm (a ++ b) vs = exec norm b vs'.
Proof.
  induction a as [|e a IH]; intros vs vs' H; simpl in *.
  - inversion H; reflexivity.
  - destruct e; try discriminate.
    + apply IH; exact H.
    + destruct (action norm prod (rev (firstn (prod_arity prod) vs))); try discriminate. simpl in *. apply IH; exact H.
    + apply IH; exact H.
Qed.

(* ---------- the instantiated machine ----------------------------------------------------------- *)
Definition Mstep := mstep real_tables term_id.
Definition R : list (q * conf) :=
  explore real_tables term_id q q_eqb fstep alphabet 400 [(Q0, (flags0, [0%N]))] [].

Lemma R_closed : closed real_tables term_id real_pname q q_eqb fstep ffinish alphabet R = true.
Proof. vm_compute. reflexivity. Qed.

Lemma R_init : In (Q0, (flags0, [0%N])) R.
Proof. apply (in_R_In q q_eqb q_eqb_eq). vm_compute. reflexivity. Qed.

(* ---------- well-formed words match their letters ---------------------------------------------- *)
Lemma is_kw_spec kw k : is_kw kw k = true ->
  upper kw = k /\ info_of kw = info_of k /\ strip_trailing_comma kw = kw.
Proof.
  unfold is_kw. intro H. apply andb_true_iff in H. destruct H as [H H3]. apply andb_true_iff in H.
  destruct H as [H1 H2]. apply String.eqb_eq in H1. apply info_eqb_eq in H2. apply String.eqb_eq in H3. auto.
Qed.
Lemma is_plain_spec w : is_plain w = true -> info_of w = generic_info /\ strip_trailing_comma w = w.
Proof.
  unfold is_plain. intro H. apply andb_true_iff in H. destruct H as [H1 H2].
  apply info_eqb_eq in H1. apply String.eqb_eq in H2. auto.
Qed.
Lemma is_num_spec w : is_num w = true ->
  is_plain w = true /\ (exists z, int_of_string w = Some z) /\ normalize_id w = w.
Proof.
  unfold is_num. intro H. apply andb_true_iff in H. destruct H as [H H3]. apply andb_true_iff in H.
  destruct H as [H1 H2]. split; [exact H1|]. split; [|apply String.eqb_eq; exact H3].
  destruct (int_of_string w) as [z|]; [exists z; reflexivity|discriminate].
Qed.

Lemma match_kw kw k : is_kw kw k = true -> matches (W kw) (K k).
Proof. intro H. apply is_kw_spec in H. destruct H as [_ [H2 H3]]. simpl. auto. Qed.
Lemma match_plain w : is_plain w = true -> matches (W w) G.
Proof. intro H. apply is_plain_spec in H. destruct H as [H2 H3]. simpl. auto. Qed.
Lemma match_num w : is_num w = true -> matches (W w) G.
Proof. intro H. apply is_num_spec in H. apply match_plain. tauto. Qed.
Lemma match_dot : matches DOTL LDot.
Proof. reflexivity. Qed.

Ltac split_and H :=
  repeat match type of H with
         | (_ && _) = true => let H2 := fresh H in apply andb_true_iff in H; destruct H as [H H2]
         end.

Ltac fm :=
  repeat match goal with
         | |- Forall2 _ (_ :: _) (_ :: _) => constructor
         | |- Forall2 _ [] [] => constructor
         | |- matches (W _) (K _) => apply match_kw; assumption
         | |- matches (W _) G => first [apply match_num; assumption | apply match_plain; assumption]
         | |- matches DOTL LDot => exact match_dot
         end.

Lemma opt_matches o : wf_opt o = true -> Forall2 matches (opt_lexemes o) (opt_letters o).
Proof.
  destruct o as [kw b n|kw w n|kw n|kw n|no kw|no kw|kw n|kw|kw|kw]; cbn [wf_opt opt_lexemes opt_letters]; intro H;
    repeat match type of H with
           | (_ && _) = true => let H2 := fresh "H" in apply andb_true_iff in H; destruct H as [H H2]
           end;
    try (destruct b as [b|]); try (destruct w as [w|]); cbn [okw ow okl app] in *; fm.
Qed.

Lemma opts_matches opts : forallb wf_opt opts = true ->
  Forall2 matches (flat_map opt_lexemes opts) (flat_map opt_letters opts).
Proof.
  induction opts as [|o r IH]; simpl; intro H; [constructor|].
  apply andb_true_iff in H. destruct H as [H1 H2].
  apply Forall2_app; [apply opt_matches; exact H1 | apply IH; exact H2].
Qed.

Lemma all_matches a : wf a = true -> Forall2 matches (lexemes a) (letters a).
Proof.
  unfold wf, lexemes, letters, name_lexemes, name_letters. intro H.
  repeat match type of H with
         | (_ && _) = true => let H2 := fresh "H" in apply andb_true_iff in H; destruct H as [H H2]
         end.
  constructor; [apply match_kw; assumption|]. constructor; [apply match_kw; assumption|].
  apply Forall2_app; [|apply opts_matches; assumption].
  destruct (s_schema a) as [s|]; fm.
Qed.

(* ---------- every letter is in the alphabet ----------------------------------------------------- *)
Ltac inalpha := unfold alphabet; repeat (first [left; reflexivity | right]).

Lemma opt_in_alphabet o : Forall (fun l => In l alphabet) (opt_letters o).
Proof.
  destruct o as [kw b n|kw w n|kw n|kw n|no kw|no kw|kw n|kw|kw|kw]; simpl;
    try (destruct b); try (destruct w); cbn [opt_letters okl app];
    repeat match goal with |- Forall _ (_ :: _) => constructor | |- Forall _ [] => constructor end; inalpha.
Qed.
Lemma letters_in_alphabet a : Forall (fun l => In l alphabet) (letters a).
Proof.
  unfold letters, name_letters. constructor; [inalpha|]. constructor; [inalpha|].
  apply Forall_app. split.
  - destruct (s_schema a); repeat match goal with |- Forall _ (_ :: _) => constructor | |- Forall _ [] => constructor end; inalpha.
  - induction (s_opts a) as [|o r IH]; simpl; [constructor|]. apply Forall_app. split; [apply opt_in_alphabet|exact IH].
Qed.

(* ---------- the reference machine on an option --------------------------------------------------- *)
Definition Frun := frun q fstep.

Lemma frun_app : forall l1 l2 s fos1 s1, Frun s l1 = Some (fos1, s1) ->
  Frun s (l1 ++ l2) = match Frun s1 l2 with Some (fos2, s2) => Some (fos1 ++ fos2, s2) | None => None end.
Proof.
  induction l1 as [|l r IH]; intros l2 s fos1 s1 H; simpl in *.
  - inversion H; subst. destruct (Frun s1 l2) as [[? ?]|]; reflexivity.
  - unfold Frun in *. simpl in *. destruct (fstep s l) as [[o s']|]; [|discriminate].
    destruct (frun q fstep s' r) as [[os s'']|] eqn:E; [|discriminate]. inversion H; subst.
    rewrite (IH l2 s' os s1 E). destruct (frun q fstep s1 l2) as [[? ?]|]; reflexivity.
Qed.

Lemma ntrace_app : forall fos1 lx1 fos2 lx2, List.length fos1 = List.length lx1 ->
  ntrace (fos1 ++ fos2) (lx1 ++ lx2) = ntrace fos1 lx1 ++ ntrace fos2 lx2.
Proof.
  induction fos1 as [|[[ps ty] vt] r IH]; intros [|lx lr] fos2 lx2 H; simpl in *; try discriminate; [reflexivity|].
  rewrite IH by lia. rewrite <- app_assoc. reflexivity.
Qed.

Definition pend_of (o : opt) : pend :=
  match o with
  | OIncr _ None _ => PIncr | OIncr _ (Some _) _ => PIncrBy
  | OStart _ None _ => PStart | OStart _ (Some _) _ => PStartWith
  | OMin _ _ => PMin | OMax _ _ => PMax | ONoMin _ _ => PNoMin | ONoMax _ _ => PNoMax
  | OCacheN _ _ => PCacheN | OCache _ => PCache0 | OOrder _ => POrder | ONoOrder _ => PNoOrder
  end.

Definition idf : fout := ([], "ID", Keep)%string.
Definition fos_opt (p : pend) (o : opt) : list fout :=
  match o with
  | OIncr _ None _ => [(pending p, "INCREMENT", Upper); idf]
  | OIncr _ (Some _) _ => [(pending p, "INCREMENT", Upper); ([], "BY", Upper); idf]
  | OStart _ None _ => [(pending p, "START", Upper); idf]
  | OStart _ (Some _) _ => [(pending p, "START", Upper); ([], "WITH", Upper); idf]
  | OMin _ _ => [(pending p, "MINVALUE", Upper); idf]
  | OMax _ _ => [(pending p, "MAXVALUE", Upper); idf]
  | ONoMin _ _ => [(pending p, "NO", Upper); ([], "MINVALUE", Upper)]
  | ONoMax _ _ => [(pending p, "NO", Upper); ([], "MAXVALUE", Upper)]
  | OCacheN _ _ => [(pending p, "CACHE", Upper); idf]
  | OCache _ => [(pending p, "CACHE", Upper)]
  | OOrder _ => [(pending p, "ORDER", Upper)]
  | ONoOrder _ => [(pending p, "NOORDER", Upper)]
  end%string.

Lemma frun_opt p o : Frun (B p) (opt_letters o) = Some (fos_opt p o, B (pend_of o)).
Proof.
  destruct o as [kw [b|] n|kw [w|] n|kw n|kw n|no kw|no kw|kw n|kw|kw|kw]; destruct p; vm_compute; reflexivity.
Qed.

Lemma fos_opt_length p o : List.length (fos_opt p o) = List.length (opt_lexemes o).
Proof. destruct o as [kw [b|] n|kw [w|] n|kw n|kw n|no kw|no kw|kw n|kw|kw|kw]; reflexivity. Qed.

(* ---------- evaluation of one option ------------------------------------------------------------- *)
Local Arguments int_of_string : simpl never.
Local Arguments normalize_id : simpl never.

Lemma act_id norm s : action norm "id -> ID" [PStr s] = Ok (nm norm s).
Proof. reflexivity. Qed.
Lemma nm_num norm n : normalize_id n = n -> nm norm n = PStr n.
Proof. intro H. unfold nm. rewrite H. destruct norm; reflexivity. Qed.

Ltac arities :=
  repeat match goal with
         | |- context [prod_arity ?s] =>
           let v := eval vm_compute in (prod_arity s) in change (prod_arity s) with v
         end.

Ltac num_facts H :=
  let z := fresh "z" in let Hz := fresh "Hz" in let Hnn := fresh "Hnn" in
  apply is_num_spec in H; destruct H as [_ [[z Hz] Hnn]].

Ltac kw_fact H := apply is_kw_spec in H; destruct H as [H _].

Ltac finish_eval :=
  arities; cbn [firstn skipn rev app];
  repeat (rewrite ?act_id; cbn [bind firstn skipn rev app]);
  repeat match goal with Hnn : normalize_id ?n = ?n |- _ => rewrite (nm_num _ _ Hnn) end;
  unfold action, num_val; simpl;
  repeat match goal with Hz : int_of_string ?n = Some _ |- _ => rewrite Hz end;
  simpl; reflexivity.

Lemma exec_opt norm p o vs0 d :
  wf_opt o = true ->
  exec norm (map NReduce (pending p)) vs0 = Ok [PDict d] ->
  exists vs1,
    exec norm (ntrace (fos_opt p o) (opt_lexemes o)) vs0 = Ok vs1 /\
    exec norm (map NReduce (pending (pend_of o))) vs1 = Ok [PDict (denote_opt o d)].
Proof.
  intros Hwf Hp.
  destruct o as [kw [b|] n|kw [w|] n|kw n|kw n|no kw|no kw|kw n|kw|kw|kw]; cbn [wf_opt okw] in Hwf;
    repeat match type of Hwf with
           | (_ && _) = true => let H2 := fresh "H" in apply andb_true_iff in Hwf; destruct Hwf as [Hwf H2]
           end;
    repeat match goal with
           | H : is_kw _ _ = true |- _ => kw_fact H
           | H : is_num _ = true |- _ => num_facts H
           end;
    cbn [fos_opt opt_lexemes ntrace idf ow app map snd W apply_vtag];
    (eexists; split;
     [ rewrite (exec_app _ _ _ _ _ Hp); cbn [exec]; reflexivity
     | repeat match goal with Hu : upper _ = _ |- _ => rewrite Hu; clear Hu end;
       cbn [pend_of pending map exec denote_opt]; finish_eval ]).
Qed.

(* ---------- all options, any number, any order ---------------------------------------------------- *)
Lemma opts_eval norm : forall opts p vs0 d,
  forallb wf_opt opts = true ->
  exec norm (map NReduce (pending p)) vs0 = Ok [PDict d] ->
  exists fos pl,
    Frun (B p) (flat_map opt_letters opts) = Some (fos, B pl) /\
    List.length fos = List.length (flat_map opt_lexemes opts) /\
    eval norm (ntrace fos (flat_map opt_lexemes opts) ++ map NReduce (pending pl) ++ [NAccept]) vs0
    = Ok (Some (PDict (fold_left (fun d o => denote_opt o d) opts d))).
Proof.
  induction opts as [|o r IH]; intros p vs0 d Hwf Hp.
  - exists [], p. repeat split. simpl. rewrite (eval_app _ _ _ _ _ Hp). reflexivity.
  - cbn [forallb] in Hwf. apply andb_true_iff in Hwf. destruct Hwf as [Ho Hr].
    destruct (exec_opt norm p o vs0 d Ho Hp) as [vs1 [He1 He2]].
    destruct (IH (pend_of o) vs1 (denote_opt o d) Hr He2) as [fos' [pl [Hf [Hl He]]]].
    exists (fos_opt p o ++ fos'), pl. cbn [flat_map fold_left]. repeat split.
    + rewrite (frun_app _ _ _ _ _ (frun_opt p o)). rewrite Hf. reflexivity.
    + rewrite !app_length, fos_opt_length, Hl. reflexivity.
    + rewrite ntrace_app by apply fos_opt_length. rewrite <- app_assoc.
      rewrite (eval_app _ _ _ _ _ He1). exact He.
Qed.

(* ---------- header: CREATE SEQUENCE [schema.]name --------------------------------------------------- *)
Definition hdr_lexemes (a : seq) : list lexeme := W (s_create a) :: W (s_sequence a) :: name_lexemes a.
Definition hdr_letters (a : seq) : list letter := K "CREATE" :: K "SEQUENCE" :: name_letters a.
Definition hdr_pend (a : seq) : pend := match s_schema a with Some _ => PName2 | None => PName1 end.
Definition hdr_fos (a : seq) : list fout :=
  ([], "CREATE", Upper) :: ([], "SEQUENCE", Upper) ::
  match s_schema a with
  | Some _ => [(["create_seq -> CREATE SEQUENCE"], "ID", Keep); (["id -> ID"], "DOT", Keep); ([], "ID", Keep)]
  | None => [(["create_seq -> CREATE SEQUENCE"], "ID", Keep)]
  end%string.
Definition hdr_dict (norm : bool) (a : seq) : list (string * pyval) :=
  [("schema", match s_schema a with Some s => nm norm s | None => PNone end);
   ("sequence_name", nm norm (s_name a))]%string.

Lemma frun_hdr a : Frun Q0 (hdr_letters a) = Some (hdr_fos a, B (hdr_pend a)).
Proof. unfold hdr_letters, hdr_fos, hdr_pend, name_letters. destruct (s_schema a); vm_compute; reflexivity. Qed.

Lemma hdr_length a : List.length (hdr_fos a) = List.length (hdr_lexemes a).
Proof. unfold hdr_fos, hdr_lexemes, name_lexemes. destruct (s_schema a); reflexivity. Qed.

Lemma exec_hdr norm a : wf a = true ->
  exists vs, exec norm (ntrace (hdr_fos a) (hdr_lexemes a)) [] = Ok vs /\
             exec norm (map NReduce (pending (hdr_pend a))) vs = Ok [PDict (hdr_dict norm a)].
Proof.
  unfold wf. intro H.
  repeat match type of H with
         | (_ && _) = true => let H2 := fresh "H" in apply andb_true_iff in H; destruct H as [H H2]
         end.
  kw_fact H. kw_fact H3.
  unfold hdr_fos, hdr_lexemes, hdr_pend, hdr_dict, name_lexemes.
  destruct (s_schema a) as [s|]; cbn [ntrace app map snd W DOTL apply_vtag]; rewrite H, H3;
    (eexists; split; [cbn [exec]; arities; cbn [firstn skipn rev app]; unfold action; simpl; reflexivity
                     | cbn [pending map exec]; arities; cbn [firstn skipn rev app];
                       repeat (rewrite ?act_id; cbn [bind firstn skipn rev app]); unfold action; simpl; reflexivity]).
Qed.

(* ---------- THE theorem for the fragment --------------------------------------------------------------- *)
Theorem seq_parse : forall a norm silent, wf a = true ->
  parse_lexemes norm silent (lexemes a) = Ok (Some (denote norm a)).
Proof.
  intros a norm silent Hwf.
  destruct (exec_hdr norm a Hwf) as [vs [Hh1 Hh2]].
  assert (Hopts : forallb wf_opt (s_opts a) = true).
  { unfold wf in Hwf. apply andb_true_iff in Hwf. tauto. }
  destruct (opts_eval norm (s_opts a) (hdr_pend a) vs (hdr_dict norm a) Hopts Hh2) as [fos [pl [Hf [Hl He]]]].
  unfold parse_lexemes.
  rewrite (pipeline_spec real_tables term_id real_pname q q_eqb q_eqb_eq fstep ffinish alphabet R R_closed
                         Q0 R_init (lexemes a) (letters a) (all_matches a Hwf) (letters_in_alphabet a)
                         (hdr_fos a ++ fos) (B pl) (pending pl)).
  - change (lexemes a) with (hdr_lexemes a ++ flat_map opt_lexemes (s_opts a)).
    rewrite ntrace_app by apply hdr_length. rewrite <- app_assoc.
    rewrite (eval_app _ _ _ _ _ Hh1). exact He.
  - change (letters a) with (hdr_letters a ++ flat_map opt_letters (s_opts a)).
    fold Frun. rewrite (frun_app _ _ _ _ _ (frun_hdr a)). rewrite Hf. reflexivity.
  - reflexivity.
Qed.
