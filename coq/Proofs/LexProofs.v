(* Layer B facts: what the lexer looks up about a word depends on its upper-cased spelling only. *)
From Coq Require Import String Ascii List ZArith NArith Bool Lia.
From SDP Require Import Base PyStr Lexer Actions Engine Seq.
From SDP.Gen Require Tokens.
Import ListNotations.
Open Scope string_scope.

Lemma upper_c_idem c : upper_c (upper_c c) = upper_c c.
Proof. destruct c as [[] [] [] [] [] [] [] []]; reflexivity. Qed.
Lemma is_word_upper_c c : is_word_c (upper_c c) = is_word_c c.
Proof. destruct c as [[] [] [] [] [] [] [] []]; reflexivity. Qed.

Lemma upper_idem w : upper (upper w) = upper w.
Proof. unfold upper. induction w as [|c r IH]; simpl; [reflexivity|]. rewrite upper_c_idem, IH. reflexivity. Qed.
Lemma word_upper w : sforall is_word_c (upper w) = sforall is_word_c w.
Proof. unfold upper. induction w as [|c r IH]; simpl; [reflexivity|]. rewrite is_word_upper_c, IH. reflexivity. Qed.

(* a word made of word characters only is different from any key that holds another character *)
Lemma eqb_word_nonword w k : sforall is_word_c w = true -> sforall is_word_c k = false -> String.eqb w k = false.
Proof.
  intros Hw Hk. destruct (String.eqb w k) eqn:E; [|reflexivity]. apply String.eqb_eq in E. subst. congruence.
Qed.
Lemma assoc_word_none {A} (tbl : list (string * A)) w :
  forallb (fun kv => negb (sforall is_word_c (fst kv))) tbl = true -> sforall is_word_c w = true -> assoc w tbl = None.
Proof.
  induction tbl as [|[k v] r IH]; simpl; intros H Hw; [reflexivity|].
  apply andb_true_iff in H. destruct H as [H1 H2]. apply negb_true_iff in H1.
  rewrite (eqb_word_nonword w k Hw H1). apply IH; assumption.
Qed.
Lemma mem_word_false (l : list string) w :
  forallb (fun k => negb (sforall is_word_c k)) l = true -> sforall is_word_c w = true -> mem w l = false.
Proof.
  unfold mem. induction l as [|k r IH]; simpl; intros H Hw; [reflexivity|].
  apply andb_true_iff in H. destruct H as [H1 H2]. apply negb_true_iff in H1.
  rewrite (eqb_word_nonword w k Hw H1). apply IH; assumption.
Qed.

(* a word of word characters does not contain a key that starts with another character *)
Lemma contains_word_false w c r : sforall is_word_c w = true -> is_word_c c = false -> contains w (String c r) = false.
Proof.
  intros Hw Hc. induction w as [|d s IH]; simpl in *; [reflexivity|].
  apply andb_true_iff in Hw. destruct Hw as [Hd Hs].
  destruct (Ascii.eqb_spec c d) as [->|Hne]; [congruence|].
  destruct (ascii_dec c d) as [e|_]; [congruence|]. apply IH; exact Hs.
Qed.
Lemma count_char_word w c : sforall is_word_c w = true -> is_word_c c = false -> count_char c w = 0%nat.
Proof.
  intros Hw Hc. induction w as [|d s IH]; simpl in *; [reflexivity|].
  apply andb_true_iff in Hw. destruct Hw as [Hd Hs].
  destruct (Ascii.eqb_spec c d) as [->|Hne]; [congruence|]. rewrite IH by exact Hs. reflexivity.
Qed.

Lemma prefix_upper p w : String.prefix p w = true -> String.prefix (upper p) (upper w) = true.
Proof.
  unfold upper. revert w. induction p as [|c r IH]; intros w H; [destruct w; reflexivity|].
  destruct w as [|d s]; simpl in *; [discriminate|].
  destruct (ascii_dec c d) as [->|]; [|discriminate].
  destruct (ascii_dec (upper_c d) (upper_c d)); [|congruence]. apply IH. exact H.
Qed.

(* closed facts about the generated tables *)
Lemma symbol_keys_nonword : forallb (fun kv => negb (sforall is_word_c (fst kv))) Tokens.symbol_tokens = true.
Proof. vm_compute. reflexivity. Qed.
Lemma tag_keys_nonword :
  forallb (fun kv => match fst kv with String c _ => negb (is_word_c c) | EmptyString => false end) Tokens.symbol_tokens_no_check = true.
Proof. vm_compute. reflexivity. Qed.

Lemma tag_word_false w : sforall is_word_c w = true ->
  existsb (fun kv => contains w (fst kv)) Tokens.symbol_tokens_no_check = false.
Proof.
  intro Hw. pose proof tag_keys_nonword as H. induction Tokens.symbol_tokens_no_check as [|[k v] r IH]; simpl in *; [reflexivity|].
  apply andb_true_iff in H. destruct H as [H1 H2]. destruct k as [|c s]; [discriminate|].
  apply negb_true_iff in H1. rewrite (contains_word_false w c s Hw H1). apply IH. exact H2.
Qed.

(* THE case lemma: for a word of letters, digits and '_' whose upper-cased form does not start with ARRAY, everything the lexer
   looks up is determined by the upper-cased spelling *)
Theorem info_of_case_insensitive : forall w,
  sforall is_word_c w = true -> startswith (upper w) "ARRAY" = false -> info_of w = info_of (upper w).
Proof.
  intros w Hw Ha. assert (Hu : sforall is_word_c (upper w) = true) by (rewrite word_upper; exact Hw).
  unfold info_of. rewrite upper_idem.
  rewrite (assoc_word_none Tokens.symbol_tokens w symbol_keys_nonword Hw).
  rewrite (assoc_word_none Tokens.symbol_tokens (upper w) symbol_keys_nonword Hu).
  rewrite (mem_word_false ["("; ")"; ","] w eq_refl Hw), (mem_word_false ["("; ")"; ","] (upper w) eq_refl Hu).
  rewrite (tag_word_false w Hw), (tag_word_false (upper w) Hu).
  rewrite (count_char_word w "<"%char Hw eq_refl), (count_char_word w ">"%char Hw eq_refl).
  rewrite (count_char_word (upper w) "<"%char Hu eq_refl), (count_char_word (upper w) ">"%char Hu eq_refl).
  assert (Hs : startswith w "ARRAY" = false).
  { unfold startswith in *. destruct (String.prefix "ARRAY" w) eqn:P; [|reflexivity].
    apply prefix_upper in P. change (upper "ARRAY") with "ARRAY" in P. congruence. }
  rewrite Hs, Ha. reflexivity.
Qed.

Lemma endswith_comma_word w : sforall is_word_c w = true -> strip_trailing_comma w = w.
Proof.
  intro Hw. unfold strip_trailing_comma. destruct ((1 <? String.length w)%nat); [|reflexivity].
  destruct (endswith w ",") eqn:E; [|reflexivity]. exfalso.
  unfold endswith in E. apply andb_true_iff in E. destruct E as [_ E]. apply String.eqb_eq in E.
  (* the last character would be ',' *)
  assert (Hin : forall s n, sforall is_word_c s = true -> sforall is_word_c (drop n s) = true).
  { induction s as [|c r IH]; intros [|n] H; simpl in *; auto. apply andb_true_iff in H. apply IH. tauto. }
  specialize (Hin w (String.length w - String.length ",")%nat Hw). rewrite E in Hin. discriminate.
Qed.

(* every spelling of a keyword K (letters/digits/_ only, any letter case) is lexed exactly like K *)
Theorem any_case_is_kw : forall kw k,
  upper kw = k -> sforall is_word_c kw = true -> startswith k "ARRAY" = false -> is_kw kw k = true.
Proof.
  intros kw k Hu Hw Ha. unfold is_kw. rewrite Hu, String.eqb_refl. simpl.
  rewrite (info_of_case_insensitive kw Hw) by (rewrite Hu; exact Ha). rewrite Hu.
  assert (E : info_eqb (info_of k) (info_of k) = true).
  { clear. unfold info_eqb. generalize (info_of k). intros [a b c d e f g h i j k0 l m n o]. simpl.
    assert (R : forall x, ostr_eqb x x = true) by (intros [x|]; simpl; [apply String.eqb_refl|reflexivity]).
    rewrite !R, !Bool.eqb_reflx, !Z.eqb_refl. reflexivity. }
  rewrite E. simpl. rewrite (endswith_comma_word kw Hw). apply String.eqb_refl.
Qed.
