(* C04: the ALTER TABLE fragment against the real keyword tables, flag logic and LALR tables. *)
From Coq Require Import String Ascii List ZArith NArith PArith Bool Lia.
From SDP Require Import Base PyStr LR Lexer Actions Parse RealTables Engine Seq SeqProofs KeywordProofs Entity Table TableProofs Alter.
Import ListNotations.
Open Scope list_scope.

Definition R : list (Alter.q * conf) :=
  explore real_tables term_id Alter.q Alter.q_eqb Alter.fstep Alter.alphabet 4000 [(A0, (flags0, [0%N]))] [].
Lemma R_ok : closed real_tables term_id real_pname Alter.q Alter.q_eqb Alter.fstep Alter.ffinish Alter.alphabet R
             && in_R Alter.q Alter.q_eqb R A0 (flags0, [0%N]) = true.
Proof. vm_cast_no_check (eq_refl true). Qed.
Lemma R_closed : closed real_tables term_id real_pname Alter.q Alter.q_eqb Alter.fstep Alter.ffinish Alter.alphabet R = true.
Proof. pose proof R_ok as H. apply andb_true_iff in H. exact (proj1 H). Qed.
Lemma R_init : In (A0, (flags0, [0%N])) R.
Proof. apply (in_R_In Alter.q Alter.q_eqb Alter.q_eqb_eq). pose proof R_ok as H. apply andb_true_iff in H. exact (proj2 H). Qed.

Notation AFrun := (frun Alter.q Alter.fstep).

Lemma afrun_app : forall l1 l2 s fos1 s1, AFrun s l1 = Some (fos1, s1) ->
  AFrun s (l1 ++ l2) = match AFrun s1 l2 with Some (fos2, s2) => Some (fos1 ++ fos2, s2) | None => None end.
Proof.
  induction l1 as [|l r IH]; intros l2 s fos1 s1 H; simpl in *.
  - inversion H; subst. destruct (AFrun s1 l2) as [[? ?]|]; reflexivity.
  - destruct (Alter.fstep s l) as [[o s']|]; [|discriminate].
    destruct (AFrun s' r) as [[os s'']|] eqn:E; [|discriminate]. inversion H; subst.
    rewrite (IH l2 s' os s1 E). destruct (AFrun s1 l2) as [[? ?]|]; reflexivity.
Qed.

Section ASteps.
  Variable norm : bool.
  Definition ASteps (s : Alter.q) (vs : list pyval) (ls : list letter) (lxs : list lexeme) (s' : Alter.q) (vs' : list pyval) : Prop :=
    exists fos, AFrun s ls = Some (fos, s') /\ List.length fos = List.length lxs /\ exec norm (ntrace fos lxs) vs = Ok vs'.
  Lemma ASteps_app s vs l1 x1 s1 vs1 l2 x2 s2 vs2 :
    ASteps s vs l1 x1 s1 vs1 -> ASteps s1 vs1 l2 x2 s2 vs2 -> ASteps s vs (l1 ++ l2) (x1 ++ x2) s2 vs2.
  Proof.
    intros [f1 [Hf1 [Hl1 He1]]] [f2 [Hf2 [Hl2 He2]]]. exists (f1 ++ f2). split; [|split].
    - rewrite (afrun_app _ _ _ _ _ Hf1), Hf2. reflexivity.
    - rewrite !app_length. congruence.
    - rewrite ntrace_app by exact Hl1. rewrite (exec_app _ _ _ _ _ He1). exact He2.
  Qed.
End ASteps.

Local Arguments int_of_string : simpl never.
Local Arguments normalize_id : simpl never.
Local Arguments isnumeric : simpl never.
Local Arguments plain_type_word : simpl never.
Local Arguments colname_bad : simpl never.
Local Arguments refaction_bad : simpl never.
Local Arguments nms : simpl never.
Local Arguments upper : simpl never.

Lemma act_pid1 norm s : action norm "pid -> id" [PStr s] = Ok (PList [PStr s]).
Proof. reflexivity. Qed.
Lemma act_pidn norm l s : action norm "pid -> pid COMMA id" [PList l; PStr ","; PStr s] = Ok (PList (l ++ [PStr s])).
Proof. reflexivity. Qed.

(* ---------- a parenthesised list of names, any length ---------------------------------------------------------------------- *)
Definition pend_of_pid (s : Alter.q) : list string :=
  match s with PID1 _ => pid_first | _ => pid_next end.

Lemma f_pid_comma k s : s = PID1 k \/ s = PIDm k -> Alter.fstep s CMl = Some ((pend_of_pid s, "COMMA"%string, Upper), PIDn k).
Proof. intros [->| ->]; destruct k as [[|]|[|]|[|]|]; vm_compute; reflexivity. Qed.
Lemma f_pid_rp k s : s = PID1 k \/ s = PIDm k -> Alter.fstep s RPl = Some ((pend_of_pid s, "RP"%string, Upper), PEnd k).
Proof. intros [->| ->]; destruct k as [[|]|[|]|[|]|]; vm_compute; reflexivity. Qed.
Lemma f_pidn k : Alter.fstep (PIDn k) G = Some (Alter.idk, PIDm k).
Proof. destruct k as [[|]|[|]|[|]|]; vm_compute; reflexivity. Qed.
Lemma f_pid0 k : Alter.fstep (PID0 k) G = Some (Alter.idk, PID1 k).
Proof. destruct k as [[|]|[|]|[|]|]; vm_compute; reflexivity. Qed.

Lemma afrun_cons (s : Alter.q) l r :
  AFrun s (l :: r) =
  match Alter.fstep s l with
  | None => None
  | Some (o, s') => match AFrun s' r with None => None | Some (os, s'') => Some (o :: os, s'') end
  end.
Proof. reflexivity. Qed.

Lemma names_rest norm k base : forall rest s stack acc,
  s = PID1 k \/ s = PIDm k ->
  exec norm (map NReduce (pend_of_pid s)) stack = Ok (PList acc :: base) ->
  forallb is_plain rest = true ->
  ASteps norm s stack (comma_letters rest ++ [RPl]) (commas rest ++ [RPx]) (PEnd k)
         (PStr ")" :: PList (acc ++ map (nmv norm) rest) :: base).
Proof.
  induction rest as [|y r IH]; intros s stack acc Hs Hp Hwf.
  - cbn [comma_letters commas app map]. rewrite app_nil_r. unfold ASteps.
    eexists. split; [rewrite afrun_cons, (f_pid_rp k s Hs); reflexivity|]. split; [reflexivity|].
    cbn [ntrace snd RPx W apply_vtag]. rewrite upper_rp. rewrite (exec_app _ _ _ _ _ Hp). reflexivity.
  - cbn [forallb] in Hwf. apply andb_true_iff in Hwf. destruct Hwf as [Hy Hr].
    cbn [comma_letters commas map].
    change ((CMl :: G :: comma_letters r) ++ [RPl]) with ([CMl; G] ++ (comma_letters r ++ [RPl])).
    change ((CMx :: W y :: commas r) ++ [RPx]) with ([CMx; W y] ++ (commas r ++ [RPx])).
    eapply ASteps_app.
    + unfold ASteps. eexists. split; [rewrite afrun_cons, (f_pid_comma k s Hs); cbv beta iota; rewrite afrun_cons, f_pidn; reflexivity|].
      split; [reflexivity|]. cbn [ntrace snd CMx W apply_vtag Alter.idk map app]. rewrite upper_comma.
      rewrite (exec_app _ _ _ _ _ Hp). reflexivity.
    + replace (acc ++ nmv norm y :: map (nmv norm) r) with ((acc ++ [nmv norm y]) ++ map (nmv norm) r) by (rewrite <- app_assoc; reflexivity).
      apply IH; [right; reflexivity| |exact Hr].
      cbn [pend_of_pid pid_next map]. rewrite exec_reduce. arities. cbn [firstn skipn rev app]. rewrite act_id'. cbn [bind].
      rewrite exec_reduce. arities. cbn [firstn skipn rev app]. unfold nmv. rewrite act_pidn. cbn [bind]. reflexivity.
Qed.

Lemma names_steps norm k vs (n : names) : wf_names n = true ->
  ASteps norm (PID0 k) vs (G :: comma_letters (snd n) ++ [RPl]) (W (fst n) :: commas (snd n) ++ [RPx]) (PEnd k)
         (PStr ")" :: PList (map (nmv norm) (names_list n)) :: vs).
Proof.
  destruct n as [x rest]. unfold wf_names, names_list. cbn [fst snd forallb map]. intro H. apply andb_true_iff in H. destruct H as [Hx Hr].
  change (G :: comma_letters rest ++ [RPl]) with ([G] ++ (comma_letters rest ++ [RPl])).
  change (W x :: commas rest ++ [RPx]) with ([W x] ++ (commas rest ++ [RPx])).
  eapply ASteps_app.
  - unfold ASteps. eexists. split; [rewrite afrun_cons, f_pid0; reflexivity|]. split; reflexivity.
  - change (nmv norm x :: map (nmv norm) rest) with ([nmv norm x] ++ map (nmv norm) rest).
    apply names_rest; [left; reflexivity| |exact Hr].
    cbn [pend_of_pid pid_first map]. rewrite exec_reduce. arities. cbn [firstn skipn rev app]. rewrite act_id'. cbn [bind].
    rewrite exec_reduce. arities. cbn [firstn skipn rev app]. rewrite act_pid1. cbn [bind]. reflexivity.
Qed.

(* ---------- assembling a statement ----------------------------------------------------------------------------------------------- *)
Lemma alter_pipeline norm silent lxs ls qf vsf pfin v :
  ASteps norm A0 [] ls lxs qf vsf -> Alter.ffinish qf = Some pfin ->
  eval norm (map NReduce pfin ++ [NAccept]) vsf = Ok (Some v) ->
  Forall2 matches lxs ls -> Forall (fun l => In l Alter.alphabet) ls ->
  parse_lexemes norm silent lxs = Ok (Some v).
Proof.
  intros [fos [Hf [Hl He]]] Hfin Hev Hm Hal. unfold parse_lexemes.
  rewrite (pipeline_spec real_tables term_id real_pname Alter.q Alter.q_eqb Alter.q_eqb_eq Alter.fstep Alter.ffinish Alter.alphabet
                         R R_closed A0 R_init lxs ls Hm Hal fos qf pfin Hf Hfin norm silent).
  rewrite (eval_app _ _ _ _ _ He). exact Hev.
Qed.

Lemma eval_reduce norm p r vs :
  eval norm (NReduce p :: r) vs = (do v <- action norm p (rev (firstn (prod_arity p) vs)); eval norm r (v :: skipn (prod_arity p) vs)).
Proof. reflexivity. Qed.
Lemma eval_accept norm v : eval norm [NAccept] [v] = Ok (Some v).
Proof. reflexivity. Qed.

(* evaluate the action at the head of an exec / eval in isolation (the rest of the trace is not touched) *)
Ltac solve_action :=
  first [ rewrite act_id'
        | rewrite act_ctype1 by assumption
        | rewrite act_col by assumption
        | erewrite act_col_sz1 by eassumption
        | match goal with
          | |- context [action ?n ?p ?a] =>
            let H := fresh "Hact" in
            eassert (H : action n p a = Ok _) by (unfold action, action_more; simpl; reflexivity);
            rewrite H; clear H
          end ].
Ltac stepA :=
  first [ rewrite exec_shift
        | rewrite exec_reduce; arities; cbn [firstn skipn rev app]; solve_action; cbn [bind]
        | rewrite eval_reduce; arities; cbn [firstn skipn rev app]; solve_action; cbn [bind] ].

Ltac conc :=
  unfold ASteps; eexists; split; [vm_compute; reflexivity|]; split; [reflexivity|].

Ltac split_wf H :=
  repeat match type of H with
         | (_ && _) = true => let H2 := fresh "Hw" in apply andb_true_iff in H; destruct H as [H H2]
         end.
Ltac kw_uppers :=
  repeat match goal with X : is_kw _ _ = true |- _ =>
           let Hu := fresh "Hu" in pose proof (is_kw_spec _ _ X) as [Hu _]; revert X end; intros.
Ltac rew_uppers := repeat match goal with Hu : upper _ = _ |- _ => rewrite Hu end.

Ltac fma :=
  repeat match goal with
         | |- Forall2 _ (_ :: _) (_ :: _) => constructor
         | |- Forall2 _ [] [] => constructor
         | |- matches (W _) (K _) => apply match_kw; assumption
         | |- matches (W _) G => apply match_plain; assumption
         | |- matches DOTL LDot => exact match_dot
         | |- matches LPx LPl => apply match_sym; tauto
         | |- matches RPx RPl => apply match_sym; tauto
         | |- matches CMx CMl => apply match_sym; tauto
         end.
Ltac inA := solve [unfold Alter.alphabet; repeat (first [left; reflexivity | right])].
Ltac falA := repeat match goal with |- Forall _ (_ :: _) => constructor | |- Forall _ [] => constructor end; try inA.

(* DROP COLUMN *)
Lemma alter_drop norm silent al tb sch nm d c x :
  Alter.wf norm (mkAlter al tb sch nm (BDrop d c x)) = true ->
  parse_lexemes norm silent (Alter.lexemes (mkAlter al tb sch nm (BDrop d c x))) = Ok (Some (Alter.denote norm (mkAlter al tb sch nm (BDrop d c x)))).
Proof.
  unfold Alter.wf. cbn [a_alter a_table a_schema a_name a_body wf_body]. intro H. split_wf H.
  repeat match goal with X : (_ && _) = true |- _ => split_wf X end. kw_uppers.
  unfold Alter.lexemes, Alter.denote.
  destruct sch as [s|]; cbn [a_alter a_table a_schema a_name a_body body_lexemes app].
  - eapply (alter_pipeline norm silent _ [K "ALTER"; K "TABLE"; G; LDot; G; K "DROP"; K "COLUMN"; G]%string).
    + conc. cbn [ntrace map app snd W DOTL apply_vtag]. rew_uppers. repeat stepA. rewrite exec_nil. reflexivity.
    + reflexivity.
    + cbn [map app]. repeat stepA. reflexivity.
    + fma.
    + falA.
  - eapply (alter_pipeline norm silent _ [K "ALTER"; K "TABLE"; G; K "DROP"; K "COLUMN"; G]%string).
    + conc. cbn [ntrace map app snd W DOTL apply_vtag]. rew_uppers. repeat stepA. rewrite exec_nil. reflexivity.
    + reflexivity.
    + cbn [map app]. repeat stepA. reflexivity.
    + fma.
    + falA.
Qed.

Ltac prep_wf norm H :=
  unfold Alter.wf in H; cbn [a_alter a_table a_schema a_name a_body wf_body] in H; split_wf H;
  repeat match goal with X : (_ && _) = true |- _ => split_wf X end;
  unfold is_type_word in *;
  repeat match goal with X : (_ && _) = true |- _ => split_wf X end;
  repeat match goal with X : negb _ = true |- _ => apply negb_true_iff in X end;
  repeat match goal with X : is_digits _ = true |- _ =>
           let E := fresh "En" in let N := fresh "Nu" in let z := fresh "z" in let Hz := fresh "Hz" in
           let Hpd := fresh "Hpd" in pose proof (plain_of_digits _ X) as Hpd;
           pose proof (is_digits_spec norm _ X) as [E [N [z Hz]]]; clear X end;
  kw_uppers.

Ltac bounded ls :=
  eapply (alter_pipeline _ _ _ ls);
  [ conc; cbn [ntrace map app snd W DOTL LPx RPx apply_vtag]; rewrite ?upper_rp, ?upper_comma; rew_uppers;
    repeat (stepA; repeat match goal with E : nms _ ?a = ?a |- _ => rewrite E end); rewrite exec_nil; reflexivity
  | reflexivity
  | cbn [map app mk_close];
    repeat (stepA; repeat match goal with E : nms _ ?a = ?a |- _ => rewrite E end);
    unfold plain_col, size_val; repeat match goal with E : int_of_string _ = Some _ |- _ => rewrite E end; reflexivity
  | fma
  | falA ].

Lemma alter_rename norm silent al tb sch nm r c a t b :
  Alter.wf norm (mkAlter al tb sch nm (BRename r c a t b)) = true ->
  parse_lexemes norm silent (Alter.lexemes (mkAlter al tb sch nm (BRename r c a t b)))
  = Ok (Some (Alter.denote norm (mkAlter al tb sch nm (BRename r c a t b)))).
Proof.
  intro H. prep_wf norm H. unfold Alter.lexemes, Alter.denote.
  destruct sch as [s|]; cbn [a_alter a_table a_schema a_name a_body body_lexemes app].
  - bounded [K "ALTER"; K "TABLE"; G; LDot; G; K "RENAME"; K "COLUMN"; G; G; G]%string.
  - bounded [K "ALTER"; K "TABLE"; G; K "RENAME"; K "COLUMN"; G; G; G]%string.
Qed.

Lemma alter_addcol norm silent al tb sch nm a n t :
  Alter.wf norm (mkAlter al tb sch nm (BAddCol a n t)) = true ->
  parse_lexemes norm silent (Alter.lexemes (mkAlter al tb sch nm (BAddCol a n t)))
  = Ok (Some (Alter.denote norm (mkAlter al tb sch nm (BAddCol a n t)))).
Proof.
  intro H. prep_wf norm H. unfold Alter.lexemes, Alter.denote.
  destruct sch as [s|]; cbn [a_alter a_table a_schema a_name a_body body_lexemes app].
  - bounded [K "ALTER"; K "TABLE"; G; LDot; G; K "ADD"; G; G]%string.
  - bounded [K "ALTER"; K "TABLE"; G; K "ADD"; G; G]%string.
Qed.

Lemma alter_modify norm silent al tb sch nm m n t sz :
  Alter.wf norm (mkAlter al tb sch nm (BModify m n t sz)) = true ->
  parse_lexemes norm silent (Alter.lexemes (mkAlter al tb sch nm (BModify m n t sz)))
  = Ok (Some (Alter.denote norm (mkAlter al tb sch nm (BModify m n t sz)))).
Proof.
  intro H. destruct m as [m1 m2|m1 m2|m1]; destruct sz as [z|]; prep_wf norm H; unfold Alter.lexemes, Alter.denote;
    destruct sch as [s|]; cbn [a_alter a_table a_schema a_name a_body body_lexemes app].
  - bounded [K "ALTER"; K "TABLE"; G; LDot; G; K "MODIFY"; K "COLUMN"; G; G; LPl; G; RPl]%string.
  - bounded [K "ALTER"; K "TABLE"; G; K "MODIFY"; K "COLUMN"; G; G; LPl; G; RPl]%string.
  - bounded [K "ALTER"; K "TABLE"; G; LDot; G; K "MODIFY"; K "COLUMN"; G; G]%string.
  - bounded [K "ALTER"; K "TABLE"; G; K "MODIFY"; K "COLUMN"; G; G]%string.
  - bounded [K "ALTER"; K "TABLE"; G; LDot; G; K "ALTER"; K "COLUMN"; G; G; LPl; G; RPl]%string.
  - bounded [K "ALTER"; K "TABLE"; G; K "ALTER"; K "COLUMN"; G; G; LPl; G; RPl]%string.
  - bounded [K "ALTER"; K "TABLE"; G; LDot; G; K "ALTER"; K "COLUMN"; G; G]%string.
  - bounded [K "ALTER"; K "TABLE"; G; K "ALTER"; K "COLUMN"; G; G]%string.
  - bounded [K "ALTER"; K "TABLE"; G; LDot; G; K "MODIFY"; G; G; LPl; G; RPl]%string.
  - bounded [K "ALTER"; K "TABLE"; G; K "MODIFY"; G; G; LPl; G; RPl]%string.
  - bounded [K "ALTER"; K "TABLE"; G; LDot; G; K "MODIFY"; G; G]%string.
  - bounded [K "ALTER"; K "TABLE"; G; K "MODIFY"; G; G]%string.
Qed.

