(* Facts about the LR driver model that hold for ALL tables, token lists and fuel. *)
From Coq Require Import String List ZArith NArith PArith Bool Lia.
From SDP Require Import Base PyStr LR.
Import ListNotations.
Open Scope list_scope.

Definition is_err (e : event) : bool :=
  match e with EError _ | EErrorEnd => true | _ => false end.
Definition has_error (l : list event) : bool := existsb is_err l.

Lemma has_error_app l1 l2 : has_error (l1 ++ l2) = has_error l1 || has_error l2.
Proof. apply existsb_app. Qed.
Lemma has_error_rev l : has_error (rev l) = has_error l.
Proof.
  induction l as [|e l IH]; simpl; [reflexivity|].
  rewrite has_error_app, IH. simpl. rewrite orb_false_r. apply orb_comm.
Qed.

(* the events a run adds to its accumulator *)
Lemma run_extends : forall fuel silent T st toks acc evs,
  run fuel silent T st toks acc = Ok evs -> exists new, evs = rev acc ++ new.
Proof.
  induction fuel as [|f IH]; intros silent T st toks acc evs H; simpl in H; [discriminate|].
  destruct toks as [|[t v] rest]; [discriminate|].
  destruct (decide T (top st) t) as [a|] eqn:D.
  - destruct (0 <? a)%Z.
    + apply IH in H. destruct H as [new ->]. simpl. exists (EShift t v :: new).
      rewrite <- app_assoc. reflexivity.
    + destruct (a <? 0)%Z.
      * destruct (t_prod T (Z.to_N (- a))) as [[lhs n]|]; [|discriminate].
        destruct lhs as [|l]; [discriminate|].
        destruct (t_goto T (top (skipn n st)) l); [|discriminate].
        apply IH in H. destruct H as [new ->]. simpl. exists (EReduce (Z.to_N (- a)) :: new).
        rewrite <- app_assoc. reflexivity.
      * inversion H; subst. simpl. exists [EAccept]. reflexivity.
  - destruct silent; [|discriminate].
    destruct (Pos.eqb t (t_end T)).
    + inversion H; subst. simpl. exists [EErrorEnd]. reflexivity.
    + apply IH in H. destruct H as [new ->]. simpl. exists (EError t :: new).
      rewrite <- app_assoc. reflexivity.
Qed.

(* 1. whatever the loud parser accepts, the silent parser accepts with the same trace *)
Lemma loud_ok_silent_same : forall fuel T st toks acc evs,
  run fuel false T st toks acc = Ok evs -> run fuel true T st toks acc = Ok evs.
Proof.
  induction fuel as [|f IH]; intros T st toks acc evs H; simpl in *; [discriminate|].
  destruct toks as [|[t v] rest]; [discriminate|].
  destruct (decide T (top st) t) as [a|]; [|discriminate].
  destruct (0 <? a)%Z; [apply IH; exact H|].
  destruct (a <? 0)%Z; [|exact H].
  destruct (t_prod T (Z.to_N (- a))) as [[lhs n]|]; [|discriminate].
  destruct lhs as [|l]; [discriminate|].
  destruct (t_goto T (top (skipn n st)) l); [|discriminate].
  apply IH; exact H.
Qed.

(* 2. a loud parse is error free *)
Lemma loud_ok_no_error : forall fuel T st toks acc evs,
  run fuel false T st toks acc = Ok evs -> has_error evs = has_error acc.
Proof.
  induction fuel as [|f IH]; intros T st toks acc evs H; simpl in *; [discriminate|].
  destruct toks as [|[t v] rest]; [discriminate|].
  destruct (decide T (top st) t) as [a|]; [|discriminate].
  destruct (0 <? a)%Z; [apply IH in H; rewrite H; reflexivity|].
  destruct (a <? 0)%Z.
  - destruct (t_prod T (Z.to_N (- a))) as [[lhs n]|]; [|discriminate].
    destruct lhs as [|l]; [discriminate|].
    destruct (t_goto T (top (skipn n st)) l); [|discriminate].
    apply IH in H; rewrite H; reflexivity.
  - inversion H; subst. rewrite has_error_app, has_error_rev. simpl. apply orb_false_r.
Qed.

(* 3. a silent parse whose new events contain no error is also what the loud parser does *)
Lemma silent_clean_loud_same : forall fuel T st toks acc evs,
  run fuel true T st toks acc = Ok evs -> has_error evs = has_error acc ->
  has_error acc = false ->
  run fuel false T st toks acc = Ok evs.
Proof.
  induction fuel as [|f IH]; intros T st toks acc evs H HE HA; simpl in *; [discriminate|].
  destruct toks as [|[t v] rest]; [discriminate|].
  destruct (decide T (top st) t) as [a|].
  - destruct (0 <? a)%Z; [apply IH; auto|].
    destruct (a <? 0)%Z; [|exact H].
    destruct (t_prod T (Z.to_N (- a))) as [[lhs n]|]; [|discriminate].
    destruct lhs as [|l]; [discriminate|].
    destruct (t_goto T (top (skipn n st)) l); [|discriminate].
    apply IH; auto.
  - exfalso. destruct (Pos.eqb t (t_end T)).
    + inversion H; subst. rewrite has_error_app, has_error_rev in HE. simpl in HE. rewrite HA in HE. discriminate.
    + pose proof (run_extends _ _ _ _ _ _ _ H) as [new ->].
      rewrite !has_error_app, has_error_rev in HE. simpl in HE. rewrite HA in HE. discriminate.
Qed.

(* 4. the loud parser raises only DDLParserError, and exactly when the silent one meets an error *)
Lemma loud_raise_is_ddl : forall fuel T st toks acc e,
  run fuel false T st toks acc = Raise e -> e = DDLParserError.
Proof.
  induction fuel as [|f IH]; intros T st toks acc e H; simpl in *; [discriminate|].
  destruct toks as [|[t v] rest]; [discriminate|].
  destruct (decide T (top st) t) as [a|]; [|inversion H; reflexivity].
  destruct (0 <? a)%Z; [eapply IH; eauto|].
  destruct (a <? 0)%Z; [|discriminate].
  destruct (t_prod T (Z.to_N (- a))) as [[lhs n]|]; [|discriminate].
  destruct lhs as [|l]; [discriminate|].
  destruct (t_goto T (top (skipn n st)) l); [|discriminate].
  eapply IH; eauto.
Qed.

Lemma loud_raise_silent_error : forall fuel T st toks acc e evs,
  run fuel false T st toks acc = Raise e ->
  run fuel true T st toks acc = Ok evs ->
  exists new, evs = rev acc ++ new /\ has_error new = true.
Proof.
  induction fuel as [|f IH]; intros T st toks acc e evs H HS; simpl in *; [discriminate|].
  destruct toks as [|[t v] rest]; [discriminate|].
  destruct (decide T (top st) t) as [a|].
  - destruct (0 <? a)%Z.
    + destruct (IH _ _ _ _ _ _ H HS) as [new [-> Hn]]. simpl.
      exists (EShift t v :: new). rewrite <- app_assoc. split; [reflexivity|exact Hn].
    + destruct (a <? 0)%Z; [|discriminate].
      destruct (t_prod T (Z.to_N (- a))) as [[lhs n]|]; [|discriminate].
      destruct lhs as [|l]; [discriminate|].
      destruct (t_goto T (top (skipn n st)) l); [|discriminate].
      destruct (IH _ _ _ _ _ _ H HS) as [new [-> Hn]]. simpl.
      exists (EReduce (Z.to_N (- a)) :: new). rewrite <- app_assoc. split; [reflexivity|exact Hn].
  - destruct (Pos.eqb t (t_end T)).
    + inversion HS; subst. simpl. exists [EErrorEnd]. split; reflexivity.
    + pose proof (run_extends _ _ _ _ _ _ _ HS) as [new ->]. simpl.
      exists (EError t :: new). rewrite <- app_assoc. split; reflexivity.
Qed.

Lemma silent_error_loud_raises : forall fuel T st toks acc evs new,
  run fuel true T st toks acc = Ok evs -> evs = rev acc ++ new -> has_error new = true ->
  run fuel false T st toks acc = Raise DDLParserError.
Proof.
  induction fuel as [|f IH]; intros T st toks acc evs new H HE HN; simpl in *; [discriminate|].
  destruct toks as [|[t v] rest]; [discriminate|].
  destruct (decide T (top st) t) as [a|]; [|reflexivity].
  destruct (0 <? a)%Z.
  - pose proof (run_extends _ _ _ _ _ _ _ H) as [new' E]. simpl in E.
    rewrite E in HE. rewrite <- app_assoc in HE. apply app_inv_head in HE. subst new.
    simpl in HN. eapply IH; [exact H| exact E | exact HN].
  - destruct (a <? 0)%Z.
    + destruct (t_prod T (Z.to_N (- a))) as [[lhs n]|]; [|discriminate].
      destruct lhs as [|l]; [discriminate|].
      destruct (t_goto T (top (skipn n st)) l); [|discriminate].
      pose proof (run_extends _ _ _ _ _ _ _ H) as [new' E]. simpl in E.
      rewrite E in HE. rewrite <- app_assoc in HE. apply app_inv_head in HE. subst new.
      simpl in HN. eapply IH; [exact H| exact E | exact HN].
    + inversion H as [H1]. rewrite HE in H1. apply app_inv_head in H1. subst new. discriminate.
Qed.

(* silent never raises *)
Lemma silent_never_raises : forall fuel T st toks acc e,
  run fuel true T st toks acc <> Raise e.
Proof.
  induction fuel as [|f IH]; intros T st toks acc e H; simpl in *; [discriminate|].
  destruct toks as [|[t v] rest]; [discriminate|].
  destruct (decide T (top st) t) as [a|].
  - destruct (0 <? a)%Z; [eapply IH; eauto|].
    destruct (a <? 0)%Z; [|discriminate].
    destruct (t_prod T (Z.to_N (- a))) as [[lhs n]|]; [|discriminate].
    destruct lhs as [|l]; [discriminate|].
    destruct (t_goto T (top (skipn n st)) l); [|discriminate].
    eapply IH; eauto.
  - destruct (Pos.eqb t (t_end T)); [discriminate|]. eapply IH; eauto.
Qed.
