(* Facts about the LR driver model that hold for ALL tables, token lists and fuel. *)
From Coq Require Import String List ZArith NArith PArith Bool Lia.
From SDP Require Import Base PyStr LR.
Import ListNotations.
Open Scope list_scope.

Definition is_err (e : event) : bool :=
  match e with EError _ | EErrorEnd => true | _ => false end.
Definition has_error (l : list event) : bool := existsb is_err l.

Lemma has_error_app l1 l2 : has_error (l1 ++ l2) = has_error l1 || has_error l2.
Proof. apply existsb_app. Qed.
Lemma has_error_rev l : has_error (rev l) = has_error l.
Proof.
  induction l as [|e l IH]; simpl; [reflexivity|].
  rewrite has_error_app, IH. simpl. rewrite orb_false_r. apply orb_comm.
Qed.

(* feed only adds reductions *)
Lemma feed_extends : forall fuel T st t acc r,
  feed fuel T st t acc = Ok r ->
  exists new, has_error new = false /\
    match r with FShift _ a | FAccept a | FErr a => a = new ++ acc end.
Proof.
  induction fuel as [|f IH]; intros T st t acc r H; simpl in H; [discriminate|].
  destruct (decide T (top st) t) as [a|].
  - destruct (0 <? a)%Z; [inversion H; subst; exists []; split; reflexivity|].
    destruct (a <? 0)%Z; [|inversion H; subst; exists []; split; reflexivity].
    destruct (t_prod T (Z.to_N (- a))) as [[lhs n]|]; [|discriminate].
    destruct lhs as [|l]; [discriminate|].
    destruct (t_goto T (top (skipn n st)) l); [|discriminate].
    apply IH in H. destruct H as [new [Hn Hr]].
    exists (new ++ [EReduce (Z.to_N (- a))]). split.
    + rewrite has_error_app, Hn. reflexivity.
    + destruct r; subst; rewrite <- app_assoc; reflexivity.
  - inversion H; subst. exists []. split; reflexivity.
Qed.

Lemma feed_never_raises : forall fuel T st t acc e, feed fuel T st t acc <> Raise e.
Proof.
  induction fuel as [|f IH]; intros T st t acc e H; simpl in H; [discriminate|].
  destruct (decide T (top st) t) as [a|]; [|discriminate].
  destruct (0 <? a)%Z; [discriminate|]. destruct (a <? 0)%Z; [|discriminate].
  destruct (t_prod T (Z.to_N (- a))) as [[lhs n]|]; [|discriminate].
  destruct lhs as [|l]; [discriminate|].
  destruct (t_goto T (top (skipn n st)) l); [|discriminate].
  eapply IH; eauto.
Qed.

(* the events a run adds to its accumulator *)
Lemma run_extends : forall silent T toks st acc evs,
  run silent T st toks acc = Ok evs -> exists new, evs = rev acc ++ new.
Proof.
  intros silent T toks. induction toks as [|[t v] rest IH]; intros st acc evs H; cbn [run] in H; [discriminate|].
  destruct (feed feed_fuel T st t acc) as [r| | |] eqn:F; try discriminate.
  destruct (feed_extends _ _ _ _ _ _ F) as [new [_ Hr]].
  destruct r as [st' a|a|a]; subst a.
  - apply IH in H. destruct H as [n2 ->]. simpl. rewrite rev_app_distr. rewrite <- !app_assoc. eexists; reflexivity.
  - assert (E : evs = rev (EAccept :: new ++ acc)) by congruence. rewrite E.
    simpl. rewrite rev_app_distr. rewrite <- !app_assoc. eexists; reflexivity.
  - destruct silent; [|discriminate]. destruct (Pos.eqb t (t_end T)).
    + assert (E : evs = rev (EErrorEnd :: new ++ acc)) by congruence. rewrite E.
      simpl. rewrite rev_app_distr. rewrite <- !app_assoc. eexists; reflexivity.
    + apply IH in H. destruct H as [n2 ->]. simpl. rewrite rev_app_distr. rewrite <- !app_assoc. eexists; reflexivity.
Qed.

(* 1. whatever the loud parser accepts, the silent parser accepts with the same trace *)
Lemma loud_ok_silent_same : forall T toks st acc evs,
  run false T st toks acc = Ok evs -> run true T st toks acc = Ok evs.
Proof.
  intros T toks. induction toks as [|[t v] rest IH]; intros st acc evs H; cbn [run] in *; [discriminate|].
  destruct (feed feed_fuel T st t acc) as [r| | |]; try discriminate.
  destruct r as [st' a|a|a]; [apply IH; exact H | exact H | discriminate].
Qed.

(* 2. a loud parse is error free *)
Lemma loud_ok_no_error : forall T toks st acc evs,
  run false T st toks acc = Ok evs -> has_error evs = has_error acc.
Proof.
  intros T toks. induction toks as [|[t v] rest IH]; intros st acc evs H; cbn [run] in *; [discriminate|].
  destruct (feed feed_fuel T st t acc) as [r| | |] eqn:F; try discriminate.
  destruct (feed_extends _ _ _ _ _ _ F) as [new [Hn Hr]].
  destruct r as [st' a|a|a]; subst a; [| |discriminate].
  - apply IH in H. rewrite H. simpl. rewrite has_error_app, Hn. reflexivity.
  - assert (E : evs = rev (EAccept :: new ++ acc)) by congruence. rewrite E.
    rewrite has_error_rev. simpl. rewrite has_error_app, Hn. reflexivity.
Qed.

Lemma has_error_rev_cons_err e a : is_err e = true -> has_error (rev (e :: a)) = true.
Proof. intro H. rewrite has_error_rev. simpl. rewrite H. reflexivity. Qed.

(* 3. a silent parse whose trace contains no error is also what the loud parser does *)
Lemma silent_clean_loud_same : forall T toks st acc evs,
  run true T st toks acc = Ok evs -> has_error evs = false ->
  run false T st toks acc = Ok evs.
Proof.
  intros T toks. induction toks as [|[t v] rest IH]; intros st acc evs H HE; cbn [run] in *; [discriminate|].
  destruct (feed feed_fuel T st t acc) as [r| | |] eqn:F; try discriminate.
  destruct r as [st' a|a|a].
  - apply IH; assumption.
  - exact H.
  - exfalso. destruct (Pos.eqb t (t_end T)).
    + assert (E : evs = rev (EErrorEnd :: a)) by congruence. rewrite E in HE.
      rewrite has_error_rev_cons_err in HE; [discriminate|reflexivity].
    + pose proof (run_extends _ _ _ _ _ _ H) as [new ->].
      rewrite has_error_app, has_error_rev_cons_err in HE; [discriminate|reflexivity].
Qed.

(* 4. the loud parser raises only DDLParserError *)
Lemma loud_raise_is_ddl : forall T toks st acc e,
  run false T st toks acc = Raise e -> e = DDLParserError.
Proof.
  intros T toks. induction toks as [|[t v] rest IH]; intros st acc e H; cbn [run] in *; [discriminate|].
  destruct (feed feed_fuel T st t acc) as [r|e'| |] eqn:F; try discriminate.
  - destruct r as [st' a|a|a]; [eapply IH; eauto | discriminate | inversion H; reflexivity].
  - exfalso. eapply feed_never_raises; eauto.
Qed.

(* 5. ... and when it does, the silent trace contains a recovery step *)
Lemma loud_raise_silent_error : forall T toks st acc e evs,
  run false T st toks acc = Raise e -> run true T st toks acc = Ok evs -> has_error evs = true.
Proof.
  intros T toks. induction toks as [|[t v] rest IH]; intros st acc e evs H HS; cbn [run] in *; [discriminate|].
  destruct (feed feed_fuel T st t acc) as [r| | |] eqn:F; try discriminate.
  destruct r as [st' a|a|a].
  - eapply IH; eauto.
  - discriminate.
  - destruct (Pos.eqb t (t_end T)).
    + assert (E : evs = rev (EErrorEnd :: a)) by congruence. rewrite E. apply has_error_rev_cons_err. reflexivity.
    + pose proof (run_extends _ _ _ _ _ _ HS) as [new ->].
      rewrite has_error_app, has_error_rev_cons_err; reflexivity.
Qed.

(* 6. conversely a recovery step in the silent trace means the loud parser raises *)
Lemma silent_error_loud_raises : forall T toks st acc evs,
  run true T st toks acc = Ok evs -> has_error acc = false -> has_error evs = true ->
  run false T st toks acc = Raise DDLParserError.
Proof.
  intros T toks. induction toks as [|[t v] rest IH]; intros st acc evs H HA HE; cbn [run] in *; [discriminate|].
  destruct (feed feed_fuel T st t acc) as [r| | |] eqn:F; try discriminate.
  destruct (feed_extends _ _ _ _ _ _ F) as [new [Hn Hr]].
  destruct r as [st' a|a|a]; subst a.
  - eapply IH; [exact H | | exact HE]. simpl. rewrite has_error_app, Hn, HA. reflexivity.
  - exfalso. assert (E : evs = rev (EAccept :: new ++ acc)) by congruence. rewrite E in HE.
    rewrite has_error_rev in HE. simpl in HE. rewrite has_error_app, Hn, HA in HE. discriminate.
  - reflexivity.
Qed.

(* silent never raises *)
Lemma silent_never_raises : forall T toks st acc e,
  run true T st toks acc <> Raise e.
Proof.
  intros T toks. induction toks as [|[t v] rest IH]; intros st acc e H; cbn [run] in *; [discriminate|].
  destruct (feed feed_fuel T st t acc) as [r|e'| |] eqn:F; try discriminate.
  - destruct r as [st' a|a|a]; [eapply IH; eauto | discriminate |].
    destruct (Pos.eqb t (t_end T)); [discriminate | eapply IH; eauto].
  - eapply feed_never_raises; eauto.
Qed.
