(* C06: p_id — verbatim without normalize_names; with it, exactly one pair of outer delimiters is removed. *)
From Coq Require Import String Ascii List ZArith NArith Bool Lia.
From SDP Require Import Base PyStr Actions.
Import ListNotations.
Open Scope string_scope.

Lemma take_app_exact x y : take (String.length x) (x ++ y) = x.
Proof. induction x as [|c r IH]; simpl; [destruct y; reflexivity|]. rewrite IH. reflexivity. Qed.
Lemma length_app x y : String.length (x ++ y) = (String.length x + String.length y)%nat.
Proof. induction x as [|c r IH]; simpl; auto. Qed.
Lemma s2l_app x y : s2l (x ++ y) = (s2l x ++ s2l y)%list.
Proof. induction x as [|c r IH]; simpl; [reflexivity|]. unfold s2l in *. simpl. rewrite IH. reflexivity. Qed.
Lemma last_char_snoc x c : last_char (x ++ String c "") = Some c.
Proof. unfold last_char. rewrite s2l_app. simpl. rewrite rev_app_distr. reflexivity. Qed.

Definition is_id_delim (c : ascii) : bool :=
  Ascii.eqb c "`"%char || Ascii.eqb c """"%char || Ascii.eqb c "["%char || Ascii.eqb c "]"%char.
Definition first_is_delim (s : string) : bool := match s with String c _ => is_id_delim c | _ => false end.

Definition hit (s : string) (a b : ascii) : bool :=
  (match first_c s with Some c => Ascii.eqb c a | None => false end)
  && (match last_char s with Some c => Ascii.eqb c b | None => false end).
Definition strip1 (s : string) : string := take (String.length s - 2) (drop 1 s).

Lemma normalize_id_unfold s :
  normalize_id s = if (2 <? String.length s)%nat
                   then if hit s "`"%char "`"%char then strip1 s
                        else if hit s """"%char """"%char then strip1 s
                        else if hit s "["%char "]"%char then strip1 s else s
                   else s.
Proof. reflexivity. Qed.

(* a name that does not start with a delimiter is left alone *)
Lemma hit_no_delim s a b : first_is_delim s = false -> is_id_delim a = true -> hit s a b = false.
Proof.
  unfold hit, first_is_delim. destruct s as [|c r]; simpl; [reflexivity|]. intros Hc Ha.
  destruct (Ascii.eqb_spec c a) as [->|_]; [congruence|reflexivity].
Qed.
Theorem normalize_plain : forall s, first_is_delim s = false -> normalize_id s = s.
Proof.
  intros s H. rewrite normalize_id_unfold. destruct (2 <? String.length s)%nat; [|reflexivity].
  rewrite (hit_no_delim s "`" "`" H eq_refl), (hit_no_delim s """" """" H eq_refl), (hit_no_delim s "[" "]" H eq_refl).
  reflexivity.
Qed.

Lemma hit_pair q q' x : hit (String q (x ++ String q' "")) q q' = true.
Proof.
  unfold hit. cbn [first_c]. rewrite Ascii.eqb_refl.
  assert (E : last_char (String q (x ++ String q' "")) = Some q').
  { change (String q (x ++ String q' "")) with ((String q x) ++ String q' ""). apply last_char_snoc. }
  rewrite E, Ascii.eqb_refl. reflexivity.
Qed.
Lemma hit_other_first c r a b : Ascii.eqb c a = false -> hit (String c r) a b = false.
Proof. intro H. unfold hit. cbn [first_c]. rewrite H. reflexivity. Qed.
Lemma strip1_pair q q' x : strip1 (String q (x ++ String q' "")) = x.
Proof.
  unfold strip1. cbn [drop String.length]. rewrite length_app. cbn [String.length].
  replace (S (String.length x + 1) - 2)%nat with (String.length x) by lia. apply take_app_exact.
Qed.

(* EXACTLY one pair of outer delimiters is removed, whatever the name inside looks like (it may itself be delimited) *)
Theorem normalize_strips_one_pair : forall q q' x,
  (q = "`"%char /\ q' = "`"%char) \/ (q = """"%char /\ q' = """"%char) \/ (q = "["%char /\ q' = "]"%char) ->
  x <> "" -> normalize_id (String q (x ++ String q' "")) = x.
Proof.
  intros q q' x Hq Hne. rewrite normalize_id_unfold.
  assert (Hl : (2 <? String.length (String q (x ++ String q' "")))%nat = true).
  { simpl. rewrite length_app. simpl. destruct x; [congruence|]. simpl. apply Nat.ltb_lt. lia. }
  rewrite Hl.
  destruct Hq as [[-> ->]|[[-> ->]|[-> ->]]].
  - rewrite hit_pair. apply strip1_pair.
  - rewrite (hit_other_first """" _ "`" "`" eq_refl), hit_pair. apply strip1_pair.
  - rewrite (hit_other_first "[" _ "`" "`" eq_refl), (hit_other_first "[" _ """" """" eq_refl), hit_pair. apply strip1_pair.
Qed.

(* the p_id action *)
Theorem p_id_verbatim : forall s, action false "id -> ID" [PStr s] = Ok (PStr s) /\ action false "id -> DQ_STRING" [PStr s] = Ok (PStr s).
Proof. intro s. split; reflexivity. Qed.
Theorem p_id_normalized : forall s, action true "id -> ID" [PStr s] = Ok (PStr (normalize_id s)) /\
                                    action true "id -> DQ_STRING" [PStr s] = Ok (PStr (normalize_id s)).
Proof. intro s. split; reflexivity. Qed.
