(* C06: p_id — verbatim without normalize_names; with it, exactly one pair of outer delimiters is removed. *)
From Coq Require Import String Ascii List ZArith NArith Bool Lia.
From SDP Require Import Base PyStr Actions.
Import ListNotations.
Open Scope string_scope.

Lemma take_app_exact x y : take (String.length x) (x ++ y) = x.
Proof. induction x as [|c r IH]; simpl; [destruct y; reflexivity|]. rewrite IH. reflexivity. Qed.
Lemma length_app x y : String.length (x ++ y) = (String.length x + String.length y)%nat.
Proof. induction x as [|c r IH]; simpl; auto. Qed.
Lemma s2l_app x y : s2l (x ++ y) = (s2l x ++ s2l y)%list.
Proof. induction x as [|c r IH]; simpl; [reflexivity|]. unfold s2l in *. simpl. rewrite IH. reflexivity. Qed.
Lemma last_char_snoc x c : last_char (x ++ String c "") = Some c.
Proof. unfold last_char. rewrite s2l_app. simpl. rewrite rev_app_distr. reflexivity. Qed.

Definition is_id_delim (c : ascii) : bool :=
  Ascii.eqb c "`"%char || Ascii.eqb c """"%char || Ascii.eqb c "["%char || Ascii.eqb c "]"%char.
Definition first_is_delim (s : string) : bool := match s with String c _ => is_id_delim c | _ => false end.

Definition step (s : string) (a b : ascii) : string :=
  if (match first_c s with Some c => Ascii.eqb c a | None => false end)
     && (match last_char s with Some c => Ascii.eqb c b | None => false end)
  then take (String.length s - 2) (drop 1 s) else s.

Lemma normalize_id_unfold s :
  normalize_id s = if (2 <? String.length s)%nat
                   then step (step (step s "`"%char "`"%char) """"%char """"%char) "["%char "]"%char else s.
Proof. reflexivity. Qed.

(* a name that does not start with a delimiter is left alone *)
Lemma step_no_delim s a b : first_is_delim s = false -> is_id_delim a = true -> step s a b = s.
Proof.
  unfold step, first_is_delim. destruct s as [|c r]; simpl; [reflexivity|]. intros Hc Ha.
  destruct (Ascii.eqb_spec c a) as [->|_]; [congruence|reflexivity].
Qed.
Lemma step_other_first c r a b : Ascii.eqb c a = false -> step (String c r) a b = String c r.
Proof. intro H. unfold step. cbn [first_c]. rewrite H. reflexivity. Qed.

Theorem normalize_plain : forall s, first_is_delim s = false -> normalize_id s = s.
Proof.
  intros s H. rewrite normalize_id_unfold. destruct (2 <? String.length s)%nat; [|reflexivity].
  rewrite (step_no_delim s "`" "`" H eq_refl), (step_no_delim s """" """" H eq_refl), (step_no_delim s "[" "]" H eq_refl).
  reflexivity.
Qed.

(* one pair of outer delimiters around a non-empty name that does not itself start with a delimiter *)
Lemma step_strip q q' x : step (String q (x ++ String q' "")) q q' = x.
Proof.
  unfold step. cbn [first_c]. rewrite Ascii.eqb_refl.
  assert (E : last_char (String q (x ++ String q' "")) = Some q').
  { change (String q (x ++ String q' "")) with ((String q x) ++ String q' ""). apply last_char_snoc. }
  rewrite E, Ascii.eqb_refl. cbn [andb drop String.length].
  rewrite length_app. cbn [String.length]. replace (S (String.length x + 1) - 2)%nat with (String.length x) by lia.
  apply take_app_exact.
Qed.

Theorem normalize_strips_one_pair : forall q q' x,
  (q = "`"%char /\ q' = "`"%char) \/ (q = """"%char /\ q' = """"%char) \/ (q = "["%char /\ q' = "]"%char) ->
  x <> "" -> first_is_delim x = false ->
  normalize_id (String q (x ++ String q' "")) = x.
Proof.
  intros q q' x Hq Hne Hx. rewrite normalize_id_unfold.
  assert (Hl : (2 <? String.length (String q (x ++ String q' "")))%nat = true).
  { simpl. rewrite length_app. simpl. destruct x; [congruence|]. simpl. apply Nat.ltb_lt. lia. }
  rewrite Hl.
  destruct Hq as [[-> ->]|[[-> ->]|[-> ->]]].
  - rewrite step_strip. rewrite (step_no_delim x """" """" Hx eq_refl), (step_no_delim x "[" "]" Hx eq_refl). reflexivity.
  - rewrite (step_other_first """" _ "`" "`" eq_refl).
    rewrite step_strip. rewrite (step_no_delim x "[" "]" Hx eq_refl). reflexivity.
  - rewrite (step_other_first "[" _ "`" "`" eq_refl).
    rewrite (step_other_first "[" _ """" """" eq_refl).
    apply step_strip.
Qed.

(* the p_id action *)
Theorem p_id_verbatim : forall s, action false "id -> ID" [PStr s] = Ok (PStr s) /\ action false "id -> DQ_STRING" [PStr s] = Ok (PStr s).
Proof. intro s. split; reflexivity. Qed.
Theorem p_id_normalized : forall s, action true "id -> ID" [PStr s] = Ok (PStr (normalize_id s)) /\
                                    action true "id -> DQ_STRING" [PStr s] = Ok (PStr (normalize_id s)).
Proof. intro s. split; reflexivity. Qed.
