(* Layer E facts about Model/Output.v, universal over parser outputs / registries / column lists. *)
From Coq Require Import String Ascii List ZArith NArith Bool Lia.
From SDP Require Import Base PyStr Actions Output.
Import ListNotations.
Open Scope list_scope.

(* ---------- normalize_name: quoting and letter case do not matter ----------------------------- *)
Lemma sfilter_app f a b : sfilter f (a ++ b)%string = (sfilter f a ++ sfilter f b)%string.
Proof. induction a as [|c r IH]; simpl; [reflexivity|]. destruct (f c); simpl; rewrite IH; reflexivity. Qed.
Lemma smap_app f a b : smap f (a ++ b)%string = (smap f a ++ smap f b)%string.
Proof. induction a as [|c r IH]; simpl; [reflexivity|]. rewrite IH. reflexivity. Qed.

Lemma normalize_name_app a b : normalize_name (a ++ b)%string = (normalize_name a ++ normalize_name b)%string.
Proof. unfold normalize_name, lower. rewrite sfilter_app, smap_app. reflexivity. Qed.

Definition all_delims (s : string) : bool := sforall is_delim s.
Lemma normalize_name_delims s : all_delims s = true -> normalize_name s = ""%string.
Proof.
  unfold normalize_name, all_delims. induction s as [|c r IH]; simpl; [reflexivity|].
  intro H. apply andb_true_iff in H. destruct H as [H1 H2]. rewrite H1. simpl. apply IH. exact H2.
Qed.

(* wrapping a name in any delimiters ([..], "..", `..`, nested, unbalanced) does not change its id *)
Theorem normalize_name_quoted : forall q1 s q2, all_delims q1 = true -> all_delims q2 = true ->
  normalize_name (q1 ++ s ++ q2)%string = normalize_name s.
Proof.
  intros q1 s q2 H1 H2. rewrite !normalize_name_app, (normalize_name_delims _ H1), (normalize_name_delims _ H2).
  simpl. clear. induction (normalize_name s) as [|c r IH]; simpl; [reflexivity|]. rewrite IH. reflexivity.
Qed.

Lemma lower_upper_c c : lower_c (upper_c c) = lower_c c.
Proof. destruct c as [[] [] [] [] [] [] [] []]; reflexivity. Qed.
Lemma lower_lower_c c : lower_c (lower_c c) = lower_c c.
Proof. destruct c as [[] [] [] [] [] [] [] []]; reflexivity. Qed.
Lemma is_delim_upper c : is_delim (upper_c c) = is_delim c.
Proof. destruct c as [[] [] [] [] [] [] [] []]; reflexivity. Qed.
Lemma is_delim_lower c : is_delim (lower_c c) = is_delim c.
Proof. destruct c as [[] [] [] [] [] [] [] []]; reflexivity. Qed.

Theorem normalize_name_upper s : normalize_name (upper s) = normalize_name s.
Proof.
  unfold normalize_name, upper, lower. induction s as [|c r IH]; simpl; [reflexivity|].
  rewrite is_delim_upper. destruct (is_delim c); simpl; [exact IH|]. rewrite lower_upper_c, IH. reflexivity.
Qed.
Theorem normalize_name_lower s : normalize_name (lower s) = normalize_name s.
Proof.
  unfold normalize_name, lower. induction s as [|c r IH]; simpl; [reflexivity|].
  rewrite is_delim_lower. destruct (is_delim c); simpl; [exact IH|]. rewrite lower_lower_c, IH. reflexivity.
Qed.

(* ---------- list surgery -------------------------------------------------------------------------- *)
Lemma nth_error_set_nth_other {A} (l : list A) i j v : i <> j -> nth_error (set_nth l i v) j = nth_error l j.
Proof.
  revert i j; induction l as [|x r IH]; intros [|i] [|j] H; simpl; try reflexivity; try congruence.
  apply IH. congruence.
Qed.
Lemma length_set_nth {A} (l : list A) i v : List.length (set_nth l i v) = List.length l.
Proof. revert i; induction l as [|x r IH]; intros [|i]; simpl; auto. Qed.

(* ---------- routing: an ALTER / CREATE INDEX step touches only the table registered under its id ----- *)
Definition is_alter_or_index (stmt : dict) : bool := dict_has stmt "index_name" || dict_has stmt "alter_table_name".

Lemma get_table_spec st sch tn i t :
  get_table_from_tables_data st sch tn = Ok (i, t) ->
  exists id, get_table_id sch tn = Ok id /\ lookup_table (o_registry st) id = Some i /\ nth_error (o_tables st) i = Some t.
Proof.
  unfold get_table_from_tables_data. destruct (get_table_id sch tn) as [id| | |]; simpl; try discriminate.
  destruct (lookup_table (o_registry st) id) as [k|] eqn:L; [|discriminate].
  destruct (nth_error (o_tables st) k) as [t'|] eqn:N; [|discriminate].
  intro H. inversion H; subst. eauto.
Qed.

Theorem missing_table_raises st sch tn id :
  get_table_id sch tn = Ok id -> lookup_table (o_registry st) id = None ->
  get_table_from_tables_data st sch tn = Raise ValueError.
Proof. intros H1 H2. unfold get_table_from_tables_data. rewrite H1. simpl. rewrite H2. reflexivity. Qed.

Ltac res_cases H :=
  repeat match type of H with
         | bind ?x _ = _ => let E := fresh "E" in destruct x eqn:E; cbn [bind] in H; try discriminate
         | match ?x with _ => _ end = _ => let E := fresh "E" in destruct x eqn:E; try discriminate
         | (if ?c then _ else _) = _ => let E := fresh "E" in destruct c eqn:E; try discriminate
         end.

Theorem alter_index_only_target : forall mode st stmt_v st' stmt,
  stmt_v = PDict stmt -> is_alter_or_index stmt = true ->
  step mode st stmt_v = Ok st' ->
  o_result st' = o_result st /\ o_registry st' = o_registry st /\
  List.length (o_tables st') = List.length (o_tables st) /\
  (st' = st \/
   exists i t sch tn id,
     get_table_id sch tn = Ok id /\ lookup_table (o_registry st) id = Some i /\ nth_error (o_tables st) i = Some t /\
     forall j, j <> i -> nth_error (o_tables st') j = nth_error (o_tables st) j).
Proof.
  intros mode st stmt_v st' stmt -> Hai H. unfold step in H.
  destruct (mode_info mode) as [[hooks fs]|]; [|discriminate]. cbn [bind] in H.
  unfold is_alter_or_index in Hai. rewrite Hai in H.
  destruct (truthy (get_or_none stmt "index_name")) eqn:Ti.
  - (* index *)
    res_cases H.
    match goal with
    | [ X : get_table_from_tables_data _ _ _ = Ok (_, _) |- _ ] => apply get_table_spec in X; destruct X as [id [X1 [X2 X3]]]
    end.
    res_cases H; inversion H; subst; simpl; rewrite length_set_nth;
      (repeat split; try reflexivity; right; do 5 eexists; repeat split; eauto;
       intros j Hj; apply nth_error_set_nth_other; congruence).
  - destruct (truthy (get_or_none stmt "alter_table_name")) eqn:Ta.
    + res_cases H.
      match goal with
      | [ X : get_table_from_tables_data _ _ _ = Ok (_, _) |- _ ] => apply get_table_spec in X; destruct X as [id [X1 [X2 X3]]]
      end.
      res_cases H. inversion H; subst; simpl; rewrite length_set_nth.
      repeat split; try reflexivity. right. do 5 eexists. repeat split; eauto.
      intros j Hj. apply nth_error_set_nth_other. congruence.
    + inversion H; subst. repeat split; auto.
Qed.

(* creating a table never touches the tables already emitted *)
Theorem create_leaves_others : forall mode st stmt_v st' stmt,
  stmt_v = PDict stmt -> is_alter_or_index stmt = false -> step mode st stmt_v = Ok st' ->
  forall j, j < List.length (o_tables st) -> nth_error (o_tables st') j = nth_error (o_tables st) j.
Proof.
  intros mode st stmt_v st' stmt -> Hai H j Hj. unfold step in H.
  destruct (mode_info mode) as [[hooks fs]|]; [|discriminate]. cbn [bind] in H.
  unfold is_alter_or_index in Hai. rewrite Hai in H.
  destruct (truthy (get_or_none stmt "table_name")).
  - res_cases H. inversion H; subst. simpl. apply nth_error_app1. exact Hj.
  - res_cases H; inversion H; subst; reflexivity.
Qed.

(* ---------- effects on columns -------------------------------------------------------------------- *)
Lemma mapM_map {A B} (f : A -> res B) (g : A -> B) l :
  (forall x, In x l -> f x = Ok (g x)) -> mapM f l = Ok (map g l).
Proof.
  induction l as [|x r IH]; simpl; intro H; [reflexivity|].
  rewrite (H x (or_introl eq_refl)). simpl. rewrite IH; [reflexivity|]. intros y Hy. apply H. right. exact Hy.
Qed.

(* a column entry: a dict with a name *)
Definition col_ok (c : pyval) : Prop := exists d n, c = PDict d /\ dict_get d "name" = Some n.
Definition col_name (c : pyval) : pyval :=
  match c with PDict d => get_or_none d "name" | _ => PNone end.
Definition col_upd (k : string) (v : pyval) (c : pyval) : pyval :=
  match c with PDict d => PDict (dict_set d k v) | _ => c end.

Lemma col_get_name c : col_ok c -> col_get c "name" = Ok (col_name c).
Proof.
  intros [d [n [-> Hn]]]. unfold col_get, col_name, getitem, get_or_none. simpl. rewrite Hn. reflexivity.
Qed.
Lemma col_set_upd c k v : col_ok c -> col_set c k v = Ok (col_upd k v c).
Proof. intros [d [n [-> Hn]]]. reflexivity. Qed.

(* ALTER ... ADD DEFAULT v FOR c1, c2, ... : EVERY listed column gets the default, no other column changes *)
Theorem alter_default_every_listed_column : forall t stmt dflt dcols v cols,
  getitem stmt "default" = Ok (PDict dflt) -> getitem dflt "columns" = Ok (PList dcols) -> dcols <> [] ->
  getitem dflt "value" = Ok v ->
  tget t "columns" = PList cols -> cols <> [] -> Forall col_ok cols ->
  set_default_columns_from_alter t stmt =
  Ok (dict_set t "columns"
               (PList (map (fun c => if py_in_list (col_name c) dcols then col_upd "default" v c else c) cols))).
Proof.
  intros t stmt dflt dcols v cols H1 H2 Hne H3 Hc Hcne Hok.
  unfold set_default_columns_from_alter. rewrite Hc. cbn [as_list bind].
  destruct cols as [|c0 cr]; [congruence|].
  rewrite H1. cbn [bind as_dict']. rewrite H2. cbn [bind].
  destruct dcols as [|d0 dr]; [congruence|]. cbn [truthy seq_of bind]. rewrite H3. cbn [bind].
  rewrite (mapM_map _ (fun c => if py_in_list (col_name c) (d0 :: dr) then col_upd "default" v c else c)).
  - reflexivity.
  - intros x Hx. rewrite Forall_forall in Hok. specialize (Hok x Hx).
    rewrite (col_get_name x Hok). cbn [bind].
    destruct (py_in_list (col_name x) (d0 :: dr)); [apply col_set_upd; exact Hok|reflexivity].
Qed.

(* ALTER ... ADD UNIQUE (c1, ..., ck): k <> 1 never flags a column *)
Theorem alter_unique_multi_never_flags : forall t stmt u ucols cols,
  getitem stmt "unique" = Ok (PDict u) -> getitem u "columns" = Ok (PList ucols) ->
  List.length ucols <> 1 -> tget t "columns" = PList cols ->
  set_unique_columns_from_alter t stmt = Ok t.
Proof.
  intros t stmt u ucols cols H1 H2 Hl Hc. unfold set_unique_columns_from_alter. rewrite Hc. cbn [as_list bind].
  destruct cols; [reflexivity|]. rewrite H1. cbn [bind as_dict']. rewrite H2. cbn [bind seq_of].
  destruct (Nat.eqb (List.length ucols) 1) eqn:E; [apply Nat.eqb_eq in E; congruence|reflexivity].
Qed.
(* ... and a single-column one flags exactly the named column *)
Theorem alter_unique_single_flags : forall t stmt u x cols,
  getitem stmt "unique" = Ok (PDict u) -> getitem u "columns" = Ok (PList [x]) ->
  tget t "columns" = PList cols -> cols <> [] -> Forall col_ok cols ->
  set_unique_columns_from_alter t stmt =
  Ok (dict_set t "columns" (PList (map (fun c => if py_in_list (col_name c) [x] then col_upd "unique" (PBool true) c else c) cols))).
Proof.
  intros t stmt u x cols H1 H2 Hc Hne Hok. unfold set_unique_columns_from_alter. rewrite Hc. cbn [as_list bind].
  destruct cols as [|c0 cr]; [congruence|]. rewrite H1. cbn [bind as_dict']. rewrite H2. cbn [bind seq_of List.length Nat.eqb].
  rewrite (mapM_map _ (fun c => if py_in_list (col_name c) [x] then col_upd "unique" (PBool true) c else c)).
  - reflexivity.
  - intros y Hy. rewrite Forall_forall in Hok. specialize (Hok y Hy). rewrite (col_get_name y Hok). cbn [bind].
    destruct (py_in_list (col_name y) [x]); [apply col_set_upd; exact Hok|reflexivity].
Qed.

(* table-level UNIQUE (c1, ..., ck) / constraint unique with k <> 1 never flags a column individually *)
Theorem unique_statement_multi_never_flags : forall obj cl cols,
  get_or_none obj "unique_statement" = PList cl -> List.length cl <> 1 ->
  get_or_none obj "columns" = PList cols -> Forall col_ok cols ->
  set_column_unique_param obj "unique_statement" = Ok (dict_set obj "columns" (PList cols)).
Proof.
  intros obj cl cols Hu Hl Hc Hok. unfold set_column_unique_param. rewrite Hc. cbn [as_list bind].
  change (String.eqb "unique_statement" "constraints") with false. cbn [bind]. rewrite Hu. cbn [bind].
  rewrite (mapM_map _ (fun c => c)).
  - rewrite map_id. reflexivity.
  - intros x Hx. rewrite Forall_forall in Hok. rewrite (col_get_name x (Hok x Hx)). cbn [bind].
    destruct (Nat.eqb (List.length cl) 1) eqn:E; [apply Nat.eqb_eq in E; congruence|reflexivity].
Qed.

(* ---------- to_dict: which keys come out ---------------------------------------------------------------- *)
Definition out_key (fs : list field) (k : string) : string :=
  match find_field fs k with
  | Some f => if String.eqb (f_alias f) "" then k else f_alias f
  | None => k
  end.

Lemma to_dict_spec mode hooks fs obj out :
  mode_info mode = Some (hooks, fs) -> to_dict mode obj = Ok out ->
  forall k' v, In (k', v) out <->
    exists k, In (k, v) obj /\ filter_out fs obj k = true /\ k' = out_key fs k /\
              ~ (hook hooks "to_dict" = "BigQuery.to_dict"%string /\ k = "schema"%string).
Proof.
  intros Hm H. unfold to_dict in H. rewrite Hm in H.
  destruct (String.eqb (hook hooks "to_dict") "BaseData.to_dict" || String.eqb (hook hooks "to_dict") "BigQuery.to_dict") eqn:Eh;
    [|discriminate].
  inversion H; subst out. clear H. intros k' v. rewrite in_flat_map. split.
  - intros [[k v0] [Hin Hx]]. simpl in Hx.
    destruct (String.eqb (hook hooks "to_dict") "BigQuery.to_dict" && String.eqb k "schema") eqn:Es; [contradiction|].
    destruct (filter_out fs obj k) eqn:Ef; [|contradiction].
    destruct Hx as [Hx|[]]. inversion Hx; subst. exists k. repeat split; auto.
    intros [Ha Hb]. subst k. rewrite Ha in Es. discriminate.
  - intros [k [Hin [Hf [Hk Hn]]]]. exists (k, v). split; [exact Hin|]. simpl.
    destruct (String.eqb (hook hooks "to_dict") "BigQuery.to_dict" && String.eqb k "schema") eqn:Es.
    + exfalso. apply andb_true_iff in Es. destruct Es as [E1 E2]. apply String.eqb_eq in E1. apply String.eqb_eq in E2. auto.
    + rewrite Hf. left. subst k'. reflexivity.
Qed.

(* a field declared for certain output modes only is filtered out in every other mode *)
Theorem dialect_field_filtered : forall fs obj k f mode,
  find_field fs k = Some f -> f_has_modes f = true -> mem mode (f_output_modes f) = false ->
  get_or_none obj "output_mode" = PStr mode -> filter_out fs obj k = false.
Proof.
  intros fs obj k f mode Hf Hm Hn Ho. unfold filter_out. rewrite Hf, Ho.
  destruct (f_exclude_always f); [reflexivity|]. rewrite Hm, Hn. simpl. rewrite !andb_false_r. reflexivity.
Qed.

(* a field without any exclusion metadata always passes the filter *)
Theorem plain_field_kept : forall fs obj k f,
  find_field fs k = Some f -> f_exclude_always f = false -> f_exclude_if_not_provided f = false ->
  f_exclude_if_empty f = false -> f_has_modes f = false -> filter_out fs obj k = true.
Proof.
  intros fs obj k f Hf H1 H2 H3 H4. unfold filter_out. rewrite Hf, H1, H2, H3, H4. reflexivity.
Qed.

