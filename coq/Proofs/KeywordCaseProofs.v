(* C05: two statements of the CREATE TABLE / ALTER TABLE fragments that differ only in how their keywords are spelled
   (letter case) are parsed to the same entity. *)
From Coq Require Import String Ascii List ZArith NArith Bool Lia.
From SDP Require Import Base PyStr Lexer Actions Parse Engine Seq Entity Table TableProofs Alter AlterProofs AlterKeyProofs.
Import ListNotations.
Open Scope string_scope.

(* the statement with every keyword in its canonical spelling; names, types, values and literals untouched *)
Definition c_null (n : nullk) : nullk := match n with NNull _ => NNull "NULL" | NNot _ _ => NNot "NOT" "NULL" end.
Definition c_on (what : string) (o : option (string * string * string)) : option (string * string * string) :=
  match o with Some (_, _, a) => Some ("ON", what, a) | None => None end.
Definition c_ref (r : refspec) : refspec :=
  mkRef "REFERENCES" (r_schema r) (r_table r) (r_col r) (c_on "DELETE" (r_ondel r)) (c_on "UPDATE" (r_onupd r))
        (match r_null r with Some n => Some (c_null n) | None => None end).
Definition c_opt (o : copt) : copt :=
  match o with
  | ONull n => ONull (c_null n)
  | ODefWord _ v => ODefWord "DEFAULT" v
  | ODefNull _ _ => ODefNull "DEFAULT" "NULL"
  | ODefStr _ s => ODefStr "DEFAULT" s
  | OPk _ _ => OPk "PRIMARY" "KEY"
  | OUnique _ => OUnique "UNIQUE"
  | ORef r => ORef (c_ref r)
  end.
Definition c_col (c : column) : column := mkCol (c_name c) (c_ty1 c) (c_ty2 c) (c_size c) (map c_opt (c_opts c)).
Definition c_table (t : table) : table :=
  mkTable "CREATE" "TABLE" (t_schema t) (t_name t) (c_col (t_first t)) (map c_col (t_rest t)).

Lemma apply_c_opt norm cs o : apply_opt norm cs (c_opt o) = apply_opt norm cs o.
Proof.
  destruct o as [[k|k1 k2]|kw v|kw kn|kw s|a b|k|r]; try reflexivity.
  destruct r as [rk rs rt rc [[[da db] dc]|] [[[ua ub] uc]|] [[nk|nk1 nk2]|]]; reflexivity.
Qed.
Lemma fold_c_opts norm : forall opts cs, fold_left (apply_opt norm) (map c_opt opts) cs = fold_left (apply_opt norm) opts cs.
Proof. induction opts as [|o r IH]; intro cs; cbn [map fold_left]; [reflexivity|]. rewrite apply_c_opt. apply IH. Qed.
Lemma col_dict_c norm c : col_dict norm (c_col c) = col_dict norm c.
Proof. unfold col_dict, c_col, col_type, col_size. cbn [c_name c_ty1 c_ty2 c_size c_opts]. rewrite fold_c_opts. reflexivity. Qed.
Lemma denote_c_table norm t : Table.denote norm (c_table t) = Table.denote norm t.
Proof.
  unfold Table.denote, c_table. cbn [t_schema t_name t_first t_rest map]. rewrite col_dict_c, map_map.
  rewrite (map_ext (fun x => col_dict norm (c_col x)) (col_dict norm) (col_dict_c norm)). reflexivity.
Qed.

Theorem table_keyword_case : forall t t' norm silent silent',
  Table.wf norm t = true -> Table.wf norm t' = true -> c_table t = c_table t' ->
  parse_lexemes norm silent (Table.lexemes t) = parse_lexemes norm silent' (Table.lexemes t').
Proof.
  intros t t' norm silent silent' H H' E.
  rewrite (table_parse t norm silent H), (table_parse t' norm silent' H').
  rewrite <- (denote_c_table norm t), <- (denote_c_table norm t'), E. reflexivity.
Qed.

(* ---------- ALTER TABLE ----------------------------------------------------------------------------------------------------------------- *)
Definition c_cons (c : option (string * string)) : option (string * string) := match c with Some (_, n) => Some ("CONSTRAINT", n) | None => None end.
Definition c_body (b : body) : body :=
  match b with
  | BDrop _ _ x => BDrop "DROP" "COLUMN" x
  | BRename _ _ a _ b => BRename "RENAME" "COLUMN" a "TO" b
  | BAddCol _ n t => BAddCol "ADD" n t
  | BModify _ n t sz => BModify (MModify "MODIFY") n t sz
  | BKey _ c k cols => BKey "ADD" (c_cons c) (match k with KUnique _ => KUnique "UNIQUE" | KPrimary _ _ => KPrimary "PRIMARY" "KEY" end) cols
  | BFk _ c _ _ cols r => BFk "ADD" (c_cons c) "FOREIGN" "KEY" cols
                              (mkFk "REFERENCES" (f_schema r) (f_table r) (f_cols r) (c_on "DELETE" (f_ondel r)) (c_on "UPDATE" (f_onupd r)))
  end.
Definition c_alter (a : alter) : alter := mkAlter "ALTER" "TABLE" (a_schema a) (a_name a) (c_body (a_body a)).
Lemma denote_c_alter norm a : Alter.denote norm (c_alter a) = Alter.denote norm a.
Proof.
  destruct a as [al tb sch nm b]. unfold Alter.denote, c_alter. cbn [a_schema a_name a_body].
  destruct b as [d c x|r c x t y|ad n t|m n t sz|ad cns k cols|ad cns f k cols r]; cbn [c_body]; try reflexivity.
  - destruct k; destruct cns as [[ck cn]|]; reflexivity.
  - destruct cns as [[ck cn]|]; destruct r as [rk rs rt rc [[[da db] dc]|] [[[ua ub] uc]|]]; reflexivity.
Qed.
(* the MODIFY COLUMN / ALTER COLUMN / MODIFY spellings of a column change are different statements with the same entity *)
Theorem alter_keyword_case : forall a a' norm silent silent',
  Alter.wf norm a = true -> Alter.wf norm a' = true -> c_alter a = c_alter a' ->
  parse_lexemes norm silent (Alter.lexemes a) = parse_lexemes norm silent' (Alter.lexemes a').
Proof.
  intros a a' norm silent silent' H H' E.
  rewrite (alter_parse a norm silent H), (alter_parse a' norm silent' H').
  rewrite <- (denote_c_alter norm a), <- (denote_c_alter norm a'), E. reflexivity.
Qed.

(* ---------- CREATE TYPE / CREATE DOMAIN with a value list ------------------------------------------------------------------------------------ *)
From SDP Require TypeDom TypeDomProofs.
Definition c_decl (d : TypeDom.decl) : TypeDom.decl :=
  TypeDom.mkDecl (TypeDom.d_type d) "CREATE" (if TypeDom.d_type d then "TYPE" else "DOMAIN") (TypeDom.d_schema d) (TypeDom.d_name d) "AS"
                 (TypeDom.d_base d) (TypeDom.d_first d) (TypeDom.d_rest d).
Lemma denote_c_decl norm d : TypeDom.denote norm (c_decl d) = TypeDom.denote norm d.
Proof. destruct d; reflexivity. Qed.
(* the base type word is reported as written (ENUM in any letter case selects the enum reading), so it is not canonicalised here *)
Theorem typedom_keyword_case : forall d d' norm silent silent',
  TypeDom.wf norm d = true -> TypeDom.wf norm d' = true -> c_decl d = c_decl d' ->
  parse_lexemes norm silent (TypeDom.lexemes d) = parse_lexemes norm silent' (TypeDom.lexemes d').
Proof.
  intros d d' norm silent silent' H H' E.
  rewrite (TypeDomProofs.typedom_parse d norm silent H), (TypeDomProofs.typedom_parse d' norm silent' H').
  rewrite <- (denote_c_decl norm d), <- (denote_c_decl norm d'), E. reflexivity.
Qed.

(* ---------- CREATE TYPE ... AS OBJECT, CREATE SCHEMA with AUTHORIZATION / COMMENT ----------------------------------------------------------------- *)
From SDP Require TypeObj TypeObjProofs SchemaX SchemaXProofs.
Definition c_tobj (o : TypeObj.tobj) : TypeObj.tobj :=
  TypeObj.mkTObj "CREATE" "TYPE" (TypeObj.o_schema o) (TypeObj.o_name o) "AS" (TypeObj.o_base o) (TypeObj.o_first o) (TypeObj.o_rest o).
Lemma denote_c_tobj norm o : TypeObj.denote norm (c_tobj o) = TypeObj.denote norm o.
Proof. destruct o; reflexivity. Qed.
Theorem typeobj_keyword_case : forall o o' norm silent silent',
  TypeObj.wf norm o = true -> TypeObj.wf norm o' = true -> c_tobj o = c_tobj o' ->
  parse_lexemes norm silent (TypeObj.lexemes o) = parse_lexemes norm silent' (TypeObj.lexemes o').
Proof.
  intros o o' norm silent silent' H H' E.
  rewrite (TypeObjProofs.typeobj_parse o norm silent H), (TypeObjProofs.typeobj_parse o' norm silent' H').
  rewrite <- (denote_c_tobj norm o), <- (denote_c_tobj norm o'), E. reflexivity.
Qed.
Definition c_schx (x : SchemaX.schx) : SchemaX.schx :=
  SchemaX.mkSchX "CREATE" "SCHEMA" (match SchemaX.x_ine x with Some _ => Some ("IF", "NOT", "EXISTS") | None => None end) (SchemaX.x_name x)
                 (SchemaX.x_auth x) (match SchemaX.x_comment x with Some (_, e, s) => Some ("COMMENT", e, s) | None => None end).
Lemma denote_c_schx norm x : SchemaX.denote norm (c_schx x) = SchemaX.denote norm x.
Proof. destruct x as [c s [[[a b] e]|] n [u|] [[[k q] l]|]]; reflexivity. Qed.
(* COMMENT 'text' and COMMENT = 'text' are different statements with the same entity: the '=' is not canonicalised here *)
Theorem schema_keyword_case : forall x x' norm silent silent',
  SchemaX.wf norm x = true -> SchemaX.wf norm x' = true -> c_schx x = c_schx x' ->
  parse_lexemes norm silent (SchemaX.lexemes x) = parse_lexemes norm silent' (SchemaX.lexemes x').
Proof.
  intros x x' norm silent silent' H H' E.
  rewrite (SchemaXProofs.schx_parse x norm silent H), (SchemaXProofs.schx_parse x' norm silent' H').
  rewrite <- (denote_c_schx norm x), <- (denote_c_schx norm x'), E. reflexivity.
Qed.
