(* C10 / C12: the output stage on the entity of the core CREATE TABLE fragment in EVERY output mode:
   the common view (table_name, primary_key, columns restricted to the eight column keys, alter, checks, index, partitioned_by,
   tablespace, and the schema under the mode's key) is the one of mode sql; oracle / redshift add one key per column. *)
From Coq Require Import String Ascii List ZArith NArith Bool Lia.
From SDP Require Import Base PyStr Lexer Actions Parse Engine Seq Entity Output OutputProofs Table TableProofs TableOutProofs.
From SDP.Gen Require Fields Tokens.
Import ListNotations.
Open Scope string_scope.

Definition m_hooks (m : string) := match mode_info m with Some x => fst x | None => [] end.
Definition m_fs (m : string) := match mode_info m with Some x => snd x | None => [] end.

Lemma populate_any (o : dict) (l : list cd) :
  get_or_none o "columns" = PList (map cd_dict l) -> get_or_none o "primary_key" = PNone -> get_or_none o "constraints" = PDict [] ->
  (forall X Y, get_or_none (dict_set (dict_set o "columns" X) "primary_key" Y) "unique" = PList []) ->
  (forall X Y, get_or_none (dict_set (dict_set o "columns" X) "primary_key" Y) "columns" = X) ->
  (forall X Y, get_or_none (dict_set (dict_set o "columns" X) "primary_key" Y) "primary_key" = Y) ->
  populate_keys o = Ok (dict_set (dict_set (dict_set o "columns" (PList (map del_pk l))) "primary_key" (PList (pk_of l))) "columns" (PList (map (final_col (pk_of l)) l))).
Proof.
  intros H1 H2 H3 H4 H5 H6. unfold populate_keys. rewrite H1, H2, H3.
  cbn [as_list bind truthy negb].
  rewrite (mapM_map2 _ cd_dict (fun x => if cs_pk (cd_cs x) then [PStr (cd_name x)] else []))
    by (intro x; destruct x as [n t z [r u p nl d]]; destruct p; reflexivity).
  cbn [bind].
  rewrite (mapM_map2 _ cd_dict del_pk) by (intro x; reflexivity).
  cbn [bind get_or_none dict_get truthy].
  change (truthy (get_or_none [] "primary_keys")) with false. cbn [bind].
  rewrite concat_map_flat, app_nil_r. fold (pk_of l).
  rewrite H4. cbn [truthy bind]. rewrite H5, H6. cbn [as_list bind].
  rewrite (mapM_map2 _ del_pk (final_col (pk_of l))).
  - cbn [bind]. reflexivity.
  - intro x. unfold del_pk, final_col, col_get, col_set. cbn [as_dict' bind].
    change (getitem _ "name") with (Ok (PStr (cd_name x)) : res pyval). cbn [bind].
    destruct (py_in_list (PStr (cd_name x)) (pk_of l)); reflexivity.
Qed.


Lemma assoc_dict_set_other k k' v : k' <> k -> forall d, assoc k' (dict_set d k v) = assoc k' d.
Proof.
  intros Hk. assert (Ek : String.eqb k' k = false) by (apply String.eqb_neq; exact Hk).
  induction d as [|[a b] r IH]; cbn [dict_set assoc].
  - rewrite Ek. reflexivity.
  - destruct (String.eqb k a) eqn:E1; cbn [assoc].
    + apply String.eqb_eq in E1. subst a. rewrite Ek. reflexivity.
    + destruct (String.eqb k' a); [reflexivity|exact IH].
Qed.
Lemma get_set_other k k' v : k' <> k -> forall d, match assoc k' (dict_set d k v) with Some x => x | None => PNone end = match assoc k' d with Some x => x | None => PNone end.
Proof. intros H d. rewrite (assoc_dict_set_other k k' v H). reflexivity. Qed.

(* the keys every mode reports for a table (the "common view"): compared with the sql result *)
Definition common_keys : list string := ["table_name"; "primary_key"; "columns"; "alter"; "checks"; "index"; "partitioned_by"; "tablespace"].
Definition col_keys : list string := ["name"; "type"; "size"; "references"; "unique"; "nullable"; "default"; "check"].
Definition col_common (c : pyval) : pyval :=
  match c with PDict d => PDict (map (fun k => (k, get_or_none d k)) col_keys) | _ => c end.
Definition common_view (t : dict) : list (string * pyval) :=
  map (fun k => (k, if String.eqb k "columns"
                    then match get_or_none t k with PList cs => PList (map col_common cs) | v => v end
                    else get_or_none t k)) common_keys.

Ltac mode_case m :=
  let Em := fresh "Em" in let Ht := fresh "Ht" in let E := fresh "E" in
  unfold Output.format; cbn [fold_left bind]; unfold step;
  assert (Em : mode_info m = Some (m_hooks m, m_fs m)) by reflexivity; rewrite Em;
  cbn [bind];
  match goal with |- context [if String.eqb m "bigquery" then _ else _] => change (String.eqb m "bigquery") with false; cbv iota end;
  match goal with |- context [dict_has ?d "index_name" || dict_has ?d "alter_table_name"] =>
    change (dict_has d "index_name" || dict_has d "alter_table_name") with false; cbv iota end;
  match goal with |- context [truthy (get_or_none ?d "table_name")] =>
    match d with context [PStr ?n] => change (get_or_none d "table_name") with (PStr n) end end;
  match goal with |- context [truthy (PStr ?n)] =>
    assert (Ht : truthy (PStr n) = true) by (unfold truthy; destruct n; [congruence|reflexivity]); rewrite Ht end;
  unfold table_init; rewrite Em; cbv zeta;
  match goal with |- context [set_unique_columns ?o] =>
    let v := eval vm_compute in o in
    replace o with v by (vm_compute; reflexivity);
    assert (E : set_unique_columns v = Ok v) by reflexivity; rewrite E; clear E; cbn [bind];
    erewrite (populate_any v) by reflexivity; cbn [bind]
  end;
  match goal with |- context [normalize_ref_columns ?o] =>
    assert (E : normalize_ref_columns o = Ok o) by reflexivity; rewrite E; clear E; cbn [bind]
  end.
Ltac plain_post m :=
  let E := fresh "E" in
  match goal with |- context [post_process (m_hooks m) ?o] =>
    assert (E : post_process (m_hooks m) o = Ok o) by reflexivity; rewrite E; clear E; cbn [bind];
    assert (E : mixin_post_init (m_hooks m) o = Ok o) by reflexivity; rewrite E; clear E; cbn [bind]
  end.


Ltac mode_finish_full sch n Hs :=
  match goal with |- context [get_table_id (get_or_none ?o "schema") (get_or_none ?o "table_name")] =>
    change (get_or_none o "schema") with sch; change (get_or_none o "table_name") with (PStr n) end;
  let Hid := fresh "Hid" in let id := fresh "id" in
  assert (Hid : exists id, get_table_id sch (PStr n) = Ok id) by
    (unfold get_table_id; cbn [normalize_name_v bind]; destruct Hs as [->|[? ->]];
     [eexists; reflexivity | cbn [truthy]; match goal with |- context [negb ?b] => destruct (negb b) end; cbn [normalize_name_v bind]; eexists; reflexivity]);
  destruct Hid as [id Hid]; rewrite Hid; cbn [bind];
  match goal with |- context [to_dict ?m ?o] =>
    let H := fresh "Htd" in eassert (H : to_dict m o = Ok _) by reflexivity; rewrite H; clear H end;
  cbn [bind]; eexists; split; [reflexivity|split; reflexivity].

Ltac mode_case_tac :=
  match goal with
  | Hs : sch_ok ?sch |- exists t, Output.format ?m false [PDict (tdict ?sch (PStr ?n) _)] = _ /\ _ =>
      mode_case m; plain_post m; mode_finish_full sch n Hs
  end.

Definition plain_modes : list string := ["athena"; "databricks"; "hql"; "ibm_db2"; "mssql"; "mysql"; "postgres"; "snowflake"; "spark_sql"; "sql"; "sqlite"; "vertics"].

Theorem common_view_plain_modes m sch n (l : list cd) : In m plain_modes -> sch_ok sch -> n <> "" ->
  exists t, Output.format m false [PDict (tdict sch (PStr n) (map cd_dict l))] = Ok (PList [PDict t]) /\
            common_view t = common_view (final_table sch (PStr n) l) /\ get_or_none t "schema" = sch.
Proof.
  intros Hm Hs Hn. unfold plain_modes in Hm. cbn [In] in Hm.
  repeat (destruct Hm as [<-|Hm]; [mode_case_tac|]); try contradiction.
Qed.

(* ---------- oracle: every column gains the key encrypt (None); nothing else changes ------------------------------------------- *)
Definition add_key (k : string) (v : pyval) (c : pyval) : pyval := match c with PDict d => PDict (dict_set d k v) | _ => c end.
Lemma col_common_add pk x k v : ~ In k col_keys -> col_common (add_key k v (final_col pk x)) = col_common (final_col pk x).
Proof.
  intro H. unfold final_col, add_key, col_common. f_equal.
  unfold col_keys in *. cbn [In] in H.
  assert (forall k', k' <> k -> get_or_none (dict_set [("name", PStr (cd_name x)); ("type", PStr (cd_ty x)); ("size", cd_sz x); ("references", cs_refs (cd_cs x));
         ("unique", PBool (cs_unique (cd_cs x)));
         ("nullable", if py_in_list (PStr (cd_name x)) pk then PBool false else cs_nullable (cd_cs x));
         ("default", cs_default (cd_cs x)); ("check", PNone)] k v) k' =
          get_or_none [("name", PStr (cd_name x)); ("type", PStr (cd_ty x)); ("size", cd_sz x); ("references", cs_refs (cd_cs x));
         ("unique", PBool (cs_unique (cd_cs x)));
         ("nullable", if py_in_list (PStr (cd_name x)) pk then PBool false else cs_nullable (cd_cs x));
         ("default", cs_default (cd_cs x)); ("check", PNone)] k') as G.
  { intros k' Hk. unfold get_or_none, dict_get. generalize (get_set_other k k' v Hk). intro Q. apply Q. }
  cbn [map]. rewrite !G by (intro E; apply H; subst; tauto). reflexivity.
Qed.

Lemma common_view_ext t t' cs cs' :
  (forall k, In k common_keys -> k <> "columns" -> get_or_none t k = get_or_none t' k) ->
  get_or_none t "columns" = PList cs -> get_or_none t' "columns" = PList cs' -> map col_common cs = map col_common cs' ->
  common_view t = common_view t'.
Proof.
  intros H Hc Hc' Hm. unfold common_view. apply map_ext_in. intros k Hk.
  destruct (String.eqb k "columns") eqn:E.
  - apply String.eqb_eq in E. subst k. rewrite Hc, Hc', Hm. reflexivity.
  - rewrite (H k Hk); [reflexivity|]. intro E'. subst k. discriminate.
Qed.

Lemma map_col_common_add pk k v (l : list cd) : ~ In k col_keys ->
  map col_common (map (fun x => add_key k v (final_col pk x)) l) = map col_common (map (final_col pk) l).
Proof. intro H. rewrite !map_map. apply map_ext. intro x. apply col_common_add. exact H. Qed.

Theorem common_view_oracle sch n (l : list cd) : sch_ok sch -> n <> "" ->
  exists t, Output.format "oracle" false [PDict (tdict sch (PStr n) (map cd_dict l))] = Ok (PList [PDict t]) /\
            common_view t = common_view (final_table sch (PStr n) l) /\ get_or_none t "schema" = sch.
Proof.
  intros Hs Hn. mode_case "oracle".
  match goal with |- context [post_process (m_hooks "oracle") ?o] =>
    assert (E : post_process (m_hooks "oracle") o
                = Ok (dict_set o "columns" (PList (map (fun x => add_key "encrypt" PNone (final_col (pk_of l) x)) l))))
  end.
  { unfold post_process. change (hook (m_hooks "oracle") "post_process") with "Oracle.post_process".
    cbn [String.eqb Ascii.eqb Bool.eqb orb].
    match goal with |- context [as_list (get_or_none ?o "columns")] => change (get_or_none o "columns") with (PList (map (final_col (pk_of l)) l)) end.
    cbn [as_list bind].
    rewrite (mapM_map2 _ (final_col (pk_of l)) (fun x => add_key "encrypt" PNone (final_col (pk_of l) x))) by (intro x; reflexivity).
    reflexivity. }
  rewrite E. clear E. cbn [bind].
  match goal with |- context [mixin_post_init (m_hooks "oracle") ?o] =>
    assert (E : mixin_post_init (m_hooks "oracle") o = Ok o) by reflexivity; rewrite E; clear E; cbn [bind] end.
  match goal with |- context [get_table_id (get_or_none ?o "schema") (get_or_none ?o "table_name")] =>
    change (get_or_none o "schema") with sch; change (get_or_none o "table_name") with (PStr n) end.
  assert (Hid : exists id, get_table_id sch (PStr n) = Ok id).
  { unfold get_table_id. cbn [normalize_name_v bind]. destruct Hs as [->|[s ->]]; [eexists; reflexivity|].
    cbn [truthy]. destruct (negb (String.eqb s "")); cbn [normalize_name_v bind]; eexists; reflexivity. }
  destruct Hid as [id Hid]. rewrite Hid. cbn [bind].
  match goal with |- context [to_dict ?m ?o] =>
    let H := fresh "Htd" in eassert (H : to_dict m o = Ok _) by reflexivity; rewrite H; clear H end.
  cbn [bind]. eexists. split; [reflexivity|]. split; [|reflexivity].
  eapply (common_view_ext _ _ (map (fun x => add_key "encrypt" PNone (final_col (pk_of l) x)) l) (map (final_col (pk_of l)) l)).
  - intros k Hk Hne. unfold common_keys in Hk. cbn [In] in Hk.
    repeat (destruct Hk as [<-|Hk]; [first [reflexivity | congruence]|]). contradiction.
  - reflexivity.
  - reflexivity.
  - apply map_col_common_add. unfold col_keys. cbn [In]. intuition discriminate.
Qed.


(* ---------- redshift: every column gains the key encode (None) --------------------------------------------------------------------- *)
Definition rs_step (enc : pyval) : res (dict * list pyval) -> pyval -> res (dict * list pyval) :=
  fun (acc : res (dict * list pyval)) (c : pyval) =>
        do '(o, done) <- acc;
        do d <- as_dict' c;
        let d1 := dict_set d "encode" (get_or_none d "encode") in
        do '(o1, d2) <- (if truthy (get_or_none d1 "distkey")
                         then do n <- getitem d1 "name"; Ok (dict_set o "distkey" n, dict_del d1 "distkey")
                         else Ok (o, d1));
        let d3 := if truthy enc
                  then dict_set d2 "encode" (if truthy (get_or_none d2 "encode") then get_or_none d2 "encode" else enc)
                  else d2 in
        Ok (o1, done ++ [PDict d3])%list.
Lemma rs_step_col enc pk x o done : truthy enc = false ->
  rs_step enc (Ok (o, done)) (final_col pk x) = Ok (o, (done ++ [add_key "encode" PNone (final_col pk x)])%list).
Proof.
  intro He. unfold rs_step, final_col, add_key. cbn [bind as_dict']. cbv zeta.
  match goal with |- context [truthy (get_or_none ?d "distkey")] => change (truthy (get_or_none d "distkey")) with false end.
  cbv iota. cbn [bind]. rewrite He. reflexivity.
Qed.
Lemma redshift_fold (enc : pyval) pk : truthy enc = false -> forall (l : list cd) (o : dict) (done : list pyval),
  fold_left (rs_step enc) (map (final_col pk) l) (Ok (o, done))
  = Ok (o, (done ++ map (fun x => add_key "encode" PNone (final_col pk x)) l)%list).
Proof.
  intro He. induction l as [|x r IH]; intros o done; cbn [map fold_left].
  - rewrite app_nil_r. reflexivity.
  - rewrite (rs_step_col enc pk x o done He), IH, <- app_assoc. reflexivity.
Qed.

Theorem common_view_redshift sch n (l : list cd) : sch_ok sch -> n <> "" ->
  exists t, Output.format "redshift" false [PDict (tdict sch (PStr n) (map cd_dict l))] = Ok (PList [PDict t]) /\
            common_view t = common_view (final_table sch (PStr n) l) /\ get_or_none t "schema" = sch.
Proof.
  intros Hs Hn. mode_case "redshift".
  match goal with |- context [post_process (m_hooks "redshift") ?o] =>
    assert (E : post_process (m_hooks "redshift") o
                = Ok (dict_set o "columns" (PList (map (fun x => add_key "encode" PNone (final_col (pk_of l) x)) l))))
  end.
  { unfold post_process. change (hook (m_hooks "redshift") "post_process") with "Redshift.post_process".
    cbn [String.eqb Ascii.eqb Bool.eqb orb].
    match goal with |- context [as_list (get_or_none ?o "columns")] => change (get_or_none o "columns") with (PList (map (final_col (pk_of l)) l)) end.
    cbn [as_list bind].
    match goal with |- context [fold_left ?f _ (Ok (?o, []))] =>
      change f with (rs_step (get_or_none o "encode")); rewrite (redshift_fold (get_or_none o "encode") (pk_of l)) by reflexivity end.
    cbn [bind app]. reflexivity. }
  rewrite E. clear E. cbn [bind].
  match goal with |- context [mixin_post_init (m_hooks "redshift") ?o] =>
    assert (E : mixin_post_init (m_hooks "redshift") o = Ok o) by reflexivity; rewrite E; clear E; cbn [bind] end.
  match goal with |- context [get_table_id (get_or_none ?o "schema") (get_or_none ?o "table_name")] =>
    change (get_or_none o "schema") with sch; change (get_or_none o "table_name") with (PStr n) end.
  assert (Hid : exists id, get_table_id sch (PStr n) = Ok id).
  { unfold get_table_id. cbn [normalize_name_v bind]. destruct Hs as [->|[s ->]]; [eexists; reflexivity|].
    cbn [truthy]. destruct (negb (String.eqb s "")); cbn [normalize_name_v bind]; eexists; reflexivity. }
  destruct Hid as [id Hid]. rewrite Hid. cbn [bind].
  match goal with |- context [to_dict ?m ?o] =>
    let H := fresh "Htd" in eassert (H : to_dict m o = Ok _) by reflexivity; rewrite H; clear H end.
  cbn [bind]. eexists. split; [reflexivity|]. split; [|reflexivity].
  eapply (common_view_ext _ _ (map (fun x => add_key "encode" PNone (final_col (pk_of l) x)) l) (map (final_col (pk_of l)) l)).
  - intros k Hk Hne. unfold common_keys in Hk. cbn [In] in Hk.
    repeat (destruct Hk as [<-|Hk]; [first [reflexivity | congruence]|]). contradiction.
  - reflexivity.
  - reflexivity.
  - apply map_col_common_add. unfold col_keys. cbn [In]. intuition discriminate.
Qed.

(* ---------- bigquery: the schema is reported under the key dataset; everything else as in sql -------------------------------------- *)
Ltac bq_case l n :=
  unfold Output.format; cbn [fold_left bind]; unfold step;
  assert (Em : mode_info "bigquery" = Some (m_hooks "bigquery", m_fs "bigquery")) by reflexivity; rewrite Em;
  cbn [bind]; change (String.eqb "bigquery" "bigquery") with true; cbv iota;
  match goal with |- context [dict_has ?d "index_name" || dict_has ?d "alter_table_name"] =>
    change (dict_has d "index_name" || dict_has d "alter_table_name") with false; cbv iota end;
  match goal with |- context [truthy (get_or_none ?d "table_name")] => change (get_or_none d "table_name") with (PStr n) end;
  assert (Ht : truthy (PStr n) = true) by (unfold truthy; destruct n; [congruence|reflexivity]); rewrite Ht;
  unfold table_init; rewrite Em; cbv zeta;
  match goal with |- context [set_unique_columns ?o] =>
    let v := eval vm_compute in o in
    replace o with v by (vm_compute; reflexivity);
    assert (E : set_unique_columns v = Ok v) by reflexivity; rewrite E; clear E; cbn [bind];
    erewrite (populate_any v) by reflexivity; cbn [bind]
  end;
  match goal with |- context [normalize_ref_columns ?o] =>
    assert (E : normalize_ref_columns o = Ok o) by reflexivity; rewrite E; clear E; cbn [bind]
  end;
  plain_post "bigquery".

Theorem common_view_bigquery sch n (l : list cd) : (sch = PNone \/ exists c s, sch = PStr (String c s)) -> n <> "" ->
  exists t, Output.format "bigquery" false [PDict (tdict sch (PStr n) (map cd_dict l))] = Ok (PList [PDict t]) /\
            common_view t = common_view (final_table sch (PStr n) l) /\ get_or_none t "dataset" = sch /\ dict_has t "schema" = false.
Proof.
  intros [->|[c [s ->]]] Hn.
  - bq_case l n.
    match goal with |- context [get_table_id (get_or_none ?o "dataset") (get_or_none ?o "table_name")] =>
      change (get_or_none o "dataset") with PNone; change (get_or_none o "table_name") with (PStr n) end.
    unfold get_table_id. cbn [normalize_name_v bind truthy].
    match goal with |- context [to_dict ?m ?o] =>
      let H := fresh "Htd" in eassert (H : to_dict m o = Ok _) by reflexivity; rewrite H; clear H end.
    cbn [bind]. eexists. split; [reflexivity|]. repeat split; reflexivity.
  - bq_case l n.
    match goal with |- context [get_table_id (get_or_none ?o "dataset") (get_or_none ?o "table_name")] =>
      change (get_or_none o "dataset") with (PStr (String c s)); change (get_or_none o "table_name") with (PStr n) end.
    unfold get_table_id. cbn [normalize_name_v bind truthy String.eqb negb].
    match goal with |- context [to_dict ?m ?o] =>
      let H := fresh "Htd" in eassert (H : to_dict m o = Ok _) by reflexivity; rewrite H; clear H end.
    cbn [bind]. eexists. split; [reflexivity|]. repeat split; reflexivity.
Qed.

(* ---------- all modes ---------------------------------------------------------------------------------------------------------------- *)
Definition schema_key (m : string) : string := if String.eqb m "bigquery" then "dataset" else "schema".
Lemma modes_covered : forall m, In m Tokens.modes -> In m plain_modes \/ m = "oracle" \/ m = "redshift" \/ m = "bigquery".
Proof.
  intros m H. unfold Tokens.modes in H. cbn [In] in H.
  repeat (destruct H as [<-|H]; [first [left; unfold plain_modes; cbn [In]; tauto | tauto]|]). contradiction.
Qed.

Theorem common_view_every_mode m sch n (l : list cd) : In m Tokens.modes ->
  (sch = PNone \/ exists c s, sch = PStr (String c s)) -> n <> "" ->
  exists t, Output.format m false [PDict (tdict sch (PStr n) (map cd_dict l))] = Ok (PList [PDict t]) /\
            common_view t = common_view (final_table sch (PStr n) l) /\ get_or_none t (schema_key m) = sch.
Proof.
  intros Hm Hs Hn.
  assert (Hs' : sch_ok sch) by (destruct Hs as [->|[c [s ->]]]; [left; reflexivity|right; eexists; reflexivity]).
  destruct (modes_covered m Hm) as [Hp|[Ho|[Hr|Hb]]]; [|subst m|subst m|subst m].
  - assert (E : schema_key m = "schema").
    { unfold plain_modes in Hp. cbn [In] in Hp. repeat (destruct Hp as [<-|Hp]; [reflexivity|]). contradiction. }
    rewrite E. apply common_view_plain_modes; assumption.
  - apply common_view_oracle; assumption.
  - apply common_view_redshift; assumption.
  - destruct (common_view_bigquery sch n l Hs Hn) as [t [H1 [H2 [H3 _]]]]. exists t. repeat split; assumption.
Qed.

(* from the lexemes of the statement to what every mode reports *)
Theorem table_every_mode : forall t norm silent m, Table.wf norm t = true -> In m Tokens.modes ->
  nms norm (t_name t) <> "" -> match t_schema t with Some s => nms norm s <> "" | None => True end ->
  parse_lexemes norm silent (Table.lexemes t) = Ok (Some (Table.denote norm t)) /\
  exists tm, Output.format m false [Table.denote norm t] = Ok (PList [PDict tm]) /\
             common_view tm = common_view (final_table (onm norm (t_schema t)) (PStr (nms norm (t_name t))) (cds norm t)) /\
             get_or_none tm (schema_key m) = onm norm (t_schema t).
Proof.
  intros t norm silent m Hwf Hm Hn Hs. split; [apply table_parse; exact Hwf|].
  rewrite denote_cds. apply common_view_every_mode; [exact Hm| |exact Hn].
  unfold onm, nmv. destruct (t_schema t) as [s|]; [|left; reflexivity].
  right. destruct (nms norm s) as [|c r] eqn:E; [congruence|]. exists c, r. reflexivity.
Qed.

(* ---------- C12: the column entries have the documented keys and boolean flags ------------------------------------------------------- *)
Lemma apply_opt_nullable_bool norm cs o : (exists b, cs_nullable cs = PBool b) -> exists b, cs_nullable (apply_opt norm cs o) = PBool b.
Proof.
  intros [b Hb]. destruct o as [n|kw v|kw kn|kw s|a c|k|r]; cbn [apply_opt cs_nullable]; try (exists b; exact Hb); try (eexists; reflexivity).
  destruct (r_null r); cbn [cs_nullable]; [eexists; reflexivity|exists b; exact Hb].
Qed.
Lemma fold_nullable_bool norm : forall opts cs, (exists b, cs_nullable cs = PBool b) ->
  exists b, cs_nullable (fold_left (apply_opt norm) opts cs) = PBool b.
Proof. induction opts as [|o r IH]; intros cs H; cbn [fold_left]; [exact H|]. apply IH. apply apply_opt_nullable_bool. exact H. Qed.

Theorem column_entry_documented norm t x : In x (cds norm t) ->
  exists u nl, final_col (pk_of (cds norm t)) x =
    PDict [("name", PStr (cd_name x)); ("type", PStr (cd_ty x)); ("size", cd_sz x); ("references", cs_refs (cd_cs x));
           ("unique", PBool u); ("nullable", PBool nl); ("default", cs_default (cd_cs x)); ("check", PNone)].
Proof.
  intro Hin. unfold cds in Hin. apply in_map_iff in Hin. destruct Hin as [c [<- _]].
  unfold final_col, cd_of. cbn [cd_name cd_ty cd_sz cd_cs].
  destruct (fold_nullable_bool norm (c_opts c) cs0) as [b Hb]; [exists true; reflexivity|].
  rewrite Hb. exists (cs_unique (fold_left (apply_opt norm) (c_opts c) cs0)).
  destruct (py_in_list _ _); eexists; reflexivity.
Qed.
