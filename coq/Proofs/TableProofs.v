(* C01: the core CREATE TABLE fragment against the real keyword tables, flag logic and LALR tables. *)
From Coq Require Import String Ascii List ZArith NArith PArith Bool Lia.
From SDP Require Import Base PyStr LR Lexer Actions Parse RealTables Engine Seq SeqProofs KeywordProofs Entity EntityProofs Table StrFacts.
Import ListNotations.
Open Scope list_scope.

Definition R : list (Table.q * conf) :=
  explore real_tables term_id Table.q Table.q_eqb Table.fstep Table.alphabet (5 * 4000) [(T0, (flags0, [0%N]))] [].

(* one evaluation by the kernel's VM at Qed time (the cast is checked by the kernel) *)
Lemma R_ok : closed real_tables term_id real_pname Table.q Table.q_eqb Table.fstep Table.ffinish Table.alphabet R
             && in_R Table.q Table.q_eqb R T0 (flags0, [0%N]) = true.
Proof. vm_cast_no_check (eq_refl true). Qed.
Lemma R_closed : closed real_tables term_id real_pname Table.q Table.q_eqb Table.fstep Table.ffinish Table.alphabet R = true.
Proof. pose proof R_ok as H. apply andb_true_iff in H. exact (proj1 H). Qed.
Lemma R_init : In (T0, (flags0, [0%N])) R.
Proof. apply (in_R_In Table.q Table.q_eqb Table.q_eqb_eq). pose proof R_ok as H. apply andb_true_iff in H. exact (proj2 H). Qed.

Lemma colname_keywords_are_the_accepted : colname_keywords = filter accepted_column_name keywords.
Proof. vm_cast_no_check (eq_refl colname_keywords). Qed.
(* the keywords that can NOT name a column / a referenced column (typed as keywords even there, or own lexer rules) *)
Lemma rejected_column_names :
  filter (fun k => negb (accepted_column_name k)) keywords =
  ["AUTOINCREMENT"; "BY"; "CHECK"; "CLUSTER"; "COLLATE"; "CONSTRAINT"; "FOREIGN"; "INDEX"; "LIKE"; "PRIMARY"; "UNIQUE"; "WITH"]%string.
Proof. vm_cast_no_check (eq_refl ["AUTOINCREMENT"; "BY"; "CHECK"; "CLUSTER"; "COLLATE"; "CONSTRAINT"; "FOREIGN"; "INDEX"; "LIKE"; "PRIMARY"; "UNIQUE"; "WITH"]%string). Qed.

(* ---------- the reference machine at the name positions (any accepted name letter) -------------------------------------- *)
Lemma f_T2 l : is_name_letter l = true -> Table.fstep T2 l = Some ((["create_table -> CREATE TABLE"], "ID", Keep)%string, N1).
Proof. intro H. unfold Table.fstep. rewrite H. reflexivity. Qed.
Lemma f_ND l : is_name_letter l = true -> Table.fstep ND l = Some (([], "ID", Keep)%string, N2).
Proof. intro H. unfold Table.fstep. rewrite H. reflexivity. Qed.
Lemma f_C0 c l : is_col_letter l = true -> Table.fstep (C0 c) l = Some (([], "ID", Keep)%string, C1 c).
Proof. intro H. unfold Table.fstep. rewrite H. reflexivity. Qed.
Lemma f_RC0 c l : is_col_letter l = true -> Table.fstep (RC0 c) l = Some (([], "ID", Keep)%string, RC1 c).
Proof. intro H. unfold Table.fstep. rewrite H. reflexivity. Qed.
Lemma G_is_col_letter : is_col_letter G = true.
Proof. vm_compute. reflexivity. Qed.

Lemma is_col_word_spec w : is_col_word w = true -> is_col_letter (LWord (info_of w)) = true /\ strip_trailing_comma w = w.
Proof. unfold is_col_word. intro H. apply andb_true_iff in H. destruct H as [H1 H2]. apply String.eqb_eq in H2. auto. Qed.
Lemma match_col_word w : is_col_word w = true -> matches (W w) (LWord (info_of w)).
Proof. intro H. apply is_col_word_spec in H. simpl. tauto. Qed.
Lemma col_letter_in_alphabet l : is_col_letter l = true -> In l Table.alphabet.
Proof.
  unfold is_col_letter. intro H. apply existsb_exists in H. destruct H as [x [Hin Hx]]. apply letter_eqb_eq in Hx. subst x.
  unfold Table.alphabet. apply in_or_app. right. apply in_or_app. right. exact Hin.
Qed.
Lemma name_letter_in_table_alphabet l : is_name_letter l = true -> In l Table.alphabet.
Proof.
  intro H. unfold Table.alphabet. apply in_or_app. right. apply in_or_app. left. exact (name_letter_In l H).
Qed.
Global Opaque is_col_letter colname_letters.

Lemma frun_cons (s : Table.q) l r :
  frun Table.q Table.fstep s (l :: r) =
  match Table.fstep s l with
  | None => None
  | Some (o, s') => match frun Table.q Table.fstep s' r with None => None | Some (os, s'') => Some (o :: os, s'') end
  end.
Proof. reflexivity. Qed.

(* ================= proof device: options flattened into items ============================================= *)
Inductive item :=
| INull (n : nullk) | IDefWord (kw v : string) | IDefNull (kw kn : string) | IDefStr (kw s : string)
| IPk (a b : string) | IUq (k : string)
| IRefStart (kw : string) (sch : option string) (tbl : string)
| IRefCol (c : string) | IOnDel (a b act : string) | IOnUpd (a b act : string) | IRefNull (n : nullk).

Definition on_items (mk : string -> string -> string -> item) (o : option (string * string * string)) : list item :=
  match o with Some (a, b, c) => [mk a b c] | None => [] end.
Definition items_of (o : copt) : list item :=
  match o with
  | ONull n => [INull n]
  | ODefWord kw v => [IDefWord kw v]
  | ODefNull kw kn => [IDefNull kw kn]
  | ODefStr kw s => [IDefStr kw s]
  | OPk a b => [IPk a b]
  | OUnique k => [IUq k]
  | ORef r => IRefStart (r_kw r) (r_schema r) (r_table r) :: (match r_col r with Some c => [IRefCol c] | None => [] end)
              ++ on_items IOnDel (r_ondel r) ++ on_items IOnUpd (r_onupd r)
              ++ (match r_null r with Some n => [IRefNull n] | None => [] end)
  end.

Definition item_lexemes (i : item) : list lexeme :=
  match i with
  | INull n | IRefNull n => null_lexemes n
  | IDefWord kw v => [W kw; W v]
  | IDefNull kw kn => [W kw; W kn]
  | IDefStr kw s => [W kw; SB s]
  | IPk a b => [W a; W b]
  | IUq k => [W k]
  | IRefStart kw (Some s) t => [W kw; W s; DOTL; W t]
  | IRefStart kw None t => [W kw; W t]
  | IRefCol c => [LPx; W c; RPx]
  | IOnDel a b act | IOnUpd a b act => [W a; W b; W act]
  end.
Definition item_letters (i : item) : list letter :=
  match i with
  | INull n | IRefNull n => null_letters n
  | IDefWord _ _ => [K "DEFAULT"; G]
  | IDefNull _ _ => [K "DEFAULT"; K "NULL"]
  | IDefStr _ _ => [K "DEFAULT"; LStr]
  | IPk _ _ => [K "PRIMARY"; K "KEY"]
  | IUq _ => [K "UNIQUE"]
  | IRefStart _ (Some _) _ => [K "REFERENCES"; G; LDot; G]
  | IRefStart _ None _ => [K "REFERENCES"; G]
  | IRefCol c => [LPl; LWord (info_of c); RPl]
  | IOnDel _ _ _ => [K "ON"; K "DELETE"; G]
  | IOnUpd _ _ _ => [K "ON"; K "UPDATE"; G]
  end%string.

Ltac destruct_ref r :=
  destruct r as [rkw [rs|] rt [rc|] [[[da db] dc]|] [[[ua ub] uc]|] [[nk|nk1 nk2]|]].

Lemma opt_lexemes_items o : opt_lexemes o = flat_map item_lexemes (items_of o).
Proof. destruct o as [n|kw v|kw kn|kw s|a b|k|r]; try reflexivity; [destruct n; reflexivity|]. destruct_ref r; reflexivity. Qed.
Lemma opt_letters_items o : Table.opt_letters o = flat_map item_letters (items_of o).
Proof. destruct o as [n|kw v|kw kn|kw s|a b|k|r]; try reflexivity; [destruct n; reflexivity|]. destruct_ref r; reflexivity. Qed.

Lemma flat_map_flat_map {A B C} (f : A -> list B) (g : B -> list C) (l : list A) :
  flat_map g (flat_map f l) = flat_map (fun x => flat_map g (f x)) l.
Proof. induction l as [|x r IH]; simpl; [reflexivity|]. rewrite flat_map_app, IH. reflexivity. Qed.
Lemma opts_lexemes_items opts : flat_map opt_lexemes opts = flat_map item_lexemes (flat_map items_of opts).
Proof. rewrite flat_map_flat_map. apply flat_map_ext. intro o. apply opt_lexemes_items. Qed.
Lemma opts_letters_items opts : flat_map Table.opt_letters opts = flat_map item_letters (flat_map items_of opts).
Proof. rewrite flat_map_flat_map. apply flat_map_ext. intro o. apply opt_letters_items. Qed.

(* the pending kind an item leaves *)
Definition pend_of_item (i : item) : pend :=
  match i with
  | INull (NNull _) => PNull | INull (NNot _ _) => PNotNull
  | IDefWord _ _ => PDefId | IDefNull _ _ => PDefNull | IDefStr _ _ => PDefStr
  | IPk _ _ => PPk | IUq _ => PUq
  | IRefStart _ None _ => PRefT1 | IRefStart _ (Some _) _ => PRefT2
  | IRefCol _ => PRefCol | IOnDel _ _ _ => PRefDel | IOnUpd _ _ _ => PRefUpd
  | IRefNull (NNull _) => PRefNull | IRefNull (NNot _ _) => PRefNotNull
  end.
(* which item may follow which pending kind *)
Definition item_ok (p : pend) (i : item) : bool :=
  match i with
  | INull _ => negb (refopen p)
  | IRefCol _ => pend_eqb p PRefT1 || pend_eqb p PRefT2
  | IOnDel _ _ _ | IOnUpd _ _ _ | IRefNull _ => refopen p
  | _ => true
  end.
Fixpoint chain_ok (p : pend) (l : list item) : bool :=
  match l with [] => true | i :: r => item_ok p i && chain_ok (pend_of_item i) r end.
Fixpoint last_pend (p : pend) (l : list item) : pend :=
  match l with [] => p | i :: r => last_pend (pend_of_item i) r end.

Definition idk : fout := ([], "ID", Keep)%string.
Definition fos_item (p : pend) (i : item) : list fout :=
  match i with
  | INull (NNull _) => [(pend_reds p, "NULL", Upper)]
  | INull (NNot _ _) => [(pend_reds p, "NOT", Upper); ([], "NULL", Upper)]
  | IDefWord _ _ => [(pend_reds p, "DEFAULT", Upper); idk]
  | IDefNull _ _ => [(pend_reds p, "DEFAULT", Upper); ([], "NULL", Upper)]
  | IDefStr _ _ => [(pend_reds p, "DEFAULT", Upper); ([], "STRING_BASE", Keep)]
  | IPk _ _ => [(pend_reds p, "PRIMARY", Upper); ([], "KEY", Upper)]
  | IUq _ => [(pend_reds p, "UNIQUE", Upper)]
  | IRefStart _ None _ => [(pend_reds p, "REFERENCES", Upper); idk]
  | IRefStart _ (Some _) _ => [(pend_reds p, "REFERENCES", Upper); idk; (["id -> ID"], "DOT", Keep); idk]
  | IRefCol _ => [(ref_reds p, "LP", Keep); idk; (["id -> ID"; "pid -> id"], "RP", Upper)]
  | IOnDel _ _ _ => [(ref_reds p, "ON", Upper); ([], "DELETE", Upper); idk]
  | IOnUpd _ _ _ => [(ref_reds p, "ON", Upper); ([], "UPDATE", Upper); idk]
  | IRefNull (NNull _) => [(ref_reds p, "NULL", Upper)]
  | IRefNull (NNot _ _) => [(ref_reds p, "NOT", Upper); ([], "NULL", Upper)]
  end%string.

Notation Frun := (frun Table.q Table.fstep).

Definition item_letters_ok (i : item) : bool := match i with IRefCol c => is_col_letter (LWord (info_of c)) | _ => true end.
Lemma frun_item c p i : item_letters_ok i = true -> item_ok p i = true ->
  Frun (B c p) (item_letters i) = Some (fos_item p i, B c (pend_of_item i)).
Proof.
  destruct i as [[nk|nk1 nk2]|kw v|kw kn|kw s|a b|k|kw [sc|] tb|cn|a b act|a b act|[nk|nk1 nk2]];
    cbn [item_letters_ok]; intro Hl.
  10: { cbn [item_letters fos_item pend_of_item]. intro H.
        assert (E1 : Table.fstep (B c p) LPl = Some ((ref_reds p, "LP", Keep)%string, RC0 c))
          by (destruct p; destruct c; cbn [item_ok pend_eqb orb] in H; try discriminate H; vm_compute; reflexivity).
        assert (E3 : Table.fstep (RC1 c) RPl = Some ((["id -> ID"; "pid -> id"], "RP", Upper)%string, B c PRefCol))
          by (destruct c; vm_compute; reflexivity).
        rewrite frun_cons, E1; cbv beta iota. rewrite frun_cons, (f_RC0 c _ Hl); cbv beta iota. rewrite frun_cons, E3. reflexivity. }
  all: destruct p; destruct c; cbn [item_ok refopen negb pend_eqb orb]; intro H; try discriminate H; vm_compute; reflexivity.
Qed.
Lemma fos_item_length p i : List.length (fos_item p i) = List.length (item_lexemes i).
Proof. destruct i as [[nk|nk1 nk2]|kw v|kw kn|kw s|a b|k|kw [sc|] tb|cn|a b act|a b act|[nk|nk1 nk2]]; reflexivity. Qed.

(* ================= generic composition of machine steps ======================================================= *)
Lemma frun_app : forall l1 l2 s fos1 s1, Frun s l1 = Some (fos1, s1) ->
  Frun s (l1 ++ l2) = match Frun s1 l2 with Some (fos2, s2) => Some (fos1 ++ fos2, s2) | None => None end.
Proof.
  induction l1 as [|l r IH]; intros l2 s fos1 s1 H; simpl in *.
  - inversion H; subst. destruct (Frun s1 l2) as [[? ?]|]; reflexivity.
  - destruct (Table.fstep s l) as [[o s']|]; [|discriminate].
    destruct (Frun s' r) as [[os s'']|] eqn:E; [|discriminate]. inversion H; subst.
    rewrite (IH l2 s' os s1 E). destruct (Frun s1 l2) as [[? ?]|]; reflexivity.
Qed.

Section Steps.
  Variable norm : bool.
  (* reading letters ls / lexemes lxs takes the reference machine from s to s' and the value stack from vs to vs' *)
  Definition Steps (s : Table.q) (vs : list pyval) (ls : list letter) (lxs : list lexeme) (s' : Table.q) (vs' : list pyval) : Prop :=
    exists fos, Frun s ls = Some (fos, s') /\ List.length fos = List.length lxs /\ exec norm (ntrace fos lxs) vs = Ok vs'.

  Lemma Steps_nil s vs : Steps s vs [] [] s vs.
  Proof. exists []. repeat split. Qed.
  Lemma Steps_app s vs l1 x1 s1 vs1 l2 x2 s2 vs2 :
    Steps s vs l1 x1 s1 vs1 -> Steps s1 vs1 l2 x2 s2 vs2 -> Steps s vs (l1 ++ l2) (x1 ++ x2) s2 vs2.
  Proof.
    intros [f1 [Hf1 [Hl1 He1]]] [f2 [Hf2 [Hl2 He2]]]. exists (f1 ++ f2). split; [|split].
    - rewrite (frun_app _ _ _ _ _ Hf1), Hf2. reflexivity.
    - rewrite !app_length. congruence.
    - rewrite ntrace_app by exact Hl1. rewrite (exec_app _ _ _ _ _ He1). exact He2.
  Qed.
End Steps.

(* ================= evaluation ===================================================================================== *)
Local Arguments int_of_string : simpl never.
Local Arguments normalize_id : simpl never.
Local Arguments isnumeric : simpl never.
Local Arguments plain_type_word : simpl never.
Local Arguments default_value : simpl never.
Local Arguments default_bad : simpl never.
Local Arguments refaction_bad : simpl never.
Local Arguments colname_bad : simpl never.
Local Arguments nms : simpl never.
Local Arguments upper : simpl never.

Lemma act_id' norm s : action norm "id -> ID" [PStr s] = Ok (PStr (nms norm s)).
Proof. reflexivity. Qed.

Record rdict := mkRD { rd_table : pyval; rd_col : pyval; rd_schema : pyval; rd_del : pyval; rd_upd : pyval }.
Definition rd_list (r : rdict) : list (string * pyval) :=
  [("table", rd_table r); ("columns", PList [rd_col r]); ("schema", rd_schema r); ("on_delete", rd_del r);
   ("on_update", rd_upd r); ("deferrable_initially", PNone)]%string.
Definition rd_colform (r : rdict) : list (string * pyval) :=
  [("table", rd_table r); ("schema", rd_schema r); ("on_delete", rd_del r); ("on_update", rd_upd r);
   ("deferrable_initially", PNone); ("column", rd_col r)]%string.
Definition refitem (r : rdict) : pyval := PDict [("references", PDict (rd_list r))]%string.

Definition sem := (cstate * option rdict)%type.
Definition with_refs (cs : cstate) (v : pyval) : cstate := mkCS v (cs_unique cs) (cs_pk cs) (cs_nullable cs) (cs_default cs).
Definition close (s : sem) : cstate :=
  match snd s with None => fst s | Some rd => with_refs (fst s) (PDict (rd_colform rd)) end.

Definition apply_item (norm : bool) (s : sem) (i : item) : sem :=
  let cs := close s in
  match i with
  | INull n => (mkCS (cs_refs cs) (cs_unique cs) (cs_pk cs) (PBool (null_val n)) (cs_default cs), None)
  | IDefWord _ v => (mkCS (cs_refs cs) (cs_unique cs) (cs_pk cs) (cs_nullable cs) (default_value (nms norm v)), None)
  | IDefNull _ _ => (mkCS (cs_refs cs) (cs_unique cs) (cs_pk cs) (cs_nullable cs) (PStr "NULL"), None)
  | IDefStr _ s => (mkCS (cs_refs cs) (cs_unique cs) (cs_pk cs) (cs_nullable cs) (default_value s), None)
  | IPk _ _ => (mkCS (cs_refs cs) (cs_unique cs) true (PBool false) (cs_default cs), None)
  | IUq _ => (mkCS (cs_refs cs) true (cs_pk cs) (cs_nullable cs) (cs_default cs), None)
  | IRefStart _ sch tbl => (cs, Some (mkRD (nmv norm tbl) PNone (onm norm sch) PNone PNone))
  | IRefCol c => (fst s, match snd s with Some rd => Some (mkRD (rd_table rd) (nmv norm c) (rd_schema rd) (rd_del rd) (rd_upd rd)) | None => None end)
  | IOnDel _ _ act => (fst s, match snd s with Some rd => Some (mkRD (rd_table rd) (rd_col rd) (rd_schema rd) (nmv norm act) (rd_upd rd)) | None => None end)
  | IOnUpd _ _ act => (fst s, match snd s with Some rd => Some (mkRD (rd_table rd) (rd_col rd) (rd_schema rd) (rd_del rd) (nmv norm act)) | None => None end)
  | IRefNull n =>
      match snd s with
      | Some rd => (mkCS (PDict (rd_list rd)) (cs_unique (fst s)) (cs_pk (fst s)) (PBool (null_val n)) (cs_default (fst s)), None)
      | None => s
      end
  end%string.

Definition wf_item (norm : bool) (i : item) : bool :=
  match i with
  | INull n | IRefNull n => wf_null n
  | IDefWord kw v => is_kw kw "DEFAULT" && is_value_word norm v
  | IDefNull kw kn => is_kw kw "DEFAULT" && is_kw kn "NULL"
  | IDefStr kw s => is_kw kw "DEFAULT" && negb (default_bad s)
  | IPk a b => is_kw a "PRIMARY" && is_kw b "KEY"
  | IUq k => is_kw k "UNIQUE"
  | IRefStart kw sch t => is_kw kw "REFERENCES" && match sch with Some s => is_plain s | None => true end && is_plain t
  | IRefCol c => is_col_word c
  | IOnDel a b act => is_kw a "ON" && is_kw b "DELETE" && is_action_word norm act
  | IOnUpd a b act => is_kw a "ON" && is_kw b "UPDATE" && is_action_word norm act
  end%string.

Section Column.
  Variable norm : bool.
  Variable c : ctx.
  Variables (name ty : string) (sz : pyval) (base : list pyval).

  Definition Inv (p : pend) (vs : list pyval) (s : sem) : Prop :=
    match snd s with
    | None => refopen p = false /\
              exec norm (map NReduce (pend_reds p)) vs = Ok (PDict (cdict name ty sz (fst s)) :: base)
    | Some rd => refopen p = true /\
                 exec norm (map NReduce (ref_reds p)) vs = Ok (refitem rd :: PDict (cdict name ty sz (fst s)) :: base)
    end.

  Lemma inv_close p vs s : Inv p vs s ->
    exec norm (map NReduce (pend_reds p)) vs = Ok (PDict (cdict name ty sz (close s)) :: base).
  Proof.
    destruct s as [cs [rd|]]; unfold Inv, close; cbn [fst snd]; intros [Hp H]; [|exact H].
    assert (E : pend_reds p = ref_reds p ++ ["defcolumn -> defcolumn ref"%string]) by (destruct p; try discriminate Hp; reflexivity).
    rewrite E, map_app. rewrite (exec_app _ _ _ _ _ H). cbn [map exec]. arities. cbn [firstn skipn rev app].
    unfold action, refitem, cdict, rd_list; simpl. reflexivity.
  Qed.

  Ltac kwf H := let Hu := fresh "Hu" in pose proof (is_kw_spec _ _ H) as [Hu _].
  Ltac split_all H :=
    repeat match type of H with
           | (_ && _) = true => let H2 := fresh "Hw" in apply andb_true_iff in H; destruct H as [H H2]
           end.
  Ltac use_kws :=
    repeat match goal with X : is_kw _ _ = true |- _ => kwf X; clear X end.
  Ltac rew_upper := repeat match goal with Hu : upper _ = _ |- _ => rewrite Hu end.
  Ltac run_exec :=
    cbn [map exec]; arities; cbn [firstn skipn rev app];
    repeat (rewrite ?act_id'; cbn [bind exec firstn skipn rev app]).

  Lemma value_word_spec v : is_value_word norm v = true -> default_bad (nms norm v) = false.
  Proof. unfold is_value_word. intro H. apply andb_true_iff in H. destruct H as [_ H]. apply negb_true_iff in H. exact H. Qed.
  Lemma action_word_spec v : is_action_word norm v = true -> refaction_bad (nms norm v) = false.
  Proof. unfold is_action_word. intro H. apply andb_true_iff in H. destruct H as [_ H]. apply negb_true_iff in H. exact H. Qed.

  Ltac boundary it Hp Hok :=
    eexists; split;
    [ eexists (fos_item _ it); split; [apply frun_item; [first [reflexivity | match goal with X : is_col_word _ = true |- _ => exact (proj1 (is_col_word_spec _ X)) end] | exact Hok]|]; split; [reflexivity|];
      cbn [fos_item item_lexemes null_lexemes ntrace snd W SB DOTL LPx RPx apply_vtag idk]; rew_upper;
      rewrite (exec_app _ _ _ _ _ Hp); run_exec; reflexivity
    | unfold Inv, apply_item; cbn [snd fst pend_of_item]; split; [reflexivity|];
      cbn [pend_reds ref_reds app]; run_exec; unfold action, cdict, refitem, rd_list; simpl ].

  Ltac cont it H Hok :=
    eexists; split;
    [ eexists (fos_item _ it); split; [apply frun_item; [first [reflexivity | match goal with X : is_col_word _ = true |- _ => exact (proj1 (is_col_word_spec _ X)) end] | exact Hok]|]; split; [reflexivity|];
      cbn [fos_item item_lexemes null_lexemes ntrace snd W SB DOTL LPx RPx apply_vtag idk]; rew_upper;
      rewrite (exec_app _ _ _ _ _ H); run_exec; reflexivity
    | unfold Inv, apply_item; cbn [snd fst pend_of_item]; split; [reflexivity|];
      cbn [pend_reds ref_reds app]; run_exec; unfold action, cdict, refitem, rd_list; simpl ].
  Ltac needs_open :=
    match goal with
    | HI : Inv ?p ?vs ?s, Hok : item_ok ?p _ = true |- _ =>
      let cs := fresh "cs" in let rd := fresh "rd" in let Hr := fresh "Hr" in
      destruct s as [cs [rd|]];
      [ destruct HI as [Hr H]
      | exfalso; destruct HI as [Hr _]; cbn [item_ok] in Hok; destruct p; cbn [refopen pend_eqb orb] in *; discriminate ]
    end.

  Lemma item_step p vs s i :
    wf_item norm i = true -> item_ok p i = true -> Inv p vs s ->
    exists vs', Steps norm (B c p) vs (item_letters i) (item_lexemes i) (B c (pend_of_item i)) vs' /\
                Inv (pend_of_item i) vs' (apply_item norm s i).
  Proof.
    intros Hwf Hok HI. pose proof (inv_close _ _ _ HI) as Hp.
    destruct i as [[nk|nk1 nk2]|kw v|kw kn|kw sl|a b|k|kw [sc|] tb|cn|a b act|a b act|[nk|nk1 nk2]];
      cbn [wf_item wf_null] in Hwf; split_all Hwf; use_kws.
    - boundary (INull (NNull nk)) Hp Hok. reflexivity.
    - boundary (INull (NNot nk1 nk2)) Hp Hok. reflexivity.
    - boundary (IDefWord kw v) Hp Hok.
      match goal with X : is_value_word _ _ = true |- _ => rewrite (value_word_spec _ X) end. reflexivity.
    - boundary (IDefNull kw kn) Hp Hok. reflexivity.
    - boundary (IDefStr kw sl) Hp Hok.
      match goal with X : negb (default_bad _) = true |- _ => apply negb_true_iff in X; rewrite X end. reflexivity.
    - boundary (IPk a b) Hp Hok. reflexivity.
    - boundary (IUq k) Hp Hok. reflexivity.
    - boundary (IRefStart kw (Some sc) tb) Hp Hok. reflexivity.
    - boundary (IRefStart kw None tb) Hp Hok. reflexivity.
    - needs_open. cont (IRefCol cn) H Hok. reflexivity.
    - needs_open. cont (IOnDel a b act) H Hok.
      match goal with X : is_action_word _ _ = true |- _ => rewrite (action_word_spec _ X) end. reflexivity.
    - needs_open. cont (IOnUpd a b act) H Hok.
      match goal with X : is_action_word _ _ = true |- _ => rewrite (action_word_spec _ X) end. reflexivity.
    - needs_open. cont (IRefNull (NNull nk)) H Hok. reflexivity.
    - needs_open. cont (IRefNull (NNot nk1 nk2)) H Hok. reflexivity.
  Qed.

  Lemma items_steps : forall items p vs s,
    forallb (wf_item norm) items = true -> chain_ok p items = true -> Inv p vs s ->
    exists vs', Steps norm (B c p) vs (flat_map item_letters items) (flat_map item_lexemes items) (B c (last_pend p items)) vs' /\
                Inv (last_pend p items) vs' (fold_left (apply_item norm) items s).
  Proof.
    induction items as [|i r IH]; intros p vs s Hwf Hch HI.
    - exists vs. split; [apply Steps_nil|exact HI].
    - cbn [forallb chain_ok] in *. apply andb_true_iff in Hwf. apply andb_true_iff in Hch.
      destruct Hwf as [Hw1 Hw2]. destruct Hch as [Hc1 Hc2].
      destruct (item_step p vs s i Hw1 Hc1 HI) as [vs1 [St1 HI1]].
      destruct (IH _ _ _ Hw2 Hc2 HI1) as [vs2 [St2 HI2]].
      exists vs2. split; [|exact HI2]. cbn [flat_map last_pend]. eapply Steps_app; eassumption.
  Qed.
End Column.

(* ---------- options and items: well-formedness, chaining, meaning ------------------------------------------------- *)
Lemma wf_opt_items norm o : wf_opt norm o = true -> forallb (wf_item norm) (items_of o) = true.
Proof.
  destruct o as [n|kw v|kw kn|kw s|a b|k|r]; cbn [wf_opt items_of forallb wf_item]; intro H; rewrite ?H; try reflexivity.
  unfold wf_ref in H. destruct_ref r; cbn [r_kw r_schema r_table r_col r_ondel r_onupd r_null wf_on] in H;
    cbn [items_of r_kw r_schema r_table r_col r_ondel r_onupd r_null on_items app forallb wf_item];
    repeat match type of H with
           | (_ && _) = true => let H2 := fresh "Hw" in apply andb_true_iff in H; destruct H as [H H2]
           end;
    repeat match goal with X : _ = true |- _ => rewrite X; clear X end; reflexivity.
Qed.
Lemma wf_opts_items norm opts : forallb (wf_opt norm) opts = true -> forallb (wf_item norm) (flat_map items_of opts) = true.
Proof.
  induction opts as [|o r IH]; cbn [forallb flat_map]; intro H; [reflexivity|].
  apply andb_true_iff in H. destruct H as [H1 H2]. rewrite forallb_app, (wf_opt_items _ _ H1), (IH H2). reflexivity.
Qed.

Lemma chain_ok_app : forall a b p, chain_ok p (a ++ b) = chain_ok p a && chain_ok (last_pend p a) b.
Proof. induction a as [|i r IH]; intros b p; cbn [app chain_ok last_pend]; [reflexivity|]. rewrite IH, andb_assoc. reflexivity. Qed.
Lemma last_pend_app : forall a b p, last_pend p (a ++ b) = last_pend (last_pend p a) b.
Proof. induction a as [|i r IH]; intros b p; cbn [app last_pend]; [reflexivity|]. apply IH. Qed.

Definition pend_of_opt (o : copt) : pend := last_pend PT1 (items_of o).
Lemma last_pend_opt p o : last_pend p (items_of o) = pend_of_opt o.
Proof. destruct o as [n|kw v|kw kn|kw s|a b|k|r]; reflexivity. Qed.
Lemma chain_opt p o : chain_ok p (items_of o) = (if is_null_opt o then negb (refopen p) else true).
Proof.
  destruct o as [n|kw v|kw kn|kw s|a b|k|r]; try reflexivity.
  - cbn [items_of chain_ok item_ok is_null_opt]. apply andb_true_r.
  - destruct_ref r; reflexivity.
Qed.
Lemma refopen_opt o : refopen (pend_of_opt o) = opens_ref o.
Proof. destruct o as [[n|n1 n2]|kw v|kw kn|kw s|a b|k|r]; try reflexivity. destruct_ref r; reflexivity. Qed.

Definition first_ok (p : pend) (opts : list copt) : bool :=
  match opts with o :: _ => if is_null_opt o then negb (refopen p) else true | [] => true end.
Lemma chain_opts : forall opts p, first_ok p opts = true -> no_ref_then_null opts = true ->
  chain_ok p (flat_map items_of opts) = true.
Proof.
  induction opts as [|o r IH]; intros p Hf Hn; [reflexivity|].
  cbn [flat_map]. rewrite chain_ok_app, last_pend_opt, chain_opt. cbn [first_ok] in Hf. rewrite Hf. cbn [andb].
  cbn [no_ref_then_null] in Hn. apply andb_true_iff in Hn. destruct Hn as [Hn1 Hn2]. apply IH; [|exact Hn2].
  unfold first_ok. destruct r as [|o2 r2]; [reflexivity|]. rewrite refopen_opt.
  destruct (is_null_opt o2); [|reflexivity]. rewrite andb_true_r in Hn1. exact Hn1.
Qed.

Lemma close_opt norm o s : close (fold_left (apply_item norm) (items_of o) s) = apply_opt norm (close s) o.
Proof.
  destruct o as [n|kw v|kw kn|kw sl|a b|k|r]; try reflexivity. destruct_ref r; reflexivity.
Qed.
Lemma close_opts norm : forall opts s,
  close (fold_left (apply_item norm) (flat_map items_of opts) s) = fold_left (apply_opt norm) opts (close s).
Proof.
  induction opts as [|o r IH]; intro s; [reflexivity|].
  cbn [flat_map fold_left]. rewrite fold_left_app, IH, close_opt. reflexivity.
Qed.

(* ---------- a column: header (name, type, size), options, the closing comma / parenthesis --------------------------- *)
Definition sepv (c : ctx) : pyval := match c with First => PStr "(" | Later => PStr "," end.

Definition hdr_letters (col : column) : list letter :=
  LWord (info_of (c_name col)) :: G :: (match c_ty2 col with Some _ => [G] | None => [] end)
  ++ (match c_size col with
      | Some (_, None) => [LPl; G; RPl]
      | Some (_, Some _) => [LPl; G; CMl; G; RPl]
      | None => [] end).
Definition hdr_lexemes (col : column) : list lexeme :=
  W (c_name col) :: W (c_ty1 col) :: (match c_ty2 col with Some w => [W w] | None => [] end)
  ++ (match c_size col with
      | Some (a, None) => [LPx; W a; RPx]
      | Some (a, Some b) => [LPx; W a; CMx; W b; RPx]
      | None => [] end).
Definition hdr_pend (col : column) : pend :=
  match c_size col, c_ty2 col with
  | Some (_, None), _ => PSz1 | Some (_, Some _), _ => PSz2
  | None, Some _ => PT2 | None, None => PT1
  end.
Definition hdr_fos (col : column) : list fout :=
  idk :: (["id -> ID"], "ID", Keep) ::
  (match c_ty2 col with Some _ => [(["id -> ID"], "ID", Keep)] | None => [] end)
  ++ (match c_size col with
      | None => []
      | Some (_, sc) =>
          ((match c_ty2 col with
            | Some _ => ["id -> ID"; "c_type -> id id"; "column -> id c_type"]
            | None => ["id -> ID"; "c_type -> id"; "column -> id c_type"] end), "LP", Keep) :: idk ::
          match sc with
          | None => [(["id -> ID"], "RP", Upper)]
          | Some _ => [(["id -> ID"], "COMMA", Upper); idk; (["id -> ID"], "RP", Upper)]
          end
      end)%string.

Lemma frun_hdr c col : is_col_letter (LWord (info_of (c_name col))) = true ->
  Frun (C0 c) (hdr_letters col) = Some (hdr_fos col, B c (hdr_pend col)).
Proof.
  intro Hl. unfold hdr_letters, hdr_fos, hdr_pend. rewrite frun_cons, (f_C0 c _ Hl). cbv beta iota.
  destruct c; destruct (c_ty2 col); destruct (c_size col) as [[a [b|]]|];
    match goal with |- match ?X with _ => _ end = _ => let v := eval vm_compute in X in change X with v end; reflexivity.
Qed.
Lemma hdr_length col : List.length (hdr_fos col) = List.length (hdr_lexemes col).
Proof. unfold hdr_fos, hdr_lexemes. destruct (c_ty2 col); destruct (c_size col) as [[a [b|]]|]; reflexivity. Qed.

Lemma upper_comma : upper "," = ","%string. Proof. reflexivity. Qed.
Lemma upper_rp : upper ")" = ")"%string. Proof. reflexivity. Qed.

Lemma is_digits_spec norm a : is_digits a = true ->
  nms norm a = a /\ isnumeric a = true /\ exists z, int_of_string a = Some z.
Proof.
  unfold is_digits. intro H. apply andb_true_iff in H. destruct H as [H1 H2].
  apply is_num_spec in H1. destruct H1 as [_ [Hz Hn]]. split; [|split; assumption].
  unfold nms. destruct norm; [exact Hn|reflexivity].
Qed.

Ltac run_exec :=
  cbn [map exec]; arities; cbn [firstn skipn rev app];
  repeat (rewrite ?act_id'; cbn [bind exec firstn skipn rev app]).
Ltac split_all H :=
  repeat match type of H with
         | (_ && _) = true => let H2 := fresh "Hw" in apply andb_true_iff in H; destruct H as [H H2]
         end.

Lemma exec_shift norm v r vs : exec norm (NShift v :: r) vs = exec norm r (PStr v :: vs).
Proof. reflexivity. Qed.
Lemma exec_reduce norm p r vs :
  exec norm (NReduce p :: r) vs = (do v <- action norm p (rev (firstn (prod_arity p) vs)); exec norm r (v :: skipn (prod_arity p) vs)).
Proof. reflexivity. Qed.
Lemma exec_nil norm vs : exec norm [] vs = Ok vs.
Proof. reflexivity. Qed.

Lemma act_ctype1 norm w : plain_type_word w = true -> action norm "c_type -> id" [PStr w] = Ok (PDict [("type", PStr w)])%string.
Proof. intro H. unfold action; simpl. rewrite H. reflexivity. Qed.
Lemma act_ctype2 norm w1 w2 : plain_type_word w1 = true -> plain_type_word w2 = true ->
  action norm "c_type -> id id" [PStr w1; PStr w2] = Ok (PDict [("type", PStr (w1 ++ " " ++ w2))])%string.
Proof. intros H1 H2. unfold action; simpl. rewrite H1, H2. reflexivity. Qed.
(* a plain type word does not mention IDENTITY, nor do two of them joined by a blank *)
Lemma plain_no_identity w : plain_type_word w = true -> contains (upper w) "IDENTITY" = false.
Proof.
  unfold plain_type_word. intro H. repeat (apply andb_true_iff in H; destruct H as [H ?]).
  match goal with X : negb (contains (upper w) "IDENTITY") = true |- _ => apply negb_true_iff in X; exact X end.
Qed.
Lemma plain2_no_identity w1 w2 : plain_type_word w1 = true -> plain_type_word w2 = true ->
  contains (upper (w1 ++ " " ++ w2)) "IDENTITY" = false.
Proof.
  intros H1 H2. rewrite upper_app. change (upper (" " ++ w2))%string with (String " " (upper w2)).
  apply contains_sep; [discriminate|reflexivity|apply plain_no_identity; exact H1|apply plain_no_identity; exact H2].
Qed.
Lemma act_col_gen norm n t : colname_bad n = false -> contains (upper t) "IDENTITY" = false ->
  action norm "column -> id c_type" [PStr n; PDict [("type", PStr t)]] = Ok (PDict [("name", PStr n); ("type", PStr t); ("size", PNone)])%string.
Proof. intros H Ht. unfold action; simpl. rewrite H. rewrite Ht. reflexivity. Qed.
Lemma act_col norm n t : colname_bad n = false -> plain_type_word t = true ->
  action norm "column -> id c_type" [PStr n; PDict [("type", PStr t)]] = Ok (PDict [("name", PStr n); ("type", PStr t); ("size", PNone)])%string.
Proof. intros H Ht. apply act_col_gen; [exact H|apply plain_no_identity; exact Ht]. Qed.
Lemma act_col_2 norm n w1 w2 : colname_bad n = false -> plain_type_word w1 = true -> plain_type_word w2 = true ->
  action norm "column -> id c_type" [PStr n; PDict [("type", PStr (w1 ++ " " ++ w2))]]
  = Ok (PDict [("name", PStr n); ("type", PStr (w1 ++ " " ++ w2)); ("size", PNone)])%string.
Proof. intros H H1 H2. apply act_col_gen; [exact H|apply plain2_no_identity; assumption]. Qed.
Lemma act_col_sz1 norm n t a z : isnumeric a = true -> int_of_string a = Some z ->
  action norm "column -> column LP id RP" [PDict [("name", n); ("type", t); ("size", PNone)]; PStr "("; PStr a; PStr ")"]
  = Ok (PDict [("name", n); ("type", t); ("size", PInt z)])%string.
Proof. intros H1 H2. unfold action, act_column, size_int; simpl. rewrite H1, H2. reflexivity. Qed.
Lemma act_col_sz2 norm n t a z b z' : isnumeric a = true -> int_of_string a = Some z -> isnumeric b = true -> int_of_string b = Some z' ->
  action norm "column -> column LP id COMMA id RP" [PDict [("name", n); ("type", t); ("size", PNone)]; PStr "("; PStr a; PStr ","; PStr b; PStr ")"]
  = Ok (PDict [("name", n); ("type", t); ("size", PTuple [PInt z; PInt z'])])%string.
Proof. intros H1 H2 H3 H4. unfold action, act_column, size_int; simpl. rewrite H1, H2. simpl. rewrite H3, H4. reflexivity. Qed.
Lemma act_defcol0 norm n t sz :
  action norm "defcolumn -> column" [PDict [("name", PStr n); ("type", PStr t); ("size", sz)]] = Ok (PDict (cdict n t sz cs0))%string.
Proof. reflexivity. Qed.

Ltac step :=
  first [ rewrite exec_shift
        | rewrite exec_reduce; arities; cbn [firstn skipn rev app];
          first [ rewrite act_id' | rewrite act_ctype1 by assumption | rewrite act_ctype2 by assumption
                | rewrite act_col by assumption | rewrite act_col_2 by assumption | erewrite act_col_sz1 by eassumption | erewrite act_col_sz2 by eassumption
                | rewrite act_defcol0 ];
          cbn [bind] ].

Lemma hdr_steps norm c col base : wf_col norm col = true ->
  exists vs, Steps norm (C0 c) base (hdr_letters col) (hdr_lexemes col) (B c (hdr_pend col)) vs /\
             Inv norm (nms norm (c_name col)) (col_type norm col) (col_size col) base (hdr_pend col) vs (cs0, None).
Proof.
  unfold wf_col. intro H. split_all H.
  unfold is_colname, is_type_word in *.
  repeat match goal with X : (_ && _) = true |- _ => let Y := fresh "Hy" in apply andb_true_iff in X; destruct X as [X Y] end.
  repeat match goal with X : negb _ = true |- _ => apply negb_true_iff in X end.
  match goal with X : is_col_word _ = true |- _ => pose proof (proj1 (is_col_word_spec _ X)) as Hcl end.
  destruct col as [cname t1 t2 csz copts]. cbn [c_name c_ty1 c_ty2 c_size c_opts] in *.
  unfold Steps, Inv, col_type, col_size. cbn [c_name c_ty1 c_ty2 c_size c_opts snd fst].
  destruct t2 as [t2|]; destruct csz as [[a [b|]]|];
    repeat match goal with X : (_ && _) = true |- _ => let Y := fresh "Hy" in apply andb_true_iff in X; destruct X as [X Y] end;
    repeat match goal with X : is_digits _ = true |- _ =>
             let E := fresh "En" in let N := fresh "Nu" in let z := fresh "z" in let Hz := fresh "Hz" in
             pose proof (is_digits_spec norm _ X) as [E [N [z Hz]]]; clear X end;
    (eexists; split;
     [ eexists; split; [apply frun_hdr; exact Hcl|]; split; [apply hdr_length|];
       cbn [hdr_fos hdr_lexemes c_name c_ty1 c_ty2 c_size app map ntrace snd W LPx RPx CMx apply_vtag idk]; rewrite ?upper_comma, ?upper_rp;
       repeat (step; repeat match goal with E : nms norm ?a = ?a |- _ => rewrite E end); rewrite exec_nil; reflexivity
     | split; [reflexivity|]; cbn [hdr_pend c_ty2 c_size pend_reds map];
       repeat (step; repeat match goal with E : nms norm ?a = ?a |- _ => rewrite E end); rewrite exec_nil; unfold size_val;
       repeat match goal with E : int_of_string _ = Some _ |- _ => rewrite E end; reflexivity ]).
Qed.

Lemma col_split_letters col : Table.col_letters col = hdr_letters col ++ flat_map item_letters (flat_map items_of (c_opts col)).
Proof. unfold Table.col_letters, hdr_letters. rewrite opts_letters_items. cbn [app]. rewrite <- app_assoc. reflexivity. Qed.
Lemma col_split_lexemes col : col_lexemes col = hdr_lexemes col ++ flat_map item_lexemes (flat_map items_of (c_opts col)).
Proof. unfold col_lexemes, hdr_lexemes. rewrite opts_lexemes_items. cbn [app]. rewrite <- app_assoc. reflexivity. Qed.

Lemma hdr_pend_closed col : refopen (hdr_pend col) = false.
Proof. unfold hdr_pend. destruct (c_size col) as [[a [b|]]|]; destruct (c_ty2 col); reflexivity. Qed.

(* a whole column: afterwards the pending reductions produce exactly the column entity of the specification *)
Lemma column_steps norm c col base : wf_col norm col = true ->
  exists p vs, Steps norm (C0 c) base (Table.col_letters col) (col_lexemes col) (B c p) vs /\
               exec norm (map NReduce (pend_reds p)) vs = Ok (col_dict norm col :: base).
Proof.
  intro Hwf. destruct (hdr_steps norm c col base Hwf) as [vs0 [St0 HI0]].
  assert (Hopts : forallb (wf_opt norm) (c_opts col) = true /\ no_ref_then_null (c_opts col) = true).
  { unfold wf_col in Hwf. apply andb_true_iff in Hwf. destruct Hwf as [Hwf H2]. apply andb_true_iff in Hwf. tauto. }
  destruct Hopts as [Ho Hn].
  assert (Hch : chain_ok (hdr_pend col) (flat_map items_of (c_opts col)) = true).
  { apply chain_opts; [|exact Hn]. unfold first_ok. destruct (c_opts col) as [|o r]; [reflexivity|].
    rewrite hdr_pend_closed. destruct (is_null_opt o); reflexivity. }
  destruct (items_steps norm c _ _ _ base _ _ _ _ (wf_opts_items _ _ Ho) Hch HI0) as [vs1 [St1 HI1]].
  eexists. exists vs1. split.
  - rewrite col_split_letters, col_split_lexemes. eapply Steps_app; eassumption.
  - rewrite (inv_close _ _ _ _ _ _ _ _ HI1). rewrite close_opts. reflexivity.
Qed.

(* the comma / closing parenthesis after a column *)
Lemma fstep_close_comma c p : Table.fstep (B c p) CMl = Some ((pend_reds p ++ [close_red c], "COMMA"%string, Upper), C0 Later).
Proof. destruct c; destruct p; vm_compute; reflexivity. Qed.
Lemma fstep_close_rp c p : Table.fstep (B c p) RPl = Some ((pend_reds p ++ [close_red c], "RP"%string, Upper), END).
Proof. destruct c; destruct p; vm_compute; reflexivity. Qed.

Lemma act_close norm c sch tn cols n t sz cs :
  action norm (close_red c) [PDict (tdict sch tn cols); sepv c; PDict (cdict n t sz cs)]
  = Ok (PDict (tdict sch tn (cols ++ [PDict (cdict n t sz cs)]))).
Proof. destruct c; reflexivity. Qed.

Lemma close_steps norm c p vs sch tn cols cd (l : letter) (lx : lexeme) (s' : Table.q) sepn :
  (l = CMl /\ lx = CMx /\ s' = C0 Later /\ sepn = ","%string) \/ (l = RPl /\ lx = RPx /\ s' = END /\ sepn = ")"%string) ->
  (exists n t sz cs, cd = PDict (cdict n t sz cs)) ->
  exec norm (map NReduce (pend_reds p)) vs = Ok (cd :: sepv c :: PDict (tdict sch tn cols) :: []) ->
  Steps norm (B c p) vs [l] [lx] s' [PStr sepn; PDict (tdict sch tn (cols ++ [cd]))].
Proof.
  intros Hl [n [t [sz [cs ->]]]] Hp. unfold Steps.
  destruct Hl as [[-> [-> [-> ->]]]|[-> [-> [-> ->]]]].
  - eexists. split; [cbn [frun]; rewrite fstep_close_comma; reflexivity|]. split; [reflexivity|].
    cbn [ntrace snd CMx W apply_vtag]. rewrite upper_comma, map_app, <- app_assoc.
    rewrite (exec_app _ _ _ _ _ Hp). cbn [map app]. rewrite exec_reduce.
    assert (A : prod_arity (close_red c) = 3%nat) by (destruct c; reflexivity). rewrite A. cbn [firstn skipn rev app].
    rewrite act_close. cbn [bind]. reflexivity.
  - eexists. split; [cbn [frun]; rewrite fstep_close_rp; reflexivity|]. split; [reflexivity|].
    cbn [ntrace snd RPx W apply_vtag]. rewrite upper_rp, map_app, <- app_assoc.
    rewrite (exec_app _ _ _ _ _ Hp). cbn [map app]. rewrite exec_reduce.
    assert (A : prod_arity (close_red c) = 3%nat) by (destruct c; reflexivity). rewrite A. cbn [firstn skipn rev app].
    rewrite act_close. cbn [bind]. reflexivity.
Qed.

(* all columns, any number *)
Definition rest_letters (rest : list column) : list letter := flat_map (fun c => CMl :: Table.col_letters c) rest ++ [RPl].
Definition rest_lexemes (rest : list column) : list lexeme := flat_map (fun c => CMx :: col_lexemes c) rest ++ [RPx].

Lemma columns_steps norm : forall rest col c sch tn cols,
  wf_col norm col = true -> forallb (wf_col norm) rest = true ->
  Steps norm (C0 c) [sepv c; PDict (tdict sch tn cols)]
        (Table.col_letters col ++ rest_letters rest) (col_lexemes col ++ rest_lexemes rest)
        END [PStr ")"; PDict (tdict sch tn (cols ++ map (col_dict norm) (col :: rest)))].
Proof.
  induction rest as [|c2 r IH]; intros col c sch tn cols Hc Hr.
  - destruct (column_steps norm c col [sepv c; PDict (tdict sch tn cols)] Hc) as [p [vs [St Hp]]].
    eapply Steps_app; [exact St|]. unfold rest_letters, rest_lexemes. cbn [flat_map app map].
    apply close_steps; [right; repeat split; reflexivity | unfold col_dict; do 4 eexists; reflexivity | exact Hp].
  - cbn [forallb] in Hr. apply andb_true_iff in Hr. destruct Hr as [Hc2 Hr].
    destruct (column_steps norm c col [sepv c; PDict (tdict sch tn cols)] Hc) as [p [vs [St Hp]]].
    eapply Steps_app; [exact St|].
    unfold rest_letters, rest_lexemes. cbn [flat_map]. rewrite <- !app_assoc. cbn [app].
    change (CMl :: Table.col_letters c2 ++ flat_map (fun c0 => CMl :: Table.col_letters c0) r ++ [RPl])
      with ([CMl] ++ (Table.col_letters c2 ++ rest_letters r)).
    change (CMx :: col_lexemes c2 ++ flat_map (fun c0 => CMx :: col_lexemes c0) r ++ [RPx])
      with ([CMx] ++ (col_lexemes c2 ++ rest_lexemes r)).
    eapply Steps_app.
    + apply close_steps; [left; repeat split; reflexivity | unfold col_dict; do 4 eexists; reflexivity | exact Hp].
    + specialize (IH c2 Later sch tn (cols ++ [col_dict norm col]) Hc2 Hr). cbn [sepv] in IH.
      cbn [map] in *. rewrite <- app_assoc in IH. exact IH.
Qed.

(* ---------- CREATE TABLE [schema.]name ( ------------------------------------------------------------------------------ *)
Definition top_letters (t : table) : list letter :=
  K "CREATE" :: K "TABLE" :: (match t_schema t with Some s => [LWord (info_of s); LDot] | None => [] end) ++ [LWord (info_of (t_name t)); LPl].
Lemma f_T0 : Table.fstep T0 (K "CREATE") = Some (([], "CREATE", Upper)%string, T1). Proof. vm_compute. reflexivity. Qed.
Lemma f_T1 : Table.fstep T1 (K "TABLE") = Some (([], "TABLE", Upper)%string, T2). Proof. vm_compute. reflexivity. Qed.
Lemma f_N1_dot : Table.fstep N1 LDot = Some ((["id -> ID"], "DOT", Keep)%string, ND). Proof. vm_compute. reflexivity. Qed.
Lemma f_N1_lp : Table.fstep N1 LPl = Some ((["id -> ID"; "t_name -> id"; "table_name -> create_table t_name"], "LP", Keep)%string, C0 First).
Proof. vm_compute. reflexivity. Qed.
Lemma f_N2_lp : Table.fstep N2 LPl = Some ((["id -> ID"; "t_name -> id DOT id"; "table_name -> create_table t_name"], "LP", Keep)%string, C0 First).
Proof. vm_compute. reflexivity. Qed.
Definition top_lexemes (t : table) : list lexeme :=
  W (t_create t) :: W (t_table t) :: (match t_schema t with Some s => [W s; DOTL] | None => [] end) ++ [W (t_name t); LPx].

Lemma top_steps norm t : wf norm t = true ->
  Steps norm T0 [] (top_letters t) (top_lexemes t) (C0 First)
        [PStr "("; PDict (tdict (onm norm (t_schema t)) (nmv norm (t_name t)) [])].
Proof.
  unfold wf. intro H. split_all H.
  pose proof (is_kw_spec _ _ H) as [Hu1 _]. pose proof (is_kw_spec _ _ Hw3) as [Hu2 _].
  pose proof (proj1 (is_name_spec _ Hw1)) as Hn.
  unfold Steps, top_letters, top_lexemes. destruct (t_schema t) as [s|]; cbn [app].
  - pose proof (proj1 (is_name_spec _ Hw2)) as Hs.
    eexists. split; [rewrite frun_cons, f_T0; cbv beta iota; rewrite frun_cons, f_T1; cbv beta iota; rewrite frun_cons, (f_T2 _ Hs); cbv beta iota; rewrite frun_cons, f_N1_dot; cbv beta iota; rewrite frun_cons, (f_ND _ Hn); cbv beta iota; rewrite frun_cons, f_N2_lp; reflexivity|]. split; [reflexivity|].
    cbn [ntrace map app snd W DOTL LPx apply_vtag]. rewrite Hu1, Hu2.
    cbn [map exec]. arities. cbn [firstn skipn rev app]. unfold action; simpl. reflexivity.
  - eexists. split; [rewrite frun_cons, f_T0; cbv beta iota; rewrite frun_cons, f_T1; cbv beta iota; rewrite frun_cons, (f_T2 _ Hn); cbv beta iota; rewrite frun_cons, f_N1_lp; reflexivity|]. split; [reflexivity|].
    cbn [ntrace map app snd W DOTL LPx apply_vtag]. rewrite Hu1, Hu2.
    cbn [map exec]. arities. cbn [firstn skipn rev app]. unfold action; simpl. reflexivity.
Qed.

Lemma table_split_letters t : Table.letters t = top_letters t ++ (Table.col_letters (t_first t) ++ rest_letters (t_rest t)).
Proof. unfold Table.letters, top_letters, rest_letters. cbn [app]. rewrite <- !app_assoc. reflexivity. Qed.
Lemma table_split_lexemes t : Table.lexemes t = top_lexemes t ++ (col_lexemes (t_first t) ++ rest_lexemes (t_rest t)).
Proof. unfold Table.lexemes, top_lexemes, rest_lexemes. cbn [app]. rewrite <- !app_assoc. reflexivity. Qed.

Lemma table_steps norm t : wf norm t = true ->
  Steps norm T0 [] (Table.letters t) (Table.lexemes t) END [PStr ")"; Table.denote norm t].
Proof.
  intro Hwf. rewrite table_split_letters, table_split_lexemes.
  eapply Steps_app; [apply top_steps; exact Hwf|].
  assert (H : wf_col norm (t_first t) = true /\ forallb (wf_col norm) (t_rest t) = true).
  { unfold wf in Hwf. apply andb_true_iff in Hwf. destruct Hwf as [Hwf H2]. apply andb_true_iff in Hwf. tauto. }
  destruct H as [H1 H2].
  exact (columns_steps norm (t_rest t) (t_first t) First _ _ [] H1 H2).
Qed.

(* ---------- the lexemes are what the letters say; every letter is in the alphabet ------------------------------------- *)
Lemma match_sym s : s = "("%string \/ s = ")"%string \/ s = ","%string -> matches (W s) (K s).
Proof. intros [E|[E|E]]; subst s; simpl; repeat split; reflexivity. Qed.
Lemma match_str s : matches (SB s) LStr.
Proof. reflexivity. Qed.

Ltac fmt :=
  repeat match goal with
         | |- Forall2 _ (_ :: _) (_ :: _) => constructor
         | |- Forall2 _ [] [] => constructor
         | |- matches (W _) (K _) => apply match_kw; assumption
         | |- matches (W _) G => apply match_plain; assumption
         | |- matches (W ?n) (LWord (info_of ?n)) => first [apply match_col_word; assumption | apply match_name; assumption]
         | |- matches DOTL LDot => exact match_dot
         | |- matches (SB _) LStr => apply match_str
         | |- matches LPx LPl => apply match_sym; tauto
         | |- matches RPx RPl => apply match_sym; tauto
         | |- matches CMx CMl => apply match_sym; tauto
         end.

Lemma plain_of_value norm v : is_value_word norm v = true -> is_plain v = true.
Proof. unfold is_value_word. intro H. apply andb_true_iff in H. tauto. Qed.
Lemma plain_of_action norm v : is_action_word norm v = true -> is_plain v = true.
Proof. unfold is_action_word. intro H. apply andb_true_iff in H. tauto. Qed.
Lemma plain_of_type norm v : is_type_word norm v = true -> is_plain v = true.
Proof. unfold is_type_word. intro H. apply andb_true_iff in H. tauto. Qed.
Lemma plain_of_colname norm v : is_colname norm v = true -> is_col_word v = true.
Proof. unfold is_colname. intro H. apply andb_true_iff in H. tauto. Qed.
Lemma plain_of_digits v : is_digits v = true -> is_plain v = true.
Proof. unfold is_digits. intro H. apply andb_true_iff in H. destruct H as [H _]. apply is_num_spec in H. tauto. Qed.

Lemma item_matches norm i : wf_item norm i = true -> Forall2 matches (item_lexemes i) (item_letters i).
Proof.
  destruct i as [[nk|nk1 nk2]|kw v|kw kn|kw sl|a b|k|kw [sc|] tb|cn|a b act|a b act|[nk|nk1 nk2]];
    cbn [wf_item wf_null item_lexemes item_letters null_lexemes null_letters]; intro H; split_all H;
    repeat match goal with
           | X : is_value_word _ _ = true |- _ => apply plain_of_value in X
           | X : is_action_word _ _ = true |- _ => apply plain_of_action in X
           end; fmt.
Qed.
Lemma items_match norm items : forallb (wf_item norm) items = true ->
  Forall2 matches (flat_map item_lexemes items) (flat_map item_letters items).
Proof.
  induction items as [|i r IH]; cbn [forallb flat_map]; intro H; [constructor|].
  apply andb_true_iff in H. destruct H as [H1 H2]. apply Forall2_app; [exact (item_matches _ _ H1)|exact (IH H2)].
Qed.
Lemma hdr_matches norm col : wf_col norm col = true -> Forall2 matches (hdr_lexemes col) (hdr_letters col).
Proof.
  unfold wf_col, hdr_lexemes, hdr_letters. intro H. split_all H.
  apply plain_of_colname in H. apply plain_of_type in Hw3.
  destruct (c_ty2 col) as [w|]; [apply plain_of_type in Hw2|];
    destruct (c_size col) as [[a [b|]]|]; split_all Hw1;
    repeat match goal with X : is_digits _ = true |- _ => apply plain_of_digits in X end; cbn [app]; fmt.
Qed.
Lemma col_matches norm col : wf_col norm col = true -> Forall2 matches (col_lexemes col) (Table.col_letters col).
Proof.
  intro H. rewrite col_split_letters, col_split_lexemes. apply Forall2_app; [exact (hdr_matches _ _ H)|].
  apply (items_match norm). apply wf_opts_items. unfold wf_col in H. split_all H. assumption.
Qed.
Lemma all_matches norm t : wf norm t = true -> Forall2 matches (Table.lexemes t) (Table.letters t).
Proof.
  intro Hwf. rewrite table_split_letters, table_split_lexemes. unfold wf in Hwf. split_all Hwf.
  apply Forall2_app; [|apply Forall2_app].
  - unfold top_lexemes, top_letters. destruct (t_schema t); cbn [app]; fmt.
  - apply (col_matches norm); assumption.
  - unfold rest_lexemes, rest_letters. apply Forall2_app; [|fmt].
    induction (t_rest t) as [|c2 r IH]; cbn [flat_map]; [constructor|].
    cbn [forallb] in Hw. apply andb_true_iff in Hw. destruct Hw as [Hc2 Hr].
    constructor; [fmt|]. apply Forall2_app; [apply (col_matches norm); exact Hc2|apply IH; exact Hr].
Qed.

Ltac inal := solve [unfold Table.alphabet; apply in_or_app; left; repeat (first [left; reflexivity | right])].
Ltac fall := repeat match goal with |- Forall _ (_ :: _) => constructor | |- Forall _ [] => constructor end; try inal.

Lemma item_in_alphabet norm i : wf_item norm i = true -> Forall (fun l => In l Table.alphabet) (item_letters i).
Proof.
  destruct i as [[nk|nk1 nk2]|kw v|kw kn|kw sl|a b|k|kw [sc|] tb|cn|a b act|a b act|[nk|nk1 nk2]];
    cbn [item_letters null_letters wf_item]; intro H; fall.
  apply col_letter_in_alphabet. apply is_col_word_spec in H. tauto.
Qed.
Lemma items_in_alphabet norm items : forallb (wf_item norm) items = true ->
  Forall (fun l => In l Table.alphabet) (flat_map item_letters items).
Proof.
  induction items as [|i r IH]; cbn [flat_map forallb]; intro H; [constructor|].
  apply andb_true_iff in H. destruct H as [H1 H2]. apply Forall_app. split; [exact (item_in_alphabet _ _ H1)|exact (IH H2)].
Qed.
Lemma col_in_alphabet norm col : wf_col norm col = true -> Forall (fun l => In l Table.alphabet) (Table.col_letters col).
Proof.
  intro Hwf. rewrite col_split_letters. apply Forall_app. split.
  - unfold wf_col in Hwf. split_all Hwf. apply plain_of_colname in Hwf. apply is_col_word_spec in Hwf. destruct Hwf as [Hl _].
    unfold hdr_letters. destruct (c_ty2 col); destruct (c_size col) as [[a [b|]]|]; cbn [app];
      (constructor; [apply col_letter_in_alphabet; exact Hl|]); fall.
  - apply (items_in_alphabet norm). apply wf_opts_items. unfold wf_col in Hwf. split_all Hwf. assumption.
Qed.
Lemma letters_in_alphabet norm t : wf norm t = true -> Forall (fun l => In l Table.alphabet) (Table.letters t).
Proof.
  intro Hwf. unfold wf in Hwf. split_all Hwf.
  rewrite table_split_letters. apply Forall_app. split; [|apply Forall_app; split].
  - pose proof (name_letter_in_table_alphabet _ (proj1 (is_name_spec _ Hw1))) as Hn.
    unfold top_letters. destruct (t_schema t) as [s|]; cbn [app].
    + pose proof (name_letter_in_table_alphabet _ (proj1 (is_name_spec _ Hw2))) as Hs.
      constructor; [inal|]. constructor; [inal|]. constructor; [exact Hs|]. constructor; [inal|]. constructor; [exact Hn|]. fall.
    + constructor; [inal|]. constructor; [inal|]. constructor; [exact Hn|]. fall.
  - apply (col_in_alphabet norm). assumption.
  - unfold rest_letters. apply Forall_app. split; [|fall].
    induction (t_rest t) as [|c2 r IH]; cbn [flat_map]; [constructor|].
    cbn [forallb] in Hw. apply andb_true_iff in Hw. destruct Hw as [Hc2 Hr].
    constructor; [inal|]. apply Forall_app. split; [apply (col_in_alphabet norm); exact Hc2|apply IH; exact Hr].
Qed.

(* ---------- THE theorem for the fragment ------------------------------------------------------------------------------- *)
Theorem table_parse : forall t norm silent, wf norm t = true ->
  parse_lexemes norm silent (Table.lexemes t) = Ok (Some (Table.denote norm t)).
Proof.
  intros t norm silent Hwf.
  destruct (table_steps norm t Hwf) as [fos [Hf [Hl He]]].
  unfold parse_lexemes.
  rewrite (pipeline_spec real_tables term_id real_pname Table.q Table.q_eqb Table.q_eqb_eq Table.fstep Table.ffinish Table.alphabet
                         R R_closed T0 R_init (Table.lexemes t) (Table.letters t) (all_matches norm t Hwf) (letters_in_alphabet norm t Hwf)
                         fos END ["expr -> expr RP"%string] Hf eq_refl norm silent).
  rewrite (eval_app _ _ _ _ _ He). unfold Table.denote. reflexivity.
Qed.
