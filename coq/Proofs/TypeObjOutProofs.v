(* C18 / C10: CREATE TYPE ... AS OBJECT entities through the output stage in every mode. *)
From Coq Require Import String Ascii List ZArith NArith Bool Lia.
From SDP Require Import Base PyStr Lexer Actions Parse Engine Seq SeqProofs Entity Output OutputProofs OtherOutProofs.
From SDP Require Table.
From SDP Require Import TypeObj TypeObjProofs.
From SDP.Gen Require Fields Tokens.
Import ListNotations.
Open Scope string_scope.

Local Arguments nms : simpl never.
Local Arguments upper : simpl never.

Theorem typeobj_every_mode : forall o norm m, In m Tokens.modes ->
  (m <> "bigquery" \/ o_schema o = None \/ (exists s, o_schema o = Some s /\ nms norm s = "")) ->
  exists e, TypeObj.denote norm o = PDict e /\ Output.format m false [PDict e] = Ok (PList [PDict e]).
Proof.
  intros o norm m Hm Hc. unfold TypeObj.denote.
  eexists; split; [reflexivity|]; apply format_other; [exact Hm|reflexivity|reflexivity|reflexivity|].
  destruct Hc as [Hc|Hc]; [left; exact Hc|right; split; [|reflexivity]].
  unfold get_or_none, dict_get; cbn [assoc String.eqb Ascii.eqb Bool.eqb]. destruct Hc as [->|[s [-> Hs]]]; [reflexivity|].
  unfold Table.onm, Table.nmv. rewrite Hs. reflexivity.
Qed.
Theorem typeobj_bigquery : forall o norm s, o_schema o = Some s -> nms norm s <> "" ->
  exists e, TypeObj.denote norm o = PDict e /\
            Output.format "bigquery" false [PDict e] = Ok (PList [PDict (dict_del (dict_set e "dataset" (PStr (nms norm s))) "schema")]).
Proof.
  intros o norm s Hs Hn. unfold TypeObj.denote. eexists; split; [reflexivity|].
  match goal with |- Output.format _ _ [PDict ?e] = _ =>
    replace (PStr (nms norm s)) with (get_or_none e "schema") by (unfold get_or_none, dict_get; cbn [assoc String.eqb Ascii.eqb Bool.eqb]; rewrite Hs; reflexivity) end.
  apply format_other_bq; try reflexivity.
  unfold get_or_none, dict_get; cbn [assoc String.eqb Ascii.eqb Bool.eqb]; rewrite Hs; unfold Table.onm, Table.nmv, truthy.
  destruct (nms norm s); [congruence|reflexivity].
Qed.
(* one attribute entry per declared attribute, in declaration order, each with exactly the keys name / type / size *)
Lemma attributes_in_order norm o : String.eqb (upper (nms norm (o_base o))) "ENUM" = false -> String.eqb (upper (nms norm (o_base o))) "OBJECT" = true ->
  props norm o = PDict [("attributes", PList (map (attr_value norm) (o_attrs o)))] /\
  List.length (map (attr_value norm) (o_attrs o)) = S (List.length (o_rest o)).
Proof. intros H1 H2. unfold props. rewrite H1, H2. split; [reflexivity|]. unfold o_attrs. cbn [map List.length]. rewrite map_length. reflexivity. Qed.
