(* C11: where a dialect clause's key is reported is decided by the field metadata; the catalogue agrees with the live metadata. *)
From Coq Require Import String Ascii List ZArith NArith Bool.
From SDP Require Import Base PyStr Actions Output OutputProofs FieldsFacts Clauses.
From SDP.Gen Require Fields Tokens.
Import ListNotations.
Open Scope string_scope.

(* a key provided by the statement comes out at top level in [mode] iff it is a field of that mode's class which passes the
   filter when provided and non-empty; otherwise TableData.init puts it under table_properties *)
Definition top_level_when_provided (mode key : string) : bool :=
  match mode_info mode with
  | None => false
  | Some (_, fs) =>
    (* the field of that name, or the field whose alias (the key used in parser output and in the result) it is *)
    match List.find (fun f => String.eqb (f_name f) key || String.eqb (f_alias f) key) fs with
    | None => false
    | Some f => negb (f_exclude_always f) && (negb (f_has_modes f) || mem mode (f_output_modes f))
    end
  end.
Definition goes_to_table_properties (mode key : string) : bool :=
  match mode_info mode with
  | None => false
  | Some (_, fs) => match List.find (fun f => String.eqb (f_name f) key || String.eqb (f_alias f) key) fs with
                    | None => true | Some _ => false end
  end.

Definition clause_ok (c : string * string * bool * bool) : bool :=
  let '(mode, key, own_top, sql_top) := c in
  (if own_top then top_level_when_provided mode key else goes_to_table_properties mode key)
  && (if sql_top then top_level_when_provided "sql" key else goes_to_table_properties "sql" key).

Lemma catalogue_matches_metadata : forallb clause_ok clause_catalogue = true.
Proof. vm_compute. reflexivity. Qed.

