(* C04: the ALTER TABLE fragment, forms with column lists (ADD UNIQUE / PRIMARY KEY / FOREIGN KEY). *)
From Coq Require Import String Ascii List ZArith NArith PArith Bool Lia.
From SDP Require Import Base PyStr LR Lexer Actions Parse RealTables Engine Seq SeqProofs KeywordProofs Entity Table TableProofs Alter AlterProofs.
Import ListNotations.
Open Scope list_scope.
Local Arguments int_of_string : simpl never.
Local Arguments normalize_id : simpl never.
Local Arguments isnumeric : simpl never.
Local Arguments plain_type_word : simpl never.
Local Arguments colname_bad : simpl never.
Local Arguments refaction_bad : simpl never.
Local Arguments nms : simpl never.
Local Arguments upper : simpl never.

(* ---------- name lists: matching and alphabet -------------------------------------------------------------------------------- *)
Lemma commas_match : forall l, forallb is_plain l = true -> Forall2 matches (commas l ++ [RPx]) (comma_letters l ++ [RPl]).
Proof.
  induction l as [|x r IH]; cbn [forallb commas comma_letters app]; intro H; [fma|].
  apply andb_true_iff in H. destruct H as [Hx Hr]. constructor; [fma|]. constructor; [apply match_plain; exact Hx|]. apply IH; exact Hr.
Qed.
Lemma names_match n : wf_names n = true ->
  Forall2 matches (W (fst n) :: commas (snd n) ++ [RPx]) (G :: comma_letters (snd n) ++ [RPl]).
Proof.
  destruct n as [x r]. unfold wf_names, names_list. cbn [fst snd forallb]. intro H. apply andb_true_iff in H. destruct H as [Hx Hr].
  constructor; [apply match_plain; exact Hx|]. apply commas_match; exact Hr.
Qed.
Lemma commas_alpha : forall l : list string, Forall (fun x => In x Alter.alphabet) (comma_letters l ++ [RPl]).
Proof. induction l as [|x r IH]; cbn [comma_letters app]; [falA|]. constructor; [inA|]. constructor; [inA|]. exact IH. Qed.
Lemma names_alpha (n : names) : Forall (fun x => In x Alter.alphabet) (G :: comma_letters (snd n) ++ [RPl]).
Proof. constructor; [inA|]. apply commas_alpha. Qed.

Ltac keyform pl px :=
  match goal with
  | |- parse_lexemes _ _ ?lx = _ =>
    match lx with
    | context [W (fst ?cols) :: commas (snd ?cols) ++ [RPx]] =>
      change lx with (px ++ (W (fst cols) :: commas (snd cols) ++ [RPx]));
      eapply (alter_pipeline _ _ _ (pl ++ (G :: comma_letters (snd cols) ++ [RPl])));
      [ eapply ASteps_app;
        [ conc; cbn [ntrace map app snd W DOTL LPx RPx apply_vtag]; rew_uppers; repeat stepA; rewrite exec_nil; reflexivity
        | apply names_steps; assumption ]
      | reflexivity
      | cbn [map app]; repeat stepA; unfold nlist, cons_name, names_list; reflexivity
      | apply Forall2_app; [fma | apply names_match; assumption]
      | apply Forall_app; split; [falA | apply names_alpha] ]
    end
  end.

Lemma alter_key norm silent al tb sch nm a cns k cols :
  Alter.wf norm (mkAlter al tb sch nm (BKey a cns k cols)) = true ->
  parse_lexemes norm silent (Alter.lexemes (mkAlter al tb sch nm (BKey a cns k cols)))
  = Ok (Some (Alter.denote norm (mkAlter al tb sch nm (BKey a cns k cols)))).
Proof.
  intro H. destruct cns as [[ck cn]|]; destruct k as [u|p k2]; unfold Alter.wf in H; cbn [a_body wf_body wf_cons] in H; prep_wf norm H;
    unfold Alter.lexemes, Alter.denote;
    destruct sch as [s|]; cbn [a_alter a_table a_schema a_name a_body body_lexemes cons_lexemes app]; unfold names_lexemes; cbn [app].
  - keyform [K "ALTER"; K "TABLE"; G; LDot; G; K "ADD"; K "CONSTRAINT"; G; K "UNIQUE"; LPl]%string
            [W al; W tb; W s; DOTL; W nm; W a; W ck; W cn; W u; LPx].
  - keyform [K "ALTER"; K "TABLE"; G; K "ADD"; K "CONSTRAINT"; G; K "UNIQUE"; LPl]%string
            [W al; W tb; W nm; W a; W ck; W cn; W u; LPx].
  - keyform [K "ALTER"; K "TABLE"; G; LDot; G; K "ADD"; K "CONSTRAINT"; G; K "PRIMARY"; K "KEY"; LPl]%string
            [W al; W tb; W s; DOTL; W nm; W a; W ck; W cn; W p; W k2; LPx].
  - keyform [K "ALTER"; K "TABLE"; G; K "ADD"; K "CONSTRAINT"; G; K "PRIMARY"; K "KEY"; LPl]%string
            [W al; W tb; W nm; W a; W ck; W cn; W p; W k2; LPx].
  - keyform [K "ALTER"; K "TABLE"; G; LDot; G; K "ADD"; K "UNIQUE"; LPl]%string
            [W al; W tb; W s; DOTL; W nm; W a; W u; LPx].
  - keyform [K "ALTER"; K "TABLE"; G; K "ADD"; K "UNIQUE"; LPl]%string
            [W al; W tb; W nm; W a; W u; LPx].
  - keyform [K "ALTER"; K "TABLE"; G; LDot; G; K "ADD"; K "PRIMARY"; K "KEY"; LPl]%string
            [W al; W tb; W s; DOTL; W nm; W a; W p; W k2; LPx].
  - keyform [K "ALTER"; K "TABLE"; G; K "ADD"; K "PRIMARY"; K "KEY"; LPl]%string
            [W al; W tb; W nm; W a; W p; W k2; LPx].
Qed.

(* ---------- ADD [CONSTRAINT n] FOREIGN KEY ( .. ) REFERENCES [s.]t ( .. ) [ON DELETE a] [ON UPDATE a] ---------------------------- *)
Definition cons_stack (norm : bool) (cns : option (string * string)) : list pyval :=
  match cns with Some (_, n) => [PDict [("constraint", PDict [("name", nmv norm n)])]] | None => [] end%string.
Definition named (cns : option (string * string)) : bool := match cns with Some _ => true | None => false end.
Definition alt_dict (norm : bool) (sch : option string) (nm : string) : list (string * pyval) :=
  [("alter_table_name", nmv norm nm); ("schema", onm norm sch)]%string.

Definition fk_pre_letters (sch : option string) (cns : option (string * string)) : list letter :=
  (K "ALTER" :: K "TABLE" :: (match sch with Some _ => [G; LDot] | None => [] end) ++ [G])
  ++ K "ADD" :: cons_letters cns ++ [K "FOREIGN"; K "KEY"; LPl].
Definition fk_pre_lexemes al tb (sch : option string) nm a (cns : option (string * string)) f k : list lexeme :=
  (W al :: W tb :: (match sch with Some s => [W s; DOTL] | None => [] end) ++ [W nm])
  ++ W a :: cons_lexemes cns ++ [W f; W k; LPx].

Lemma fk_seg1 norm al tb sch nm a cns f k :
  is_kw al "ALTER" = true -> is_kw tb "TABLE" = true -> is_kw a "ADD" = true -> is_kw f "FOREIGN" = true -> is_kw k "KEY" = true ->
  wf_cons cns = true ->
  ASteps norm A0 [] (fk_pre_letters sch cns) (fk_pre_lexemes al tb sch nm a cns f k) (PID0 (LFk (named cns)))
         (PStr "(" :: PStr "KEY" :: PStr "FOREIGN" :: cons_stack norm cns ++ [PStr "ADD"; PDict (alt_dict norm sch nm)]).
Proof.
  intros H1 H2 H3 H4 H5 H6. destruct cns as [[ck cn]|]; cbn [wf_cons] in H6; [apply andb_true_iff in H6; destruct H6 as [H6 H7]|]; kw_uppers;
    destruct sch as [s|]; unfold fk_pre_letters, fk_pre_lexemes, cons_stack, named, alt_dict; cbn [cons_letters cons_lexemes app];
    (conc; cbn [ntrace map app snd W DOTL LPx RPx apply_vtag]; rew_uppers; repeat stepA; rewrite exec_nil; reflexivity).
Qed.

Definition fk_cols (norm : bool) (cns : option (string * string)) (cols : list pyval) : pyval :=
  PList (map (fun c => PDict (("name", c) :: match cns with Some (_, n) => [("constraint_name", nmv norm n)] | None => [] end)) cols)%string.
Definition ref0 (norm : bool) (rs : option string) (rt : string) : list (string * pyval) :=
  [("table", nmv norm rt); ("columns", PList [PNone]); ("schema", onm norm rs); ("on_delete", PNone); ("on_update", PNone);
   ("deferrable_initially", PNone)]%string.

Lemma fk_seg3 norm cns alt cols rk rs rt :
  is_kw rk "REFERENCES" = true ->
  ASteps norm (PEnd (LFk (named cns)))
         (PStr ")" :: PList cols :: PStr "(" :: PStr "KEY" :: PStr "FOREIGN" :: cons_stack norm cns ++ [PStr "ADD"; PDict alt])
         (K "REFERENCES" :: (match rs with Some _ => [G; LDot] | None => [] end) ++ [G; LPl])
         (W rk :: (match rs with Some s => [W s; DOTL] | None => [] end) ++ [W rt; LPx])
         (PID0 LRef)
         [PStr "("; PDict [("references", PDict (ref0 norm rs rt))]%string; PDict (dict_set alt "columns" (fk_cols norm cns cols))].
Proof.
  intro H1. kw_uppers. destruct cns as [[ck cn]|]; destruct rs as [s|]; unfold cons_stack, named, fk_cols, ref0; cbn [app];
    (conc; cbn [ntrace map app snd W DOTL LPx RPx apply_vtag]; rew_uppers; repeat stepA; rewrite exec_nil; reflexivity).
Qed.

Ltac solve_action2 :=
  first [ rewrite act_id'
        | match goal with
          | |- context [action ?n ?p ?a] =>
            let H := fresh "Hact" in
            eassert (H : action n p a = Ok _)
              by (unfold action, action_more; simpl; repeat match goal with X : refaction_bad _ = false |- _ => rewrite X end; reflexivity);
            rewrite H; clear H
          end ].
Ltac stepA2 :=
  first [ rewrite exec_shift
        | rewrite exec_reduce; arities; cbn [firstn skipn rev app]; solve_action2; cbn [bind]
        | rewrite eval_reduce; arities; cbn [firstn skipn rev app]; solve_action2; cbn [bind] ].

Definition ref_final (norm : bool) (rs : option string) (rt : string) (rcols : list pyval) (od ou : option (string * string * string)) :=
  [("table", nmv norm rt); ("columns", PList rcols); ("schema", onm norm rs); ("on_delete", on_val norm od); ("on_update", on_val norm ou);
   ("deferrable_initially", PNone)]%string.

Lemma fk_seg5 norm rs rt rcols altf od ou :
  Alter.wf_on norm od "DELETE" = true -> Alter.wf_on norm ou "UPDATE" = true ->
  exists qf vsf pfin,
    ASteps norm (PEnd LRef) [PStr ")"; PList rcols; PStr "("; PDict [("references", PDict (ref0 norm rs rt))]%string; PDict altf]
           (Alter.on_letters od "DELETE" ++ Alter.on_letters ou "UPDATE") (Alter.on_lexemes od ++ Alter.on_lexemes ou) qf vsf /\
    Alter.ffinish qf = Some pfin /\
    eval norm (map NReduce pfin ++ [NAccept]) vsf
    = Ok (Some (PDict (dict_update altf [("references", PDict (ref_final norm rs rt rcols od ou))]%string))).
Proof.
  intros Hd Hu. destruct od as [[[da db] dc]|]; destruct ou as [[[ua ub] uc]|]; cbn [Alter.wf_on] in Hd, Hu; split_wf Hd; split_wf Hu;
    repeat match goal with X : is_action_word _ _ = true |- _ => apply action_word_spec in X end;
    kw_uppers; unfold ref0, ref_final, on_val; cbn [Alter.on_letters Alter.on_lexemes app];
    (do 3 eexists; split; [|split];
     [ conc; cbn [ntrace map app snd W DOTL LPx RPx apply_vtag]; rew_uppers; repeat stepA2; rewrite ?exec_nil; reflexivity
     | reflexivity
     | cbn [map app]; repeat stepA2; reflexivity ]).
Qed.

Definition fk_mid_letters (rs : option string) : list letter := K "REFERENCES" :: (match rs with Some _ => [G; LDot] | None => [] end) ++ [G; LPl].
Definition fk_mid_lexemes rk (rs : option string) rt : list lexeme := W rk :: (match rs with Some s => [W s; DOTL] | None => [] end) ++ [W rt; LPx].
Definition nl_letters (n : names) : list letter := G :: comma_letters (snd n) ++ [RPl].
Definition nl_lexemes (n : names) : list lexeme := W (fst n) :: commas (snd n) ++ [RPx].

Lemma fk_lexemes_split al tb sch nm a cns f k cols r :
  Alter.lexemes (mkAlter al tb sch nm (BFk a cns f k cols r)) =
  fk_pre_lexemes al tb sch nm a cns f k ++ nl_lexemes cols ++ fk_mid_lexemes (f_kw r) (f_schema r) (f_table r) ++ nl_lexemes (f_cols r)
  ++ (Alter.on_lexemes (f_ondel r) ++ Alter.on_lexemes (f_onupd r)).
Proof.
  unfold Alter.lexemes, fk_pre_lexemes, fk_mid_lexemes, nl_lexemes, names_lexemes. cbn [a_alter a_table a_schema a_name a_body body_lexemes].
  destruct sch; destruct cns as [[? ?]|]; destruct r as [rk [rs|] rt rc od ou]; cbn [f_kw f_schema f_table f_cols f_ondel f_onupd cons_lexemes app];
    unfold names_lexemes; cbn [fst snd app]; repeat (rewrite <- !app_assoc; cbn [app]); reflexivity.
Qed.
Lemma fk_letters_split al tb sch nm a cns f k cols r :
  Alter.letters (mkAlter al tb sch nm (BFk a cns f k cols r)) =
  fk_pre_letters sch cns ++ nl_letters cols ++ fk_mid_letters (f_schema r) ++ nl_letters (f_cols r)
  ++ (Alter.on_letters (f_ondel r) "DELETE" ++ Alter.on_letters (f_onupd r) "UPDATE").
Proof.
  unfold Alter.letters, fk_pre_letters, fk_mid_letters, nl_letters, names_letters. cbn [a_alter a_table a_schema a_name a_body body_letters].
  destruct sch; destruct cns as [[? ?]|]; destruct r as [rk [rs|] rt rc od ou]; cbn [f_kw f_schema f_table f_cols f_ondel f_onupd cons_letters app];
    unfold names_letters; cbn [fst snd app]; repeat (rewrite <- !app_assoc; cbn [app]); reflexivity.
Qed.

Lemma on_match norm o what : Alter.wf_on norm o what = true -> Forall2 matches (Alter.on_lexemes o) (Alter.on_letters o what).
Proof.
  destruct o as [[[a b] c]|]; cbn [Alter.wf_on Alter.on_lexemes Alter.on_letters]; intro H; [|constructor].
  split_wf H. apply plain_of_action in Hw. fma.
Qed.
Lemma on_alpha o what : what = "DELETE"%string \/ what = "UPDATE"%string -> Forall (fun l => In l Alter.alphabet) (Alter.on_letters o what).
Proof. intros [->| ->]; destruct o as [[[a b] c]|]; cbn [Alter.on_letters]; falA. Qed.

Theorem alter_fk norm silent al tb sch nm a cns f k cols r :
  Alter.wf norm (mkAlter al tb sch nm (BFk a cns f k cols r)) = true ->
  parse_lexemes norm silent (Alter.lexemes (mkAlter al tb sch nm (BFk a cns f k cols r)))
  = Ok (Some (Alter.denote norm (mkAlter al tb sch nm (BFk a cns f k cols r)))).
Proof.
  intro H. unfold Alter.wf in H. cbn [a_alter a_table a_schema a_name a_body wf_body] in H. split_wf H.
  repeat match goal with X : (_ && _) = true |- _ => split_wf X end.
  destruct r as [rk rs rt rcols od ou]. cbn [f_kw f_schema f_table f_cols f_ondel f_onupd] in *.
  set (alt := alt_dict norm sch nm).
  set (c1 := map (nmv norm) (names_list cols)). set (c2 := map (nmv norm) (names_list rcols)).
  set (altf := dict_set alt "columns" (fk_cols norm cns c1)).
  destruct (fk_seg5 norm rs rt c2 altf od ou) as [qf [vsf [pfin [S5 [Hfin Hev]]]]]; [assumption|assumption|].
  rewrite fk_lexemes_split. cbn [f_kw f_schema f_table f_cols f_ondel f_onupd].
  eapply (alter_pipeline norm silent _ (Alter.letters (mkAlter al tb sch nm (BFk a cns f k cols (mkFk rk rs rt rcols od ou))))).
  - rewrite fk_letters_split. cbn [f_kw f_schema f_table f_cols f_ondel f_onupd].
    eapply ASteps_app; [apply fk_seg1; assumption|].
    eapply ASteps_app; [apply (names_steps norm (LFk (named cns))); assumption|].
    eapply ASteps_app; [apply (fk_seg3 norm cns alt c1 rk rs rt); assumption|].
    eapply ASteps_app; [apply (names_steps norm LRef); assumption|].
    exact S5.
  - exact Hfin.
  - rewrite Hev. unfold Alter.denote, altf, alt, alt_dict, fk_cols, ref_final, c1, c2, nlist. cbn [a_schema a_name a_body].
    destruct cns as [[ck cn]|]; cbn [dict_update dict_set fold_left app]; rewrite !map_map; reflexivity.
  - rewrite fk_letters_split. cbn [f_kw f_schema f_table f_cols f_ondel f_onupd].
    apply Forall2_app.
    { unfold fk_pre_lexemes, fk_pre_letters. destruct sch as [s|]; destruct cns as [[ck cn]|]; cbn [wf_cons] in *;
        repeat match goal with X : (_ && _) = true |- _ => split_wf X end; cbn [cons_lexemes cons_letters app]; fma. }
    apply Forall2_app; [apply names_match; assumption|].
    apply Forall2_app; [unfold fk_mid_lexemes, fk_mid_letters; destruct rs as [s|]; cbn [app]; fma|].
    apply Forall2_app; [apply names_match; assumption|].
    apply Forall2_app; [apply (on_match norm); assumption|apply (on_match norm); assumption].
  - rewrite fk_letters_split. cbn [f_kw f_schema f_table f_cols f_ondel f_onupd].
    apply Forall_app; split.
    { unfold fk_pre_letters. destruct sch; destruct cns as [[ck cn]|]; cbn [cons_letters app]; falA. }
    apply Forall_app; split; [apply names_alpha|].
    apply Forall_app; split; [unfold fk_mid_letters; destruct rs; cbn [app]; falA|].
    apply Forall_app; split; [apply names_alpha|].
    apply Forall_app; split; apply on_alpha; tauto.
Qed.

(* ---------- THE theorem for the fragment ---------------------------------------------------------------------------------------- *)
Theorem alter_parse : forall a norm silent, Alter.wf norm a = true ->
  parse_lexemes norm silent (Alter.lexemes a) = Ok (Some (Alter.denote norm a)).
Proof.
  intros [al tb sch nm b] norm silent H. destruct b.
  - apply alter_drop; exact H.
  - apply alter_rename; exact H.
  - apply alter_addcol; exact H.
  - apply alter_modify; exact H.
  - apply alter_key; exact H.
  - apply alter_fk; exact H.
Qed.
