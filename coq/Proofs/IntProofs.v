(* int(str(z)) = z for EVERY integer z: Python's int() on a decimal rendering, of any length and sign. *)
From Coq Require Import String Ascii List ZArith NArith Bool Lia.
From SDP Require Import Base PyStr.
Import ListNotations.
Open Scope string_scope.

(* most significant digit first *)
Fixpoint dig (fuel : nat) (n : N) : string :=
  match fuel with
  | O => ""
  | S k => if (N.div n 10 =? 0)%N then String (digit_char (N.modulo n 10)) ""
           else dig k (N.div n 10) ++ String (digit_char (N.modulo n 10)) ""
  end.

Lemma app_assoc_s (a b c : string) : (a ++ b) ++ c = a ++ (b ++ c).
Proof. induction a as [|x r IH]; simpl; [reflexivity|]. rewrite IH. reflexivity. Qed.

Lemma sopf_dig : forall fuel n acc, string_of_pos_fuel fuel n acc = dig fuel n ++ acc.
Proof.
  induction fuel as [|k IH]; intros n acc; simpl; [reflexivity|].
  destruct (N.div n 10 =? 0)%N; [reflexivity|]. rewrite IH, app_assoc_s. reflexivity.
Qed.

Lemma digits_val_app a b acc : digits_val (a ++ b) acc = digits_val b (digits_val a acc).
Proof. revert acc; induction a as [|c r IH]; intro acc; simpl; [reflexivity|]. apply IH. Qed.

Lemma digit_val_char d : (d < 10)%N -> digit_val (digit_char d) = Z.of_N d.
Proof.
  intro H. assert (E : (d = 0 \/ d = 1 \/ d = 2 \/ d = 3 \/ d = 4 \/ d = 5 \/ d = 6 \/ d = 7 \/ d = 8 \/ d = 9)%N) by lia.
  repeat (destruct E as [->|E]; [reflexivity|]). subst. reflexivity.
Qed.
Lemma is_digit_char d : (d < 10)%N -> is_digit_c (digit_char d) = true.
Proof.
  intro H. assert (E : (d = 0 \/ d = 1 \/ d = 2 \/ d = 3 \/ d = 4 \/ d = 5 \/ d = 6 \/ d = 7 \/ d = 8 \/ d = 9)%N) by lia.
  repeat (destruct E as [->|E]; [reflexivity|]). subst. reflexivity.
Qed.

Lemma pow10_div : forall k n, (n < 10 ^ N.of_nat (S k))%N -> (N.div n 10 < 10 ^ N.of_nat k)%N.
Proof.
  intros k n H. rewrite Nat2N.inj_succ, N.pow_succ_r' in H. apply N.div_lt_upper_bound; lia.
Qed.

Lemma dig_value : forall fuel n, (n < 10 ^ N.of_nat fuel)%N -> digits_val (dig fuel n) 0 = Z.of_N n.
Proof.
  induction fuel as [|k IH]; intros n H.
  - simpl in H. assert (n = 0)%N by lia. subst. reflexivity.
  - cbn [dig]. pose proof (N.mod_lt n 10 ltac:(lia)) as Hm.
    destruct (N.div n 10 =? 0)%N eqn:E.
    + apply N.eqb_eq in E. simpl. rewrite digit_val_char by exact Hm.
      pose proof (N.div_mod n 10 ltac:(lia)). lia.
    + rewrite digits_val_app. rewrite IH by (apply pow10_div; exact H). simpl.
      rewrite digit_val_char by exact Hm. pose proof (N.div_mod n 10 ltac:(lia)). lia.
Qed.

Lemma dig_numeric : forall fuel n, fuel <> O -> sforall is_digit_c (dig fuel n) = true /\ dig fuel n <> "".
Proof.
  induction fuel as [|k IH]; intros n Hf; [congruence|]. cbn [dig].
  pose proof (N.mod_lt n 10 ltac:(lia)) as Hm.
  destruct (N.div n 10 =? 0)%N eqn:E.
  - simpl. rewrite is_digit_char by exact Hm. split; [reflexivity|discriminate].
  - destruct k as [|k'].
    + simpl. rewrite is_digit_char by exact Hm. split; [reflexivity|discriminate].
    + destruct (IH (N.div n 10) ltac:(discriminate)) as [H1 H2]. split.
      * clear H2. revert H1. generalize (dig (S k') (N.div n 10)). intros s Hs.
        induction s as [|c r IHs]; simpl in *; [rewrite is_digit_char by exact Hm; reflexivity|].
        apply andb_true_iff in Hs. destruct Hs as [Hc Hr]. rewrite Hc. simpl. apply IHs. exact Hr.
      * destruct (dig (S k') (N.div n 10)); [congruence|discriminate].
Qed.

Lemma fuel_enough n : (0 < n)%N -> (n < 10 ^ N.of_nat (S (N.to_nat (N.log2 n))))%N.
Proof.
  intro H. pose proof (N.log2_spec n H) as [_ Hu].
  rewrite Nat2N.inj_succ, N2Nat.id.
  eapply N.lt_le_trans; [exact Hu|]. apply N.pow_le_mono_l. lia.
Qed.

(* ---------- strip leaves a digit string (optionally signed) alone ---------------------------------------------------- *)
Lemma digit_not_space c : is_digit_c c = true -> is_space_c c = false.
Proof. destruct c as [[] [] [] [] [] [] [] []]; simpl; intro H; try discriminate; reflexivity. Qed.

Lemma lstrip_nonspace c r : is_space_c c = false -> lstrip (String c r) = String c r.
Proof. intro H. simpl. rewrite H. reflexivity. Qed.

Lemma srev_involutive s : srev (srev s) = s.
Proof.
  unfold srev, l2s, s2l. rewrite list_ascii_of_string_of_list_ascii, rev_involutive. apply string_of_list_ascii_of_string.
Qed.

Lemma srev_last_first s c : s <> "" -> last_char s = Some c -> exists r, srev s = String c r.
Proof.
  unfold last_char, srev, l2s, s2l. intros Hne H. destruct (rev (list_ascii_of_string s)) as [|d l] eqn:E; [discriminate|].
  inversion H; subst. simpl. eauto.
Qed.

Lemma last_char_digits s : s <> "" -> sforall is_digit_c s = true -> exists c, last_char s = Some c /\ is_digit_c c = true.
Proof.
  intros Hne H. unfold last_char, s2l.
  assert (Hall : forall x, In x (list_ascii_of_string s) -> is_digit_c x = true).
  { clear Hne. induction s as [|c r IH]; simpl in *; [tauto|]. apply andb_true_iff in H. destruct H as [Hc Hr].
    intros x [->|Hx]; auto. }
  destruct (rev (list_ascii_of_string s)) as [|d l] eqn:E.
  - exfalso. apply (f_equal (@rev ascii)) in E. rewrite rev_involutive in E. destruct s; [congruence|discriminate].
  - exists d. split; [reflexivity|]. apply Hall. apply in_rev. rewrite E. left. reflexivity.
Qed.

Lemma strip_signed_digits (pre : string) s :
  (pre = "" \/ pre = "-") -> s <> "" -> sforall is_digit_c s = true -> strip (pre ++ s) = pre ++ s.
Proof.
  intros Hp Hne Hd. unfold strip.
  assert (Hl : lstrip (pre ++ s) = pre ++ s).
  { destruct Hp as [->| ->]; simpl.
    - destruct s as [|c r]; [congruence|]. simpl in Hd. apply andb_true_iff in Hd. destruct Hd as [Hc _].
      apply lstrip_nonspace. apply digit_not_space. exact Hc.
    - reflexivity. }
  rewrite Hl. unfold rstrip.
  destruct (last_char_digits s Hne Hd) as [c [Hlc Hc]].
  assert (Hlast : last_char (pre ++ s) = Some c).
  { unfold last_char, s2l in *. destruct Hp as [->| ->]; simpl; [exact Hlc|].
    destruct (rev (list_ascii_of_string s)) as [|d l]; [discriminate|]. simpl. inversion Hlc; subst. reflexivity. }
  assert (Hne2 : pre ++ s <> "") by (destruct Hp as [->| ->]; simpl; [exact Hne|discriminate]).
  destruct (srev_last_first (pre ++ s) c Hne2 Hlast) as [r Hr].
  rewrite Hr. rewrite (lstrip_nonspace c r (digit_not_space c Hc)). rewrite <- Hr. apply srev_involutive.
Qed.

Lemma isnumeric_digits s : s <> "" -> sforall is_digit_c s = true -> isnumeric s = true.
Proof. intros Hne H. unfold isnumeric. destruct s; [congruence|exact H]. Qed.

(* ---------- the round trip ----------------------------------------------------------------------------------------------- *)
Lemma string_of_N_spec n : (0 < n)%N ->
  string_of_N n <> "" /\ sforall is_digit_c (string_of_N n) = true /\ digits_val (string_of_N n) 0 = Z.of_N n.
Proof.
  intro H. unfold string_of_N. rewrite sopf_dig.
  assert (E : dig (S (N.to_nat (N.log2 n))) n ++ "" = dig (S (N.to_nat (N.log2 n))) n).
  { generalize (dig (S (N.to_nat (N.log2 n))) n). induction s; simpl; congruence. }
  rewrite E. destruct (dig_numeric (S (N.to_nat (N.log2 n))) n ltac:(discriminate)) as [H1 H2].
  split; [exact H2|]. split; [exact H1|]. apply dig_value. apply fuel_enough. exact H.
Qed.

Theorem int_of_string_of_Z : forall z, int_of_string (string_of_Z z) = Some z.
Proof.
  intros [|p|p].
  - reflexivity.
  - destruct (string_of_N_spec (Npos p) ltac:(lia)) as [Hne [Hd Hv]]. unfold string_of_Z, int_of_string.
    pose proof (strip_signed_digits "" _ (or_introl eq_refl) Hne Hd) as Hs. cbn [append] in Hs. rewrite Hs. clear Hs.
    destruct (string_of_N (N.pos p)) as [|c r] eqn:E; [congruence|].
    assert (Hc : is_digit_c c = true) by (simpl in Hd; apply andb_true_iff in Hd; tauto).
    assert (c <> "-"%char /\ c <> "+"%char) as [Hm Hpl].
    { split; intro X; subst c; discriminate. }
    destruct (Ascii.eqb_spec c "-"%char) as [X|_]; [congruence|].
    assert (Hnum : isnumeric (String c r) = true) by (apply isnumeric_digits; [discriminate|exact Hd]).
    destruct c as [[] [] [] [] [] [] [] []]; try discriminate; rewrite Hnum, Hv; reflexivity.
  - destruct (string_of_N_spec (Npos p) ltac:(lia)) as [Hne [Hd Hv]]. unfold string_of_Z, int_of_string.
    pose proof (strip_signed_digits "-" _ (or_intror eq_refl) Hne Hd) as Hs. cbn [append] in Hs. rewrite Hs. clear Hs.
    rewrite (isnumeric_digits _ Hne Hd), Hv. reflexivity.
Qed.
