(* Layer A: the per-line state machine of parser.py — facts for ALL scripts (any number of lines). *)
From Coq Require Import String Ascii List ZArith NArith Bool Lia.
From SDP Require Import Base PyStr Regex Actions Pre Lexer Output.
From SDP.Gen Require RegexAst Tokens.
Import ListNotations.
Open Scope list_scope.

Section Lines.
  Variable parse_stmt : string -> res (option pyval).
  Notation PL := (process_line parse_stmt).
  Notation RL := (run_lines parse_stmt).

  Definition join_out (a b : emitted) : emitted := (fst a ++ fst b, snd a ++ snd b).

  (* running l1 then l2 (l2 non-empty: the last line of l1 is not the last line of the script) *)
  Lemma run_lines_app : forall l1 l2 m more, l2 <> [] ->
    RL m (l1 ++ l2) more =
    (do '(m1, e1) <- RL m l1 true; do '(m2, e2) <- RL m1 l2 more; Ok (m2, join_out e1 e2)).
  Proof.
    induction l1 as [|l r IH]; intros l2 m more Hne.
    - cbn [app run_lines bind]. destruct (RL m l2 more) as [[m2 [t2 c2]]| | |]; reflexivity.
    - cbn [app run_lines].
      assert (E : match (r ++ l2) with [] => more | _ :: _ => true end = match r with [] => true | _ :: _ => true end).
      { destruct r; [destruct l2; [congruence|reflexivity]|reflexivity]. }
      rewrite E. destruct (PL m l (match r with [] => true | _ :: _ => true end)) as [[m' [t1 c1]]| | |]; cbn [bind]; try reflexivity.
      rewrite (IH l2 m' more Hne).
      destruct (RL m' r true) as [[m1 [t1' c1']]| | |]; cbn [bind]; try reflexivity.
      destruct (RL m1 l2 more) as [[m2 [t2 c2]]| | |]; cbn [bind]; try reflexivity.
      unfold join_out. simpl. rewrite !app_assoc. reflexivity.
  Qed.

  (* C03: a chunk of lines that brings the machine back to its initial state contributes exactly its own
     output; what follows is processed exactly as if it were parsed alone *)
  Theorem chunks_independent : forall c1 c2 more e1,
    c2 <> [] -> RL lm0 c1 true = Ok (lm0, e1) ->
    RL lm0 (c1 ++ c2) more = (do '(m2, e2) <- RL lm0 c2 more; Ok (m2, join_out e1 e2)).
  Proof. intros c1 c2 more e1 Hne H. rewrite run_lines_app by exact Hne. rewrite H. reflexivity. Qed.

  (* ... for any number of chunks *)
  Theorem all_chunks_independent : forall chunks last more es,
    last <> [] ->
    Forall2 (fun c e => RL lm0 c true = Ok (lm0, e)) chunks es ->
    RL lm0 (concat chunks ++ last) more =
    (do '(m2, e2) <- RL lm0 last more; Ok (m2, fold_right join_out e2 es)).
  Proof.
    intros chunks last more es Hne H. induction H as [|c e cs es' Hc Hall IH].
    - simpl. destruct (RL lm0 last more) as [[m2 [t2 c2]]| | |]; reflexivity.
    - simpl concat. rewrite <- app_assoc. rewrite chunks_independent with (e1 := e).
      + rewrite IH. destruct (RL lm0 last more) as [[m2 [t2 c2]]| | |]; reflexivity.
      + destruct (concat cs); [exact Hne|discriminate].
      + exact Hc.
  Qed.
End Lines.

(* ---------- the lexer flags really reset before every statement cover the whole flag state ------------- *)
Definition expected_reset : list (string * pyval) :=
  [("is_table", PBool (is_table flags0)); ("sequence", PBool (sequence flags0)); ("last_token", PBool false);
   ("columns_def", PBool (columns_def flags0)); ("after_columns", PBool (after_columns flags0));
   ("check", PBool (check flags0)); ("last_par", PBool false); ("lp_open", PBool false);
   ("is_alter", PBool (is_alter flags0)); ("is_like", PBool (is_like flags0)); ("lt_open", PInt (lt_open flags0))]%string.

(* the LAST assignment recorded for an attribute *)
Definition last_assigned (k : string) : option pyval := assoc k (rev Tokens.reset_attrs).

Definition reset_covers : bool :=
  forallb (fun kv => match last_assigned (fst kv) with Some v => pyval_eqb v (snd kv) | None => false end) expected_reset.

Lemma reset_covers_true : reset_covers = true.
Proof. vm_compute. reflexivity. Qed.

(* ---------- comments and blank lines are neutral ------------------------------------------------------------ *)
Lemma skip_empty : re_match_b RegexAst.re_skip_regex (upper "") = Ok false.
Proof. vm_compute. reflexivity. Qed.
Lemma set_empty : re_match_b RegexAst.re_set_statement (upper "") = Ok false.
Proof. vm_compute. reflexivity. Qed.
Lemma clean_empty : replace (replace (strip "") (String (ascii_of_nat 10) "") "") (String (ascii_of_nat 9) "") "" = ""%string.
Proof. vm_compute. reflexivity. Qed.

Lemma clean_empty2 : replace (replace "" (String (ascii_of_nat 10) "") "") (String (ascii_of_nat 9) "") "" = ""%string.
Proof. vm_compute. reflexivity. Qed.

Section Neutral.
  Variable parse_stmt : string -> res (option pyval).

  (* a line whose code part is blank, read while no SET statement is pending and other lines follow:
     nothing is parsed, nothing is emitted but the comment texts, the statement being collected is untouched *)
  Lemma empty_code_line : forall m line0 code mlc bcs cms,
    pre_process_line m line0 = Ok (code, mlc, bcs, cms) -> strip code = ""%string -> set_line m = None ->
    process_line parse_stmt m line0 true =
    Ok (mkLM (statement m) None (set_was_in_line m) mlc bcs, ([], cms)).
  Proof.
    intros m line0 code mlc bcs cms Hp Hcode Hs. unfold process_line. rewrite Hp. cbn [bind].
    rewrite Hcode, clean_empty2, skip_empty. cbn [bind]. rewrite set_empty. cbn [bind]. rewrite Hs. cbn [bind].
    change (endswith "" ";") with false. change (String.eqb "" "") with true. cbn [negb andb orb].
    destruct (statement m) as [st|]; cbn [andb orb negb nonempty].
    - assert (E : existsb (fun k => startswith (upper "") k) new_statement_tokens = false) by reflexivity.
      rewrite E. destruct (negb (String.eqb st "") && Nat.eqb (count st "(") (count st ")")); reflexivity.
    - reflexivity.
  Qed.

  Lemma strip_empty : strip "" = ""%string.
  Proof. reflexivity. Qed.

  (* C08: a whole-line '--' or '#' comment *)
  Theorem comment_line_neutral : forall m l l',
    multi_line_comment m = false -> set_line m = None ->
    re_sub RegexAst.re_equal_without_space " = " l = Ok l' ->
    (startswith (strip l') MYSQL_COM || startswith (strip l') IN_COM) = true ->
    startswith l' OP_COM = false -> startswith l' CL_COM = false ->
    process_line parse_stmt m l true = Ok (m, ([], [])).
  Proof.
    intros m l l' Hm Hs Hsub Hc Ho Hcl.
    rewrite (empty_code_line m l "" false (block_comments m) []).
    - destruct m; simpl in *; subst; reflexivity.
    - unfold pre_process_line. rewrite Hsub. cbn [bind]. rewrite Hm, Hc. cbn [negb bind]. rewrite Ho, Hcl. reflexivity.
    - reflexivity.
    - exact Hs.
  Qed.

  (* C08: a line inside a multi-line block comment that does not close it: its text goes to comments only *)
  Theorem inside_block_comment_neutral : forall m l l',
    multi_line_comment m = true -> set_line m = None ->
    re_sub RegexAst.re_equal_without_space " = " l = Ok l' ->
    contains l' CL_COM = false ->
    process_line parse_stmt m l true = Ok (m, ([], [l'])).
  Proof.
    intros m l l' Hm Hs Hsub Hc.
    rewrite (empty_code_line m l "" true (block_comments m) [l']).
    - destruct m; simpl in *; subst; reflexivity.
    - unfold pre_process_line. rewrite Hsub. cbn [bind]. rewrite Hm, Hc. cbn [bind].
      assert (E : startswith l' CL_COM = false).
      { unfold startswith. destruct (String.prefix CL_COM l') eqn:P; [|reflexivity].
        exfalso. unfold contains in Hc. destruct l'; simpl in *; rewrite P in Hc; discriminate. }
      rewrite E. destruct (startswith l' OP_COM); reflexivity.
    - reflexivity.
    - exact Hs.
  Qed.

  (* C05: a blank line (only white space) between the lines of a script *)
  Theorem blank_line_neutral : forall m l l',
    multi_line_comment m = false -> set_line m = None ->
    re_sub RegexAst.re_equal_without_space " = " l = Ok l' ->
    strip l' = ""%string -> contains l' IN_COM = false -> contains l' OP_COM = false -> contains l' CL_COM = false ->
    startswith l' OP_COM = false -> startswith l' CL_COM = false ->
    process_line parse_stmt m l true = Ok (m, ([], [])).
  Proof.
    intros m l l' Hm Hs Hsub Hb Hi Ho Hc Hso Hsc.
    rewrite (empty_code_line m l l' false (block_comments m) []).
    - destruct m; simpl in *; subst; reflexivity.
    - unfold pre_process_line. rewrite Hsub. cbn [bind]. rewrite Hm, Hb.
      change (startswith "" MYSQL_COM || startswith "" IN_COM) with false. cbn [negb bind].
      rewrite Hi, Ho, Hc. cbn [negb andb bind]. rewrite Hc. cbn [andb bind]. rewrite Hso, Hsc. reflexivity.
    - exact Hb.
    - exact Hs.
  Qed.
End Neutral.

(* ---------- C03: a statement written on one line and ended by ';' is parsed alone and leaves the machine in its initial state ------- *)
Section OneLine.
  Variable parse_stmt : string -> res (option pyval).

  (* what the line machine hands to the statement parser for such a line *)
  Definition code_of (l' : string) : string :=
    replace (replace (strip l') (String (ascii_of_nat 10) "") "") (String (ascii_of_nat 9) "") "".
  Definition entities_of (r : option pyval) : list pyval :=
    match r with Some v => if match v with PDict [] => false | _ => true end then [v] else [] | None => [] end.

  (* the side conditions are about the line alone (its comment markers, its first word, its last character) *)
  Record one_line_statement (l l' : string) : Prop := {
    ol_sub : re_sub RegexAst.re_equal_without_space " = " l = Ok l';
    ol_not_comment : (startswith (strip l') MYSQL_COM || startswith (strip l') IN_COM) = false;
    ol_no_inline : contains l' IN_COM = false;
    ol_no_close : contains l' CL_COM = false;
    ol_no_open : contains l' OP_COM = false;
    ol_not_skipped : re_match_b RegexAst.re_skip_regex (upper (code_of l')) = Ok false;
    ol_not_set : re_match_b RegexAst.re_set_statement (upper (code_of l')) = Ok false;
    ol_ends : endswith (code_of l') ";" = true;
    ol_nonempty : String.eqb (code_of l') "" = false;
    ol_body : String.eqb (drop_last (code_of l')) "" = false
  }.

  Lemma startswith_false_of_contains s p : contains s p = false -> p <> ""%string -> startswith s p = false.
  Proof.
    intros H Hp. unfold startswith. destruct (String.prefix p s) eqn:P; [|reflexivity]. exfalso.
    unfold contains in H. destruct s; simpl in *.
    - destruct p; [congruence|discriminate].
    - rewrite P in H. discriminate.
  Qed.

  Theorem one_line_statement_alone : forall l l' not_last, one_line_statement l l' ->
    process_line parse_stmt lm0 l not_last =
    (do r <- parse_stmt (drop_last (code_of l')); Ok (lm0, (entities_of r, []))).
  Proof.
    intros l l' not_last [Hsub Hnc Hin Hcl Hop Hsk Hset Hend Hne Hb].
    unfold process_line.
    assert (Hpre : pre_process_line lm0 l = Ok (l', false, [], [])).
    { unfold pre_process_line. rewrite Hsub. cbn [bind multi_line_comment lm0]. rewrite Hnc. cbn [negb bind].
      rewrite Hin, Hcl, Hop. cbn [negb andb bind block_comments lm0].
      rewrite Hcl. cbn [andb bind].
      rewrite (startswith_false_of_contains l' OP_COM Hop) by discriminate.
      rewrite (startswith_false_of_contains l' CL_COM Hcl) by discriminate. reflexivity. }
    rewrite Hpre. cbn [bind]. fold (code_of l'). rewrite Hsk, Hset. cbn [bind set_line set_was_in_line statement lm0].
    rewrite Hend, Hne. cbn [negb andb orb nonempty]. rewrite Hne. cbn [negb andb orb].
    rewrite Hb. cbn [negb andb bind].
    destruct (parse_stmt (drop_last (code_of l'))) as [r| | |]; cbn [bind]; try reflexivity.
  Qed.

  (* a script of such lines: every statement is parsed alone, the results come in order, whatever the neighbours are *)
  Fixpoint results_in_order (ls : list (string * string)) : res (list pyval) :=
    match ls with
    | [] => Ok []
    | (_, l') :: r => do x <- parse_stmt (drop_last (code_of l')); do t <- results_in_order r; Ok (entities_of x ++ t)
    end.
  Theorem one_line_statements_independent : forall (ls : list (string * string)) more,
    Forall (fun p => one_line_statement (fst p) (snd p)) ls ->
    run_lines parse_stmt lm0 (map fst ls) more = (do t <- results_in_order ls; Ok (lm0, (t, []))).
  Proof.
    induction ls as [|[l l'] r IH]; intros more H; cbn [map run_lines results_in_order]; [reflexivity|].
    inversion H as [|? ? H1 Hr]; subst. cbn [fst snd] in H1.
    rewrite (one_line_statement_alone l l' _ H1).
    destruct (parse_stmt (drop_last (code_of l'))) as [x| | |]; cbn [bind]; try reflexivity.
    rewrite (IH more Hr). destruct (results_in_order r) as [t| | |]; cbn [bind]; reflexivity.
  Qed.
End OneLine.

(* ---------- C08: a trailing '-- comment' after a one-line statement -------------------------------------------------------------------- *)
Section TrailingComment.
  Variable parse_stmt : string -> res (option pyval).

  (* l' = code ++ "--" ++ text, the -- being the first one outside a quoted literal: the conditions are again about the line alone *)
  Record one_line_with_trailing_comment (l l' code text : string) : Prop := {
    tc_sub : re_sub RegexAst.re_equal_without_space " = " l = Ok l';
    tc_not_comment : (startswith (strip l') MYSQL_COM || startswith (strip l') IN_COM) = false;
    tc_has_inline : contains l' IN_COM = true;
    tc_scan : exists i, comment_start None l' = Some i /\ code = take i l' /\ text = drop (i + 2) l';   (* the first -- outside quotes *)
    tc_no_close : contains l' CL_COM = false;
    tc_no_open : contains l' OP_COM = false;
    tc_code_no_close : contains code CL_COM = false;
    tc_not_skipped : re_match_b RegexAst.re_skip_regex (upper (code_of code)) = Ok false;
    tc_not_set : re_match_b RegexAst.re_set_statement (upper (code_of code)) = Ok false;
    tc_ends : endswith (code_of code) ";" = true;
    tc_nonempty : String.eqb (code_of code) "" = false;
    tc_body : String.eqb (drop_last (code_of code)) "" = false
  }.

  (* the statement is parsed exactly as without the comment; the comment text goes to the comments output and nowhere else *)
  Theorem trailing_comment_neutral : forall l l' code text not_last, one_line_with_trailing_comment l l' code text ->
    process_line parse_stmt lm0 l not_last =
    (do r <- parse_stmt (drop_last (code_of code)); Ok (lm0, (entities_of r, [text]))).
  Proof.
    intros l l' code text not_last [Hsub Hnc Hin [i [Hq [Hcode Htext]]] Hcl Hop Hccl Hsk Hset Hend Hne Hb].
    unfold process_line.
    assert (Hpre : pre_process_line lm0 l = Ok (code, false, [], [text])).
    { unfold pre_process_line. rewrite Hsub. cbn [bind multi_line_comment lm0]. rewrite Hnc. cbn [negb bind].
      rewrite Hin. unfold process_in_comment. rewrite Hq. rewrite <- Hcode, <- Htext. cbn [bind].
      rewrite Hop. cbn [bind block_comments lm0]. rewrite Hccl. cbn [andb bind].
      rewrite (startswith_false_of_contains l' OP_COM Hop) by discriminate.
      rewrite (startswith_false_of_contains l' CL_COM Hcl) by discriminate. cbn [andb]. reflexivity. }
    rewrite Hpre. cbn [bind]. fold (code_of code). rewrite Hsk, Hset. cbn [bind set_line set_was_in_line statement lm0].
    rewrite Hend, Hne. cbn [negb andb orb nonempty]. rewrite Hne. cbn [negb andb orb].
    rewrite Hb. cbn [negb andb bind].
    destruct (parse_stmt (drop_last (code_of code))) as [r| | |]; cbn [bind]; try reflexivity.
  Qed.
End TrailingComment.

(* ---------- C03 / C05: a statement laid out over several lines ----------------------------------------------------------------------------- *)
Section MultiLine.
  Variable parse_stmt : string -> res (option pyval).

  (* a line of code without comment markers, not skipped, not a SET line, not empty: conditions on the line alone *)
  Record code_line (l l' : string) : Prop := {
    cl_sub : re_sub RegexAst.re_equal_without_space " = " l = Ok l';
    cl_not_comment : (startswith (strip l') MYSQL_COM || startswith (strip l') IN_COM) = false;
    cl_no_inline : contains l' IN_COM = false;
    cl_no_close : contains l' CL_COM = false;
    cl_no_open : contains l' OP_COM = false;
    cl_not_skipped : re_match_b RegexAst.re_skip_regex (upper (code_of l')) = Ok false;
    cl_not_set : re_match_b RegexAst.re_set_statement (upper (code_of l')) = Ok false;
    cl_nonempty : String.eqb (code_of l') "" = false
  }.
  Definition starts_statement (l' : string) : bool := existsb (fun k => startswith (upper (code_of l')) k) new_statement_tokens.
  (* the machine while a statement is being collected *)
  Definition collecting (st : option string) : lm := mkLM st None false false [].
  Definition joined (st : option string) (code : string) : string := match st with None => code | Some s => s ++ " " ++ code end.

  Lemma pre_code_line l l' st : code_line l l' -> pre_process_line (collecting st) l = Ok (l', false, [], []).
  Proof.
    intros [Hsub Hnc Hin Hcl Hop _ _ _]. unfold pre_process_line. rewrite Hsub. cbn [bind multi_line_comment collecting]. rewrite Hnc. cbn [negb bind].
    rewrite Hin, Hcl, Hop. cbn [negb andb bind block_comments collecting]. rewrite Hcl. cbn [andb bind].
    rewrite (startswith_false_of_contains l' OP_COM Hop) by discriminate.
    rewrite (startswith_false_of_contains l' CL_COM Hcl) by discriminate. reflexivity.
  Qed.

  (* a line that does not end the statement: its code is appended, separated by one blank; nothing is parsed, nothing emitted *)
  Lemma continuation_line l l' st : code_line l l' -> endswith (code_of l') ";" = false ->
    (st = None \/ starts_statement l' = false) ->
    process_line parse_stmt (collecting st) l true = Ok (collecting (Some (joined st (code_of l'))), ([], [])).
  Proof.
    intros Hc Hend Hns. unfold process_line. rewrite (pre_code_line l l' st Hc). cbn [bind]. fold (code_of l').
    destruct Hc as [_ _ _ _ _ Hsk Hset Hne]. rewrite Hsk, Hset. cbn [bind set_line set_was_in_line statement collecting].
    rewrite Hend. cbn [andb orb]. rewrite Hne. cbn [negb andb].
    assert (Hnew : match st with
                   | Some s => negb (String.eqb s "") && Nat.eqb (count s "(") (count s ")")
                               && existsb (fun k => startswith (upper (code_of l')) k) new_statement_tokens
                   | None => false end = false).
    { destruct st as [s|]; [|reflexivity]. destruct Hns as [Hns|Hns]; [discriminate|]. unfold starts_statement in Hns. rewrite Hns. apply andb_false_r. }
    rewrite Hnew. cbn [negb andb orb]. destruct st as [s|]; reflexivity.
  Qed.

  (* the line that ends it: the collected text, without the ';', goes to the parser; the machine is back in its initial state *)
  Lemma closing_line l l' st not_last : code_line l l' -> endswith (code_of l') ";" = true ->
    (st = None \/ starts_statement l' = false) -> String.eqb (drop_last (joined st (code_of l'))) "" = false ->
    process_line parse_stmt (collecting st) l not_last =
    (do r <- parse_stmt (drop_last (joined st (code_of l'))); Ok (lm0, (entities_of r, []))).
  Proof.
    intros Hc Hend Hns Hb. unfold process_line. rewrite (pre_code_line l l' st Hc). cbn [bind]. fold (code_of l').
    destruct Hc as [_ _ _ _ _ Hsk Hset Hne]. rewrite Hsk, Hset. cbn [bind set_line set_was_in_line statement collecting].
    rewrite Hend. cbn [negb andb orb]. rewrite Hne. cbn [negb andb].
    assert (Hnew : match st with
                   | Some s => negb (String.eqb s "") && Nat.eqb (count s "(") (count s ")")
                               && existsb (fun k => startswith (upper (code_of l')) k) new_statement_tokens
                   | None => false end = false).
    { destruct st as [s|]; [|reflexivity]. destruct Hns as [Hns|Hns]; [discriminate|]. unfold starts_statement in Hns. rewrite Hns. apply andb_false_r. }
    rewrite Hnew. cbn [negb andb orb].
    assert (Hj : nonempty (Some (joined st (code_of l'))) = true).
    { unfold nonempty, joined. destruct st as [s|]; [|rewrite Hne; reflexivity].
      destruct s; cbn; [reflexivity|reflexivity]. }
    assert (E : (match st with None => Some (code_of l') | Some s => Some (s ++ " " ++ code_of l')%string end) = Some (joined st (code_of l')))
      by (destruct st; reflexivity).
    rewrite E, Hj. cbn [orb andb]. cbn [nonempty]. rewrite Hb. cbn [negb andb bind].
    destruct (parse_stmt (drop_last (joined st (code_of l')))) as [r| | |]; cbn [bind]; reflexivity.
  Qed.

  (* k continuation lines followed by the closing line: the statement handed to the parser is the codes of the lines joined by
     single blanks, whatever the line breaks and the indentation were *)
  Fixpoint join_codes (st : option string) (ls : list (string * string)) : option string :=
    match ls with [] => st | (_, l') :: r => join_codes (Some (joined st (code_of l'))) r end.

  Theorem statement_over_lines : forall (body : list (string * string)) st l l' more,
    Forall (fun p => code_line (fst p) (snd p) /\ endswith (code_of (snd p)) ";" = false /\ starts_statement (snd p) = false) body ->
    code_line l l' -> endswith (code_of l') ";" = true -> starts_statement l' = false ->
    String.eqb (drop_last (joined (join_codes st body) (code_of l'))) "" = false ->
    run_lines parse_stmt (collecting st) (map fst body ++ [l]) more =
    (do r <- parse_stmt (drop_last (joined (join_codes st body) (code_of l'))); Ok (lm0, (entities_of r, []))).
  Proof.
    induction body as [|[b b'] r IH]; intros st l l' more Hb Hc Hend Hns Hne.
    - cbn [map app run_lines join_codes] in *. rewrite (closing_line l l' st _ Hc Hend (or_intror Hns) Hne).
      destruct (parse_stmt (drop_last (joined st (code_of l')))) as [x| | |]; cbn [bind]; try reflexivity. rewrite app_nil_r. reflexivity.
    - inversion Hb as [|? ? [H1 [H2 H3]] Hr]; subst. cbn [fst snd] in *. cbn [join_codes].
      change (map fst ((b, b') :: r) ++ [l])%list with (b :: (map fst r ++ [l]))%list.
      remember (map fst r ++ [l])%list as rest eqn:Erest. cbn [run_lines].
      assert (Hmore : match rest with [] => more | _ :: _ => true end = true) by (subst rest; destruct (map fst r); reflexivity).
      rewrite Hmore. rewrite (continuation_line b b' st H1 H2 (or_intror H3)). cbn [bind]. subst rest.
      rewrite (IH (Some (joined st (code_of b'))) l l' more Hr Hc Hend Hns Hne).
      destruct (parse_stmt _) as [x| | |]; cbn [bind]; reflexivity.
  Qed.
End MultiLine.

(* two layouts of one statement whose line codes join to the same text give the same result *)
Corollary layout_invariance parse_stmt : forall body1 l1 l1' body2 l2 l2' more1 more2,
  Forall (fun p => code_line (fst p) (snd p) /\ endswith (code_of (snd p)) ";" = false /\ starts_statement (snd p) = false) body1 ->
  Forall (fun p => code_line (fst p) (snd p) /\ endswith (code_of (snd p)) ";" = false /\ starts_statement (snd p) = false) body2 ->
  code_line l1 l1' -> endswith (code_of l1') ";" = true -> starts_statement l1' = false ->
  code_line l2 l2' -> endswith (code_of l2') ";" = true -> starts_statement l2' = false ->
  joined (join_codes None body1) (code_of l1') = joined (join_codes None body2) (code_of l2') ->
  String.eqb (drop_last (joined (join_codes None body1) (code_of l1'))) "" = false ->
  run_lines parse_stmt lm0 (map fst body1 ++ [l1]) more1 = run_lines parse_stmt lm0 (map fst body2 ++ [l2]) more2.
Proof.
  intros body1 l1 l1' body2 l2 l2' more1 more2 B1 B2 C1 E1 S1 C2 E2 S2 J N.
  change lm0 with (collecting None).
  rewrite (statement_over_lines parse_stmt body1 None l1 l1' more1 B1 C1 E1 S1 N).
  rewrite J in N. rewrite (statement_over_lines parse_stmt body2 None l2 l2' more2 B2 C2 E2 S2 N). rewrite J. reflexivity.
Qed.

(* ---------- C08: the comment text does not matter (after fix 0398ce9) ------------------------------------------------------------------------
   where the scanner finds the comment depends on the code before it only: if the code holds no "--" outside quoted literals, closes
   every literal it opens and does not end with '-', then for EVERY text (quotes, apostrophes, further "--", anything) the line
   code ++ "--" ++ text is cut exactly between code and text *)
Fixpoint end_quote (quote : option ascii) (s : string) : option ascii :=
  match s with
  | EmptyString => quote
  | String c r =>
    match quote with
    | Some qc => end_quote (if Ascii.eqb c qc then None else quote) r
    | None => if Ascii.eqb c "'" || Ascii.eqb c """" then end_quote (Some c) r else end_quote None r
    end
  end.
Fixpoint ends_with_dash (s : string) : bool :=
  match s with
  | EmptyString => false
  | String c EmptyString => Ascii.eqb c "-"
  | String _ r => ends_with_dash r
  end.
Lemma option_map_S_add n o : option_map S (option_map (Nat.add n) o) = option_map (Nat.add (S n)) o.
Proof. destruct o; reflexivity. Qed.

Lemma comment_start_app : forall code q rest, comment_start q code = None -> ends_with_dash code = false ->
  comment_start q (code ++ rest) = option_map (Nat.add (String.length code)) (comment_start (end_quote q code) rest).
Proof.
  induction code as [|c r IH]; intros q rest Hn Hd.
  - cbn [append String.length end_quote]. destruct (comment_start q rest); reflexivity.
  - cbn [append String.length]. cbn [comment_start end_quote] in *.
    assert (Hdr : ends_with_dash r = false) by (destruct r; [reflexivity|exact Hd]).
    destruct q as [qc|].
    + destruct (comment_start (if Ascii.eqb c qc then None else Some qc) r) eqn:E; [discriminate|].
      rewrite (IH _ rest E Hdr). apply option_map_S_add.
    + destruct (Ascii.eqb c "'" || Ascii.eqb c """") eqn:Eq.
      * destruct (comment_start (Some c) r) eqn:E; [discriminate|]. rewrite (IH _ rest E Hdr). apply option_map_S_add.
      * destruct (String.prefix IN_COM (String c r)) eqn:Ep; [discriminate|].
        destruct (comment_start None r) eqn:E; [discriminate|].
        assert (Ep2 : String.prefix IN_COM (String c (r ++ rest)) = false).
        { destruct r as [|d r']; cbn [append].
          - cbn [ends_with_dash] in Hd. unfold IN_COM. cbn [String.prefix]. destruct (ascii_dec "-" c) as [<-|]; [rewrite Ascii.eqb_refl in Hd; discriminate Hd|reflexivity].
          - unfold IN_COM in *. cbn [String.prefix] in *. destruct (ascii_dec "-" c); [|reflexivity]. destruct (ascii_dec "-" d); [destruct r'; discriminate Ep|reflexivity]. }
        rewrite Ep2. rewrite (IH _ rest E Hdr). apply option_map_S_add.
Qed.

Lemma append_assoc_helper (a b c : string) : (a ++ b ++ c = (a ++ b) ++ c)%string.
Proof. induction a as [|x a IH]; cbn; [reflexivity|rewrite IH; reflexivity]. Qed.
Lemma take_app_length a b : take (String.length a) (a ++ b) = a.
Proof. induction a as [|c a IH]; cbn; [destruct b; reflexivity|rewrite IH; reflexivity]. Qed.
Lemma drop_app_length a b : drop (String.length a) (a ++ b) = b.
Proof. induction a as [|c a IH]; cbn; [reflexivity|exact IH]. Qed.

Theorem comment_cut_for_any_text : forall code text,
  comment_start None code = None -> end_quote None code = None -> ends_with_dash code = false ->
  process_in_comment (code ++ IN_COM ++ text) = Ok (code, [text]).
Proof.
  intros code text Hn Hq Hd. unfold process_in_comment. rewrite (comment_start_app code None (IN_COM ++ text) Hn Hd). rewrite Hq.
  assert (E : comment_start None (IN_COM ++ text) = Some O) by (destruct text; reflexivity). rewrite E. cbn [option_map]. rewrite Nat.add_0_r.
  rewrite take_app_length. replace (String.length code + 2)%nat with (String.length (code ++ IN_COM)).
  - rewrite (append_assoc_helper code IN_COM text). rewrite drop_app_length. reflexivity.
  - clear. induction code as [|c r IH]; cbn; [reflexivity|rewrite IH; reflexivity].
Qed.

(* ---------- C08 / C03: a statement over several lines, each possibly followed by a trailing -- comment --------------------------------------- *)
Section CommentedLines.
  Variable parse_stmt : string -> res (option pyval).

  (* a line of code, possibly with a trailing comment: after the '=' re-spacing it is l'; [code] is what stands before the first
     "--" outside quoted literals (the whole line if there is none) and [cms] the comment text (none / the rest of the line) *)
  Record commented_line (l l' code : string) (cms : list string) : Prop := {
    cm_sub : re_sub RegexAst.re_equal_without_space " = " l = Ok l';
    cm_not_comment : (startswith (strip l') MYSQL_COM || startswith (strip l') IN_COM) = false;
    cm_cut : (contains l' IN_COM = false /\ code = l' /\ cms = []) \/ (contains l' IN_COM = true /\ process_in_comment l' = Ok (code, cms));
    cm_no_close : contains l' CL_COM = false;
    cm_no_open : contains l' OP_COM = false;
    cm_code_no_close : contains code CL_COM = false;
    cm_not_skipped : re_match_b RegexAst.re_skip_regex (upper (code_of code)) = Ok false;
    cm_not_set : re_match_b RegexAst.re_set_statement (upper (code_of code)) = Ok false;
    cm_nonempty : String.eqb (code_of code) "" = false
  }.
  Definition starts_stmt (code : string) : bool := existsb (fun k => startswith (upper (code_of code)) k) new_statement_tokens.

  Lemma pre_commented_line l l' code cms st : commented_line l l' code cms ->
    pre_process_line (collecting st) l = Ok (code, false, [], cms).
  Proof.
    intros [Hsub Hnc Hcut Hcl Hop Hccl _ _ _]. unfold pre_process_line. rewrite Hsub. cbn [bind multi_line_comment collecting]. rewrite Hnc. cbn [negb bind].
    destruct Hcut as [[Hin [-> ->]]|[Hin Hp]].
    - rewrite Hin, Hcl, Hop. cbn [negb andb bind block_comments collecting]. rewrite Hcl. cbn [andb bind].
      rewrite (startswith_false_of_contains l' OP_COM Hop) by discriminate.
      rewrite (startswith_false_of_contains l' CL_COM Hcl) by discriminate. reflexivity.
    - rewrite Hin, Hp. cbn [bind]. rewrite Hop. cbn [bind block_comments collecting]. rewrite Hccl. cbn [andb bind].
      rewrite (startswith_false_of_contains l' OP_COM Hop) by discriminate.
      rewrite (startswith_false_of_contains l' CL_COM Hcl) by discriminate. reflexivity.
  Qed.

  Lemma commented_continuation l l' code cms st : commented_line l l' code cms -> endswith (code_of code) ";" = false ->
    (st = None \/ starts_stmt code = false) ->
    process_line parse_stmt (collecting st) l true = Ok (collecting (Some (joined st (code_of code))), ([], cms)).
  Proof.
    intros Hc Hend Hns. unfold process_line. rewrite (pre_commented_line l l' code cms st Hc). cbn [bind]. fold (code_of code).
    destruct Hc as [_ _ _ _ _ _ Hsk Hset Hne]. rewrite Hsk, Hset. cbn [bind set_line set_was_in_line statement collecting].
    rewrite Hend. cbn [andb orb]. rewrite Hne. cbn [negb andb].
    assert (Hnew : match st with
                   | Some s => negb (String.eqb s "") && Nat.eqb (count s "(") (count s ")")
                               && existsb (fun k => startswith (upper (code_of code)) k) new_statement_tokens
                   | None => false end = false).
    { destruct st as [s|]; [|reflexivity]. destruct Hns as [Hns|Hns]; [discriminate|]. unfold starts_stmt in Hns. rewrite Hns. apply andb_false_r. }
    rewrite Hnew. cbn [negb andb orb]. destruct st as [s|]; reflexivity.
  Qed.

  Lemma commented_closing l l' code cms st not_last : commented_line l l' code cms -> endswith (code_of code) ";" = true ->
    (st = None \/ starts_stmt code = false) -> String.eqb (drop_last (joined st (code_of code))) "" = false ->
    process_line parse_stmt (collecting st) l not_last =
    (do r <- parse_stmt (drop_last (joined st (code_of code))); Ok (lm0, (entities_of r, cms))).
  Proof.
    intros Hc Hend Hns Hb. unfold process_line. rewrite (pre_commented_line l l' code cms st Hc). cbn [bind]. fold (code_of code).
    destruct Hc as [_ _ _ _ _ _ Hsk Hset Hne]. rewrite Hsk, Hset. cbn [bind set_line set_was_in_line statement collecting].
    rewrite Hend. cbn [negb andb orb]. rewrite Hne. cbn [negb andb].
    assert (Hnew : match st with
                   | Some s => negb (String.eqb s "") && Nat.eqb (count s "(") (count s ")")
                               && existsb (fun k => startswith (upper (code_of code)) k) new_statement_tokens
                   | None => false end = false).
    { destruct st as [s|]; [|reflexivity]. destruct Hns as [Hns|Hns]; [discriminate|]. unfold starts_stmt in Hns. rewrite Hns. apply andb_false_r. }
    rewrite Hnew. cbn [negb andb orb].
    assert (Hj : nonempty (Some (joined st (code_of code))) = true).
    { unfold nonempty, joined. destruct st as [s|]; [|rewrite Hne; reflexivity]. destruct s; cbn; reflexivity. }
    assert (E : (match st with None => Some (code_of code) | Some s => Some (s ++ " " ++ code_of code)%string end) = Some (joined st (code_of code)))
      by (destruct st; reflexivity).
    rewrite E, Hj. cbn [orb andb]. cbn [nonempty]. rewrite Hb. cbn [negb andb bind].
    destruct (parse_stmt (drop_last (joined st (code_of code)))) as [r| | |]; cbn [bind]; reflexivity.
  Qed.

  (* lines as (l, l', code, comments) *)
  Definition cline := (string * string * string * list string)%type.
  Definition cl_l (c : cline) := fst (fst (fst c)).
  Definition cl_l' (c : cline) := snd (fst (fst c)).
  Definition cl_code (c : cline) := snd (fst c).
  Definition cl_cms (c : cline) := snd c.
  Fixpoint join_ccodes (st : option string) (ls : list cline) : option string :=
    match ls with [] => st | c :: r => join_ccodes (Some (joined st (code_of (cl_code c)))) r end.

  (* the statement is parsed exactly as the same statement without any of the comments; the comment texts are reported in source
     order in the comments output and nowhere else; the machine returns to its initial state *)
  Theorem statement_over_commented_lines : forall (body : list cline) st (last : cline) more,
    Forall (fun c => commented_line (cl_l c) (cl_l' c) (cl_code c) (cl_cms c) /\ endswith (code_of (cl_code c)) ";" = false
                     /\ starts_stmt (cl_code c) = false) body ->
    commented_line (cl_l last) (cl_l' last) (cl_code last) (cl_cms last) -> endswith (code_of (cl_code last)) ";" = true ->
    starts_stmt (cl_code last) = false ->
    String.eqb (drop_last (joined (join_ccodes st body) (code_of (cl_code last)))) "" = false ->
    run_lines parse_stmt (collecting st) (map cl_l body ++ [cl_l last]) more =
    (do r <- parse_stmt (drop_last (joined (join_ccodes st body) (code_of (cl_code last))));
     Ok (lm0, (entities_of r, (flat_map cl_cms body ++ cl_cms last)%list))).
  Proof.
    induction body as [|b r IH]; intros st last more Hb Hc Hend Hns Hne.
    - cbn [map app run_lines join_ccodes flat_map] in *. rewrite (commented_closing _ _ _ _ st _ Hc Hend (or_intror Hns) Hne).
      destruct (parse_stmt (drop_last (joined st (code_of (cl_code last))))) as [x| | |]; cbn [bind]; try reflexivity. rewrite !app_nil_r. reflexivity.
    - inversion Hb as [|? ? [H1 [H2 H3]] Hr]; subst. cbn [join_ccodes flat_map].
      change (map cl_l (b :: r) ++ [cl_l last])%list with (cl_l b :: (map cl_l r ++ [cl_l last]))%list.
      remember (map cl_l r ++ [cl_l last])%list as rest eqn:Erest. cbn [run_lines].
      assert (Hmore : match rest with [] => more | _ :: _ => true end = true) by (subst rest; destruct (map cl_l r); reflexivity).
      rewrite Hmore. rewrite (commented_continuation _ _ _ _ st H1 H2 (or_intror H3)). cbn [bind]. subst rest.
      rewrite (IH (Some (joined st (code_of (cl_code b)))) last more Hr Hc Hend Hns Hne).
      destruct (parse_stmt _) as [x| | |]; cbn [bind]; try reflexivity. rewrite <- app_assoc. reflexivity.
  Qed.
End CommentedLines.

(* the text handed to the statement parser depends on the codes of the lines alone: adding, removing or changing trailing comments
   (with any text) leaves it — hence every parsed entity — unchanged *)
Lemma join_ccodes_ext : forall (b1 b2 : list cline) st,
  map (fun c => code_of (cl_code c)) b1 = map (fun c => code_of (cl_code c)) b2 -> join_ccodes st b1 = join_ccodes st b2.
Proof.
  induction b1 as [|c r IH]; intros [|c2 r2] st H; cbn [map] in H; try discriminate; [reflexivity|].
  inversion H as [[H1 H2]]. cbn [join_ccodes]. rewrite H1. apply IH. exact H2.
Qed.
Theorem trailing_comments_over_lines_neutral : forall parse_stmt (b1 b2 : list cline) (l1 l2 : cline) st more1 more2,
  Forall (fun c => commented_line (cl_l c) (cl_l' c) (cl_code c) (cl_cms c) /\ endswith (code_of (cl_code c)) ";" = false /\ starts_stmt (cl_code c) = false) b1 ->
  Forall (fun c => commented_line (cl_l c) (cl_l' c) (cl_code c) (cl_cms c) /\ endswith (code_of (cl_code c)) ";" = false /\ starts_stmt (cl_code c) = false) b2 ->
  commented_line (cl_l l1) (cl_l' l1) (cl_code l1) (cl_cms l1) -> commented_line (cl_l l2) (cl_l' l2) (cl_code l2) (cl_cms l2) ->
  endswith (code_of (cl_code l1)) ";" = true -> starts_stmt (cl_code l1) = false ->
  map (fun c => code_of (cl_code c)) b1 = map (fun c => code_of (cl_code c)) b2 -> code_of (cl_code l1) = code_of (cl_code l2) ->
  String.eqb (drop_last (joined (join_ccodes st b1) (code_of (cl_code l1)))) "" = false ->
  exists stmt,
    run_lines parse_stmt (collecting st) (map cl_l b1 ++ [cl_l l1]) more1 = (do r <- parse_stmt stmt; Ok (lm0, (entities_of r, (flat_map cl_cms b1 ++ cl_cms l1)%list))) /\
    run_lines parse_stmt (collecting st) (map cl_l b2 ++ [cl_l l2]) more2 = (do r <- parse_stmt stmt; Ok (lm0, (entities_of r, (flat_map cl_cms b2 ++ cl_cms l2)%list))).
Proof.
  intros parse_stmt b1 b2 l1 l2 st more1 more2 B1 B2 C1 C2 E1 S1 Hb Hl N.
  exists (drop_last (joined (join_ccodes st b1) (code_of (cl_code l1)))). split.
  - apply statement_over_commented_lines; assumption.
  - rewrite (join_ccodes_ext b1 b2 st Hb) in *. rewrite Hl in N. rewrite Hl.
    apply statement_over_commented_lines; try assumption.
    + rewrite <- Hl. exact E1.
    + unfold starts_stmt in *. rewrite <- Hl. exact S1.
Qed.
