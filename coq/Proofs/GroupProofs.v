(* C13: group_by_type_result is a lossless, order-preserving regrouping — for ALL flat lists. *)
From Coq Require Import String Ascii List ZArith NArith Bool Lia.
From SDP Require Import Base PyStr Actions Output.
Import ListNotations.
Open Scope list_scope.

(* ---------- dict_set / dict_get ----------------------------------------------------------------- *)
Lemma assoc_dict_set_same (d : dict) k v : assoc k (dict_set d k v) = Some v.
Proof.
  induction d as [|[k' v'] r IH]; simpl.
  - rewrite String.eqb_refl. reflexivity.
  - destruct (String.eqb k k') eqn:E; simpl.
    + rewrite String.eqb_refl. reflexivity.
    + rewrite E. exact IH.
Qed.
Lemma assoc_dict_set_other (d : dict) k k' v : k <> k' -> assoc k' (dict_set d k v) = assoc k' d.
Proof.
  intro Hne. induction d as [|[k2 v2] r IH]; simpl.
  - destruct (String.eqb k' k) eqn:E; [apply String.eqb_eq in E; congruence|reflexivity].
  - destruct (String.eqb k k2) eqn:E; simpl.
    + apply String.eqb_eq in E. subst k2.
      destruct (String.eqb k' k) eqn:E2; [apply String.eqb_eq in E2; congruence|reflexivity].
    + destruct (String.eqb k' k2); [reflexivity|exact IH].
Qed.
Lemma assoc_dict_del_other (d : dict) k k' : k <> k' -> assoc k' (dict_del d k) = assoc k' d.
Proof.
  intro Hne. induction d as [|[k2 v2] r IH]; simpl; [reflexivity|].
  destruct (String.eqb k k2) eqn:E; simpl.
  - apply String.eqb_eq in E. subst k2.
    destruct (String.eqb k' k) eqn:E2; [apply String.eqb_eq in E2; congruence|reflexivity].
  - destruct (String.eqb k' k2); [reflexivity|exact IH].
Qed.

(* ---------- specification ------------------------------------------------------------------------ *)
(* the kind of an entity: the bucket of the first marker key (in the order of the code's key map) it has *)
Definition kind_of (item : pyval) : option string :=
  match item with
  | PDict d => match bucket_of d with Some (_, b) => Some b | None => None end
  | _ => None
  end.
Definition is_kind (b : string) (item : pyval) : bool :=
  match kind_of item with Some b' => String.eqb b b' | None => false end.

(* entities as the parser produces them: dicts; a comments item carries a list *)
Definition entity_ok (item : pyval) : bool :=
  match item with
  | PDict d => match bucket_of d with
               | Some (key, _) => if String.eqb key "comments"
                                  then match get_or_none d "comments" with PList _ => true | _ => false end
                                  else true
               | None => true
               end
  | _ => false
  end.

Definition comment_texts (item : pyval) : list pyval :=
  match item with
  | PDict d => match bucket_of d with
               | Some (key, _) => if String.eqb key "comments"
                                  then match get_or_none d "comments" with PList l => l | _ => [] end else []
               | None => []
               end
  | _ => []
  end.

Definition bucket_list (g : dict) (b : string) : list pyval :=
  match assoc b g with Some (PList l) => l | _ => [] end.

(* every bucket value stays a list *)
Definition lists_only (g : dict) : Prop := forall b v, assoc b g = Some v -> exists l, v = PList l.

Lemma lists_only_set g b l : lists_only g -> lists_only (dict_set g b (PList l)).
Proof.
  intros H b' v Hv. destruct (String.eqb b b') eqn:E.
  - apply String.eqb_eq in E. subst. rewrite assoc_dict_set_same in Hv. inversion Hv. eauto.
  - apply String.eqb_neq in E. rewrite assoc_dict_set_other in Hv by exact E. eauto.
Qed.

Lemma bucket_of_comments_key d key b : bucket_of d = Some (key, b) ->
  (String.eqb key "comments" = true <-> b = "comments"%string).
Proof.
  unfold bucket_of. intro H. apply find_some in H. destruct H as [Hin _].
  unfold keys_map in Hin. simpl in Hin.
  repeat (destruct Hin as [Hin|Hin]; [inversion Hin; subst; simpl; split; intro X; try reflexivity; try discriminate|]).
  contradiction.
Qed.

Lemma group_step_spec g item : entity_ok item = true -> lists_only g ->
  exists g', group_step (Ok g) item = Ok g' /\ lists_only g' /\
    (forall b, b <> "comments"%string ->
               bucket_list g' b = bucket_list g b ++ (if is_kind b item then [item] else [])) /\
    bucket_list g' "comments" = bucket_list g "comments" ++ comment_texts item.
Proof.
  intros Hok Hl. destruct item as [| | | | | |d]; try discriminate.
  unfold group_step, entity_ok, comment_texts, is_kind, kind_of in *. simpl.
  destruct (bucket_of d) as [[key b]|] eqn:Hb.
  - pose proof (bucket_of_comments_key d key b Hb) as Hck.
    destruct (String.eqb key "comments") eqn:Ek.
    + assert (b = "comments"%string) by (apply Hck; reflexivity). subst b.
      destruct (get_or_none d "comments") as [| | | |l| |] eqn:Eg; try discriminate.
      eexists. split; [reflexivity|]. split; [apply lists_only_set; exact Hl|]. split.
      * intros b' Hne. unfold bucket_list. rewrite assoc_dict_set_other by congruence.
        destruct (String.eqb b' "comments") eqn:E; [apply String.eqb_eq in E; congruence|].
        rewrite app_nil_r. reflexivity.
      * unfold bucket_list at 1. rewrite assoc_dict_set_same. unfold bucket_list, dict_get.
        destruct (assoc "comments"%string g) as [v|] eqn:Ea; [|reflexivity].
        destruct (Hl _ _ Ea) as [l0 ->]. reflexivity.
    + assert (b <> "comments"%string) by (intro X; apply Hck in X; discriminate).
      eexists. split; [reflexivity|]. split; [apply lists_only_set; exact Hl|]. split.
      * intros b' Hne. unfold bucket_list at 1.
        destruct (String.eqb b' b) eqn:E.
        -- apply String.eqb_eq in E. subst b'. rewrite assoc_dict_set_same. unfold bucket_list, dict_get.
           destruct (assoc b g) as [v|] eqn:Ea; [|reflexivity].
           destruct (Hl _ _ Ea) as [l0 ->]. reflexivity.
        -- apply String.eqb_neq in E. rewrite assoc_dict_set_other by congruence.
           rewrite app_nil_r. reflexivity.
      * unfold bucket_list. rewrite assoc_dict_set_other by congruence. rewrite app_nil_r. reflexivity.
  - exists g. split; [reflexivity|]. split; [exact Hl|]. split.
    + intros b' _. rewrite app_nil_r. reflexivity.
    + rewrite app_nil_r. reflexivity.
Qed.

Lemma group_fold_spec : forall flat g, forallb entity_ok flat = true -> lists_only g ->
  exists g', fold_left group_step flat (Ok g) = Ok g' /\ lists_only g' /\
    (forall b, b <> "comments"%string -> bucket_list g' b = bucket_list g b ++ filter (is_kind b) flat) /\
    bucket_list g' "comments" = bucket_list g "comments" ++ flat_map comment_texts flat.
Proof.
  induction flat as [|item r IH]; intros g Hok Hl; cbn [fold_left forallb filter flat_map] in *.
  - exists g. repeat split; auto; intros; rewrite app_nil_r; reflexivity.
  - apply andb_true_iff in Hok. destruct Hok as [H1 H2].
    destruct (group_step_spec g item H1 Hl) as [g1 [Hs [Hl1 [Hb1 Hc1]]]].
    rewrite Hs. destruct (IH g1 H2 Hl1) as [g' [Hf [Hl' [Hb Hc]]]].
    exists g'. split; [exact Hf|]. split; [exact Hl'|]. split.
    + intros b Hne. rewrite (Hb b Hne), (Hb1 b Hne). rewrite <- app_assoc. f_equal.
      destruct (is_kind b item); reflexivity.
    + rewrite Hc, Hc1. rewrite <- app_assoc. reflexivity.
Qed.

Lemma group_init_lists_only : lists_only group_init.
Proof.
  intros b v H. unfold group_init in H. simpl in H.
  repeat match type of H with
         | (if ?c then _ else _) = _ => destruct c; [inversion H; eauto|]
         end. discriminate.
Qed.

(* keys once present stay present *)
Lemma dict_set_keeps (g : dict) k v b : assoc b g <> None -> assoc b (dict_set g k v) <> None.
Proof.
  intro H. destruct (String.eqb k b) eqn:E.
  - apply String.eqb_eq in E. subst. rewrite assoc_dict_set_same. discriminate.
  - apply String.eqb_neq in E. rewrite assoc_dict_set_other by exact E. exact H.
Qed.

Ltac gs_cases H :=
  repeat match type of H with
         | match ?x with _ => _ end = _ => destruct x eqn:?; try discriminate
         | (if ?c then _ else _) = _ => destruct c eqn:?; try discriminate
         | (let '(_, _) := ?x in _) = _ => destruct x eqn:?
         | bind ?x _ = _ => destruct x eqn:?; cbn [bind] in H; try discriminate
         end.

Lemma group_step_keeps g item g' b : group_step (Ok g) item = Ok g' -> assoc b g <> None -> assoc b g' <> None.
Proof.
  unfold group_step. cbn [bind]. intros H Hb. gs_cases H;
    inversion H; subst; first [exact Hb | apply dict_set_keeps; exact Hb].
Qed.

Lemma group_fold_keeps : forall flat g g' b,
  fold_left group_step flat (Ok g) = Ok g' -> assoc b g <> None -> assoc b g' <> None.
Proof.
  induction flat as [|item r IH]; intros g g' b H Hb; cbn [fold_left] in H.
  - inversion H; subst; exact Hb.
  - destruct (group_step (Ok g) item) as [g1| | |] eqn:E.
    + eapply IH; [exact H|]. eapply group_step_keeps; eauto.
    + exfalso. clear -H. induction r as [|x r IHr]; cbn [fold_left] in H; [discriminate|]. apply IHr. exact H.
    + exfalso. clear -H. induction r as [|x r IHr]; cbn [fold_left] in H; [discriminate|]. apply IHr. exact H.
    + exfalso. clear -H. induction r as [|x r IHr]; cbn [fold_left] in H; [discriminate|]. apply IHr. exact H.
Qed.

(* keys stay unique *)
Lemma dict_set_in_keys (g : dict) k v x : In x (map fst (dict_set g k v)) -> x = k \/ In x (map fst g).
Proof.
  induction g as [|[k' v'] r IH]; simpl.
  - intros [H|[]]; auto.
  - destruct (String.eqb k k') eqn:E; simpl.
    + apply String.eqb_eq in E. subst. intros [H|H]; auto.
    + intros [H|H]; auto. destruct (IH H); auto.
Qed.
Lemma dict_set_nodup (g : dict) k v : NoDup (map fst g) -> NoDup (map fst (dict_set g k v)).
Proof.
  induction g as [|[k' v'] r IH]; simpl; intro H.
  - constructor; [intros []|constructor].
  - inversion H as [|? ? Hn Hr]; subst. destruct (String.eqb k k') eqn:E; simpl.
    + apply String.eqb_eq in E. subst. constructor; assumption.
    + constructor; [|apply IH; exact Hr]. intro Hin. apply dict_set_in_keys in Hin.
      destruct Hin as [->|Hin]; [rewrite String.eqb_refl in E; discriminate|contradiction].
Qed.
Lemma assoc_not_in_keys (g : dict) k : ~ In k (map fst g) -> assoc k g = None.
Proof.
  induction g as [|[k' v'] r IH]; simpl; intro H; [reflexivity|].
  destruct (String.eqb k k') eqn:E; [apply String.eqb_eq in E; subst; exfalso; apply H; left; reflexivity|].
  apply IH. intro X. apply H. right. exact X.
Qed.
Lemma assoc_dict_del_same (g : dict) k : NoDup (map fst g) -> assoc k (dict_del g k) = None.
Proof.
  induction g as [|[k' v'] r IH]; simpl; intro H; [reflexivity|].
  inversion H as [|? ? Hn Hr]; subst. destruct (String.eqb k k') eqn:E; simpl.
  - apply String.eqb_eq in E. subst. apply assoc_not_in_keys. exact Hn.
  - rewrite E. apply IH. exact Hr.
Qed.

Lemma group_step_nodup g item g' : group_step (Ok g) item = Ok g' -> NoDup (map fst g) -> NoDup (map fst g').
Proof.
  unfold group_step. cbn [bind]. intros H Hb. gs_cases H;
    inversion H; subst; first [exact Hb | apply dict_set_nodup; exact Hb].
Qed.
Lemma fold_err_stays : forall r (e : res dict), (forall g, e <> Ok g) -> forall g, fold_left group_step r e <> Ok g.
Proof.
  induction r as [|x r IH]; intros e He g; cbn [fold_left]; [apply He|].
  apply IH. intros g0. unfold group_step. destruct e; simpl; try discriminate. exfalso. eapply He; reflexivity.
Qed.
Lemma group_fold_nodup : forall flat g g',
  fold_left group_step flat (Ok g) = Ok g' -> NoDup (map fst g) -> NoDup (map fst g').
Proof.
  induction flat as [|item r IH]; intros g g' H Hb; cbn [fold_left] in H.
  - inversion H; subst; exact Hb.
  - destruct (group_step (Ok g) item) as [g1| | |] eqn:E.
    + eapply IH; [exact H|]. eapply group_step_nodup; eauto.
    + exfalso. eapply fold_err_stays; [|exact H]. discriminate.
    + exfalso. eapply fold_err_stays; [|exact H]. discriminate.
    + exfalso. eapply fold_err_stays; [|exact H]. discriminate.
Qed.
Lemma group_init_nodup : NoDup (map fst group_init).
Proof. unfold group_init. simpl. repeat constructor; simpl; intuition discriminate. Qed.

Lemma bucket_list_init b : bucket_list group_init b = [].
Proof.
  unfold bucket_list, group_init. simpl.
  repeat match goal with |- context [if ?c then _ else _] => destruct c; [reflexivity|] end. reflexivity.
Qed.

Definition always_buckets : list string :=
  ["tables"; "types"; "sequences"; "domains"; "schemas"; "ddl_properties"]%string.

Theorem group_by_type_lossless : forall flat, forallb entity_ok flat = true ->
  exists g, group_by_type_result flat = Ok (PDict g) /\
    (forall b, b <> "comments"%string -> bucket_list g b = filter (is_kind b) flat) /\
    bucket_list g "comments" = flat_map comment_texts flat /\
    (forall b, In b always_buckets -> exists l, assoc b g = Some (PList l)).
Proof.
  intros flat Hok.
  destruct (group_fold_spec flat group_init Hok group_init_lists_only) as [g [Hf [Hl [Hb Hc]]]].
  pose proof (group_fold_nodup _ _ _ Hf group_init_nodup) as Hnd.
  unfold group_by_type_result. rewrite Hf. simpl.
  assert (Hpres : forall b, In b always_buckets -> exists l, assoc b g = Some (PList l)).
  { intros b Hin. assert (Hne : assoc b g <> None).
    { eapply group_fold_keeps; [exact Hf|]. unfold always_buckets in Hin. simpl in Hin.
      repeat (destruct Hin as [Hin|Hin]; [subst; discriminate|]). contradiction. }
    destruct (assoc b g) as [v|] eqn:E; [|congruence]. destruct (Hl _ _ E) as [l ->]. eauto. }
  destruct (truthy (get_or_none g "comments")) eqn:Et.
  - exists g. split; [reflexivity|]. split; [|split; [|exact Hpres]].
    + intros b Hne. rewrite (Hb b Hne), bucket_list_init. reflexivity.
    + rewrite Hc, bucket_list_init. reflexivity.
  - exists (dict_del g "comments"). split; [reflexivity|]. split; [|split].
    + intros b Hne. unfold bucket_list. rewrite assoc_dict_del_other by congruence.
      fold (bucket_list g b). rewrite (Hb b Hne), bucket_list_init. reflexivity.
    + assert (Hce : bucket_list g "comments" = []).
      { unfold bucket_list, get_or_none, dict_get in *. destruct (assoc "comments"%string g) as [v|]; [|reflexivity].
        destruct v; try reflexivity. destruct l; [reflexivity|discriminate]. }
      rewrite Hc, bucket_list_init in Hce. simpl in Hce. rewrite Hce.
      unfold bucket_list. rewrite assoc_dict_del_same by exact Hnd. reflexivity.
    + intros b Hin. destruct (Hpres b Hin) as [l Hl2]. exists l.
      rewrite assoc_dict_del_other; [exact Hl2|].
      unfold always_buckets in Hin. simpl in Hin.
      repeat (destruct Hin as [Hin|Hin]; [subst; discriminate|]). contradiction.
Qed.

(* an entity has at most one kind: the buckets are disjoint *)
Lemma is_kind_unique b b' item : is_kind b item = true -> is_kind b' item = true -> b = b'.
Proof.
  unfold is_kind. destruct (kind_of item) as [k|]; [|discriminate].
  intros H1 H2. apply String.eqb_eq in H1. apply String.eqb_eq in H2. congruence.
Qed.
