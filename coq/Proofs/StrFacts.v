From Coq Require Import String Ascii List Bool Arith Lia.
From SDP Require Import Base PyStr.
Open Scope string_scope.

(* a separator character that does not occur in s cannot be bridged by an occurrence of s *)
Lemma prefix_bridge c : forall s x y, has_char c s = false -> String.prefix s (x ++ String c y) = true -> String.prefix s x = true.
Proof.
  induction s as [|d s IH]; intros x y Hs Hp; [destruct x; reflexivity|].
  cbn [has_char sexists] in Hs. apply orb_false_iff in Hs. destruct Hs as [Hd Hs].
  destruct x as [|e x]; cbn [append String.prefix] in *.
  - destruct (ascii_dec d c) as [E|E]; [|discriminate]. subst. rewrite Ascii.eqb_refl in Hd. discriminate.
  - destruct (ascii_dec d e) as [E|E]; [|discriminate]. apply (IH x y Hs Hp).
Qed.
Lemma contains_sep c s : s <> "" -> has_char c s = false ->
  forall a b, contains a s = false -> contains b s = false -> contains (a ++ String c b) s = false.
Proof.
  intros Hne Hs. induction a as [|e a IH]; intros b Ha Hb.
  - cbn [append contains]. destruct (String.prefix s (String c b)) eqn:E.
    + apply (prefix_bridge c s "" b Hs) in E. destruct s; [congruence|discriminate].
    + exact Hb.
  - cbn [append]. cbn [contains] in *. destruct (String.prefix s (String e a)) eqn:E1; [discriminate|].
    destruct (String.prefix s (String e (a ++ String c b))) eqn:E2.
    + change (String e (a ++ String c b)) with ((String e a) ++ String c b) in E2. apply (prefix_bridge c s _ b Hs) in E2. congruence.
    + apply IH; assumption.
Qed.
Lemma upper_app a b : upper (a ++ b) = upper a ++ upper b.
Proof. induction a as [|c a IH]; cbn; [reflexivity|]. unfold upper in *. cbn. rewrite IH. reflexivity. Qed.
