(* Layer F: object state across runs, several objects, files. *)
From Coq Require Import String Ascii List ZArith NArith Bool Lia.
From SDP Require Import Base PyStr Regex Json Actions Parse Pre Output Api.
From SDP.Gen Require Tokens.
Import ListNotations.
Open Scope list_scope.

(* parse_data re-initialises EVERY piece of state a run can read: whatever an object carries over from earlier
   runs, a run starts from the initial state.  (Computed from the reset statements read off the source.) *)
Lemma start_of_run_is_initial : forall c, start_of_run c = carried0.
Proof. intros [[st sl sw ml bc] cm tb]. reflexivity. Qed.

Theorem run_independent_of_history : forall norm silent c mode group json data,
  run_obj norm silent c mode group json data = run_obj norm silent carried0 mode group json data.
Proof.
  intros. unfold run_obj, parse_data_obj. rewrite !start_of_run_is_initial. reflexivity.
Qed.

(* and a run on a fresh object is the function of (text, flags, arguments) defined by Api.run *)
Theorem run_obj_fresh_is_run : forall norm silent mode group json data,
  (do '(_, v) <- run_obj norm silent carried0 mode group json data; Ok v) = Api.run norm silent mode group json data.
Proof.
  intros. unfold run_obj, Api.run, parse_data_obj, parse_data. rewrite start_of_run_is_initial.
  destruct (negb (mem mode Tokens.modes)); [reflexivity|]. cbn [bind].
  destruct (pre_process_data data) as [d| | |]; cbn [bind]; try reflexivity.
  destruct (split_lines d) as [ls| | |]; cbn [bind]; try reflexivity.
  unfold carried0. cbn [k_lm k_tables k_comments app].
  destruct (run_lines (parse_stmt_of norm silent) lm0 ls false) as [[m [t c]]| | |]; cbn [bind]; try reflexivity.
  unfold finish. cbn [fst snd].
  destruct c as [|c0 cr].
  - destruct (format mode group (t ++ [])) as [out| | |]; cbn [bind]; try reflexivity. destruct json; reflexivity.
  - destruct (format mode group (t ++ [PDict [("comments"%string, PList (map PStr (c0 :: cr)))]])) as [out| | |];
      cbn [bind]; try reflexivity. destruct json; reflexivity.
Qed.

(* several objects: a run goes through the object's own parser and lexer *)
Lemma settings_are_own : forall w i, settings_used w i = Some i.
Proof. intros. reflexivity. Qed.

Definition solo (ddl : string) (norm silent : bool) (mode : string) (group json : bool) : res pyval :=
  Api.run norm silent mode group json ddl.

Lemma wget_wset_same l i o : wget (wset l i o) i = Some o.
Proof.
  induction l as [|[j x] r IH]; simpl; [rewrite Nat.eqb_refl; reflexivity|].
  destruct (Nat.eqb i j) eqn:E; simpl; [rewrite Nat.eqb_refl; reflexivity|rewrite E; exact IH].
Qed.
Lemma wget_wset_other l i j o : i <> j -> wget (wset l i o) j = wget l j.
Proof.
  intro H. induction l as [|[k x] r IH]; simpl.
  - destruct (Nat.eqb j i) eqn:E; [apply Nat.eqb_eq in E; congruence|reflexivity].
  - destruct (Nat.eqb i k) eqn:E; simpl.
    + apply Nat.eqb_eq in E. subst k. destruct (Nat.eqb j i) eqn:E2; [apply Nat.eqb_eq in E2; congruence|reflexivity].
    + destruct (Nat.eqb j k); [reflexivity|exact IH].
Qed.

(* the result of Run i in ANY world depends only on object i's own text and settings *)
Theorem run_in_world_is_solo : forall w i me mode group json,
  wget (w_objs w) i = Some me ->
  snd (exec1 w (Run i mode group json)) =
  Some (match run_obj (o_norm me) (o_silent me) carried0 mode group json (o_ddl me) with
        | Ok (_, v) => Ok v | Raise e => Raise e | Unsupported s => Unsupported s | OutOfFuel => OutOfFuel end).
Proof.
  intros w i me mode group json H. unfold exec1. rewrite H, settings_are_own, H.
  rewrite run_independent_of_history.
  destruct (run_obj (o_norm me) (o_silent me) carried0 mode group json (o_ddl me)) as [[c' v]| | |]; reflexivity.
Qed.

(* operations on other objects never change object i's text or settings *)
Theorem other_ops_leave_object : forall w o i,
  (match o with Construct j _ _ _ => j <> i | Run j _ _ _ => j <> i end) ->
  option_map (fun x => (o_ddl x, o_norm x, o_silent x)) (wget (w_objs (fst (exec1 w o))) i) =
  option_map (fun x => (o_ddl x, o_norm x, o_silent x)) (wget (w_objs w) i).
Proof.
  intros w o i H. destruct o as [j ddl norm silent|j mode group json]; unfold exec1.
  - cbn [fst w_objs]. rewrite wget_wset_other by exact H. reflexivity.
  - destruct (wget (w_objs w) j) as [me|] eqn:E; [|reflexivity]. rewrite settings_are_own, E.
    destruct (run_obj (o_norm me) (o_silent me) (o_state me) mode group json (o_ddl me)) as [[c' v]| | |];
      cbn [fst w_objs]; try reflexivity.
    rewrite wget_wset_other by exact H. reflexivity.
Qed.

(* ---------- files ----------------------------------------------------------------------------------------- *)
Section Files.
  Variable decode : string -> string -> res string.
  Variable run_text : string -> string -> res pyval.
  Variable json_indent1 : pyval -> string.

  Theorem file_equals_api : forall files path enc mode dump dump_path bytes text,
    assoc path files = Some bytes -> decode enc bytes = Ok text ->
    (do '(_, v) <- parse_from_file decode run_text json_indent1 files path enc mode dump dump_path; Ok v) = run_text text mode.
  Proof.
    intros. unfold parse_from_file. rewrite H, H0. cbn [bind].
    destruct (run_text text mode); reflexivity.
  Qed.

  Theorem no_dump_writes_nothing : forall files path enc mode dump_path f v,
    parse_from_file decode run_text json_indent1 files path enc mode false dump_path = Ok (f, v) -> f = files.
  Proof.
    intros files path enc mode dump_path f v H. unfold parse_from_file in H.
    destruct (assoc path files); [|discriminate]. destruct (decode enc s); cbn [bind] in H; try discriminate.
    destruct (run_text a mode); cbn [bind] in H; try discriminate. inversion H; reflexivity.
  Qed.

  Theorem dump_writes_exactly_one_file : forall files path enc mode dump_path f v,
    parse_from_file decode run_text json_indent1 files path enc mode true dump_path = Ok (f, v) ->
    f = (dump_target dump_path path, json_indent1 v) :: files.
  Proof.
    intros files path enc mode dump_path f v H. unfold parse_from_file in H.
    destruct (assoc path files); [|discriminate]. destruct (decode enc s); cbn [bind] in H; try discriminate.
    destruct (run_text a mode); cbn [bind] in H; try discriminate. inversion H; reflexivity.
  Qed.
End Files.

(* ---------- C16: the statement parser as run() uses it (Parser.parse_statement after fixes e648612 and b0266a0) -------------------------------- *)
(* in silent mode a statement on which PLY reported a syntax error never raises, whatever the grammar actions do afterwards *)
Theorem silent_statement_with_syntax_error_never_raises : forall norm s e,
  statement_had_error true s = true -> parse_stmt_of norm true s <> Raise e.
Proof.
  intros norm s e H. unfold parse_stmt_of. rewrite H. cbn [andb].
  destruct (parse_statement norm true s) as [v|x| |]; try discriminate. destruct x; discriminate.
Qed.
(* in silent mode the syntax-error exceptions themselves never escape, with or without recovery *)
Theorem silent_statement_never_raises_parser_errors : forall norm s,
  parse_stmt_of norm true s <> Raise DDLParserError /\ parse_stmt_of norm true s <> Raise SimpleDDLParserException.
Proof.
  intros norm s. unfold parse_stmt_of.
  destruct (parse_statement norm true s) as [v|x| |]; try (split; discriminate).
  destruct x; cbn [andb]; try (split; discriminate); destruct (statement_had_error true s); split; discriminate.
Qed.
(* what the statement parser returns when it does not raise is what yacc.parse returned: nothing is invented *)
Theorem parse_stmt_of_ok : forall norm silent s v, parse_stmt_of norm silent s = Ok (Some v) -> parse_statement norm silent s = Ok (Some v).
Proof.
  intros norm silent s v. unfold parse_stmt_of.
  destruct (parse_statement norm silent s) as [r|x| |]; try discriminate; [intro H; exact H|].
  destruct x; destruct silent; cbn [andb]; try discriminate; destruct (statement_had_error true s); discriminate.
Qed.
