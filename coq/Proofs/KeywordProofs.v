(* C06: which grammar keywords are accepted as a column name — DERIVED by running the model of the lexer (generated rule
   regexes + flag logic + keyword tables) and the LR driver on the real tables, for every keyword of the token list. *)
From Coq Require Import String Ascii List ZArith NArith Bool.
From SDP Require Import Base PyStr Regex LR RealTables Lexer Actions Parse.
From SDP.Gen Require Tokens.
Import ListNotations.
Open Scope string_scope.

Definition non_keyword_tokens : list string :=
  ["ID"; "DOT"; "STRING_BASE"; "DQ_STRING"; "LP"; "RP"; "LT"; "RT"; "COMMAT"; "EQ"; "COMMA"].
Definition keywords : list string := filter (fun t => negb (mem t non_keyword_tokens)) Tokens.tokens.

(* the word K written where a column name is expected: first column, and a later column *)
Definition probe_first (k : string) : string := "CREATE TABLE t ( " ++ k ++ " int , z int )".
Definition probe_later (k : string) : string := "CREATE TABLE t ( a int , " ++ k ++ " int , z int )".

(* accepted: the statement is lexed, the word is typed ID with its spelling untouched, the loud parser accepts, and the
   column production does not take it for an index declaration (p_column tests p[1] == "KEY") *)
Definition accepted_at (text : string) (pos : nat) (k : string) : bool :=
  match lex text with
  | Ok (toks, _) =>
    match nth_error toks pos with
    | Some (ty, v) =>
      String.eqb ty "ID" && String.eqb v k && negb (String.eqb v "KEY") &&
      match toks_to_ids term_id toks with
      | Ok ids => match lr_trace false real_tables ids with Ok _ => true | _ => false end
      | _ => false
      end
    | None => false
    end
  | _ => false
  end.

Definition accepted_as_column_name (k : string) : bool :=
  accepted_at (probe_first k) 4 k && accepted_at (probe_later k) 7 k
  && accepted_at (probe_later (lower k)) 7 (lower k).

Definition rejected_keywords : list string := filter (fun k => negb (accepted_as_column_name k)) keywords.

(* the clause-opening words listed by the property, in the order of the (sorted) token list *)
Definition property_list : list string :=
  ["AUTOINCREMENT"; "BY"; "CHECK"; "CLUSTER"; "COLLATE"; "CONSTRAINT"; "FOREIGN"; "INDEX"; "KEY"; "LIKE"; "PRIMARY"; "UNIQUE"; "WITH"].

Lemma rejected_is_property_list : rejected_keywords = property_list.
Proof. vm_compute. reflexivity. Qed.

Lemma keywords_count : List.length keywords = 100%nat.
Proof. vm_compute. reflexivity. Qed.
